"""geom_common.py — shared helpers of the geometry checks (C10, C06, C18): exact rational rotations,
synthetic PDB tables, wire conversion, oracle recording for numpy.linalg."""
import math, itertools, contextlib
from fractions import Fraction
from harness.core import *

def Fr(x):
    """exact rational of a float / int / 'n/d' string"""
    if isinstance(x, Fraction):
        return x
    if isinstance(x, str):
        n, _, d = x.partition('/')
        return Fraction(int(n), int(d or 1))
    if isinstance(x, int):
        return Fraction(x)
    return Fraction(float(x))

def fs(x):
    """JSON form of a rational"""
    x = Fr(x)
    return f'{x.numerator}/{x.denominator}'

def wv(v):
    return [Fr(c) for c in v]

def wm(m):
    return [[Fr(c) for c in row] for row in m]

def dv(w):
    return [Q(c) for c in w]

def dm(w):
    return [[Q(c) for c in row] for row in w]

def close(a, b, tol, scale=1.0):
    return abs(float(a) - float(b)) <= tol * max(1.0, scale)

def close_pts(A, B, tol, scale=1.0):
    if len(A) != len(B):
        return False
    return all(close(a, b, tol, scale) for ra, rb in zip(A, B) for a, b in zip(ra, rb))

def maxdiff(A, B):
    return max([abs(float(a) - float(b)) for ra, rb in zip(A, B) for a, b in zip(ra, rb)] or [0.0])

# ---- exact rotations -----------------------------------------------------------------------
def circle_point(rng, big=False):
    """rational point (c, s) of the unit circle, all four quadrants, never a multiple of pi/2"""
    while True:
        p = rng.randint(-12, 12) if not big else rng.randint(-60, 60)
        q = rng.randint(1, 12) if not big else rng.randint(1, 60)
        t = Fraction(p, q)
        c, s = (1 - t * t) / (1 + t * t), 2 * t / (1 + t * t)
        if c != 0 and s != 0:
            if rng.random() < 0.5:
                c = -c
            return c, s

def unit_axis_rational(rng):
    """rational unit vector from a Pythagorean quadruple (Lebesgue's parametrisation)"""
    while True:
        m, n, p, q = (rng.randint(-4, 4) for _ in range(4))
        d = m * m + n * n + p * p + q * q
        if d == 0:
            continue
        a, b, c = m * m + n * n - p * p - q * q, 2 * (m * q + n * p), 2 * (n * q - m * p)
        v = [Fraction(a, d), Fraction(b, d), Fraction(c, d)]
        rng.shuffle(v)
        return v

def lattice_rotations():
    """the 24 signed permutation matrices of determinant +1"""
    out = []
    for perm in itertools.permutations(range(3)):
        for signs in itertools.product((1, -1), repeat=3):
            M = [[0] * 3 for _ in range(3)]
            for i in range(3):
                M[i][perm[i]] = signs[i]
            det = (M[0][0] * (M[1][1] * M[2][2] - M[1][2] * M[2][1]) - M[0][1] * (M[1][0] * M[2][2] - M[1][2] * M[2][0])
                   + M[0][2] * (M[1][0] * M[2][1] - M[1][1] * M[2][0]))
            if det == 1:
                out.append(M)
    return out

def rodrigues_exact(u, c, s):
    """independent (harness-side) rotation matrix  c I + s [u]x + (1-c) u u^T  in exact arithmetic"""
    x, y, z = u
    K = [[0, -z, y], [z, 0, -x], [-y, x, 0]]
    return [[(c if i == j else 0) + s * K[i][j] + (1 - c) * u[i] * u[j] for j in range(3)] for i in range(3)]

def matmul(A, B):
    return [[sum(A[i][k] * B[k][j] for k in range(len(B))) for j in range(len(B[0]))] for i in range(len(A))]

def transpose(A):
    return [list(r) for r in zip(*A)]

def det3(M):
    return (M[0][0] * (M[1][1] * M[2][2] - M[1][2] * M[2][1]) - M[0][1] * (M[1][0] * M[2][2] - M[1][2] * M[2][0])
            + M[0][2] * (M[1][0] * M[2][1] - M[1][1] * M[2][0]))

def random_rotation_exact(rng):
    u = unit_axis_rational(rng)
    c, s = circle_point(rng)
    return rodrigues_exact(u, c, s)

# ---- synthetic structures -----------------------------------------------------------------
RESN = ['ALA', 'GLY', 'LYS', 'SER', 'ASP', 'TRP']
NAMES = ['N', 'CA', 'C', 'O', 'CB', 'CG', 'H', 'OXT']

def pdb_line(serial, name, resn, chain, resseq, x, y, z, occ=1.0, temp=0.0):
    elem = name[0]
    nm = (' ' + name).ljust(4) if len(name) < 4 else name
    return 'ATOM  %5d %4s %3s %1s%4d    %8.3f%8.3f%8.3f%6.2f%6.2f          %2s' % (
        serial, nm, resn, chain, resseq, x, y, z, occ, temp, elem)

def make_atoms(rng, n, scale=20.0, grid=None, chains='AB'):
    """n atoms: [serial, name, resName, chainID, resSeq, x, y, z, occ, temp]"""
    atoms = []
    resseq = 1
    for k in range(n):
        if k and rng.random() < 0.4:
            resseq += 1
        chain = chains[min(len(chains) - 1, (k * len(chains)) // n)] if rng.random() < 0.85 else rng.choice(chains)
        if grid:
            xyz = [rng.randint(-int(scale / grid), int(scale / grid)) * grid for _ in range(3)]
        else:
            xyz = [round(rng.uniform(-scale, scale), 3) for _ in range(3)]
        atoms.append([k + 1, rng.choice(NAMES), RESN[resseq % len(RESN)], chain, resseq] + xyz +
                     [round(rng.random(), 2), round(rng.uniform(0, 90), 2)])
    return atoms

def atoms_lines(atoms):
    return [pdb_line(*a) for a in atoms]

COLS = ['serial', 'name', 'resName', 'chainID', 'resSeq']

def select_positions(atoms, sel):
    """independent evaluation of the keyword selection on the atom list: AND of keys, OR of values,
    'no_' prefix negates"""
    out = []
    for i, a in enumerate(atoms):
        ok = True
        for k, vals in sel.items():
            neg = k.startswith('no_')
            col = k[3:] if neg else k
            if col == 'rowID':
                hit = i in vals
            else:
                hit = a[COLS.index(col)] in vals
            if hit == neg:
                ok = False
                break
        if ok:
            out.append(i)
    return out

def random_selection(rng, atoms):
    r = rng.random()
    chains = sorted({a[3] for a in atoms})
    if r < 0.2:
        return {}
    if r < 0.4:
        return {'chainID': [rng.choice(chains)]}
    if r < 0.5:
        return {'rowID': [rng.randrange(len(atoms))]}
    if r < 0.6:
        return {'no_name': rng.sample(NAMES, rng.randint(1, 3))}
    if r < 0.7:
        return {'chainID': [rng.choice(chains)], 'name': rng.sample(NAMES, rng.randint(2, 5))}
    if r < 0.8:
        return {'resSeq': sorted({a[4] for a in rng.sample(atoms, min(len(atoms), rng.randint(1, 4)))})}
    if r < 0.9:
        return {'resName': rng.sample(RESN, 2), 'no_chainID': [rng.choice(chains)]}
    return {'rowID': sorted(rng.sample(range(len(atoms)), rng.randint(1, len(atoms))))}

# ---- oracle recording ---------------------------------------------------------------------
@contextlib.contextmanager
def record_linalg(np):
    """wrap numpy.linalg.svd / eig / eigh in this process; yields the list of (name, input, output)"""
    rec = []
    orig = {k: getattr(np.linalg, k) for k in ('svd', 'eig', 'eigh')}
    def wrap(name):
        def f(a, *args, **kw):
            out = orig[name](a, *args, **kw)
            rec.append((name, np.array(a, copy=True), out))
            return out
        return f
    try:
        for k in orig:
            setattr(np.linalg, k, wrap(k))
        yield rec
    finally:
        for k, v in orig.items():
            setattr(np.linalg, k, v)

def impl_call(f, *a, **kw):
    try:
        return ['OK', f(*a, **kw)]
    except Exception as e:
        return ['ERR', exc_class(e)]
