"""scores_common.py — running the i-RMSD / L-RMSD routines of StructureSimilarity against the model and the
specification (used by C07, C09, C11)."""
import os, sys, math, json
import numpy as np
from fractions import Fraction
from harness.core import *
from harness import gen_complex, gen_contact

BB = ['C', 'CA', 'N', 'O']

def table_atoms(atoms):
    """model atoms (idx, chain, resName, resSeq, name, x, y, z) of a generated structure, in file order, exact rationals"""
    return [[i, a['chainID'], a['resName'], a['resSeq'], a['name'], Fraction(float('%.3f' % a['x'])), Fraction(float('%.3f' % a['y'])),
             Fraction(float('%.3f' % a['z']))] for i, a in enumerate(atoms)]

class Recorder:
    """records every matrix returned by get_rotation_matrix (both import sites)"""
    def __init__(self):
        self.mats = []
        self.mods = [sys.modules['pdb2sql.superpose'], sys.modules['pdb2sql.StructureSimilarity']]
        self.orig = self.mods[0].get_rotation_matrix
    def __enter__(self):
        orig = self.orig
        def wrapper(p, q, method='svd'):
            m = orig(p, q, method=method)
            self.mats.append(np.array(m, dtype=float))
            return m
        for m in self.mods:
            m.get_rotation_matrix = wrapper
        return self
    def __exit__(self, *a):
        for m in self.mods:
            m.get_rotation_matrix = self.orig

def Rq(R):
    return [[Fraction(float(R[i][j])) for j in range(3)] for i in range(3)]
IDENT = [[Fraction(int(i == j)) for j in range(3)] for i in range(3)]

def call(pdb2sql, route, decoy, ref, enforce, method='svd', check=True, zonefile=None, cutoff=None, names=None, flagcar=None):
    """run one routine; returns (result, recorded matrices). result = ['OK', thousandths] | ['ERR', class]
    flagcar: the boolean arguments carried by NumPy booleans ('npbool') or 0/1 integers ('int01')"""
    import io, contextlib
    if flagcar == 'npbool': enforce, check = np.bool_(enforce), np.bool_(check)
    elif flagcar == 'int01': enforce, check = int(enforce), int(check)
    sim = pdb2sql.StructureSimilarity(decoy, ref, enforce_residue_matching=enforce)
    with Recorder() as rec, contextlib.redirect_stdout(io.StringIO()):
        try:
            if route == 'irmsd_fast':
                kw = {} if cutoff is None else {'cutoff': cutoff}
                v = sim.compute_irmsd_fast(izone=zonefile, method=method, check=check, **kw)
            elif route == 'irmsd_sql':
                kw = {} if cutoff is None else {'cutoff': cutoff}
                v = sim.compute_irmsd_pdb2sql(izone=zonefile, method=method, **kw)
            elif route == 'lrmsd_fast':
                kw = {} if names is None else {'name': names}
                v = sim.compute_lrmsd_fast(lzone=zonefile, method=method, check=check, **kw)
            elif route == 'lrmsd_sql':
                v = sim.compute_lrmsd_pdb2sql(method=method)
            else:
                raise KeyError(route)
            v = float(v)
            k = int(round(v * 1000))
            res = ['OK', k] if abs(v * 1000 - k) < 1e-6 else ['OK-unrounded', v]
        except BaseException as e:
            if isinstance(e, (KeyboardInterrupt, MemoryError)):
                raise
            res = ['ERR', exc_class(e)]
    return res, rec.mats

def model_request(route, R, zone, decoy_t, ref_t, enforce, check=True, cutoff=None, names=None, zone_from_file=False):
    Rm = Rq(R) if R is not None else IDENT
    d, r = gen_contact.wire_table(decoy_t), gen_contact.wire_table(ref_t)
    if route == 'irmsd_fast':
        return ['rmsd.irmsd_fast', Rm, zone, check, enforce, d, r]
    if route == 'lrmsd_fast':
        return ['rmsd.lrmsd_fast', Rm, zone, check, enforce, names or BB, d, r]
    if route == 'irmsd_sql':
        if zone_from_file:
            return ['rmsd.irmsd_sql_zone', Rm, zone, d, r]
        return ['rmsd.irmsd_sql_computed', Rm, Fraction(cutoff if cutoff is not None else 10), d, r]
    if route == 'lrmsd_sql':
        return ['rmsd.lrmsd_sql', Rm, enforce, ['CA', 'C', 'N', 'O'], d, r]
    raise KeyError(route)

def kabsch_value(fit, measure):
    """RMSD of the measured pairs after the rigid motion optimal on the fitted pairs (binary64 Kabsch, computed
    directly from the optimal rotation). pairs: [[decoy xyz, ref xyz], ...] as Fractions"""
    if not fit or not measure:
        return None
    P = np.array([[float(x) for x in p[0]] for p in fit]); Q_ = np.array([[float(x) for x in p[1]] for p in fit])
    cp, cq = P.mean(0), Q_.mean(0)
    A = (P - cp).T @ (Q_ - cq)
    V, s, Wt = np.linalg.svd(A)
    d = np.sign(np.linalg.det(V @ Wt))
    U = (V @ np.diag([1.0, 1.0, d if d != 0 else 1.0]) @ Wt).T
    M = np.array([[float(x) for x in p[0]] for p in measure]); N = np.array([[float(x) for x in p[1]] for p in measure])
    moved = (U @ (M - cp).T).T + cq
    return math.sqrt(((moved - N) ** 2).sum() / len(M))

def dpairs(v):
    return [[[Q(x) for x in p[0]], [Q(x) for x in p[1]]] for p in v]

def near_tie(val):
    """the exact value is too close to a rounding tie at 3 decimals (margin rule)"""
    x = val * 1000
    return abs((x - math.floor(x)) - 0.5) < 2e-4

def value_matches(res, val):
    """impl result ['OK', k] against a real value"""
    return res[0] == 'OK' and abs(res[1] - val * 1000) <= 0.5 + 2e-4

def relative_order_differs(decoy_t, ref_t, sel):
    """do the common (chain, resSeq, name) keys selected by `sel` come in a different relative order in the two files?"""
    kd = [(a[1], a[3], a[4]) for a in decoy_t if sel(a)]
    kr = [(a[1], a[3], a[4]) for a in ref_t if sel(a)]
    common = set(kd) & set(kr)
    return [k for k in kd if k in common] != [k for k in kr if k in common]
