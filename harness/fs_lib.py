"""fs_lib.py — shared machinery of the C20 / C16 harnesses (cluster fs).

* Tracer: wraps builtins.open, os.path.exists/isfile, os.remove/unlink/replace/rename/system,
  subprocess.*, sqlite3.connect (optionally every statement / commit / close of the connection),
  tempfile.mkstemp, os.fdopen.  Every intercepted call is (a) recorded as an event and (b) passed
  through a `gate` callback BEFORE it executes (crash injection: the gate kills the process;
  schedule control: the gate parks the calling thread).
* synthetic two-chain complexes, directory snapshots, odd file names.
Nothing here edits /repo: all wrapping is done from the harness process (DESIGN §3.3)."""
import builtins, os, sys, io, sqlite3, tempfile, subprocess, threading, hashlib, json, math, random

_REAL = {}

def _save_real():
    if _REAL:
        return
    _REAL.update({
        'open': builtins.open, 'exists': os.path.exists, 'isfile': os.path.isfile,
        'remove': os.remove, 'unlink': os.unlink, 'replace': os.replace, 'rename': os.rename,
        'system': os.system, 'connect': sqlite3.connect, 'mkstemp': tempfile.mkstemp,
        'fdopen': os.fdopen, 'call': subprocess.call, 'run': subprocess.run, 'Popen': subprocess.Popen,
        'check_call': subprocess.check_call, 'check_output': subprocess.check_output,
        'mkdir': os.mkdir, 'makedirs': os.makedirs, 'rmdir': os.rmdir,
    })

def stmt_kind(sql):
    w = sql.lstrip().split(None, 1)[0].upper() if sql.strip() else ''
    if w in ('SELECT', 'PRAGMA'):
        return 'select'
    if w in ('INSERT', 'UPDATE', 'DELETE', 'REPLACE'):
        return 'dml'
    return 'ddl'

class Tracer:
    """root: only events on paths inside `root` (or writing anywhere) are recorded/gated.
    gate(ev) is called before the intercepted call executes; ev is a dict."""
    def __init__(self, root, gate=None, statements=False, only_threads=None):
        _save_real()
        self.root = os.path.realpath(root)
        self.gate = gate
        self.statements = statements
        self.events = []
        self.lock = threading.Lock()
        self.only_threads = only_threads        # None or dict thread-ident -> task id
        self.active = False
        self.reads = []                          # (task, path, content) of text files read inside root

    # ------------------------------------------------------------------
    def _task(self):
        if self.only_threads is None:
            return 0
        return self.only_threads.get(threading.get_ident())

    def _inside(self, p):
        try:
            rp = os.path.realpath(os.fsdecode(os.fspath(p)))      # (a name may also be given as bytes)
        except TypeError:
            return False
        return rp == self.root or rp.startswith(self.root + os.sep)

    def _rel(self, p):
        """path as the caller gave it (the model's paths are the caller's strings)"""
        p = os.fspath(p)
        return os.fsdecode(p) if isinstance(p, bytes) else p

    def _emit(self, kind, path, always=False, **kw):
        """returns False if the event is not ours (not traced)"""
        if not self.active:
            return False
        t = self._task()
        if t is None:
            return False
        if path is not None and not always and not self._inside(path) and path != ':memory:':
            return False
        ev = dict(kind=kind, path=(None if path is None else self._rel(path)), task=t, **kw)
        with self.lock:
            self.events.append(ev)
        if self.gate:
            self.gate(ev)
        return True

    # ------------------------------------------------------------------
    def install(self):
        tr = self
        R = _REAL

        class WFile:
            """proxy of a file opened for writing: every write()/close() is an event"""
            def __init__(self, f, path):
                self._f, self._p, self._closed = f, path, False
            def write(self, s):
                tr._emit('write', self._p, text=(s if isinstance(s, str) else 'bytes:%d' % len(s)))
                return self._f.write(s)
            def writelines(self, ls):
                for l in ls:
                    self.write(l)
            def close(self):
                if not self._closed:
                    self._closed = True
                    tr._emit('close', self._p)
                return self._f.close()
            def __enter__(self):
                return self
            def __exit__(self, *a):
                self.close()
                return False
            def __getattr__(self, n):
                return getattr(self._f, n)

        class RFile:
            """proxy of a text file opened for reading inside root: remembers what was read"""
            def __init__(self, f, path, task):
                self._f, self._p, self._t = f, path, task
            def readlines(self, *a):
                ls = self._f.readlines(*a)
                tr.reads.append((self._t, self._p, ''.join(x if isinstance(x, str) else x.decode('latin1') for x in ls)))
                return ls
            def read(self, *a):
                s = self._f.read(*a)
                tr.reads.append((self._t, self._p, s if isinstance(s, str) else s.decode('latin1')))
                return s
            def __iter__(self):
                ls = self._f.readlines()
                tr.reads.append((self._t, self._p, ''.join(ls)))
                return iter(ls)
            def __enter__(self):
                return self
            def __exit__(self, *a):
                self._f.close()
                return False
            def __getattr__(self, n):
                return getattr(self._f, n)

        def t_open(file, mode='r', *a, **kw):
            if isinstance(file, int):
                return R['open'](file, mode, *a, **kw)
            writing = any(c in mode for c in 'wax+')
            ours = tr._emit('open', file, always=writing, mode=mode)
            f = R['open'](file, mode, *a, **kw)
            if ours and writing:
                return WFile(f, tr._rel(file))
            if ours:
                return RFile(f, tr._rel(file), tr._task())
            return f

        def t_fdopen(fd, mode='r', *a, **kw):
            f = R['fdopen'](fd, mode, *a, **kw)
            p = tr._fdpaths.pop(fd, None)
            if p is not None and tr.active and tr._task() is not None:
                return WFile(f, p)
            return f

        def t_mkstemp(suffix=None, prefix=None, dir=None, text=False):
            tr._emit('mkstemp', None, dir=dir, prefix=prefix, suffix=suffix)
            fd, name = R['mkstemp'](suffix, prefix, dir, text)
            if tr.active and tr._task() is not None:
                tr._fdpaths[fd] = name
                with tr.lock:
                    # complete the event with the name chosen by the OS-level RNG (oracle)
                    for ev in reversed(tr.events):
                        if ev['kind'] == 'mkstemp' and ev.get('name') is None and ev['task'] == tr._task():
                            ev['name'] = name
                            break
            return fd, name

        def w1(kind, real):
            def f(p, *a, **kw):
                tr._emit(kind, p, always=(kind in ('remove',)))
                return real(p, *a, **kw)
            return f

        def t_replace(src, dst, *a, **kw):
            tr._emit('replace', src, always=True, dst=tr._rel(dst))
            return R['replace'](src, dst, *a, **kw)

        def t_rename(src, dst, *a, **kw):
            tr._emit('replace', src, always=True, dst=tr._rel(dst))
            return R['rename'](src, dst, *a, **kw)

        def t_system(cmd):
            tr._emit('shell', None, cmd=str(cmd))
            return R['system'](cmd)

        def wsub(name):
            real = R[name]
            def f(*a, **kw):
                tr._emit('shell', None, cmd=repr(a[0] if a else kw.get('args')))
                return real(*a, **kw)
            return f

        class Cursor(sqlite3.Cursor):
            def execute(self, sql, *a):
                tr._emit('exec', None, stmt=stmt_kind(sql), sql=sql[:60])
                return super().execute(sql, *a)
            def executemany(self, sql, *a):
                tr._emit('exec', None, stmt=stmt_kind(sql), sql=sql[:60])
                return super().executemany(sql, *a)

        class Conn(sqlite3.Connection):
            def cursor(self, *a, **kw):
                if not a and 'factory' not in kw:
                    return super().cursor(Cursor)
                return super().cursor(*a, **kw)
            # Connection.execute() does NOT go through the Python-level cursor(): trace it here
            def execute(self, sql, *a):
                tr._emit('exec', None, stmt=stmt_kind(sql), sql=sql[:60])
                return super().execute(sql, *a)
            def executemany(self, sql, *a):
                tr._emit('exec', None, stmt=stmt_kind(sql), sql=sql[:60])
                return super().executemany(sql, *a)
            def commit(self):
                tr._emit('commit', None)
                return super().commit()
            def close(self):
                tr._emit('closeconn', None)
                return super().close()

        def t_connect(database, *a, **kw):
            ours = tr._emit('connect', database, always=True)
            if ours and tr.statements and 'factory' not in kw and len(a) < 5:
                return R['connect'](database, *a, factory=Conn, **kw)
            return R['connect'](database, *a, **kw)

        self._fdpaths = {}
        builtins.open = t_open
        io.open = t_open
        os.fdopen = t_fdopen
        tempfile.mkstemp = t_mkstemp
        os.path.exists = w1('exists', R['exists'])
        os.path.isfile = w1('isfile', R['isfile'])
        os.remove = w1('remove', R['remove'])
        os.unlink = w1('remove', R['unlink'])
        os.replace = t_replace
        os.rename = t_rename
        os.system = t_system
        sqlite3.connect = t_connect
        for n in ('call', 'run', 'Popen', 'check_call', 'check_output'):
            setattr(subprocess, n, wsub(n))
        self.active = True

    def uninstall(self):
        R = _REAL
        self.active = False
        builtins.open = R['open']; io.open = R['open']; os.fdopen = R['fdopen']
        tempfile.mkstemp = R['mkstemp']
        os.path.exists = R['exists']; os.path.isfile = R['isfile']
        os.remove = R['remove']; os.unlink = R['unlink']; os.replace = R['replace']; os.rename = R['rename']
        os.system = R['system']; sqlite3.connect = R['connect']
        for n in ('call', 'run', 'Popen', 'check_call', 'check_output'):
            setattr(subprocess, n, R[n])

# ----------------------------------------------------------------------------------------
def snapshot(d):
    """names, sizes, hashes of every regular file below d (relative names)"""
    _save_real()
    out = {}
    for base, dirs, files in os.walk(d):
        for f in files:
            p = os.path.join(base, f)
            try:
                with _REAL['open'](p, 'rb') as fh:
                    b = fh.read()
            except OSError:
                b = b''
            out[os.path.relpath(p, d)] = (len(b), hashlib.sha1(b).hexdigest())
    return out

# ----------------------------------------------------------------------------------------
# synthetic two-chain complexes
def pdb_line(serial, name, resname, chain, resseq, x, y, z, element):
    nm = name if len(name) == 4 else ' ' + name
    return 'ATOM  %5d %-4s %3s %1s%4d    %8.3f%8.3f%8.3f%6.2f%6.2f          %2s  ' % (
        serial, nm, resname, chain, resseq, x, y, z, 1.0, 10.0, element)

BB = [('N', 'N'), ('CA', 'C'), ('C', 'C'), ('O', 'O'), ('CB', 'C')]
RESN = ['ALA', 'GLY', 'SER', 'LEU', 'VAL', 'THR']

def synth_complex(rng, nA=4, nB=3, chains=('A', 'B'), first=(1, 1)):
    """reference complex: two short strands 4.5 Å apart; coordinates on a 1/8 Å grid"""
    def q(v):
        return round(v * 8) / 8
    lines, serial = [], 1
    atoms = []
    for ci, (ch, n) in enumerate(zip(chains, (nA, nB))):
        for r in range(n):
            rn = rng.choice(RESN)
            for k, (an, el) in enumerate(BB):
                x = q(3.8 * r + 0.9 * (k % 3) + rng.uniform(-0.3, 0.3))
                y = q(4.5 * ci + 0.8 * (k // 2) + rng.uniform(-0.3, 0.3))
                z = q(0.7 * k + rng.uniform(-0.3, 0.3) + 0.5 * r)
                atoms.append([serial, an, rn, ch, first[ci] + r, x, y, z, el])
                serial += 1
    return atoms

def perturb(rng, atoms, chain, angle=0.3, shift=(0.7, -0.4, 0.5)):
    """decoy: rigidly move one chain (rotation about z through its centroid, then a shift)"""
    sel = [a for a in atoms if a[3] == chain]
    cx = sum(a[5] for a in sel) / len(sel); cy = sum(a[6] for a in sel) / len(sel)
    c, s = math.cos(angle), math.sin(angle)
    out = []
    for a in atoms:
        a = list(a)
        if a[3] == chain:
            dx, dy = a[5] - cx, a[6] - cy
            a[5] = round(cx + c * dx - s * dy + shift[0], 3)
            a[6] = round(cy + s * dx + c * dy + shift[1], 3)
            a[7] = round(a[7] + shift[2], 3)
        out.append(a)
    return out

def write_pdb(path, atoms):
    _save_real()
    with _REAL['open'](path, 'w') as f:
        for a in atoms:
            f.write(pdb_line(*a) + '\n')

def pdb_lines(atoms):
    return [pdb_line(*a) for a in atoms]

# ----------------------------------------------------------------------------------------
ODD = [' ', "'", '"', '$', ';', '&', '|', '*', '?', '(', ')']

def odd_name(rng, ext='.db', must=None):
    """a legal POSIX file name (no '/', no NUL) over an alphabet with shell metacharacters"""
    alpha = 'abcXYZ019_.'
    n = rng.randint(1, 6)
    chars = [rng.choice(alpha) for _ in range(n)]
    k = rng.randint(1, 3)
    for _ in range(k):
        chars.insert(rng.randint(0, len(chars)), rng.choice(ODD))
    if must is not None:
        chars.insert(rng.randint(0, len(chars)), must)
    s = ''.join(chars)
    if rng.random() < 0.25:
        s = '-' + s
    return s + ext

FIXED_ODD_NAMES = ['a b.db', "it's.db", 'q"uote.db', '$HOME.db', 'a;touch PWNED.db', 'a&b.db', 'a|b.db', 'st*r.db',
                   'wh?t.db', '(paren).db', '-rf.db', '-dash name.db', '`id`.db', '$(id).db', 'a>b.db', 'plain.db',
                   '~tilde.db', 'a\\b.db', '#hash.db', '--help.db', 'a;rm -rf victim_1.txt;.db', '* .db']
