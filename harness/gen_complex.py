"""gen_complex.py — synthetic multi-chain complexes, decoys and rigid motions (C07, C09, C11, C13)."""
import math, random
from fractions import Fraction
from harness import gen_pdb

BACKBONE = ['N', 'CA', 'C', 'O']
SIDE = ['CB', 'CG', 'CD1', 'OG', 'NZ', 'SD', 'HA', 'HB2', '1HG']

def rand_rotation(rng):
    """a proper rotation matrix (floats) from a random unit quaternion"""
    q = [rng.gauss(0, 1) for _ in range(4)]
    n = math.sqrt(sum(x * x for x in q))
    a, b, c, d = [x / n for x in q]
    return [[a*a + b*b - c*c - d*d, 2*(b*c - a*d), 2*(b*d + a*c)],
            [2*(b*c + a*d), a*a - b*b + c*c - d*d, 2*(c*d - a*b)],
            [2*(b*d - a*c), 2*(c*d + a*b), a*a - b*b - c*c + d*d]]

LATTICE = None
def lattice_rotations():
    """the 24 proper rotations with entries in {-1,0,1}"""
    global LATTICE
    if LATTICE is None:
        import itertools
        out = []
        for perm in itertools.permutations(range(3)):
            for signs in itertools.product([1, -1], repeat=3):
                m = [[0] * 3 for _ in range(3)]
                for i in range(3):
                    m[i][perm[i]] = signs[i]
                det = (m[0][0] * (m[1][1] * m[2][2] - m[1][2] * m[2][1]) - m[0][1] * (m[1][0] * m[2][2] - m[1][2] * m[2][0])
                       + m[0][2] * (m[1][0] * m[2][1] - m[1][1] * m[2][0]))
                if det == 1:
                    out.append(m)
        LATTICE = out
    return LATTICE

def apply_motion(atoms, R, t, ndigits=3):
    out = []
    for a in atoms:
        v = [a['x'], a['y'], a['z']]
        w = [sum(R[i][j] * v[j] for j in range(3)) + t[i] for i in range(3)]
        b = dict(a)
        b['x'], b['y'], b['z'] = (round(w[0], ndigits), round(w[1], ndigits), round(w[2], ndigits)) if ndigits is not None else w
        out.append(b)
    return out

def gen_complex(rng, nres=(3, 8), chains=('A', 'B'), sidechains=True, hydrogens=True, spread=6.0, negative=True):
    """two (or more) chains of residues with backbone + some side-chain atoms; coordinates millesimal"""
    atoms = []
    serial = 1
    for ci, ch in enumerate(chains):
        n = rng.randint(*nres)
        start = rng.choice([1, 1, 10, -3 if negative else 2, 0])
        num = start
        origin = [ci * rng.uniform(4.0, 9.0), rng.uniform(-2, 2), rng.uniform(-2, 2)]
        for r in range(n):
            resname = rng.choice(['ALA', 'GLY', 'LYS', 'SER', 'TRP', 'MET'])
            centre = [origin[0] + rng.uniform(-spread, spread) * 0.5, origin[1] + r * 3.2 + rng.uniform(-0.5, 0.5), origin[2] + rng.uniform(-spread, spread) * 0.5]
            names = list(BACKBONE)
            if sidechains:
                extra = [s for s in SIDE if rng.random() < 0.3]
                if not hydrogens:
                    extra = [s for s in extra if not (s[0] == 'H' or s[1:2] == 'H')]
                names += extra
            for nm in names:
                el = 'H' if (nm[0] == 'H' or (nm[0].isdigit() and nm[1] == 'H')) else nm[0]
                atoms.append({'serial': serial, 'name': nm, 'altLoc': '', 'resName': resname, 'chainID': ch, 'resSeq': num, 'iCode': '',
                              'x': round(centre[0] + rng.uniform(-1.5, 1.5), 3), 'y': round(centre[1] + rng.uniform(-1.5, 1.5), 3),
                              'z': round(centre[2] + rng.uniform(-1.5, 1.5), 3), 'occ': 1.0, 'temp': round(rng.uniform(5, 60), 2), 'element': el})
                serial += 1
            num += rng.choice([1, 1, 1, 2, 3])
    return atoms

def deform(rng, atoms, sigma):
    out = []
    for a in atoms:
        b = dict(a)
        for c in 'xyz':
            b[c] = round(a[c] + rng.gauss(0, sigma), 3)
        out.append(b)
    return out

def delete_some(rng, atoms, p_atom=0.1, p_res=0.1, keep_chains=True):
    """delete random atoms and whole residues; keeps at least 3 backbone atoms per chain"""
    res = sorted({(a['chainID'], a['resSeq']) for a in atoms})
    drop_res = {r for r in res if rng.random() < p_res}
    out = [a for a in atoms if (a['chainID'], a['resSeq']) not in drop_res and rng.random() >= p_atom]
    if keep_chains:
        for ch in sorted({a['chainID'] for a in atoms}):
            if sum(1 for a in out if a['chainID'] == ch and a['name'] in BACKBONE) < 3:
                return list(atoms)
    return out

def permute(rng, atoms, level):
    """reorder records: within residues, residues within chains, or chain blocks"""
    from itertools import groupby
    chains = []
    for ch, g in groupby(atoms, key=lambda a: a['chainID']):
        ress = []
        for rk, gg in groupby(list(g), key=lambda a: a['resSeq']):
            ress.append(list(gg))
        chains.append(ress)
    if level == 'atoms':
        for ress in chains:
            for r in ress:
                rng.shuffle(r)
    elif level == 'residues':
        for ress in chains:
            rng.shuffle(ress)
    elif level == 'chains':
        rng.shuffle(chains)
    return [a for ress in chains for r in ress for a in r]

def lines_of(atoms):
    return [gen_pdb.atom_line(a) for a in atoms]

def write_pdb(path, atoms, hetatm=None):
    """hetatm: extra records written as HETATM lines (waters, ions) after the ATOM records — the library reads ATOM records only"""
    with open(path, 'w') as f:
        for l in lines_of(atoms):
            f.write(l + '\n')
        for l in lines_of(hetatm or []):
            f.write('HETATM' + l[6:] + '\n')
    return path

def gen_hetatm(rng, atoms):
    """waters (name O) and calcium ions (name CA) carrying the chains' identifiers, on existing and on new residue numbers"""
    out = []
    serial = max(a['serial'] for a in atoms) + 1
    for ch in sorted({a['chainID'] for a in atoms}):
        nums = sorted({a['resSeq'] for a in atoms if a['chainID'] == ch})
        for _ in range(rng.randint(1, 3)):
            num = rng.choice([rng.choice(nums), max(nums) + rng.randint(1, 5)])
            nm, rn, el = rng.choice([('O', 'HOH', 'O'), ('CA', 'CA', 'CA'), ('O', 'HOH', 'O')])
            out.append({'serial': serial, 'name': nm, 'altLoc': '', 'resName': rn, 'chainID': ch, 'resSeq': num, 'iCode': '',
                        'x': round(rng.uniform(-20, 20), 3), 'y': round(rng.uniform(-20, 20), 3), 'z': round(rng.uniform(-20, 20), 3),
                        'occ': 1.0, 'temp': 30.0, 'element': el})
            serial += 1
    return out
