"""gen_sql.py — shared pieces of the sql cluster (C03, C04, C17): atom-record generators, PDB line
formatting, wire codecs for databases / conditions / operations, the implementation runner
(real pdb2sql / many2sql objects), canonicalisation and the three-way judge.

A *case* is JSON: {'structs': [[atom | 'ENDMDL', ...], ...], 'tablenames': [...]|None,
                   'fix_chainID': bool, 'ops': [op, ...]}
op: ['get', columns, tablename, kw] | ['xyz'|'residues'|'chains', tablename, kw] | ['get_all', columns, kw]
    | ['colnames'] | ['update', columns, values, tablename, kw, carrier] | ['update_xyz', values, tablename, kw, carrier]
    | ['update_column', colname, values, index|None, tablename, carrier] | ['add_column', colname, coltype, value, tablename]
kw: [[key, scalar | list], ...] (insertion order).  Values: int | float | str | None.
"""
import math, hashlib, json, sqlite3
from fractions import Fraction
from harness.core import *

COLS = [('serial', 'INT'), ('name', 'TEXT'), ('altLoc', 'TEXT'), ('resName', 'TEXT'), ('chainID', 'TEXT'),
        ('resSeq', 'INT'), ('iCode', 'TEXT'), ('x', 'REAL'), ('y', 'REAL'), ('z', 'REAL'), ('occ', 'REAL'),
        ('temp', 'REAL'), ('element', 'TEXT'), ('model', 'INT')]
FIELDS = [c for c, _ in COLS[:-1]]
NAMES = ['N', 'CA', 'C', 'O', 'CB', 'CG', 'OXT', 'H', '1HB', 'HG1', 'FE', 'OD1']
RESN = ['ALA', 'GLY', 'LYS', 'TRP', 'HOH', 'MSE']
ELEM = ['C', 'N', 'O', 'H', 'FE', 'S']

# ----------------------------------------------------------------------------------------
# atoms and PDB lines
def fmt_line(a):
    name = a['name']
    nm = name if len(name) == 4 else ' ' + name.ljust(3)
    s = 'ATOM  %5d %-4s%1s%3s %1s%4d%1s   %8.3f%8.3f%8.3f%6.2f%6.2f          %2s  ' % (
        a['serial'], nm, a['altLoc'] or ' ', a['resName'], a['chainID'], a['resSeq'], a['iCode'] or ' ',
        a['x'], a['y'], a['z'], a['occ'], a['temp'], a['element'])
    assert len(s) == 80, (len(s), s)
    return s

def coord(rng):
    k = rng.random()
    if k < 0.4:
        return rng.randint(-400, 400) * 0.125
    if k < 0.5:
        return float(rng.randint(-20, 20))
    return float('%.3f' % rng.uniform(-99, 99))

def gen_atoms(rng, n, chains=('A', 'B'), serial0=1, resseq0=1, natoms_per_res=None, dup_serial=False):
    """n atom records whose fields survive formatting + parsing unchanged"""
    atoms = []
    per = natoms_per_res or rng.choice([1, 2, 3, 4])
    for i in range(n):
        ch = chains[min(len(chains) - 1, i * len(chains) // max(n, 1))]
        a = {'serial': (serial0 + i) if not dup_serial else serial0 + i // 2,
             'name': NAMES[i % per] if rng.random() < 0.7 else rng.choice(NAMES),
             'altLoc': rng.choice(['', '', '', 'A', 'B']),
             'resName': RESN[(i // per) % len(RESN)] if rng.random() < 0.8 else rng.choice(RESN),
             'chainID': ch,
             'resSeq': resseq0 + i // per,
             'iCode': rng.choice(['', '', '', 'A']),
             'x': coord(rng), 'y': coord(rng), 'z': coord(rng),
             'occ': rng.choice([1.0, 0.5, 0.25, 0.75]), 'temp': float('%.2f' % rng.uniform(0, 99)),
             'element': rng.choice(ELEM)}
        atoms.append(a)
    return atoms

def struct_rows(struct):
    """the rows the parser must produce for one structure (list of python values)"""
    rows, nm = [], 0
    for a in struct:
        if a == 'ENDMDL':
            nm += 1
            continue
        rows.append([a[f] for f in FIELDS] + [nm])
    return rows, nm

def struct_lines(struct):
    return ['ENDMDL' if a == 'ENDMDL' else fmt_line(a) for a in struct]

def default_tablenames(case):
    n = len(case['structs'])
    if case.get('tablenames'):
        return list(case['tablenames'])
    if case.get('kind', 'auto') == 'pdb2sql' or (n == 1 and case.get('kind', 'auto') != 'many2sql'):
        return ['atom']
    return ['ATOM'] + ['ATOM%d' % i for i in range(1, n)]

# ----------------------------------------------------------------------------------------
# wire codecs
def w_val(v):
    if v is None: return ['n']
    if isinstance(v, bool): raise TypeError('bool')
    if isinstance(v, int): return ['i', v]
    if isinstance(v, float):
        fr = Fraction(v); return ['r', fr.numerator, fr.denominator]
    if isinstance(v, str): return ['t', v]
    if isinstance(v, bytes): return ['b']
    raise TypeError(type(v))

def w_pv(v):
    if v is None: return ['n']
    if isinstance(v, int): return ['i', v]
    if isinstance(v, float):
        fr = Fraction(v); return ['f', fr.numerator, fr.denominator]
    if isinstance(v, str): return ['s', v]
    raise TypeError(type(v))

def w_kw(kw):
    assert len({k for k, _ in kw}) == len(kw), 'duplicate keyword in a generated query'
    return [[k, (['L', [w_pv(x) for x in v]] if isinstance(v, list) else ['S', w_pv(v)])] for k, v in kw]

def w_uvals(values):
    out = []
    for u in values:
        if isinstance(u, list): out.append(['R', [w_pv(x) for x in u]])
        elif isinstance(u, str): out.append(['T', u])
        else: out.append(['X', w_pv(u)])
    return out

def w_db(case):
    tabs = []
    nm = 0
    for name, st in zip(default_tablenames(case), case['structs']):
        rows, nm = struct_rows(st)
        tabs.append([name, [[c, t] for c, t in COLS], [[w_val(x) for x in r] for r in rows]])
    return [tabs, nm]

def w_op(op):
    k = op[0]
    if k == 'get': return ['get', op[1], op[2], w_kw(op[3])]
    if k in ('xyz', 'residues', 'chains'): return [k, op[1], w_kw(op[2])]
    if k == 'get_all': return ['get_all', op[1], w_kw(op[2])]
    if k == 'colnames': return ['colnames']
    if k == 'classes': return ['classes', op[1], w_kw(op[2])]
    if k == 'update': return ['update', op[1], w_uvals(op[2]), op[3], w_kw(op[4])]
    if k == 'update_xyz': return ['update_xyz', w_uvals(op[1]), op[2], w_kw(op[3])]
    if k == 'update_column':
        return ['update_column', op[1], [w_pv(x) for x in op[2]],
                (['none'] if op[3] is None else ['some', [w_pv(x) for x in op[3]]]), op[4]]
    if k == 'add_column': return ['add_column', op[1], op[2], w_pv(op[3]), op[4]]
    if k == 'fix_chainID': return ['fix_chainID']
    raise ValueError(k)

MODIFYING = ('update', 'update_xyz', 'update_column', 'add_column', 'fix_chainID')

def canon(x):
    """python result -> the wire form the model prints"""
    import numpy as np
    if isinstance(x, np.generic):
        x = x.item()
    if isinstance(x, (list, tuple)):
        return ['L'] + [canon(y) for y in x]
    return w_val(x)

def canon_top(x):
    return [canon(y) for y in x]

# ----------------------------------------------------------------------------------------
# the implementation
def make_carrier(values, carrier):
    """wrap plain python values in the container type named by `carrier`"""
    import numpy as np
    if carrier in (None, 'list'):
        return values
    if carrier == 'f64': return np.array(values, dtype=np.float64)
    if carrier == 'f32': return np.array(values, dtype=np.float32)
    if carrier == 'i64': return np.array(values, dtype=np.int64)
    if carrier == 'i32': return np.array(values, dtype=np.int32)
    if carrier == 'U': return np.array(values)
    if carrier == 'npscalar':
        def sc(v):
            if isinstance(v, list): return [sc(y) for y in v]
            if isinstance(v, int): return np.int64(v)
            if isinstance(v, float): return np.float64(v)
            if isinstance(v, str): return np.str_(v)
            return v
        return sc(values)
    if carrier == 'npscalar32':
        def sc(v):
            if isinstance(v, list): return [sc(y) for y in v]
            if isinstance(v, int): return np.int32(v)
            if isinstance(v, float): return np.float32(v)
            return v
        return sc(values)
    if carrier == 'tuple_rows':
        return [tuple(v) if isinstance(v, list) else v for v in values]
    if carrier == 'npscalar_tail':
        # the first cell stays a plain Python value, every later cell is carried by a NumPy scalar
        first = [True]
        def sc(v):
            if isinstance(v, list): return [sc(y) for y in v]
            if first[0]:
                first[0] = False; return v
            if isinstance(v, bool): return v
            if isinstance(v, int): return np.int64(v)
            if isinstance(v, float): return np.float64(v)
            if isinstance(v, str): return np.str_(v)
            return v
        return sc(values)
    raise ValueError(carrier)

def carry_rowid(kw, car):
    """the values of rowID / no_rowID conditions carried by NumPy integers (what np.where / np.argmax deliver)"""
    if not car:
        return kw
    import numpy as np
    ty = {'i64': np.int64, 'i32': np.int32, 'intp': np.intp}[car]
    def sc(v):
        if isinstance(v, list): return [sc(y) for y in v]
        if isinstance(v, int) and not isinstance(v, bool): return ty(v)
        return v
    return [[k, sc(v) if k in ('rowID', 'no_rowID') else v] for k, v in kw]

class Impl:
    def __init__(self, lib, case):
        self.lib = lib
        structs = [struct_lines(s) for s in case['structs']]
        names = default_tablenames(case)
        if names == ['atom'] and len(structs) == 1:
            self.db = lib.pdb2sql(structs[0], fix_chainID=bool(case.get('fix_chainID')))
        else:
            self.db = lib.many2sql(structs, tablenames=(case.get('tablenames') or None))
        self.rowid_car = case.get('rowid_carrier')

    def kw(self, kw):
        return dict(carry_rowid(kw, self.rowid_car))

    def close(self):
        try: self.db._close()
        except Exception: pass

    def dump(self):
        db = self.db
        tabs = []
        for n in db._get_table_names():
            cols = [[r[1], r[2].upper()] for r in db.conn.execute('PRAGMA table_info(%s)' % n)]
            rows = [[w_val(x) for x in r] for r in db.conn.execute('SELECT * FROM %s ORDER BY rowid' % n)]
            tabs.append([n, cols, rows])
        return [tabs, db._nModel]

    def run(self, op):
        import io, contextlib
        with contextlib.redirect_stdout(io.StringIO()):      # the library prints a report before the limit error
            return self._run(op)

    def _run(self, op):
        db = self.db
        k = op[0]
        try:
            if k == 'get': return ['OK', canon_top(db.get(op[1], tablename=op[2], **self.kw(op[3])))]
            if k == 'xyz': return ['OK', canon_top(db.get_xyz(tablename=op[1], **self.kw(op[2])))]
            if k == 'residues': return ['OK', [[w_val(v) for v in r] for r in db.get_residues(tablename=op[1], **self.kw(op[2]))]]
            if k == 'chains':
                r = db.get_chains(tablename=op[1], **self.kw(op[2]))
                if not all(isinstance(c, str) for c in r): return ['ERR', 'OutOfModel']
                return ['OK', list(r)]
            if k == 'get_all': return ['OK', canon_top(db.get_all(op[1], **self.kw(op[2])))]
            if k == 'colnames': return ['OK', list(db.get_colnames())]
            if k == 'update':
                db.update(op[1], make_carrier(op[2], op[5] if len(op) > 5 else None), tablename=op[3], **self.kw(op[4])); return ['OK']
            if k == 'update_xyz':
                db.update_xyz(make_carrier(op[1], op[4] if len(op) > 4 else None), tablename=op[2], **self.kw(op[3])); return ['OK']
            if k == 'update_column':
                car = op[5] if len(op) > 5 else None
                icar = op[6] if len(op) > 6 else None     # the index may itself be carried by a NumPy integer array / scalars
                index = make_carrier(op[3], icar) if op[3] is not None else None
                db.update_column(op[1], make_carrier(op[2], car), index=index, tablename=op[4]); return ['OK']
            if k == 'add_column':
                val = make_carrier([op[3]], op[5])[0] if len(op) > 5 and op[5] else op[3]
                db.add_column(op[1], coltype=op[2], value=val, tablename=op[4]); return ['OK']
            raise ValueError(k)
        except BaseException as e:
            if isinstance(e, (KeyboardInterrupt, MemoryError)): raise
            if isinstance(e, SystemExit): return ['ERR', 'SystemExit']
            return ['ERR', exc_class(e)]

# ----------------------------------------------------------------------------------------
# judging one operation
NO_VERDICT = ('Unspecified', 'OutOfModel')
REJ = ('ValueError', 'sqlite3.Error', 'TypeError')   # any explicit error raised before anything is read or written is a rejection
SHAPE = ('ValueError', 'TypeError', 'IndexError', 'sqlite3.Error')

def is_err(r, name=None):
    return isinstance(r, list) and len(r) == 2 and r[0] == 'ERR' and (name is None or r[1] == name)

def spec_accepts(i, s):
    """does the implementation's result satisfy the specification's answer?  None = no verdict"""
    if is_err(s) and s[1] in NO_VERDICT: return None
    if is_err(s, 'Rejected'): return is_err(i) and i[1] in REJ
    if is_err(s, 'ShapeError'): return is_err(i) and i[1] in SHAPE
    if is_err(s, 'Aborted'): return is_err(i, 'SystemExit')
    return i == s

def key(x):
    return hashlib.sha1(json.dumps(x, sort_keys=True, default=str).encode()).hexdigest()[:16]

def session_requests(case, ops=None):
    dbw = w_db(case)
    out = []
    for op in (case['ops'] if ops is None else ops):
        out.append(w_op(op))
        if op[0] in MODIFYING:
            out.append(['dump'])
    pre = [['fix_chainID'], ['dump']] if case.get('fix_chainID') else []
    return ['sql.session', dbw, pre + out], ['spec.sql.session', dbw, pre + out]

def impl_pass(lib, case, dyn=None):
    """phase 1: run the real library.  Returns {'ctor': error|None, 'init': dump, 'steps': [(concrete_op, result, dump_after|None)]}.
    'translate' operations are made concrete here: ['translate', vect, tablename, kw] runs transform.translation and is
    handed to the model/specification as the update_xyz it must amount to."""
    import numpy as np
    try:
        impl = Impl(lib, case)
    except BaseException as e:
        return {'ctor': ('SystemExit' if isinstance(e, SystemExit) else exc_class(e)), 'init': None, 'steps': []}
    out = {'ctor': None, 'init': impl.dump(), 'steps': []}
    try:
        for op in case['ops']:
            if op[0] == 'classes':
                out['steps'].append((op, None, None))
                continue
            if op[0] == 'update_dyn':
                op = dyn(lib, impl, op)
            if op[0] == 'translate':
                _, vect, tn, kw = op
                try:
                    import io, contextlib
                    with contextlib.redirect_stdout(io.StringIO()):
                        pre = impl.db.get('x,y,z', tablename=tn, **dict(kw))
                    ok = len(pre) > 0 and all(isinstance(r, list) and len(r) == 3 and all(isinstance(v, float) for v in r) for r in pre)
                except BaseException:
                    ok = False
                if not ok:
                    op = ['get', 'x,y,z', tn, kw]
                    out['steps'].append((op, impl.run(op), None))
                    continue
                new = (np.array(pre) + np.array(vect)).tolist()
                cop = ['update_xyz', new, tn, kw, 'f64']
                try:
                    import io, contextlib
                    with contextlib.redirect_stdout(io.StringIO()):
                        lib.transform.translation(impl.db, np.array(vect), tablename=tn, **dict(kw))
                    i = ['OK']
                except BaseException as e:
                    i = ['ERR', exc_class(e)]
                out['steps'].append((cop, i, impl.dump()))
                continue
            i = impl.run(op)
            out['steps'].append((op, i, impl.dump() if op[0] in MODIFYING else None))
    finally:
        impl.close()
    return out

def norm_dump(d):
    """declared types are compared case-insensitively (SQLite >= 3.37 reports standard type names in upper case)"""
    if isinstance(d, list) and len(d) == 2 and isinstance(d[0], list) and not is_err(d):
        try:
            return [[[t[0], [[c[0], c[1].upper()] for c in t[1]], t[2]] for t in d[0]], d[1]]
        except Exception:
            return d
    return d

def judge_session(rep, case, ip, mres, sres, feats_of):
    """phase 3: compare op by op.  ip = impl_pass result, mres/sres = model / specification session results"""
    k = 0
    mres = [norm_dump(x) for x in mres]
    sres = [norm_dump(x) for x in sres]
    if ip['ctor']:
        sub = dict(case, ops=[])
        if case.get('fix_chainID') and ip['ctor'] == 'SystemExit':
            i = ['ERR', 'SystemExit']
            rep.case(sub if len(rep.samples) < 6 else {'db': case.get('_key'), 'ops': []}, ['fix_chainID-abort'])
            if spec_accepts(i, sres[0]) is False:
                rep.mismatch('impl_vs_spec', sub, step='fix_chainID at load', impl=i, spec=sres[0])
            elif mres[0] != i:
                rep.mismatch('impl_vs_model', sub, step='fix_chainID at load', impl=i, model=mres[0])
            return
        rep.mismatch('impl_vs_model', sub, error='constructor raised ' + ip['ctor'])
        return
    done_ops = []
    before = ip['init']
    if case.get('fix_chainID'):
        m, s = mres[k], sres[k]; md, sd = mres[k + 1], sres[k + 1]; k += 2
        if is_err(m, 'OutOfModel'):
            rep.skipped['out_of_model'] += 1
            return
        sub = dict(case, ops=[])
        rep.case(sub if len(rep.samples) < 6 else {'db': case.get('_key'), 'ops': []}, ['fix_chainID-at-load'])
        if not (is_err(s) and s[1] in NO_VERDICT):
            if not (s == ['OK'] and before == sd):
                rep.mismatch('impl_vs_spec', sub, step='fix_chainID at load', first_diff=first_diff(sd, before), spec_status=s)
                return
        if not (m == ['OK'] and before == md):
            rep.mismatch('impl_vs_model', sub, step='fix_chainID at load', first_diff=first_diff(md, before), model_status=m)
            return
    cls_op, cls = None, None
    for (op, i, after) in ip['steps']:
        m, s = mres[k], sres[k]; k += 1
        if op[0] == 'classes':
            cls_op, cls = op, s
            continue
        md = sd = None
        mod = op[0] in MODIFYING
        if mod:
            md, sd = mres[k], sres[k]; k += 1
        if is_err(m, 'OutOfModel'):
            rep.skipped['out_of_model'] += 1
            if mod:
                return                  # the state is unknown from here on
            continue
        sub = dict(case, ops=done_ops + ([cls_op] if cls_op else []) + [op])
        sub.pop('_key', None)
        feats = feats_of(op, i, case)
        rep.case(sub if len(rep.samples) < 6 else {'db': case.get('_key'), 'ops': sub['ops']}, feats)
        # verdict: implementation vs specification
        ok = spec_accepts(i, s)
        det = {}
        if cls_op is not None and isinstance(cls, list) and len(cls) == 2:
            det = {'f10_class': bool(cls[0]), 'f11_class': bool(cls[1])}
        cls_op, cls = None, None
        if ok is None:
            rep.skipped['spec_' + s[1].lower()] += 1
        elif ok and mod:
            if is_err(s):
                if after != before:
                    ok = False; det.update({'what': 'error raised but the table was modified', 'first_diff': first_diff(before, after)})
            elif after != sd:
                ok = False; det.update({'what': 'table differs from the list-of-records prediction', 'first_diff': first_diff(sd, after)})
        # frame, whatever the specification says about the addressed table (also for multi-model inputs, on which it is
        # silent): an operation addressed to one table never changes another table
        if mod and ok is not False and op[0] in ('update', 'update_xyz', 'update_column', 'add_column') and after is not None and before is not None:
            tn = {'update': lambda: op[3], 'update_xyz': lambda: op[2], 'update_column': lambda: op[4], 'add_column': lambda: op[4]}[op[0]]()
            try:
                b_tabs = {t[0].upper(): t for t in before[0]}; a_tabs = {t[0].upper(): t for t in after[0]}
                touched = [n for n in b_tabs if n != str(tn).upper() and a_tabs.get(n) != b_tabs[n]]
            except Exception:
                touched = []
            if touched:
                ok = False; det.update({'what': 'a table other than the addressed one was modified', 'addressed': tn, 'modified': touched})
        bad = False
        if ok is False:
            rep.mismatch('impl_vs_spec', sub, impl=short(i), spec=short(s), model=short(m), **det)
            bad = True
        # tie: implementation vs model
        if i != m or (mod and after != md):
            if ok is not False:
                rep.mismatch('impl_vs_model', sub, impl=short(i), model=short(m), spec=short(s),
                             first_diff=(first_diff(md, after) if mod else None))
            bad = True
        if mod:
            if bad:
                return
            if ok is None and (not is_err(s, 'Unspecified') or after != sd):
                return              # the specification state no longer follows
            done_ops.append(op)
            before = after

def short(x, n=600):
    t = json.dumps(jsonable(x), default=str)
    return t if len(t) <= n else t[:n] + '...(%d chars)' % len(t)

def first_diff(a, b):
    """first differing table/row between two dumps"""
    try:
        if a[1] != b[1]: return {'nModel': [a[1], b[1]]}
        if len(a[0]) != len(b[0]): return {'tables': [len(a[0]), len(b[0])]}
        for ta, tb in zip(a[0], b[0]):
            if ta[0] != tb[0]: return {'table_name': [ta[0], tb[0]]}
            if ta[1] != tb[1]: return {'table': ta[0], 'columns': [ta[1], tb[1]]}
            if len(ta[2]) != len(tb[2]): return {'table': ta[0], 'nrows': [len(ta[2]), len(tb[2])]}
            for r, (ra, rb) in enumerate(zip(ta[2], tb[2])):
                if ra != rb:
                    return {'table': ta[0], 'row': r, 'expected': ra, 'got': rb}
    except Exception as e:
        return {'error': repr(e)}
    return None

def run_cases(ctx, rep, cases, feats_of, keep_reqs=0, dyn=None):
    """the implementation case by case, then model + spec in one batch, then the comparison"""
    lib = import_impl()
    passes, reqs = [], []
    for c in cases:
        c['_key'] = key([c['structs'], c.get('tablenames'), c.get('fix_chainID')])
        ip = impl_pass(lib, c, dyn)
        passes.append(ip)
        mq, sq = session_requests(c, [st[0] for st in ip['steps']])
        reqs += [mq, sq]
    import time as _t
    t0 = _t.time()
    outs = ctx.model.batch(reqs)
    rep.notes.append('model+spec batch: %.1f s for %d sessions' % (_t.time() - t0, len(cases)))
    # small sessions feed the vm_compute cross-check of extraction
    for q, o in zip(reqs, outs):
        if len(rep.model_reqs) < keep_reqs and len(json.dumps(q)) < 4000:
            rep.model_reqs.append(q); rep.model_outs.append(o)
    for j, c in enumerate(cases):
        judge_session(rep, c, passes[j], outs[2 * j], outs[2 * j + 1], feats_of)

def replay_case(ctx, case, dyn=None):
    """(holds, text): the property holds on this case iff the implementation satisfies the specification"""
    rep = Report()
    lib = import_impl()
    case = dict(case)
    ip = impl_pass(lib, case, dyn)
    mq, sq = session_requests(case, [st[0] for st in ip['steps']])
    mres, sres = ctx.model.batch([mq, sq])
    judge_session(rep, case, ip, mres, sres, lambda *a: [])
    bad = [m for m in rep.mismatches if m['kind'] == 'impl_vs_spec']
    if bad:
        return False, json.dumps(jsonable(bad[0]['details']), default=str)[:1500]
    return True, 'implementation satisfies the specification on %d operation(s)' % len(case['ops'])

def check_schema(ctx, rep):
    sch = ctx.model.batch([['sql.schema']])[0]
    if [tuple(c) for c in sch[0]] != COLS or sch[1] != 950 or sch[2] != 999:
        rep.notes.append('regenerated schema/limits differ from the harness constants: %r' % (sch,))
    return sch
