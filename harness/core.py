"""core.py — shared machinery of the checks: build (translator, Coq, extraction, OCaml),
wire codec, model runner, vm_compute cross-check, evidence, violation protocol."""
import os, sys, json, time, subprocess, hashlib, fcntl, re, shutil, tempfile, random, collections
from fractions import Fraction

VERIF = os.path.dirname(os.path.dirname(os.path.abspath(__file__)))
REPO = os.environ.get('VERIF_REPO', '/repo')
COQ = os.path.join(VERIF, 'coq')
OCAML = os.path.join(VERIF, 'ocaml')
DRIVER = os.path.join(OCAML, 'driver')
sys.path.insert(0, os.path.join(VERIF, 'translator'))

FORBIDDEN = re.compile(r'\b(Admitted|admit|Axiom|Axioms|Parameter|Parameters|Conjecture|Conjectures|'
                       r'Admit Obligations|Unset Guard Checking|Unset Positivity Checking|Unset Universe Checking|'
                       r'bypass_check|type-in-type|impredicative-set)\b')

# ----------------------------------------------------------------------------------------
# wire codec
def enc(v):
    if isinstance(v, bool):
        return '#1' if v else '#0'
    if isinstance(v, int):
        return '#' + (('-' + format(-v, 'x')) if v < 0 else format(v, 'x'))
    if isinstance(v, Fraction):
        return '(' + enc(v.numerator) + ' ' + enc(v.denominator) + ')'
    if isinstance(v, float):
        return enc(Fraction(v))
    if isinstance(v, str):
        for ch in v:
            if not (32 <= ord(ch) < 127 or ch == '\n'):
                raise ValueError(f'non-printable character in wire string {v!r}')
        return '"' + v.replace('\\', '\\\\').replace('"', '\\"').replace('\n', '\\n') + '"'
    if isinstance(v, (list, tuple)):
        return '(' + ' '.join(enc(x) for x in v) + ')'
    if v is None:
        return '()'
    raise TypeError(f'cannot encode {type(v)}')

def dec(s):
    i = 0
    n = len(s)
    def value():
        nonlocal i
        while i < n and s[i] == ' ':
            i += 1
        c = s[i]
        if c == '#':
            j = i + 1
            while j < n and s[j] not in ' )':
                j += 1
            t = s[i + 1:j]
            i = j
            return -int(t[1:], 16) if t.startswith('-') else int(t, 16)
        if c == '"':
            i += 1
            out = []
            while s[i] != '"':
                if s[i] == '\\':
                    i += 1
                    out.append('\n' if s[i] == 'n' else s[i])
                else:
                    out.append(s[i])
                i += 1
            i += 1
            return ''.join(out)
        if c == '(':
            i += 1
            items = []
            while True:
                while s[i] == ' ':
                    i += 1
                if s[i] == ')':
                    i += 1
                    return items
                items.append(value())
        raise ValueError(f'bad wire text at {i}: {s[:80]!r}')
    return value()

def coq_lit(v):
    """Coq literal of type V for a python wire value"""
    if isinstance(v, bool):
        return '(VZ 1)' if v else '(VZ 0)'
    if isinstance(v, int):
        return f'(VZ ({v}))'
    if isinstance(v, Fraction):
        return f'(VL [VZ ({v.numerator}); VZ ({v.denominator})])'
    if isinstance(v, float):
        return coq_lit(Fraction(v))
    if isinstance(v, str):
        return '(VS "' + v.replace('"', '""') + '")'
    if isinstance(v, (list, tuple)):
        return '(VL [' + '; '.join(coq_lit(x) for x in v) + '])'
    if v is None:
        return '(VL [])'
    raise TypeError(type(v))

def Q(v):
    """decode a wire rational"""
    if isinstance(v, int):
        return Fraction(v)
    return Fraction(v[0], v[1])

# ----------------------------------------------------------------------------------------
def sh(cmd, cwd=None, timeout=1800, env=None):
    p = subprocess.run(cmd, cwd=cwd, shell=isinstance(cmd, str), stdout=subprocess.PIPE,
                       stderr=subprocess.STDOUT, timeout=timeout, env=env, text=True)
    return p.returncode, p.stdout

class BuildState:
    def __init__(self):
        self.translator = {}        # region -> status dict
        self.make_log = ''
        self.make_ok = False
        self.model_ok = False
        self.forbidden = []
        self.notes = []

def project_files():
    out = []
    for l in open(os.path.join(COQ, '_CoqProject')):
        l = l.strip()
        if l.endswith('.v'):
            out.append(l)
    return out

def build(verbose=False, jobs=None):
    """Regenerate, build Coq (full .vo), extract, build the OCaml driver. Serialised by a lock."""
    jobs = jobs or int(os.environ.get('VERIF_JOBS', min(16, os.cpu_count() or 4)))
    st = BuildState()
    lock = open(os.path.join(VERIF, '.build.lock'), 'w')
    fcntl.flock(lock, fcntl.LOCK_EX)
    try:
        import importlib
        import regions
        importlib.reload(regions)
        st.translator = regions.generate(REPO, COQ, os.path.join(COQ, 'golden'))
        # the project file lists the .v files present; regenerate it (and the Makefile) whenever that set changed
        present = sorted(f for f in os.listdir(COQ) if f.endswith('.v')) + \
            sorted('Properties/' + f for f in os.listdir(os.path.join(COQ, 'Properties')) if f.endswith('.v'))
        try:
            listed = [l.strip() for l in open(os.path.join(COQ, '_CoqProject')) if l.strip().endswith('.v')]
        except OSError:
            listed = []
        if not os.path.exists(os.path.join(COQ, 'Makefile')) or sorted(listed) != sorted(present):
            sh('./mkproject.sh', cwd=COQ)
        rc, out = sh(f'timeout 3000 make -k -j{jobs}', cwd=COQ, timeout=3100)
        st.make_log = out
        st.make_ok = (rc == 0)
        # forbidden vernacular anywhere in the development
        for f in project_files():
            p = os.path.join(COQ, f)
            if os.path.exists(p):
                txt = strip_comments(open(p).read())
                for m in FORBIDDEN.finditer(txt):
                    st.forbidden.append(f'{f}: {m.group(0)}')
        # extraction product -> ocaml driver
        src = os.path.join(COQ, 'model.ml')
        ext_ok = up_to_date('Extract.vo')
        if ext_ok and os.path.exists(src):
            need = (not os.path.exists(DRIVER)) or os.path.getmtime(src) > os.path.getmtime(DRIVER) \
                or os.path.getmtime(os.path.join(OCAML, 'driver.ml')) > os.path.getmtime(DRIVER)
            if need:
                shutil.copy(src, os.path.join(OCAML, 'model.ml'))
                shutil.copy(src + 'i', os.path.join(OCAML, 'model.mli'))
                rc2, out2 = sh('ocamlfind ocamlopt -O3 -w -a model.mli model.ml driver.ml -o driver', cwd=OCAML)
                if rc2 != 0:
                    st.notes.append('ocaml build failed: ' + out2[-2000:])
            st.model_ok = os.path.exists(DRIVER)
        else:
            st.model_ok = False
            st.notes.append('Extract.vo is not up to date: the executable model could not be rebuilt')
    finally:
        fcntl.flock(lock, fcntl.LOCK_UN)
        lock.close()
    return st

def strip_comments(txt):
    out = []
    depth = 0
    i = 0
    while i < len(txt):
        if txt.startswith('(*', i):
            depth += 1; i += 2
        elif txt.startswith('*)', i) and depth > 0:
            depth -= 1; i += 2
        else:
            if depth == 0:
                out.append(txt[i])
            i += 1
    return ''.join(out)

def up_to_date(target):
    rc, _ = sh(f'make -q {target}', cwd=COQ)
    return rc == 0

def check_property_file(prop_id):
    """Re-compile Properties/<id>.v, capture Print Assumptions. Returns dict."""
    rel = f'Properties/{prop_id}.v'
    path = os.path.join(COQ, rel)
    res = {'file': rel, 'obligations': 0, 'discharged': 0, 'assumptions': [], 'ok': False, 'log': ''}
    if not os.path.exists(path):
        res['log'] = 'missing'
        return res
    txt = strip_comments(open(path).read())
    names = re.findall(r'^\s*(?:Theorem|Lemma|Example|Corollary)\s+(\w+)', txt, re.M)
    res['obligations'] = len(names)
    res['theorems'] = names
    # the file may only contain statements closed by exact/short glue: no Admitted etc. (grep'd globally)
    if not up_to_date(rel + 'o'):
        res['log'] = 'not built: ' + failing_summary()
        return res
    rc, out = sh(f'timeout 900 coqc -Q . Verif {rel}', cwd=COQ, timeout=1000)
    res['log'] = out[-3000:]
    if rc != 0:
        return res
    res['ok'] = True
    res['discharged'] = len(names)
    # Print Assumptions output: either "Closed under the global context" or "Axioms:" blocks
    axioms = set()
    for blk in re.split(r'\n(?=Closed under|Axioms:)', out):
        if blk.startswith('Axioms:'):
            for l in blk.split('\n')[1:]:
                m = re.match(r'^([A-Za-z_][\w\.\']*)\s*(:|$)', l)
                if m:
                    axioms.add(m.group(1))
    res['assumptions'] = sorted(axioms)
    res['closed_count'] = out.count('Closed under the global context')
    return res

_last_make_log = ['']
def failing_summary():
    return _last_make_log[0][-1500:]

# ----------------------------------------------------------------------------------------
class Model:
    def __init__(self):
        self.calls = 0

    def batch(self, reqs, timeout=1800):
        """reqs: list of python wire values; returns list of decoded results"""
        if not reqs:
            return []
        data = '\n'.join(enc(r) for r in reqs) + '\n'
        p = subprocess.run(['bash', '-c', f'ulimit -s unlimited 2>/dev/null; exec {DRIVER}'], input=data,
                           stdout=subprocess.PIPE, stderr=subprocess.PIPE, text=True, timeout=timeout)
        lines = p.stdout.split('\n')
        if lines and lines[-1] == '':
            lines.pop()
        if len(lines) != len(reqs):
            raise RuntimeError(f'model driver returned {len(lines)} lines for {len(reqs)} requests: {p.stderr[-500:]}')
        self.calls += len(reqs)
        return [dec(l) for l in lines]

def vm_crosscheck(tag, reqs, outs, limit=200):
    """evaluate the first `limit` requests inside coqc with vm_compute and require the same results
    as the extracted program. Returns (n_checked, ok, log)."""
    reqs, outs = reqs[:limit], outs[:limit]
    if not reqs:
        return 0, True, ''
    d = os.path.join(COQ, 'cases')
    os.makedirs(d, exist_ok=True)
    tag = f'{tag}_{os.getpid()}'          # one file per run: concurrent runs of one property do not overwrite each other
    path = os.path.join(d, f'cases_{tag}.v')
    with open(path, 'w') as f:
        f.write('From Verif Require Import Base Run.\nOpen Scope string_scope.\nOpen Scope Z_scope.\n')
        for k, (r, o) in enumerate(zip(reqs, outs)):
            f.write(f'Goal run {coq_lit(r)} = {coq_lit(o)}. Proof. vm_compute. reflexivity. Qed.\n')
    rc, out = sh(f'ulimit -s unlimited; timeout 900 coqc -Q . Verif cases/cases_{tag}.v', cwd=COQ, timeout=1000)
    for ext in ('.vo', '.vok', '.vos', '.glob') + (('.v',) if rc == 0 else ()):     # the source is kept when it failed
        try:
            os.remove(path[:-2] + ext)
        except OSError:
            pass
    try:
        os.remove(os.path.join(d, f'.cases_{tag}.aux'))
    except OSError:
        pass
    return len(reqs), rc == 0, out[-2000:]

# ----------------------------------------------------------------------------------------
class Report:
    """what one exploration of a property covered"""
    def __init__(self):
        self.evaluations = 0
        self.hashes = set()            # canonical hashes of non-trivial cases
        self.features = collections.Counter()
        self.samples = []
        self.mismatches = []           # dicts: kind in {'impl_vs_spec','impl_vs_model','model_vs_spec'}, case, details
        self.skipped = collections.Counter()
        self.model_reqs = []
        self.model_outs = []
        self.notes = []
        self.input_distribution = {}

    def case(self, case, feats, nontrivial=None):
        self.evaluations += 1
        for f in feats:
            self.features[f] += 1
        if nontrivial if nontrivial is not None else bool(feats):
            self.hashes.add(hashlib.sha1(json.dumps(case, sort_keys=True, default=str).encode()).hexdigest())
        if len(self.samples) < 6 and (feats or self.evaluations < 3):
            self.samples.append(case)

    def mismatch(self, kind, case, **details):
        self.mismatches.append({'kind': kind, 'case': case, 'details': details})

def jsonable(x):
    if isinstance(x, Fraction):
        return f'{x.numerator}/{x.denominator}'
    if isinstance(x, (list, tuple)):
        return [jsonable(y) for y in x]
    if isinstance(x, dict):
        return {str(k): jsonable(v) for k, v in x.items()}
    if isinstance(x, (set, frozenset)):
        return sorted(jsonable(y) for y in x)
    if isinstance(x, bytes):
        return 'bytes:' + x.hex()
    try:
        import numpy as np
        if isinstance(x, np.generic):
            return jsonable(x.item())
        if isinstance(x, np.ndarray):
            return jsonable(x.tolist())
    except ImportError:
        pass
    if isinstance(x, (int, float, str, bool)) or x is None:
        return x
    return repr(x)

# ----------------------------------------------------------------------------------------
def scratch_dir():
    base = os.environ.get('VERIF_SCRATCH', '/var/tmp')
    os.makedirs(base, exist_ok=True)
    return tempfile.mkdtemp(prefix='verif-scratch-', dir=base)

def exc_class(e):
    import sqlite3
    for cls, name in ((FileNotFoundError, 'FileNotFoundError'), (RecursionError, 'RecursionError'),
                      (IndexError, 'IndexError'), (KeyError, 'KeyError'), (ValueError, 'ValueError'),
                      (TypeError, 'TypeError'), (sqlite3.Error, 'sqlite3.Error'),
                      (ZeroDivisionError, 'ZeroDivisionError'), (UnboundLocalError, 'UnboundLocalError'),
                      (AttributeError, 'AttributeError'), (OSError, 'OSError')):
        if isinstance(e, cls):
            return name
    return 'other:' + type(e).__name__

def import_impl():
    """import the library from /repo's working tree (never an installed copy)"""
    for k in list(sys.modules):
        if k == 'pdb2sql' or k.startswith('pdb2sql.'):
            del sys.modules[k]
    if sys.path[0] != REPO:
        sys.path.insert(0, REPO)
    import pdb2sql
    assert os.path.realpath(os.path.dirname(pdb2sql.__file__)).startswith(os.path.realpath(REPO)), pdb2sql.__file__
    return pdb2sql


# ----------------------------------------------------------------------------------------
# fingerprints of hand-modelled functions (DESIGN §3.1): a changed fingerprint is not an alarm, it
# escalates the property's correspondence run to the thorough generator
def hand_fingerprints(entries):
    import ast, re
    import py2coq
    out = {}
    for e in entries:
        m = re.match(r'^([\w/]+\.py):([\w\.]+)', e)
        if not m:
            continue
        rel, qual = m.group(1), m.group(2)
        path = os.path.join(REPO, 'pdb2sql', rel)
        key = f'{rel}:{qual}'
        try:
            tree = ast.parse(open(path).read())
            scope = tree
            node = None
            parts = qual.split('.')
            for i, name in enumerate(parts):
                found = None
                for n in scope.body:
                    if isinstance(n, (ast.ClassDef, ast.FunctionDef)) and n.name == name:
                        found = n
                        break
                if found is None:
                    break
                scope = found
                node = found
            else:
                out[key] = py2coq.fingerprint(node)
                continue
            # a bare method name: the method of that name in whichever class(es) of the module define it
            if len(parts) == 1:
                import hashlib
                ms = [n for c in tree.body if isinstance(c, ast.ClassDef) for n in c.body
                      if isinstance(n, ast.FunctionDef) and n.name == parts[0]]
                if len(ms) == 1:
                    out[key] = py2coq.fingerprint(ms[0]); continue
                if ms:
                    out[key] = hashlib.sha1('|'.join(py2coq.fingerprint(n) for n in ms).encode()).hexdigest(); continue
            out[key] = 'missing'
        except Exception as ex:
            out[key] = 'error:' + type(ex).__name__
    return out

def changed_fingerprints(entries):
    cur = hand_fingerprints(entries)
    p = os.path.join(VERIF, 'translator', 'fingerprints.json')
    gold = json.load(open(p)) if os.path.exists(p) else {}
    return cur, sorted(k for k, v in cur.items() if k in gold and gold[k] != v), sorted(k for k in cur if k not in gold)
