"""findings.py — narrow signature predicates for the committed known findings.

A mismatch implementation/specification is a KNOWN finding only if a predicate listed in
known_findings.json (status "known") accepts the *case*; everything else is a violation."""
import json, os

SIGNATURES = {}

def signature(name):
    def deco(f):
        SIGNATURES[name] = f
        return f
    return deco

@signature('empty_intersection_intersect_indexerror')
def _f17_c19(case, details):
    """F17: many2sql.intersect() on structures with NO common atom raises IndexError (read_pdb indexes pdbfile[0])"""
    return details.get('why') == 'intersect() raised' and list(details.get('got', []))[1:2] == ['IndexError'] \
        and details.get('empty_intersection') is True

@signature('empty_selection_derivation_indexerror')
def _f17_c15(case, details):
    """F17: db(**selection) with an empty selection raises IndexError"""
    return case.get('kind') == 'empty_selection' and 'IndexError' in str(details)

@signature('superpose_equal_size_positional_pairing')
def _f7_c13(case, details):
    """F7: superpose pairs the two selections by POSITION when they merely have the same size"""
    return details.get('why') == 'not optimal on the shared (identity-matched) selection' \
        and details.get('equal_sizes') is True and details.get('pairing_differs') is True

@signature('fast_rmsd_positional_pairing_unenforced')
def _f6(case, details):
    """F6: compute_irmsd_fast / compute_lrmsd_fast with enforce_residue_matching=False pair the common atoms by FILE
    POSITION (each structure's own record order): a decoy whose common atoms come in a different relative order is mis-paired"""
    return details.get('fast_route') is True and details.get('enforce') is False and details.get('relative_order_differs') is True \
        and (str(details.get('why', '')).startswith('reported ') or ' changed under permuted-' in str(details.get('why', '')))

@signature('lrmsd_long_chain_choice_differs')
def _f5(case, details):
    """F5: the two L-RMSD routes disagree, and only with each other, on a pair whose chain sizes are ambiguous"""
    return details.get('measure') == 'lrmsd' and details.get('lrmsd_fast_vs_sql_only') is True and details.get('ambiguous_chain_sizes') is True

@signature('blank_chain_export_not_rereadable')
def _f24(case, details):
    """F24: a table holding an EMPTY chain identifier is exported with a blank column 22, which the parser rejects
    (ValueError 'chainID not found', as C01 requires for a blank chain with a blank segID)"""
    return case.get('kind') == 'table' and details.get('blank_chain') is True \
        and details.get('why') == 'reading the exported text back raised ValueError' and 'chainID' in str(details.get('message', ''))

def match(prop, mismatch, active):
    for k in active:
        f = SIGNATURES.get(k['signature'])
        if f and f(mismatch['case'], mismatch.get('details', {})):
            return k
    return None

def witness_fails(ctx, mod, k):
    """re-run the committed witness of a known finding; True if it still fails"""
    from harness.core import VERIF
    p = os.path.join(VERIF, k['witness'])
    if not os.path.exists(p):
        return True
    case = json.load(open(p))
    if 'case' in case:
        case = case['case']
    try:
        holds, _ = mod.replay(ctx, case)
    except Exception:
        return True
    return not holds
