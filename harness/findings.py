"""findings.py — narrow signature predicates for the committed known findings.

A mismatch implementation/specification is a KNOWN finding only if a predicate listed in
known_findings.json (status "known") accepts the *case*; everything else is a violation."""
import json, os

SIGNATURES = {}

def signature(name):
    def deco(f):
        SIGNATURES[name] = f
        return f
    return deco

def match(prop, mismatch, active):
    for k in active:
        f = SIGNATURES.get(k['signature'])
        if f and f(mismatch['case'], mismatch.get('details', {})):
            return k
    return None

def witness_fails(ctx, mod, k):
    """re-run the committed witness of a known finding; True if it still fails"""
    from harness.core import VERIF
    p = os.path.join(VERIF, k['witness'])
    if not os.path.exists(p):
        return True
    case = json.load(open(p))
    if 'case' in case:
        case = case['case']
    try:
        holds, _ = mod.replay(ctx, case)
    except Exception:
        return True
    return not holds
