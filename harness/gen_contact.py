"""gen_contact.py — generators, PDB formatter, implementation runners and canonicalisers shared by
the contact cluster (C05, C14, C08).

A *structure* is a list of atom dicts {name, resName, chain, resSeq, x, y, z[, segid]} with coordinates
in integer thousandths of an Angstrom (so the text '%8.3f' is exact and the double the library parses
is float('%.3f' % v)).  Cases are stored as the PDB lines themselves (JSON-replayable)."""
import math, itertools, warnings
from fractions import Fraction
from harness.core import *

BACKBONE = ['CA', 'C', 'N', 'O']
HEAVY_SIDE = ['CB', 'CG', 'OG', 'NZ', 'SD', 'CD1', 'OXT', 'OE1']
HYDRO = ['H', 'HA', 'HB', 'HG', 'HB2', 'HG1', 'HE']
RESNAMES = ['ALA', 'GLY', 'SER', 'LYS', 'MET', 'TRP', 'DA', 'U']
CHAIN_CHARS = 'ABCDEFGXYZabz0123'

# cutoffs with offsets (in 1/8 Angstrom units) whose length is exactly the cutoff: every difference,
# square, partial sum and the square root are exact in binary64 (checked by float_exact below)
EXACT = {
    3.0: [(24, 0, 0), (8, 16, 16)],
    5.0: [(40, 0, 0), (24, 32, 0)],
    8.5: [(68, 0, 0), (32, 60, 0), (4, 48, 48), (32, 36, 48)],
    4.5: [(36, 0, 0), (4, 16, 32), (16, 16, 28)],
    6.0: [(48, 0, 0), (16, 32, 32)],
    7.0: [(56, 0, 0), (16, 24, 48)],
    2.5: [(20, 0, 0), (12, 16, 0)],
    4.25: [(34, 0, 0), (16, 30, 0)],
    3.75: [(30, 0, 0), (18, 24, 0)],
    10.0: [(80, 0, 0), (48, 64, 0)],
}

# ----------------------------------------------------------------------------------------
def fmt_line(serial, a):
    """one 80-column ATOM record (wwPDB columns)"""
    name = a['name']
    if a.get('name_left') or len(name) >= 4:
        nm = name.ljust(4)
    else:
        nm = ' ' + name.ljust(3)
    chain = a['chain']
    seg = a.get('segid', '')
    if len(chain) != 1:                     # chain identifier carried by the segID columns
        seg, chain = chain, ' '
    x, y, z = (a[k] / 1000.0 for k in ('x', 'y', 'z'))
    line = 'ATOM  %5d %4s %3s %1s%4d%1s   %8.3f%8.3f%8.3f%6.2f%6.2f      %-4s%2s  ' % (
        serial, nm, a['resName'], chain, a['resSeq'], a.get('iCode', ''), x, y, z, 1.0, 0.0, seg, a.get('element', ''))
    assert len(line) == 80, (len(line), line)
    return line

def to_lines(atoms):
    return [fmt_line(i + 1, a) for i, a in enumerate(atoms)]

# ----------------------------------------------------------------------------------------
def rand_chains(rng, n, allow_seg=True):
    if allow_seg and rng.random() < 0.08:
        pool = ['AB', 'CD', 'A1', 'SEGA', 'b2', 'Ab']
        ids = rng.sample(pool, min(n, len(pool)))
        while len(ids) < n:
            c = rng.choice(CHAIN_CHARS)
            if c not in ids:
                ids.append(c)
        return ids
    if rng.random() < 0.45:
        return list('ABCDE'[:n])
    return rng.sample(CHAIN_CHARS, n)

def gen_structure(rng, nchains=None, max_atoms=12, spread=6000, allow_seg=True, hydrogens=None, interleave=None):
    """2-5 chains, 1-max_atoms atoms each; residues share numbers across chains and names"""
    n = nchains or rng.choice([2, 2, 2, 3, 3, 4, 5])
    chains = rand_chains(rng, n, allow_seg)
    if hydrogens is None:
        hydrogens = rng.random() < 0.6
    far = rng.randrange(n) if (n >= 2 and rng.random() < 0.2) else None      # a chain in contact with nothing
    centre = [0, 0, 0]
    per_chain = []
    for ci, c in enumerate(chains):
        step = rng.choice([2500, 4000, 6000, 9000])
        centre = [centre[0] + rng.choice([-1, 1]) * step * (ci > 0), centre[1] + rng.randint(-2000, 2000), centre[2] + rng.randint(-2000, 2000)]
        cc = list(centre)
        if ci == far:
            cc[2] += 150000
        natoms = rng.randint(1, max_atoms)
        atoms = []
        resSeq = rng.randint(-3, 4)
        same_triple_next = False
        while len(atoms) < natoms:
            k = min(natoms - len(atoms), rng.randint(1, 4))
            rn = rng.choice(RESNAMES)
            style = rng.random()
            names = []
            pool_bb = list(BACKBONE)
            rng.shuffle(pool_bb)
            for j in range(k):
                r = rng.random()
                if style < 0.15:                      # residue without any backbone atom
                    names.append(rng.choice(HEAVY_SIDE + (HYDRO if hydrogens else [])))
                elif hydrogens and r < 0.3:
                    names.append(rng.choice(HYDRO))
                elif r < 0.75 and pool_bb:
                    names.append(pool_bb.pop())
                else:
                    names.append(rng.choice(HEAVY_SIDE))
            rc = [cc[i] + rng.randint(-spread // 2, spread // 2) for i in range(3)]
            if atoms and same_triple_next:
                # an inserted residue (insertion code) with the number AND the name of the one before it: for the library
                # a residue is (chain, number, name), so the two are one residue (the insertion code is not part of it)
                rn = atoms[-1]['resName']; icode = 'A'
            else:
                icode = ''
            same_triple_next = False
            for nm in names:
                atoms.append({'name': nm, 'resName': rn, 'chain': c, 'resSeq': resSeq, 'iCode': icode,
                              'x': rc[0] + rng.randint(-1500, 1500), 'y': rc[1] + rng.randint(-1500, 1500),
                              'z': rc[2] + rng.randint(-1500, 1500), 'name_left': rng.random() < 0.1})
            # next residue: same number with another name (rare), next number, or a jump
            r = rng.random()
            if r < 0.15:
                same_triple_next = rng.random() < 0.4
            elif r < 0.8:
                resSeq += 1
            else:
                resSeq += rng.randint(2, 30)
        per_chain.append(atoms)
    if interleave is None:
        interleave = rng.random() < 0.25
    if interleave:
        # chains interleaved in the file / not in alphabetical order (residues kept contiguous)
        blocks = []
        for atoms in per_chain:
            cur = []
            for a in atoms:
                if cur and (a['resSeq'], a['resName']) != (cur[-1]['resSeq'], cur[-1]['resName']):
                    blocks.append(cur); cur = []
                cur.append(a)
            if cur:
                blocks.append(cur)
        rng.shuffle(blocks)
        out = [a for b in blocks for a in b]
    else:
        order = list(range(n))
        if rng.random() < 0.3:
            rng.shuffle(order)
        out = [a for i in order for a in per_chain[i]]
    return out

def plant_exact_pair(rng, atoms, cutoff, same_chain_ok=False, heavy=False):
    """move two atoms of different chains onto the 0.125 grid at exactly `cutoff` from each other.
    Returns True if planted."""
    offs = EXACT.get(cutoff)
    chains = sorted({a['chain'] for a in atoms})
    if not offs or len(chains) < 2:
        return False
    c1, c2 = rng.sample(chains, 2)
    a = rng.choice([x for x in atoms if x['chain'] == c1])
    b = rng.choice([x for x in atoms if x['chain'] == c2])
    off = list(rng.choice(offs))
    rng.shuffle(off)
    off = [o * rng.choice([-1, 1]) for o in off]
    for k in 'xyz':
        a[k] = int(round(a[k] / 125.0)) * 125
    for k, o in zip('xyz', off):
        b[k] = a[k] + o * 125
    if heavy:
        for x in (a, b):
            if x['name'].startswith('H'):
                x['name'] = rng.choice(BACKBONE)
    return True

def rand_cutoff(rng):
    r = rng.random()
    if r < 0.55:
        return rng.choice(list(EXACT))
    if r < 0.8:
        return rng.choice([3.7, 4.2, 5.5, 6.35, 7.125, 9.0, 12.0])
    return round(rng.uniform(2.0, 11.0), rng.choice([1, 2, 3]))

# ----------------------------------------------------------------------------------------
def table_of(db):
    """the ATOM table as the library's own get returns it -> model atoms (exact rationals)"""
    rows = db.get('rowID,chainID,resName,resSeq,name,x,y,z')
    return [[int(r[0]), str(r[1]), str(r[2]), int(r[3]), str(r[4]), Fraction(r[5]), Fraction(r[6]), Fraction(r[7])] for r in rows]

def wire_table(table):
    """wire form: all coordinates over one common denominator (cheap arithmetic in the extracted model;
    the value of each rational is unchanged)"""
    D = 1
    for t in table:
        for q in t[5:8]:
            D = D * q.denominator // math.gcd(D, q.denominator)
    return [t[:5] + [[q.numerator * (D // q.denominator), D] for q in t[5:8]] for t in table]

def expected_table(atoms):
    """what the formatter intends (cross-check of formatter against the library's parser)"""
    return [[i, a['chain'], a['resName'], a['resSeq'], a['name'],
             Fraction(float('%.3f' % (a['x'] / 1000.0))), Fraction(float('%.3f' % (a['y'] / 1000.0))),
             Fraction(float('%.3f' % (a['z'] / 1000.0)))] for i, a in enumerate(atoms)]

def is_float(fr):
    try:
        return Fraction(float(fr)) == fr
    except OverflowError:
        return False

def float_exact(p, q):
    """every intermediate of sqrt(sum((p-q)**2)) is exact in binary64"""
    acc = Fraction(0)
    for u, v in zip(p, q):
        d = u - v
        if not is_float(d) or not is_float(d * d):
            return False
        acc += d * d
        if not is_float(acc):
            return False
    r = Fraction(math.isqrt(acc.numerator), math.isqrt(acc.denominator))
    return r * r == acc

def boundary_status(table, cutoff, tables2=None):
    """margin rule of DESIGN 4.2 over all atom pairs (of one table, or between two tables' own pairs).
    returns ('ok'|'skip', n_exact_pairs)"""
    c = Fraction(cutoff)
    c2 = c * c
    cf = float(cutoff)
    nexact = 0
    pts = [(t[5], t[6], t[7]) for t in table]
    fl = [(float(p[0]), float(p[1]), float(p[2])) for p in pts]
    n = len(pts)
    for i in range(n):
        xi = fl[i]
        for j in range(i + 1, n):
            xj = fl[j]
            d2f = (xi[0] - xj[0]) ** 2 + (xi[1] - xj[1]) ** 2 + (xi[2] - xj[2]) ** 2
            if abs(d2f - cf * cf) > 1e-6 * max(cf * cf, 1e-3):
                continue
            d2 = sum((a - b) ** 2 for a, b in zip(pts[i], pts[j]))
            if d2 == c2:
                if float_exact(pts[i], pts[j]) and c >= 0:
                    nexact += 1
                    continue
                return 'skip', nexact
            if c2 > 0 and abs(d2 - c2) / c2 < Fraction(1, 10 ** 9):
                return 'skip', nexact
    return 'ok', nexact

# ----------------------------------------------------------------------------------------
# canonical forms
def canon_exc(e):
    return ['ERR', exc_class(e)]

def canon_atoms(d):
    return ['OK', [[str(k), [int(i) for i in v]] for k, v in d.items()]]

def canon_pairs(d):
    return ['OK', [[int(k), [int(i) for i in v]] for k, v in d.items()]]

def canon_res(r):
    return [str(r[0]), int(r[1]), str(r[2])]

def canon_resdict(d):
    return ['OK', [[str(k), [canon_res(r) for r in v]] for k, v in d.items()]]

def canon_respairs(d):
    return ['OK', [[canon_res(k), [canon_res(r) for r in v]] for k, v in d.items()]]

def sort_keys(c):
    """order-insensitive form of a canonical dict (for the comparison with the specification)"""
    if c[0] != 'OK':
        return c
    return ['OK', sorted(c[1], key=lambda kv: kv[0])]

def sort_keys_vals(c):
    if c[0] != 'OK':
        return c
    return ['OK', sorted([[k, sorted(v)] for k, v in c[1]], key=lambda kv: kv[0])]

def run_impl(f):
    with warnings.catch_warnings():
        warnings.simplefilter('ignore')
        try:
            return f()
        except SystemExit as e:
            return ['ERR', 'SystemExit']
        except Exception as e:
            return canon_exc(e)

def fnat_value(v):
    """a float returned by round(x, 6) -> exact six-decimal rational (or the exact double if it is not one)"""
    fr = Fraction(int(round(v * 10 ** 6)), 10 ** 6)
    if abs(v - float(fr)) > 1e-12:
        return Fraction(v)
    return fr

def chains_of(table):
    return sorted({t[1] for t in table})

def has_empty_name(table):
    return any(t[4] == '' for t in table)
