"""C02 — export: 80-column fixed-field lines; parse/export round trip."""
import os, math
from fractions import Fraction
from harness.core import *
from harness import gen_pdb
from harness.props.C01 import canon_rows, canon_val

ID = 'C02'
REGIONS = ['format_xyz', 'format_atomname', 'export_layout', 'const']
HAND_MODELLED = ['pdb2sql_base.py:pdb2sql_base.sql2pdb/exportpdb (column order of the get, newline joining)']
TRUSTED = ["CPython str.format: '{:>w}', '{:<w}', '{:^w}' on str/int and '{:>w.pf}' on float (correctly rounded on the exact binary value), as modelled in PyLib.v",
           'negative zero is canonicalised (the property grants that exception)']
RULE = ('(A) coordinates: every multiple of 0.0005 in a +-0.02 window around each of the 8 format-switch thresholds and the 2 range '
        'limits, their binary64 neighbours, log-uniform magnitudes over (-1e7,1e8), out-of-range values; (B) tables of 1-10 atoms over '
        'the quantifier ranges (serial -9999..99999, resSeq -999..9999, names 1-4 chars with/without leading digit, equal or not to the '
        'element, blank altLoc/iCode, occupancy/B-factor in [-99.99,999.99], wide coordinates): export, read back, export again; '
        '(C) canonical records: export(parse(line)) against the line. Non-trivial: coordinate within 0.02 of a threshold or |x|>=1000, '
        'or a row with a non-default name alignment / extreme field width.')

THR = [1e8 - 0.5, 1e6 - 0.5, 1e5 - 0.5, 1e4 - 0.5, -1e7 + 0.5, -1e5 + 0.5, -1e4 + 0.5, -1e3 + 0.5]
THR_SET = set(Fraction(t) for t in THR)

def coords_window(rng, full):
    out = []
    for t in THR:
        base = round(t * 2000)            # multiples of 0.0005
        step = 1 if full else 2
        for k in range(-40, 41, step):
            out.append((base + k) / 2000.0)
        out += [math.nextafter(t, -math.inf), math.nextafter(t, math.inf), t]
    return out

def impl_xyz(pdb2sql, x):
    try:
        return ['OK', pdb2sql.pdb2sql._format_xyz(x)]
    except Exception as e:
        return ['ERR', exc_class(e)]

def dec_fields(line):
    return [line[30:38], line[38:46], line[46:54]]

def explore(ctx, tier, rng, search=False):
    rep = Report()
    pdb2sql = import_impl()
    big = (tier == 'thorough' or search)
    # ---------------- (A) coordinates ----------------
    xs = coords_window(rng, big)
    for _ in range(6000 if big else 1200):
        mag = 10 ** rng.uniform(-4, 8.1)
        xs.append(mag if rng.random() < 0.55 else -mag / 8)
    for k in range(3, 9):          # just below a power of ten: the rendering gains a digit when it rounds up
        for j in range(0, 24):
            for sgn in (1, -1):
                for step in (1e-4, 1e-3, 1e-2, 1e-1):
                    xs.append(sgn * (10.0 ** k - j * step))
    xs += [0.0, 0.0005, 0.0015, 0.0025, -0.0005, 1e8, -1e7, 1e8 - 0.5, -1e7 + 0.5, 99999999.49, -9999999.49, 123456789.0, -1e9]
    xs = [x for x in xs if x != 0 or math.copysign(1, x) > 0]
    reqs = []
    for x in xs:
        q = Fraction(x)
        reqs += [['export.xyz', q], ['spec.export.coord_in_range', q]]
    outs = ctx.model.batch(reqs)
    impls = [impl_xyz(pdb2sql, x) for x in xs]
    reqs2 = [['spec.export.coord_ok', Fraction(x), (im[1] if im[0] == 'OK' else '')] for x, im in zip(xs, impls)]
    outs2 = ctx.model.batch(reqs2)
    rep.model_reqs += reqs[:150] + reqs2[:80]
    rep.model_outs += outs[:150] + outs2[:80]
    for k, x in enumerate(xs):
        m, inr, ok = outs[2 * k], outs[2 * k + 1], outs2[k]
        impl = impls[k]
        case = {'kind': 'xyz', 'x': x, 'hex': float(x).hex()}
        feats = []
        if any(abs(x - t) <= 0.021 for t in THR): feats.append('near-threshold')
        if any(0 <= 10.0 ** k - abs(x) <= 2.5 for k in range(3, 9)): feats.append('near-power-of-ten')
        if abs(x) >= 1000: feats.append('wide')
        if not inr: feats.append('out-of-range')
        rep.case(case, feats)
        spec_ok = (impl[0] == 'OK' and ok == 1) if inr else (impl[0] == 'ERR')
        if not spec_ok:
            rep.mismatch('impl_vs_spec', case, impl=impl, model=m, in_range=inr, coord_ok=ok)
        elif impl != m:
            rep.mismatch('impl_vs_model', case, impl=impl, model=m)
    # ---------------- (B) tables ----------------
    ntab = 260 if big else 45
    cdir = os.path.join(VERIF, 'corpus', ID)       # kept failures and witnesses of known findings run first
    if os.path.isdir(cdir):
        for f in sorted(os.listdir(cdir)):
            c = json.load(open(os.path.join(cdir, f))); c = c.get('case', c)
            if c.get('kind') == 'table':
                try:
                    run_table(ctx, pdb2sql, rep, c)
                except Exception as e:
                    rep.mismatch('impl_vs_spec', c, error='harness/implementation exception: ' + exc_class(e) + ' ' + str(e)[:300])
    for t in range(ntab):
        n = rng.randint(1, 10)
        atoms = gen_pdb.gen_atoms(rng, n, chains=rng.choice([('A',), ('A', 'B'), ('A', 'B', 'C')]), wide=True)
        for a in atoms:
            if rng.random() < 0.15: a['serial'] = rng.choice([-9999, -1, 99999, 10000])
            if rng.random() < 0.15: a['resSeq'] = rng.choice([-999, -1, 0, 9999, 1000])
            if rng.random() < 0.2: a['occ'] = rng.choice([-99.99, 999.99, 0.005, 0.015, 0.125, rng.uniform(-99.99, 999.99)])
            if rng.random() < 0.2: a['temp'] = rng.choice([-99.99, 999.99, 0.0, rng.uniform(-99.99, 999.99)])
            if rng.random() < 0.25:
                for c in 'xyz':
                    if rng.random() < 0.5:
                        a[c] = rng.choice(xs[:len(THR) * 44])
                        if not (-1e7 + 0.5 < a[c] < 1e8 - 0.5): a[c] = 1.0
        if rng.random() < 0.08:
            gone = rng.choice(sorted({a['chainID'] for a in atoms}))
            for a in atoms:
                if a['chainID'] == gone:
                    a['chainID'] = ''        # the 0-character chain of the quantifier
        case = {'kind': 'table', 'atoms': atoms}
        try:
            run_table(ctx, pdb2sql, rep, case)
        except Exception as e:
            rep.mismatch('impl_vs_spec', case, error='harness/implementation exception: ' + exc_class(e) + ' ' + str(e)[:300])
    # ---------------- (C) canonical records ----------------
    lines = []
    for _ in range(150 if big else 40):
        a = gen_pdb.gen_atoms(rng, 1, chains=('A',), wide=False)[0]
        lines.append(gen_pdb.atom_line(a))
    if big:
        for root, _, files in os.walk(os.path.join(REPO, 'test', 'pdb')):
            for fn in sorted(files)[:6]:
                if fn.endswith('.pdb'):
                    for l in open(os.path.join(root, fn)):
                        if l.startswith('ATOM') and len(l.rstrip('\n')) >= 78 and l[21] != ' ' and l[76:78].strip() and l[54:60].strip() and l[60:66].strip():
                            lines.append(l.rstrip('\n').ljust(80))
                            rep.features['bundled-record'] += 1
    if lines:
        try:
            db = pdb2sql.pdb2sql(lines)
            out = db.sql2pdb()
            db._close()
        except Exception as e:
            out = None
            rep.mismatch('impl_vs_spec', {'kind': 'canonical', 'lines': lines[:5]}, error=exc_class(e))
        if out is not None:
            for l, o in zip(lines, out):
                case = {'kind': 'canonical', 'line': l}
                rep.case(case, ['canonical-record'])
                if not (l[:66] == o[:66] and l[76:78] == o[76:78] and len(o) == 80):
                    rep.mismatch('impl_vs_spec', case, impl=o)
    rep.input_distribution = {'coordinates': len(xs), 'tables': ntab, 'canonical_records': len(lines)}
    return rep

def make_db(pdb2sql, atoms):
    plain = [dict(a, x=0.0, y=0.0, z=0.0, occ=1.0, temp=1.0) for a in atoms]
    # a record with a blank chain cannot be parsed (C01): such tables are reached through update_column
    plain = [dict(a, chainID=(a['chainID'] or 'A')) for a in plain]
    db = pdb2sql.pdb2sql([gen_pdb.atom_line(a) for a in plain])
    for c in ('x', 'y', 'z', 'occ', 'temp'):
        db.update_column(c, [float(a[c]) for a in atoms])
    if any(a['chainID'] == '' for a in atoms):
        db.update_column('chainID', [a['chainID'] for a in atoms])
    return db

def run_table(ctx, pdb2sql, rep, case, record=True):
    atoms = case['atoms']
    db = make_db(pdb2sql, atoms)
    rows = canon_rows(db.get('*'))
    try:
        lines = ['OK', db.sql2pdb()]
    except Exception as e:
        lines = ['ERR', exc_class(e)]
    # exportpdb: the file is the lines, each newline-terminated; append=True appends another export to it
    file_issue = None
    if lines[0] == 'OK':
        fn = os.path.join(ctx.scratch, 'c02_export.pdb')
        try:
            chains = sorted({a['chainID'] for a in atoms})
            db.exportpdb(fn)
            first = open(fn).read()
            db.exportpdb(fn, append=True, chainID=chains[0])
            both = open(fn).read()
            sel = db.sql2pdb(chainID=chains[0])
            want1 = ''.join(l + '\n' for l in lines[1])
            want2 = want1 + ''.join(l + '\n' for l in sel)
            if first != want1:
                file_issue = dict(why='exportpdb file differs from the exported lines, each newline-terminated', got=first[-170:], want=want1[-170:])
            elif both != want2:
                file_issue = dict(why='exportpdb(append=True) did not append the second export after the first', got=both[len(want1) - 90:len(want1) + 90])
        except Exception as e:
            file_issue = dict(why='exportpdb raised ' + exc_class(e))
        finally:
            if os.path.exists(fn):
                os.remove(fn)
    db._close()
    reqs = []
    for r in rows:
        reqs += [['export.line', r], ['spec.export.fits', r]]
    outs = ctx.model.batch(reqs)
    fits = all(outs[2 * i + 1] == 1 for i in range(len(rows)))
    mlines = [outs[2 * i] for i in range(len(rows))]
    feats = []
    if any(abs(a[c]) >= 1000 for a in atoms for c in 'xyz'): feats.append('wide-coordinate')
    if any(a['chainID'] == '' for a in atoms): feats.append('empty-chain-identifier')
    if any(len(a['name']) != 2 or a['name'] == a['element'] for a in atoms): feats.append('name-alignment-class')
    if any(a['serial'] < 0 or a['serial'] > 9999 or a['resSeq'] < 0 or a['resSeq'] > 999 for a in atoms): feats.append('wide-integer')
    if not fits: feats.append('does-not-fit')
    if record:
        rep.case(case, feats)
        rep.model_reqs += reqs[:4]; rep.model_outs += outs[:4]
    bad = None
    if not fits:
        return                     # outside the property's premise
    if lines[0] != 'OK':
        bad = ('impl_vs_spec', dict(impl=lines, why='export of a fitting table raised'))
    else:
        L = lines[1]
        oks = ctx.model.batch([['spec.export.line_ok', r, l] for r, l in zip(rows, L)])
        if len(L) != len(rows) or not all(o == 1 for o in oks):
            k = next((i for i, o in enumerate(oks) if o != 1), 0)
            bad = ('impl_vs_spec', dict(impl=L[k] if k < len(L) else None, row=rows[k], why='line_ok fails'))
        else:
            for i, (l, m) in enumerate(zip(L, mlines)):
                if m != ['OK', l]:
                    bad = ('impl_vs_model', dict(impl=l, model=m, row=rows[i]))
                    break
        if bad is None:
            # round trip through the parser (skip when a chain is blank: known finding signature handles it)
            try:
                db2 = pdb2sql.pdb2sql(L)
                rows2 = canon_rows(db2.get('*'))
                L2 = db2.sql2pdb()
                db2._close()
                ap = ctx.model.batch([['spec.export.approx_row', r, r2] for r, r2 in zip(rows, rows2)])
                if len(rows2) != len(rows) or not all(o == 1 for o in ap):
                    k = next((i for i, o in enumerate(ap) if o != 1), 0)
                    bad = ('impl_vs_spec', dict(why='round trip differs', row=rows[k], readback=rows2[k] if k < len(rows2) else None, line=L[k]))
                else:
                    for l1, l2, r2 in zip(L, L2, rows2):
                        if l1 == l2:
                            continue
                        same_rest = l1[:30] == l2[:30] and l1[54:] == l2[54:]
                        okc = True
                        for f1, f2, v in zip(dec_fields(l1), dec_fields(l2), r2[7:10]):
                            if f1 != f2:
                                val = Fraction(v[1], v[2])
                                if not (val in THR_SET or val == 0):
                                    okc = False
                        if okc and same_rest:
                            okc = ctx.model.batch([['spec.export.line_ok', r2, l2]])[0] == 1
                        if not (same_rest and okc):
                            bad = ('impl_vs_spec', dict(why='re-export differs', first=l1, second=l2))
                            break
            except Exception as e:
                bad = ('impl_vs_spec', dict(why='reading the exported text back raised ' + exc_class(e), lines=L[:3],
                                            blank_chain=any(a['chainID'] == '' for a in atoms), message=str(e)[:80]))
    if bad is None and file_issue is not None:
        bad = ('impl_vs_spec', file_issue)
    if bad is None and fits and lines[0] == 'OK' and not any(a['chainID'] == '' for a in atoms):
        bad = derived_paths(ctx, pdb2sql, rows, lines[1], atoms)
    if bad:
        rep.mismatch(bad[0], case, **bad[1])

def derived_paths(ctx, pdb2sql, rows, L, atoms):
    """the two other places where the exported text is what counts: (a) exportpdb of a NON-default table of a multi-table
    database writes that table's lines; (b) a sub-database (db(**selection)) is the re-parse of the exported selection —
    also when the parent was created with the rarely used fix_chainID=True (here a no-op on the parent: its chains are
    already A, B, ...) — and must hold the selected rows, chain labels included"""
    chains = sorted({a['chainID'] for a in atoms})
    fn = os.path.join(ctx.scratch, 'c02_other_table.pdb')
    try:
        other = ['ATOM      1  CA  GLY Z   1       1.000   2.000   3.000  1.00  0.00           C  ']
        m = pdb2sql.many2sql([other, L])
        names = m._get_table_names()
        m.exportpdb(fn, tablename=names[1])
        got = open(fn).read()
        want = ''.join(l + '\n' for l in m.sql2pdb(tablename=names[1]))     # (re-reading may move a value onto a threshold)
        m._close()
        if got != want:
            return ('impl_vs_spec', dict(why='exportpdb(tablename=<second table>) did not write that table', got=got[:170], want=want[:170]))
    except Exception as e:
        return ('impl_vs_spec', dict(why='exportpdb on a multi-table database raised ' + exc_class(e)))
    finally:
        if os.path.exists(fn):
            os.remove(fn)
    if len(chains) >= 2 and chains == [chr(65 + i) for i in range(len(chains))]:
        try:
            parent = pdb2sql.pdb2sql(L, fix_chainID=True)
            sel = chains[-1]
            sub = parent(chainID=sel)
            rows_sub = canon_rows(sub.get('*'))
            rows_par = canon_rows(parent.get('*', chainID=sel))
            sub._close(); parent._close()
            ap = ctx.model.batch([['spec.export.approx_row', r, r2] for r, r2 in zip(rows_par, rows_sub)])
            if len(rows_sub) != len(rows_par) or not all(o == 1 for o in ap):
                k = next((i for i, o in enumerate(ap) if o != 1), 0)
                return ('impl_vs_spec', dict(why='sub-database of a fix_chainID=True parent differs from the selected rows', parent_row=rows_par[k] if k < len(rows_par) else None,
                                            sub_row=rows_sub[k] if k < len(rows_sub) else None))
        except Exception as e:
            return ('impl_vs_spec', dict(why='deriving a sub-database raised ' + exc_class(e)))
    return None

def replay(ctx, case):
    pdb2sql = import_impl()
    rep = Report()
    if case['kind'] == 'xyz':
        x = float.fromhex(case['hex']) if 'hex' in case else case['x']
        q = Fraction(x)
        inr = ctx.model.batch([['spec.export.coord_in_range', q]])[0]
        impl = impl_xyz(pdb2sql, x)
        ok = ctx.model.batch([['spec.export.coord_ok', q, impl[1] if impl[0] == 'OK' else '']])[0]
        holds = (impl[0] == 'OK' and ok == 1) if inr else impl[0] == 'ERR'
        return holds, f'_format_xyz({x!r}) -> {impl}; in range {inr}; coord_ok {ok}'
    if case['kind'] == 'table':
        run_table(ctx, pdb2sql, rep, case)
        bad = [m for m in rep.mismatches if m['kind'] == 'impl_vs_spec']
        return not bad, json.dumps(jsonable(bad[0]['details']))[:600] if bad else 'ok'
    if case['kind'] == 'canonical':
        l = case['line']
        db = pdb2sql.pdb2sql([l]); o = db.sql2pdb()[0]; db._close()
        return (l[:66] == o[:66] and l[76:78] == o[76:78] and len(o) == 80), f'{l!r} -> {o!r}'
    return True, 'n/a'
