"""C09 — alternative routes to a score agree (fast/SQL, svd/quaternion, zone file or not); zone files round-trip."""
import os, math, io, contextlib, string
from fractions import Fraction
from harness.core import *
from harness import gen_complex, gen_contact
from harness import scores_common as SC
from harness.props import C07

ID = 'C09'
REGIONS = ['zone_format', 'rmsd_readers', 'rmsd', 'const']
HAND_MODELLED = C07.HAND_MODELLED + ['StructureSimilarity.py:StructureSimilarity.read_zone', 'StructureSimilarity.py:StructureSimilarity._write_zone',
                                     'StructureSimilarity.py:StructureSimilarity.compute_fnat_fast', 'StructureSimilarity.py:StructureSimilarity.compute_fnat_pdb2sql']
TRUSTED = C07.TRUSTED + ['text I/O of the zone file (open/readlines/os.replace) behaves as a byte string store']
RULE = ('(A) reference/decoy pairs as in C07/C08 plus equal-sized chains and chains whose atom count and backbone count rank differently, '
        'incomplete decoys, negative numbers: every call form of each measure — i-RMSD {fast, SQL} x {svd, quaternion} x {no zone file, zone '
        'file absent (written), present (read)}, L-RMSD fast x methods x zone modes, L-RMSD SQL x methods, Fnat fast and SQL — compared '
        'pairwise and with the C07 specification value; (B) zone files: zones over every chain character in [A-Za-z0-9] and residue numbers '
        '-999..9999 incl. 0 written by the library, compared with the model text, read back by read_zone and by the SQL i-RMSD route. '
        'Non-trivial: incomplete decoy, ambiguous chain sizes, negative numbers, or a zone with a negative/zero residue number.')

CH = string.ascii_uppercase + string.ascii_lowercase + string.digits

def gen_pair(rng):
    """like C07.gen_pair but WITHOUT the unambiguous-size filter (ties and rank differences are in this property's quantifier)"""
    feats = set()
    for _ in range(50):
        nres = rng.choice([(3, 5), (4, 4), (3, 3), (4, 7)])
        ref = gen_complex.gen_complex(rng, nres=nres, negative=True, sidechains=(rng.random() < 0.8))
        decoy = [dict(a) for a in ref]
        if rng.random() < 0.5:
            decoy = gen_complex.deform(rng, decoy, rng.choice([0.05, 0.4])); feats.add('deformed')
        if rng.random() < 0.6:
            R = gen_complex.rand_rotation(rng); t = [rng.uniform(-15, 15) for _ in range(3)]
            chains = sorted({a['chainID'] for a in ref})
            moved = gen_complex.apply_motion([a for a in decoy if a['chainID'] == chains[1]], R, t, ndigits=3)
            decoy = sorted([a for a in decoy if a['chainID'] != chains[1]] + moved, key=lambda a: a['serial']); feats.add('ligand-displaced')
        if rng.random() < 0.35:
            decoy = gen_complex.delete_some(rng, decoy, 0.08, 0.08); feats.add('decoy-incomplete')
        if any(a['resSeq'] <= 0 for a in ref): feats.add('nonpositive-numbering')
        if not C07.unambiguous(ref, decoy): feats.add('ambiguous-chain-sizes')
        if sorted({a['chainID'] for a in decoy}) == sorted({a['chainID'] for a in ref}) and len({a['chainID'] for a in ref}) == 2 \
                and all(-999.0 < a[c] < 9999.0 for a in decoy + ref for c in 'xyz'):
            return ref, decoy, feats
    return None, None, feats

OFFSETS_5 = [(3.0, 4.0, 0.0), (1.4, 4.8, 0.0), (0.0, 3.0, 4.0), (4.8, 0.0, 1.4), (2.4, 3.2, 3.0), (0.0, 0.0, 5.0), (3.2, 2.4, 3.0), (4.0, 0.0, 3.0)]
def plant_nominal_contacts(rng, case):
    """add, to reference AND decoy alike, isolated residue pairs (one heavy atom each, different chains) whose atoms are at a
    nominal distance of exactly 5.000 A on the 0.001 grid (not necessarily exact in binary64): the two Fnat routes must agree on
    every such pair, however the rounding of the distance falls"""
    chains = sorted({a['chainID'] for a in case['ref']})
    base_num = max(a['resSeq'] for a in case['ref']) + 10
    for k in range(rng.randint(2, 6)):
        p = [round(rng.uniform(-40, 40), 3) + 200.0 * (k + 1), round(rng.uniform(-40, 40), 3), round(rng.uniform(-40, 40), 3)]
        off = rng.choice(OFFSETS_5)
        sg = [rng.choice([1, -1]) for _ in range(3)]
        q = [round(p[i] + sg[i] * off[i], 3) for i in range(3)]
        for s in (case['ref'], case['decoy']):
            n = len(s)
            s.append({'serial': n + 1, 'name': 'CA', 'altLoc': '', 'resName': 'GLY', 'chainID': chains[0], 'resSeq': base_num + k, 'iCode': '',
                      'x': p[0], 'y': p[1], 'z': p[2], 'occ': 1.0, 'temp': 10.0, 'element': 'C'})
            s.append({'serial': n + 2, 'name': 'CA', 'altLoc': '', 'resName': 'GLY', 'chainID': chains[1], 'resSeq': base_num + k, 'iCode': '',
                      'x': q[0], 'y': q[1], 'z': q[2], 'occ': 1.0, 'temp': 10.0, 'element': 'C'})
    for s in (case['ref'], case['decoy']):
        s.sort(key=lambda a: a['chainID'])          # keep chain blocks contiguous (stable: order within a chain unchanged)
        for i, a in enumerate(s):
            a['serial'] = i + 1

def all_forms(ctx, pdb2sql, case, rep):
    """run every call form on one pair; returns dict measure -> list of (form, result) and the diagnostics"""
    ref, decoy = case['ref'], case['decoy']
    rp = gen_complex.write_pdb(os.path.join(ctx.scratch, 'ref_c09.pdb'), ref)
    dp = gen_complex.write_pdb(os.path.join(ctx.scratch, 'decoy_c09.pdb'), decoy)
    out = {'irmsd': [], 'lrmsd': [], 'fnat': []}
    zfiles = []
    for method in ('svd', 'quaternion'):
        for route in ('irmsd_fast', 'irmsd_sql', 'lrmsd_fast'):
            zf = os.path.join(ctx.scratch, f'{route}_{method}.zone')
            zfiles.append(zf)
            for mode in ('none', 'written', 'read'):
                cut = case.get('cutoff') if route.startswith('irmsd') else None
                if mode == 'none':
                    res, _ = SC.call(pdb2sql, route, dp, rp, False, method=method, cutoff=cut)
                else:
                    if route == 'irmsd_sql' and mode == 'written':
                        continue             # the SQL route only reads zone files (a missing file is FileNotFoundError)
                    if mode == 'written' and os.path.exists(zf):
                        os.remove(zf)
                    if mode == 'read' and not os.path.exists(zf):
                        # produce the file with the fast route of the same measure
                        SC.call(pdb2sql, 'irmsd_fast', dp, rp, False, method=method, zonefile=zf, cutoff=cut)
                    res, _ = SC.call(pdb2sql, route, dp, rp, False, method=method, zonefile=zf, cutoff=cut)
                out[route[:5]].append(({'route': route, 'method': method, 'zone': mode}, res))
        res, _ = SC.call(pdb2sql, 'lrmsd_sql', dp, rp, False, method=method)
        out['lrmsd'].append(({'route': 'lrmsd_sql', 'method': method, 'zone': 'none'}, res))
        # the same measure fitted on the CA atoms only: small (3-atom, hence coplanar) fit sets, where the two
        # superposition methods must still find the same minimum
        res, _ = SC.call(pdb2sql, 'lrmsd_fast', dp, rp, False, method=method, names=['CA'])
        out.setdefault('lrmsd_ca', []).append(({'route': 'lrmsd_fast', 'method': method, 'zone': 'none', 'names': ['CA']}, res))
    for fr in ('fast', 'sql'):
        with contextlib.redirect_stdout(io.StringIO()):
            try:
                sim = pdb2sql.StructureSimilarity(dp, rp, enforce_residue_matching=False)
                v = sim.compute_fnat_fast() if fr == 'fast' else sim.compute_fnat_pdb2sql()
                res = ['OK', int(round(float(v) * 10**6))]
            except BaseException as e:
                res = ['ERR', exc_class(e)]
        out['fnat'].append(({'route': 'fnat_' + fr}, res))
    for f in zfiles + [rp, dp]:
        try: os.remove(f)
        except OSError: pass
    return out

def ca_fit_degenerate(case):
    """is the common CA set of some chain too small or (nearly) collinear for a unique optimal superposition?"""
    import numpy as np
    for ch in sorted({a['chainID'] for a in case['ref']}):
        kd = {(a['chainID'], a['resSeq']): a for a in case['decoy'] if a['name'] == 'CA' and a['chainID'] == ch}
        pts = [[a['x'], a['y'], a['z']] for a in case['ref'] if a['name'] == 'CA' and a['chainID'] == ch and (a['chainID'], a['resSeq']) in kd]
        pts_d = [[kd[(a['chainID'], a['resSeq'])][c] for c in 'xyz'] for a in case['ref'] if a['name'] == 'CA' and a['chainID'] == ch and (a['chainID'], a['resSeq']) in kd]
        for P in (pts, pts_d):
            if len(P) < 3:
                return True
            M = np.array(P, dtype=float); M = M - M.mean(0)
            sv = np.linalg.svd(M, compute_uv=False)
            if sv[1] < 0.05 * max(sv[0], 1e-9) or sv[1] < 0.05:
                return True
    return False

def judge_forms(case, out, feats):
    """all forms of a measure must return the same value (or all raise)"""
    bad = []
    dec_t, ref_t = SC.table_atoms(case['decoy']), SC.table_atoms(case['ref'])
    for measure, lst in out.items():
        vals = {json.dumps(r) for _, r in lst}
        if len(vals) <= 1:
            continue
        # no form returns a value (e.g. an empty interface at a small cutoff): the property is about returned
        # values, the exception classes of the routes are not constrained to coincide
        if all(r[0] == 'ERR' for _, r in lst):
            continue
        oks = [r[1] for _, r in lst if r[0] == 'OK']
        # thousandths may differ by one unit when the exact value sits on a rounding tie: margin rule
        if measure != 'fnat' and len(oks) == len(lst) and max(oks) - min(oks) <= 1:
            continue
        if measure == 'lrmsd_ca' and ca_fit_degenerate(case):
            # fewer than three non-collinear common CA atoms in a chain: the optimal superposition of the fit set is not
            # unique (any rotation about the line through the points is optimal), so the measured value is not determined
            continue
        groups = {}
        for f, r in lst:
            groups.setdefault(json.dumps(r), []).append(f)
        fast_vs_sql = None
        if measure == 'lrmsd':
            fv = {json.dumps(r) for f, r in lst if f['route'] == 'lrmsd_fast'}
            sv = {json.dumps(r) for f, r in lst if f['route'] == 'lrmsd_sql'}
            fast_vs_sql = (len(fv) == 1 and len(sv) == 1 and fv != sv)
        bad.append(('impl_vs_spec', dict(why=f'the call forms of {measure} do not all return the same value', measure=measure,
                                         groups={k: v[:3] for k, v in groups.items()},
                                         lrmsd_fast_vs_sql_only=fast_vs_sql, ambiguous_chain_sizes=('ambiguous-chain-sizes' in feats),
                                         relative_order_differs=SC.relative_order_differs(dec_t, ref_t, lambda a: a[4] in SC.BB))))
    return bad

def zone_cases(rng, n):
    out = []
    for k in range(n):
        chains = rng.sample(CH, rng.randint(1, 3))
        z = []
        for c in sorted(chains):
            nums = sorted(set(rng.choice([0, -1, -999, 9999, 1, rng.randint(-999, 9999), rng.randint(-20, 20)]) for _ in range(rng.randint(1, 6))))
            z += [[c, x] for x in nums]
        out.append(z)
    # every chain character once, with zero and a negative number
    out.append([[c, x] for c in sorted(CH) for x in (-7, 0, 12)])
    return out

def check_zone(ctx, pdb2sql, zone, rep):
    """library writes the zone -> text = model text; read_zone(file) = the zone; the SQL i-RMSD reader sees the same residues"""
    SS = pdb2sql.StructureSimilarity
    zf = os.path.join(ctx.scratch, 'z.zone')
    data = [(c, n) for c, n in zone]
    SS._write_zone(zf, data)
    text = open(zf).read()
    m_text, m_read = ctx.model.batch([['rmsd.zone_text', zone], ['rmsd.read_zone', text]])
    if len(rep.model_reqs) < 30:
        rep.model_reqs += [['rmsd.zone_text', zone]]; rep.model_outs += [m_text]
    try:
        rd = SS.read_zone(zf)
        impl = ['OK', [[c, [int(x) for x in l]] for c, l in rd.items()]]
    except Exception as e:
        impl = ['ERR', exc_class(e)]
    want = {}
    for c, n in zone:
        want.setdefault(c, []).append(n)
    spec = ['OK', [[c, l] for c, l in want.items()]]
    os.remove(zf)
    left = [f for f in os.listdir(ctx.scratch) if f.startswith('z.zone')]
    if impl != spec:
        return ('impl_vs_spec', dict(why='a zone file written by the library is not read back as the zone that was written', zone=zone[:6], read=impl, text=text[:200]))
    if left:
        return ('impl_vs_spec', dict(why='writing a zone file left other files behind', files=left))
    if text != m_text:
        return ('impl_vs_model', dict(why='zone file text differs from the model', text=text[:200], model=m_text[:200]))
    if m_read != spec:
        return ('impl_vs_model', dict(why='model reader differs', model=m_read))
    return None

def explore(ctx, tier, rng, search=False):
    rep = Report()
    pdb2sql = import_impl()
    big = (tier == 'thorough' or search)
    n = 160 if big else 14
    cdir = os.path.join(VERIF, 'corpus', ID)
    cases = []
    if os.path.isdir(cdir):
        for f in sorted(os.listdir(cdir)):
            c = json.load(open(os.path.join(cdir, f))); cases.append((c.get('case', c), set(c.get('feats', ['corpus']))))
    for k in range(n):
        ref, decoy, feats = gen_pair(rng)
        if ref is not None:
            case = {'kind': 'forms', 'ref': ref, 'decoy': decoy, 'cutoff': rng.choice([10, 10, 7.5, 5, 12, 8.25])}
            if rng.random() < 0.5:
                plant_nominal_contacts(rng, case); feats.add('nominal-cutoff-contacts')
            cases.append((case, feats))
    for case, feats in cases:
        if case.get('kind') != 'forms':
            continue
        try:
            out = all_forms(ctx, pdb2sql, case, rep)
            bad = judge_forms(case, out, feats)
            nforms = sum(len(v) for v in out.values())
        except Exception as e:
            bad, nforms = [('impl_vs_spec', dict(why='harness exception ' + exc_class(e) + ': ' + str(e)[:300]))], 0
        rep.case(case, sorted(feats), nontrivial=bool(feats & {'decoy-incomplete', 'ambiguous-chain-sizes', 'nonpositive-numbering', 'ligand-displaced'}))
        rep.evaluations += max(0, nforms - 1)
        for kind, det in bad:
            rep.mismatch(kind, case, **det)
    for z in zone_cases(rng, 400 if big else 60):
        case = {'kind': 'zone', 'zone': z}
        feats = ['zone-file'] + (['zone-nonpositive-number'] if any(x <= 0 for _, x in z) else [])
        rep.case(case, feats, nontrivial=True)
        try:
            r = check_zone(ctx, pdb2sql, z, rep)
        except Exception as e:
            r = ('impl_vs_spec', dict(why='exception ' + exc_class(e) + ': ' + str(e)[:200]))
        if r:
            rep.mismatch(r[0], case, **r[1])
    rep.input_distribution = {'pairs': n, 'forms_per_pair': 20, 'zones': 400 if big else 60}
    return rep

def replay(ctx, case):
    pdb2sql = import_impl()
    rep = Report()
    if case.get('kind') == 'zone':
        r = check_zone(ctx, pdb2sql, case['zone'], rep)
        return not (r and r[0] == 'impl_vs_spec'), json.dumps(jsonable(r[1]))[:400] if r else 'ok'
    out = all_forms(ctx, pdb2sql, case, rep)
    feats = set(case.get('feats', []))
    if not C07.unambiguous(case['ref'], case['decoy']):
        feats.add('ambiguous-chain-sizes')
    bad = judge_forms(case, out, feats)
    return not bad, json.dumps(jsonable(bad[0][1]))[:500] if bad else 'ok'
