"""C15 — derived databases: faithful snapshots, independent afterwards (history correspondence)."""
import numpy as np
from fractions import Fraction
from harness.core import *
from harness import gen_pdb
from harness.props.C01 import canon_rows

ID = 'C15'
REGIONS = ['const', 'create_table_loop', 'linelength', 'get_chainID', 'get_element', 'format_xyz', 'format_atomname', 'export_layout']
HAND_MODELLED = ['pdb2sqlcore.py:pdb2sql.__call__', 'interface.py:interface.__init__', 'many2sql.py:many2sql.__init__/convert_input/__call__']
TRUSTED = ['selections used in the histories are evaluated by an independent Python predicate over the reference rows '
           '(the selection semantics itself is property C03)',
           'each object owns its own sqlite3 connection: assumed by the model, observed by the history correspondence']
RULE = ('histories of 3-12 steps over a growing family of up to 6 live objects (pdb2sql, interface, many2sql): modifications '
        '(update_column on any attribute, update of x,y,z on a selection, translation, rotation) interleaved with derivations '
        '(sub-selection call, interface(db), many2sql([db,...]), many2sql call); after EVERY step get(*) of EVERY live object is compared '
        'with its own reference table. Non-trivial: the history contains a derivation followed by a later modification of the source or '
        'of the derivative.')

SELECTIONS = [{}, {'chainID': 'A'}, {'chainID': ['B']}, {'name': ['CA', 'N', 'C', 'O']}, {'no_name': ['CA']},
              {'resSeq': [1, 2, 10]}, {'chainID': 'A', 'no_resName': ['GLY']},
              {'chainID': ['A', 'B']}, {'chainID': ['B', 'A'], 'no_name': ['O']}]     # several chains: rows still come in table order

def sel_holds(sel, a):
    for k, v in sel.items():
        neg = k.startswith('no_')
        kk = k[3:] if neg else k
        vals = v if isinstance(v, list) else [v]
        hit = a[kk] in vals
        if hit == neg:
            return False
    return True

def rows_to_atoms(rows):
    out = []
    for r in rows:
        a = {}
        for k, v in zip(gen_pdb.COLS, r):
            a[k] = v[1] if v[0] in ('I', 'T') else float(Fraction(v[1], v[2]))
        out.append(a)
    return out

class Obj:
    def __init__(self, kind, db, tables):
        self.kind, self.db, self.tables = kind, db, tables      # tables: list of canonical row lists (reference)

def live_tables(o):
    names = o.db._get_table_names()
    return [canon_rows(o.db.get('*', tablename=n)) for n in names]

def frac(x):
    f = Fraction(float(x)); return ['R', f.numerator, f.denominator]

def run_history(ctx, pdb2sql, case, rep=None):
    """returns None or (kind, details)"""
    import pdb2sql.transform as transform
    rng = random.Random(case['seed'])
    atoms = case['atoms']
    db = pdb2sql.pdb2sql([gen_pdb.atom_line(a) for a in atoms], fix_chainID=bool(case.get('fix_chainID')))
    objs = [Obj('pdb2sql', db, live_tables_db(db))]
    if case.get('fix_chainID'):
        # chain relabelling at load (C04): sorted distinct chains -> A, B, ...
        chains = sorted({a['chainID'] for a in atoms})
        want = [['T', 'ABCDEFGHIJKLMNOPQRSTUVWXYZ'[chains.index(a['chainID'])]] for a in atoms]
        if [r[4] for r in objs[0].tables[0]] != want:
            return 'impl_vs_spec', dict(step=-1, why='fix_chainID at load did not relabel the sorted chains to A,B,...')
    reqs, outs = [], []
    try:
        for step_no, st in enumerate(case['steps']):
            kind = st[0]
            if kind == 'update_column':
                _, oi, col, vals = st
                o = objs[oi % len(objs)]
                t = o.tables[0]
                vals = vals[:len(t)]
                o.db.update_column(col, vals)
                ci = gen_pdb.COLS.index(col)
                for k, v in enumerate(vals):
                    t[k][ci] = frac(v) if col in ('x', 'y', 'z', 'occ', 'temp') else (['I', int(v)] if col in ('serial', 'resSeq') else ['T', v])
            elif kind == 'update_xyz':
                _, oi, sel, shift = st
                o = objs[oi % len(objs)]
                t = o.tables[0]
                idx = [k for k, a in enumerate(rows_to_atoms(t)) if sel_holds(sel, a)]
                if idx:
                    new = [[float(Fraction(t[k][7][1], t[k][7][2])) + shift, float(Fraction(t[k][8][1], t[k][8][2])) - shift,
                            float(Fraction(t[k][9][1], t[k][9][2]))] for k in idx]
                    o.db.update('x,y,z', np.array(new), **sel)
                    for k, n3 in zip(idx, new):
                        t[k][7], t[k][8], t[k][9] = frac(n3[0]), frac(n3[1]), frac(n3[2])
            elif kind == 'transform':
                _, oi, which, sel = st
                o = objs[oi % len(objs)]
                if o.kind == 'many2sql' or not any(sel_holds(sel, a) for a in rows_to_atoms(o.tables[0])):
                    continue
                before = live_tables(o)
                if which == 'translate':
                    transform.translation(o.db, np.array([1.5, -2.25, 0.125]), **sel)
                else:
                    transform.rot_axis(o.db, [0.0, 0.0, 1.0], 0.7, **sel)
                after = live_tables(o)
                # the transform itself is C10's subject: only non-coordinate attributes and unselected rows are checked here
                for rb, ra, a in zip(before[0], after[0], rows_to_atoms(before[0])):
                    same = (rb == ra) if not sel_holds(sel, a) else (rb[:7] == ra[:7] and rb[10:] == ra[10:])
                    if not same:
                        return 'impl_vs_spec', dict(step=step_no, why='transform changed an unselected row or a non-coordinate attribute')
                o.tables = after
            elif kind in ('call', 'interface', 'many', 'many_call'):
                _, oi, sel = st
                o = objs[oi % len(objs)]
                if len(objs) >= 6:
                    continue
                src_tables = o.tables
                if kind == 'call' and '__rowid__' in sel:
                    # selection by position, the position given as a scalar Python int or NumPy integer (np.argmin / np.where deliver those)
                    neg, pos_, car = sel['__rowid__']
                    if o.kind == 'many2sql' or len(src_tables[0]) < 2:
                        continue
                    pos_ = pos_ % len(src_tables[0])
                    val = {'int': int, 'np64': np.int64, 'np32': np.int32, 'intp': np.intp}[car](pos_)
                    selected = [[r for k_, r in enumerate(src_tables[0]) if (k_ != pos_) == bool(neg)]]
                    ndb = o.db(**{('no_rowID' if neg else 'rowID'): val}); nk = 'pdb2sql'
                elif kind == 'call':
                    selected = [[r for r, a in zip(src_tables[0], rows_to_atoms(src_tables[0])) if sel_holds(sel, a)]]
                    if not selected[0]:
                        continue                      # empty selection: F17 (known finding of this property), exercised by the corpus
                    if o.kind == 'many2sql':
                        continue
                    ndb = o.db(**sel); nk = 'pdb2sql'
                elif kind == 'interface':
                    if o.kind == 'many2sql':
                        continue
                    selected = [list(src_tables[0])]
                    ndb = pdb2sql.interface(o.db); nk = 'interface'
                elif kind == 'many':
                    o2 = objs[(oi + 1) % len(objs)]
                    if o.kind == 'many2sql' or o2.kind == 'many2sql':
                        continue
                    selected = [list(o.tables[0]), list(o2.tables[0])]
                    ndb = pdb2sql.many2sql([o.db, o2.db]); nk = 'many2sql'
                else:
                    if o.kind != 'many2sql':
                        continue
                    selected = [[r for r, a in zip(t, rows_to_atoms(t)) if sel_holds(sel, a)] for t in src_tables]
                    if any(not s for s in selected):
                        continue
                    ndb = o.db(**sel); nk = 'many2sql'
                got = [canon_rows(ndb.get('*', tablename=n)) for n in ndb._get_table_names()]
                import copy
                selected = copy.deepcopy(selected)
                rq = [['store.snapshot', s] for s in selected]
                ro = ctx.model.batch(rq)
                reqs += rq; outs += ro
                if len(got) != len(selected):
                    return 'impl_vs_spec', dict(step=step_no, why='derived object has a different number of tables')
                sp = ctx.model.batch([['spec.store.approx_table', s, g] for s, g in zip(selected, got)])
                if not all(x == 1 for x in sp):
                    k = [x for x in sp].index(0)
                    return 'impl_vs_spec', dict(step=step_no, why='derived table is not the selected atoms at text precision', source=selected[k][:3], derived=got[k][:3])
                for g, m in zip(got, ro):
                    if m != ['OK', g]:
                        return 'impl_vs_model', dict(step=step_no, derived=g[:3], model=(m[1][:3] if m[0] == 'OK' else m))
                objs.append(Obj(nk, ndb, got))
            # after EVERY step: every live object against its own reference
            for k, o in enumerate(objs):
                now = live_tables(o)
                if now != o.tables:
                    return 'impl_vs_spec', dict(step=step_no, object=k, object_kind=o.kind, why='an object changed although the step was not addressed to it (or changed differently)',
                                                diff=first_diff(now, o.tables))
    finally:
        for o in objs:
            try:
                o.db._close()
            except Exception:
                pass
    if rep is not None and len(rep.model_reqs) < 40:
        rep.model_reqs += reqs[:3]; rep.model_outs += outs[:3]
    return None

def live_tables_db(db):
    return [canon_rows(db.get('*', tablename=n)) for n in db._get_table_names()]

def first_diff(a, b):
    for ti, (ta, tb) in enumerate(zip(a, b)):
        if len(ta) != len(tb):
            return {'table': ti, 'lengths': [len(ta), len(tb)]}
        for ri, (ra, rb) in enumerate(zip(ta, tb)):
            if ra != rb:
                return {'table': ti, 'row': ri, 'now': ra, 'reference': rb}
    return {'tables': [len(a), len(b)]}

def gen_case(rng):
    n = rng.randint(3, 9)
    fix = rng.random() < 0.3
    atoms = gen_pdb.gen_atoms(rng, n, chains=(rng.choice([('C', 'D'), ('B', 'X'), ('A', 'B')]) if fix else rng.choice([('A', 'B'), ('A', 'B'), ('B', 'A')])))
    if not fix and rng.random() < 0.2 and n >= 4:
        # chain labels not in alphabetical order along the rows: interleave the two chain blocks
        a_, b_ = [a for a in atoms if a['chainID'] == 'A'], [a for a in atoms if a['chainID'] == 'B']
        atoms = [x for pair in zip(b_, a_) for x in pair] + b_[len(a_):] + a_[len(b_):]
    steps = []
    feats = set()
    derived = False
    for _ in range(rng.randint(3, 12)):
        k = rng.random()
        oi = rng.randrange(6)
        if k < 0.22:
            col = rng.choice(['x', 'occ', 'name', 'resSeq', 'serial', 'z'])
            if col in ('x', 'z'): vals = [round(rng.uniform(-90, 90), 3) for _ in range(12)]
            elif col == 'occ': vals = [round(rng.uniform(0, 1), 2) for _ in range(12)]
            elif col == 'name': vals = [rng.choice(['CA', 'N', 'CB', 'O']) for _ in range(12)]
            else: vals = [rng.randint(1, 900) for _ in range(12)]
            steps.append(['update_column', oi, col, vals])
            if derived: feats.add('modify-after-derive')
        elif k < 0.36:
            steps.append(['update_xyz', oi, rng.choice(SELECTIONS), round(rng.uniform(-5, 5), 3)])
            if derived: feats.add('modify-after-derive')
        elif k < 0.5:
            steps.append(['transform', oi, rng.choice(['translate', 'rotate']), rng.choice(SELECTIONS)])
            if derived: feats.add('modify-after-derive')
        else:
            kind = rng.choice(['call', 'call', 'interface', 'many', 'many_call'])
            steps.append([kind, oi, rng.choice(SELECTIONS)])
            if kind == 'call' and rng.random() < 0.25:
                steps[-1][2] = {'__rowid__': [rng.random() < 0.4, rng.randrange(1000), rng.choice(['int', 'np64', 'np32', 'intp'])]}
                feats.add('derive-by-position-' + steps[-1][2]['__rowid__'][2])
            derived = True; feats.add('derive-' + kind)
    if fix:
        feats.add('source-fix_chainID')
    return {'atoms': atoms, 'steps': steps, 'seed': rng.randrange(10**6), 'fix_chainID': fix}, feats

def explore(ctx, tier, rng, search=False):
    rep = Report()
    pdb2sql = import_impl()
    n = 900 if (tier == 'thorough' or search) else 140
    cdir = os.path.join(VERIF, 'corpus', 'C15')
    for k in range(n):
        case, feats = gen_case(rng)
        rep.case(case, sorted(feats), nontrivial=('modify-after-derive' in feats))
        try:
            r = run_history(ctx, pdb2sql, case, rep)
        except Exception as e:
            r = ('impl_vs_spec', dict(why='exception ' + exc_class(e) + ': ' + str(e)[:300]))
        if r:
            rep.mismatch(r[0], case, **r[1])
    # known finding F17 witness class: empty selection
    rep.input_distribution = {'histories': n, 'steps_per_history': '3-12', 'max_live_objects': 6}
    return rep

def replay(ctx, case):
    pdb2sql = import_impl()
    if case.get('kind') == 'empty_selection':
        try:
            db = pdb2sql.pdb2sql([gen_pdb.atom_line(a) for a in case['atoms']])
            d = db(**case['sel'])
            rows = d.get('*')
            return rows == [], f'derived {len(rows)} rows'
        except Exception as e:
            return False, 'deriving an empty selection raised ' + exc_class(e)
    r = run_history(ctx, pdb2sql, case)
    return not (r and r[0] == 'impl_vs_spec'), json.dumps(jsonable(r[1]))[:600] if r else 'ok'
