"""C07 — i-RMSD and L-RMSD equal their definitions, with atoms paired by identity."""
import os, math
from fractions import Fraction
from harness.core import *
from harness import gen_complex, gen_contact
from harness import scores_common as SC

ID = 'C07'
REGIONS = ['const', 'zone_format', 'contact_test', 'contact_filters', 'fnat_fast_reader', 'rmsd_readers', 'rmsd']
HAND_MODELLED = ['StructureSimilarity.py:StructureSimilarity.compute_irmsd_fast', 'StructureSimilarity.py:StructureSimilarity.compute_lrmsd_fast',
                 'StructureSimilarity.py:StructureSimilarity.compute_irmsd_pdb2sql', 'StructureSimilarity.py:StructureSimilarity.compute_lrmsd_pdb2sql',
                 'StructureSimilarity.py:StructureSimilarity.compute_izone', 'StructureSimilarity.py:StructureSimilarity.compute_lzone',
                 'StructureSimilarity.py:StructureSimilarity.check_residues', 'StructureSimilarity.py:StructureSimilarity.get_identical_atoms',
                 'StructureSimilarity.py:StructureSimilarity.get_data_zone_backbone', 'StructureSimilarity.py:StructureSimilarity.get_xyz_zone_backbone',
                 'StructureSimilarity.py:StructureSimilarity._get_xyz', 'StructureSimilarity.py:StructureSimilarity.get_izone_rowID',
                 'StructureSimilarity.py:StructureSimilarity.get_rmsd']
TRUSTED = ['the rotation returned by get_rotation_matrix is recorded from the real call and handed to the model as exact rationals (its optimality is C06)',
           'the value of the specification (minimum over rigid motions on the identity-paired atoms) is evaluated by the harness with an independent '
           'binary64 Kabsch; compared at the reported precision (0.001) with a 2e-4 guard band around rounding ties',
           'sqrt and round(.,3) of get_rmsd: the model returns the exact mean squared deviation, the check is k-1/2 <= 1000*sqrt(msd) <= k+1/2']
RULE = ('reference complexes of two chains (3-8 residues each, backbone + side chains, negative and non-contiguous numbering), decoys by '
        'deformation / rigid displacement / deletion of atoms and residues, contact cutoffs 3-12; the four routines x both superposition methods, '
        'residue matching enforced or not; zones computed in memory. Chain sizes are made unambiguous (the property\'s domain). '
        'Chain labels vary (A/B, A/a, b/B, X/A, 1/2, B/C); a third of the pairs carry HETATM waters / ions in both files; enforced calls also with the flag as np.bool_ / 1. Non-trivial: the decoy is displaced or incomplete, or the numbering is negative / non-contiguous.')

ROUTES = ['irmsd_fast', 'irmsd_sql', 'lrmsd_fast', 'lrmsd_sql']

def unambiguous(ref, decoy):
    """chain sizes rank the same way by atoms, by backbone atoms and by common backbone atoms, with a clear margin"""
    chains = sorted({a['chainID'] for a in ref})
    if len(chains) != 2 or sorted({a['chainID'] for a in decoy}) != chains:
        return False
    def counts(s, f):
        return [sum(1 for a in s if a['chainID'] == c and f(a)) for c in chains]
    keyd = {(a['chainID'], a['resSeq'], a['name']) for a in decoy}
    allc = counts(ref, lambda a: True)
    bbc = counts(ref, lambda a: a['name'] in SC.BB)
    com = counts(ref, lambda a: a['name'] in SC.BB and (a['chainID'], a['resSeq'], a['name']) in keyd)
    dall = counts(decoy, lambda a: a['name'] in SC.BB)
    signs = {(x[0] > x[1]) - (x[0] < x[1]) for x in (allc, bbc, com, dall)}
    return len(signs) == 1 and 0 not in signs

def gen_pair(rng, permute=False):
    feats = set()
    for _ in range(50):
        nres = rng.choice([(3, 5), (4, 8), (3, 8)])
        labels = rng.choice([('A', 'B')] * 4 + [('A', 'a'), ('b', 'B'), ('X', 'A'), ('1', '2'), ('B', 'C')])   # two chains, whatever their labels
        ref = gen_complex.gen_complex(rng, nres=nres, negative=True, chains=labels)
        if labels != ('A', 'B'): feats.add('chain-labels-' + ''.join(labels))
        # make the two chains clearly different in size
        chains = sorted({a['chainID'] for a in ref})
        decoy = [dict(a) for a in ref]
        k = rng.random()
        if k < 0.35:
            decoy = gen_complex.deform(rng, decoy, rng.choice([0.05, 0.3, 1.0])); feats.add('deformed')
        if rng.random() < 0.6:
            R = gen_complex.rand_rotation(rng); t = [rng.uniform(-15, 15) for _ in range(3)]
            sub = rng.random() < 0.5
            moved = gen_complex.apply_motion([a for a in decoy if (not sub or a['chainID'] == chains[1])], R, t, ndigits=3)
            decoy = [a for a in decoy if sub and a['chainID'] != chains[1]] + moved if sub else moved
            decoy.sort(key=lambda a: a['serial'])
            feats.add('ligand-displaced' if sub else 'rigid-motion')
        if rng.random() < 0.4:
            decoy = gen_complex.delete_some(rng, decoy, 0.08, 0.1); feats.add('decoy-incomplete')
        if rng.random() < 0.15:
            ref = gen_complex.delete_some(rng, ref, 0.05, 0.05); feats.add('ref-incomplete')
        if any(a['resSeq'] < 0 for a in ref): feats.add('negative-numbering')
        if permute:
            decoy = gen_complex.permute(rng, decoy, rng.choice(['atoms', 'residues'])); feats.add('permuted')
        if unambiguous(ref, decoy) and all(-999.0 < a[c] < 9999.0 for a in decoy + ref for c in 'xyz'):
            return ref, decoy, feats
    return None, None, feats

def evaluate_pair(ctx, pdb2sql, case, rep, prop='C07'):
    """runs the requested calls on one reference/decoy pair; returns list of (call, impl, model, specval, verdict)"""
    ref, decoy = case['ref'], case['decoy']
    rp = gen_complex.write_pdb(os.path.join(ctx.scratch, 'ref_c07.pdb'), ref, hetatm=case.get('het_ref'))
    dp = gen_complex.write_pdb(os.path.join(ctx.scratch, 'decoy_c07.pdb'), decoy, hetatm=case.get('het_decoy'))
    ref_t, dec_t = SC.table_atoms(ref), SC.table_atoms(decoy)
    wr, wd = gen_contact.wire_table(ref_t), gen_contact.wire_table(dec_t)
    cutoff = case.get('cutoff', 10)
    # zones and specification pairs
    zq = ctx.model.batch([['rmsd.izone', Fraction(cutoff), wr], ['spec.rmsd.izone', Fraction(cutoff), wr], ['rmsd.lzone', wr],
                          ['spec.rmsd.domain', wd, wr]])
    izone_m, izone_s, lzone_m, domain = zq
    out = []
    if domain != 1:
        rep.skipped['outside-stated-domain'] += 1
        return out
    st, _ = gen_contact.boundary_status(ref_t, cutoff)
    if st != 'ok':
        rep.skipped['float_boundary'] += 1
        return out
    if izone_m != izone_s:
        out.append(({'route': 'compute_izone'}, None, izone_m, izone_s, ('model_vs_spec', 'zone of the model differs from the specification zone')))
        return out
    # the implementation's own zone (in memory)
    try:
        sim = pdb2sql.StructureSimilarity(dp, rp)
        zi = sim.compute_izone(cutoff, save_file=False)
        zi = ['OK', sorted([c, int(n)] for c, l in zi.items() for n in l)]
    except Exception as e:
        zi = ['ERR', exc_class(e)]
    zs = izone_s if izone_s[0] != 'OK' else ['OK', sorted([c, n] for c, n in izone_s[1])]
    if zi != zs:
        out.append(({'route': 'compute_izone'}, zi, izone_m, zs, ('impl_vs_spec', 'interface zone differs from the definition')))
        return out
    if izone_s[0] != 'OK' or lzone_m[0] != 'OK':
        return out
    izone, lzone = izone_s[1], lzone_m[1]
    sp = ctx.model.batch([['spec.rmsd.ipairs', izone, wd, wr], ['spec.rmsd.lpairs', SC.BB, wd, wr]])
    ipairs = SC.dpairs(sp[0])
    lfit, lmeas = (SC.dpairs(sp[1][1][0]), SC.dpairs(sp[1][1][1])) if sp[1][0] == 'OK' else ([], [])
    spec_i = SC.kabsch_value(ipairs, ipairs)
    spec_l = SC.kabsch_value(lfit, lmeas)
    reqs, calls = [], []
    for c in case['calls']:
        route, method, enforce, check = c['route'], c['method'], c['enforce'], c.get('check', True)
        # zone handling of the call: computed in memory (default), written to a zone file that is absent, or read
        # back from the file a previous call of this pair wrote; the value must be the definition's in all three
        zf = None
        if c.get('zone') in ('written', 'read') and route != 'lrmsd_sql':
            zf = os.path.join(ctx.scratch, 'zone_c07' + ('.izone' if route.startswith('irmsd') else '.lzone'))
            if c['zone'] == 'written' and os.path.exists(zf):
                os.remove(zf)
        res, mats = SC.call(pdb2sql, route, dp, rp, enforce, method=method, check=check, zonefile=zf,
                            cutoff=(cutoff if route.startswith('irmsd') else None), flagcar=c.get('flagcar'))
        R = mats[-1] if mats else None
        zone = izone if route.startswith('irmsd') else lzone
        reqs.append(SC.model_request(route, R, zone, dec_t, ref_t, enforce, check=check, cutoff=cutoff,
                                     zone_from_file=(zf is not None and route == 'irmsd_sql')))
        calls.append((c, res))
    mres = ctx.model.batch(reqs)
    if len(rep.model_reqs) < 24:
        rep.model_reqs += reqs[:2]; rep.model_outs += mres[:2]
    for (c, res), m in zip(calls, mres):
        specval = spec_i if c['route'].startswith('irmsd') else spec_l
        verdict = judge(c, res, m, specval, dec_t, ref_t, izone if c['route'].startswith('irmsd') else lzone)
        out.append((c, res, m, specval, verdict))
    for p in (rp, dp, os.path.join(ctx.scratch, 'zone_c07.izone'), os.path.join(ctx.scratch, 'zone_c07.lzone')):
        try: os.remove(p)
        except OSError: pass
    return out

def judge(c, res, m, specval, dec_t, ref_t, zone):
    """verdict of one call: None | 'skip' | (kind, why, extra)"""
    route, enforce, check = c['route'], c['enforce'], c.get('check', True)
    # ---- tie: implementation against the model ----
    tie = None
    if m[0] == 'ERR':
        if m[1] == 'OutOfModel':
            return 'skip'
        if res[0] != 'ERR':
            tie = ('impl_vs_model', f'model raises {m[1]}, implementation returns {res}')
    else:
        if res[0] != 'OK':
            tie = ('impl_vs_model', f'implementation {res}, model msd {float(Q(m[1])):.6g}')
        else:
            msd = Q(m[1]); k = res[1]
            lo = max(k - 0.5 - 2e-4, 0.0); hi = k + 0.5 + 2e-4
            if not (lo * lo <= float(msd) * 1e6 <= hi * hi):
                tie = ('impl_vs_model', f'implementation {k / 1000.0}, model sqrt(msd) {math.sqrt(float(msd)):.6f}')
    # ---- verdict: implementation against the specification (default check=True only) ----
    if not check:
        return tie                               # check=False is outside the documented use ("Should be True"): tie only
    if specval is None:
        ok = res[0] == 'ERR'                     # no common atoms at all: nothing to measure, an error is expected
        return tie if ok else ('impl_vs_spec', 'no common atoms: an error was expected', {})
    if SC.near_tie(specval):
        return 'skip' if tie is None else tie
    if res[0] == 'ERR':
        mism = structures_mismatch(dec_t, ref_t, route)
        if enforce and mism and res[1] == 'ValueError':
            return tie                           # "while residue matching is enforced, the mismatch is reported as an error"
        return ('impl_vs_spec', f'raised {res[1]} although a value ({specval:.4f}) is defined', {'enforce': enforce, 'mismatch': mism})
    if not SC.value_matches(res, specval):
        sel = (lambda a: a[4] in SC.BB)
        return ('impl_vs_spec', f'reported {res[1] / 1000.0} but the definition gives {specval:.4f}',
                {'fast_route': route.endswith('_fast'), 'enforce': enforce,
                 'relative_order_differs': SC.relative_order_differs(dec_t, ref_t, sel)})
    return tie

def structures_mismatch(dec_t, ref_t, route):
    kd = [(a[1], a[2], a[3], a[4]) for a in dec_t]
    kr = [(a[1], a[2], a[3], a[4]) for a in ref_t]
    return kd != kr

def default_calls(rng, n=6):
    calls = []
    for route in ROUTES:
        for method in ('svd', 'quaternion'):
            calls.append({'route': route, 'method': method, 'enforce': False})
    extra = [{'route': rng.choice(ROUTES), 'method': rng.choice(['svd', 'quaternion']), 'enforce': True} for _ in range(2)]
    extra[1]['flagcar'] = rng.choice(['npbool', 'int01'])       # the flag as an element of a boolean array / a 0-1 integer
    extra.append({'route': rng.choice(['irmsd_fast', 'lrmsd_fast', 'lrmsd_sql']), 'method': 'svd', 'enforce': True, 'flagcar': rng.choice(['npbool', 'int01'])})
    extra.append({'route': rng.choice(['irmsd_fast', 'lrmsd_fast']), 'method': 'svd', 'enforce': False, 'check': False})
    r = rng.choice(['irmsd_fast', 'irmsd_fast', 'lrmsd_fast'])      # (the SQL i-RMSD only reads zone files)
    extra.append({'route': r, 'method': 'svd', 'enforce': False, 'zone': 'written'})
    extra.append({'route': r if r != 'irmsd_fast' or rng.random() < 0.5 else 'irmsd_sql', 'method': 'svd', 'enforce': False, 'zone': 'read'})
    return calls + extra

def record(rep, case, feats, results, nontrivial):
    rep.case(case, sorted(feats), nontrivial=nontrivial)
    for c, res, m, specval, verdict in results:
        if verdict is None:
            continue
        if verdict == 'skip':
            rep.skipped['rounding_tie_or_out_of_model'] += 1
            continue
        kind, why = verdict[0], verdict[1]
        extra = verdict[2] if len(verdict) > 2 else {}
        sub = dict(case); sub['calls'] = [c]
        if kind == 'model_vs_spec':
            kind = 'impl_vs_model'
        rep.mismatch(kind, sub, why=why, call=c, impl=res, model=(m if m and m[0] == 'ERR' else None), spec_value=specval, **extra)

def explore(ctx, tier, rng, search=False):
    rep = Report()
    pdb2sql = import_impl()
    n = (150 if search else 300) if (tier == 'thorough' or search) else 30
    cdir = os.path.join(VERIF, 'corpus', ID)
    cases = []
    if os.path.isdir(cdir):
        for f in sorted(os.listdir(cdir)):
            c = json.load(open(os.path.join(cdir, f))); cases.append((c.get('case', c), {'corpus'}))
    for k in range(n):
        ref, decoy, feats = gen_pair(rng, permute=(rng.random() < 0.12))
        if ref is None:
            continue
        case = {'ref': ref, 'decoy': decoy, 'cutoff': rng.choice([10, 10, 10, 5, 8, 12, 3.5]), 'calls': default_calls(rng)}
        if rng.random() < 0.3:
            # HETATM records (waters, ions) in both files: not atoms of the structures, every routine must ignore them
            het = gen_complex.gen_hetatm(rng, ref)
            case['het_ref'] = het
            case['het_decoy'] = [dict(h, x=round(h['x'] + rng.uniform(-3, 3), 3)) for h in het]
            feats = set(feats) | {'hetatm-records'}
        cases.append((case, feats))
    for case, feats in cases:
        try:
            results = evaluate_pair(ctx, pdb2sql, case, rep)
        except Exception as e:
            rep.case(case, sorted(feats)); rep.mismatch('impl_vs_spec', case, why='harness exception ' + exc_class(e) + ': ' + str(e)[:300])
            continue
        rep.evaluations += max(0, len(results) - 1)
        record(rep, case, feats, results, bool(feats & {'rigid-motion', 'ligand-displaced', 'decoy-incomplete', 'ref-incomplete', 'negative-numbering', 'permuted'}))
    rep.input_distribution = {'pairs': n, 'calls_per_pair': 13, 'cutoffs': [3.5, 5, 8, 10, 12]}
    return rep

def replay(ctx, case):
    pdb2sql = import_impl()
    rep = Report()
    results = evaluate_pair(ctx, pdb2sql, case, rep)
    bad = [r for r in results if isinstance(r[4], tuple) and r[4][0] == 'impl_vs_spec']
    return not bad, (bad[0][4][1] if bad else 'ok')
