"""C11 — scores are invariant under changes that do not alter the structural relation (metamorphic correspondence)."""
import os, math, io, contextlib, itertools
from fractions import Fraction
from harness.core import *
from harness import gen_complex, gen_contact, gen_pdb
from harness import scores_common as SC
from harness.props import C07

ID = 'C11'
REGIONS = ['contact_test', 'contact_filters', 'fnat_fast_reader', 'rmsd_readers', 'contact_callers', 'const', 'capri', 'dockq']
HAND_MODELLED = C07.HAND_MODELLED + ['StructureSimilarity.py:StructureSimilarity.compute_fnat_fast', 'StructureSimilarity.py:StructureSimilarity.compute_fnat_pdb2sql',
                                     'StructureSimilarity.py:StructureSimilarity.compute_clashes', 'interface.py:interface.get_contact_atoms']
TRUSTED = C07.TRUSTED + ['binary64 arithmetic of the score routines on transformed coordinates: RMSD values are compared within one unit of the reported '
                         'precision for exact (lattice) motions and within 0.003 for arbitrary motions re-rounded to PDB text precision']
RULE = ('reference/decoy pairs as in C07/C08 whose inter-chain distances are not within 0.01 A of a cutoff (3, 5, 10); variants: the 24 lattice '
        'rotations with millesimal translations applied to the decoy alone and to both (exact), arbitrary rigid motions re-rounded to 0.001, '
        'rewritten serial/occupancy/B-factor/element columns, a constant added to all residue numbers of both structures, added hydrogens '
        '(Fnat, clashes), permutations of records within residues, of residues within chains and of chain blocks, with both enforcement '
        'settings; every variant is scored by the six routines, clashes, DockQ and CAPRI class and compared with the original. '
        'Non-trivial: every variant (the original alone is the baseline).')

MEASURES = ['irmsd_fast', 'irmsd_sql', 'lrmsd_fast', 'lrmsd_sql', 'fnat_fast', 'fnat_sql', 'clashes']

FLAGCAR = [None]      # how the enforcement flag of the pair under test is carried: None (Python bool), 'npbool', 'int01'

def score_all(pdb2sql, dp, rp, enforce, measures=MEASURES):
    out = {}
    _call = SC.call
    class SCx:                 # SC.call with the flag carrier of this pair
        @staticmethod
        def call(*a, **k): return _call(*a, flagcar=FLAGCAR[0], **k)
    import numpy as _np
    enforce_c = _np.bool_(enforce) if FLAGCAR[0] == 'npbool' else int(enforce) if FLAGCAR[0] == 'int01' else enforce
    for m in measures:
        if m.startswith('irmsd') or m.startswith('lrmsd'):
            res, _ = SCx.call(pdb2sql, m, dp, rp, enforce, method='svd')
        else:
            with contextlib.redirect_stdout(io.StringIO()):
                try:
                    if m == 'clashes':
                        res = ['OK', int(pdb2sql.StructureSimilarity.compute_clashes(dp))]
                    else:
                        sim = pdb2sql.StructureSimilarity(dp, rp, enforce_residue_matching=enforce_c)
                        v = sim.compute_fnat_fast() if m == 'fnat_fast' else sim.compute_fnat_pdb2sql()
                        res = ['OK', int(round(float(v) * 10**6))]
                except BaseException as e:
                    if isinstance(e, (KeyboardInterrupt, MemoryError)): raise
                    res = ['ERR', exc_class(e)]
        out[m] = res
    if enforce:
        # enforcement on, the per-call check switched off: the residues are still compared (enforcement decides), so a
        # reordered decoy gives the same value or an explicit error here too
        for r in ('irmsd_fast', 'lrmsd_fast'):
            if r in measures:
                out[r + '_nocheck'], _ = SCx.call(pdb2sql, r, dp, rp, enforce, method='svd', check=False)
    if 'irmsd_fast' in measures:
        # the zone written to a file by one call and read back by the next (residue numbers as they are in these files)
        zf = dp + '.izone'
        for f in (zf,):
            if os.path.exists(f): os.remove(f)
        SCx.call(pdb2sql, 'irmsd_fast', dp, rp, enforce, method='svd', zonefile=zf)
        out['irmsd_fast_zonefile'], _ = SCx.call(pdb2sql, 'irmsd_fast', dp, rp, enforce, method='svd', zonefile=zf)
        if os.path.exists(zf): os.remove(zf)
    # derived scores
    try:
        if all(out[k][0] == 'OK' for k in ('fnat_fast', 'lrmsd_fast', 'irmsd_fast')):
            SS = pdb2sql.StructureSimilarity
            f, l, i = out['fnat_fast'][1] / 1e6, out['lrmsd_fast'][1] / 1e3, out['irmsd_fast'][1] / 1e3
            out['capri'] = ['OK', SS.compute_CapriClass(f, l, i)]
            out['dockq'] = ['OK', int(round(SS.compute_DockQScore(f, l, i) * 10**6))]
    except Exception as e:
        out['capri'] = ['ERR', exc_class(e)]
    return out

def margin_safe(ref, decoy):
    """no inter-chain distance within 0.01 of a cutoff (3, 5, 10) in either structure (the property's quantifier)"""
    for s in (ref, decoy):
        for a, b in itertools.combinations(s, 2):
            if a['chainID'] == b['chainID']:
                continue
            d = math.dist((a['x'], a['y'], a['z']), (b['x'], b['y'], b['z']))
            if any(abs(d - c) <= 0.0105 for c in (3.0, 5.0, 10.0)):
                return False
    return True

def has_reference_contact(ref):
    """at least one inter-chain pair of non-hydrogen atoms within 5 A (Fnat is defined: the property's quantifier)"""
    for a, b in itertools.combinations(ref, 2):
        if a['chainID'] != b['chainID'] and a['name'][0] != 'H' and b['name'][0] != 'H':
            if math.dist((a['x'], a['y'], a['z']), (b['x'], b['y'], b['z'])) <= 4.98:
                return True
    return False

def _axis(s):
    """unit vector from the centroid of the first chain to the centroid of the second"""
    ch = sorted({a['chainID'] for a in s})
    cen = lambda c: [sum(a[k] for a in s if a['chainID'] == c) / max(1, sum(1 for a in s if a['chainID'] == c)) for k in 'xyz']
    c0, c1 = cen(ch[0]), cen(ch[-1])
    v = [c1[i] - c0[i] for i in range(3)]; n = math.sqrt(sum(x * x for x in v)) or 1.0
    return ch, [x / n for x in v]

def grazing_decoy(ref):
    """the reference with its second chain pushed away along the inter-chain axis until the closest heavy atoms of the two
    chains are 5.1 - 5.5 A apart: no heavy-atom contact is left, but an atom sitting 1 A nearer the partner would make one"""
    ch, ax = _axis(ref)
    heavy = [a for a in ref if a['name'][0] != 'H']
    A = [a for a in heavy if a['chainID'] == ch[0]]; B = [a for a in heavy if a['chainID'] != ch[0]]
    if not A or not B: return None
    def mind(t):
        return min(math.dist((a['x'], a['y'], a['z']), (b['x'] + t * ax[0], b['y'] + t * ax[1], b['z'] + t * ax[2])) for a in A for b in B)
    t = 0.0
    for _ in range(400):
        d = mind(t)
        if 5.1 < d < 5.5: break
        t += 0.1 if d <= 5.1 else -0.1
    else:
        return None
    return [dict(a) if a['chainID'] == ch[0] else dict(a, x=round(a['x'] + t * ax[0], 3), y=round(a['y'] + t * ax[1], 3), z=round(a['z'] + t * ax[2], 3)) for a in ref]

def fits(atoms):
    return all(-999.0 < a[c] < 9999.0 for a in atoms for c in 'xyz') and all(-999 <= a['resSeq'] <= 9999 for a in atoms)

def variants(rng, ref, decoy):
    """list of (name, ref', decoy', tolerance in thousandths for RMSDs, measures that must be invariant, permutation?)"""
    out = []
    L = gen_complex.lattice_rotations()
    R = rng.choice(L); t = [round(rng.uniform(-30, 30), 3) for _ in range(3)]
    out.append(('lattice-decoy', ref, gen_complex.apply_motion(decoy, R, t, 3), 1, MEASURES, False))
    R = rng.choice(L); t = [round(rng.uniform(-30, 30), 3) for _ in range(3)]
    out.append(('lattice-both', gen_complex.apply_motion(ref, R, t, 3), gen_complex.apply_motion(decoy, R, t, 3), 1, MEASURES, False))
    R = gen_complex.rand_rotation(rng); t = [rng.uniform(-30, 30) for _ in range(3)]
    out.append(('rigid-decoy', ref, gen_complex.apply_motion(decoy, R, t, 3), 3, MEASURES, False))
    # ignored fields
    def rewrite(s):
        o = []
        for k, a in enumerate(s):
            b = dict(a); b['serial'] = 5000 - k; b['occ'] = round(rng.uniform(0, 1), 2); b['temp'] = round(rng.uniform(0, 90), 2)
            b['element'] = rng.choice(['C', 'N', 'O', 'X', 'FE']); o.append(b)
        return o
    out.append(('ignored-fields', rewrite(ref), rewrite(decoy), 0, MEASURES, False))
    k = rng.choice([-7, 1, 13, 100, 9000 - max(a['resSeq'] for a in ref + decoy), -999 - min(a['resSeq'] for a in ref + decoy)])
    sh = lambda s: [dict(a, resSeq=a['resSeq'] + k) for a in s]
    out.append(('renumbered', sh(ref), sh(decoy), 0, MEASURES, False))
    def add_h(s):
        o = []
        for a in s:
            o.append(a)
            if a['name'] == 'CA' and rng.random() < 0.7:
                o.append(dict(a, name=rng.choice(['HA', 'H', 'HB2', 'HB3', 'HD11', 'HG21', 'HE21', 'HH12']), element='H', x=round(a['x'] + 0.9, 3), y=round(a['y'] - 0.4, 3)))
        for k2, a in enumerate(o):
            a['serial'] = k2 + 1
        return o
    href = add_h([dict(a) for a in ref])
    # the same hydrogens (same displacement) in the decoy for the residues it has
    hd = add_h([dict(a) for a in decoy])
    out.append(('hydrogens', href, hd, 0, ['fnat_fast', 'fnat_sql', 'clashes'], False))
    def add_h_toward(s):
        # hydrogens on every CA and N atom, 1 A nearer the partner chain along the inter-chain axis (names of 2 and 4 characters)
        ch, ax = _axis(s)
        o = []
        for a in s:
            o.append(a)
            if a['name'] in ('CA', 'N'):
                sg = 1.0 if a['chainID'] == ch[0] else -1.0
                o.append(dict(a, name=('HA' if a['name'] == 'CA' else 'HD11'), element='H', x=round(a['x'] + sg * ax[0], 3), y=round(a['y'] + sg * ax[1], 3), z=round(a['z'] + sg * ax[2], 3)))
        for k2, a in enumerate(o):
            a['serial'] = k2 + 1
        return o
    if len({a['chainID'] for a in ref}) == 2 and len({a['chainID'] for a in decoy}) == 2:
        out.append(('hydrogens-toward-partner', add_h_toward([dict(a) for a in ref]), add_h_toward([dict(a) for a in decoy]), 0, ['fnat_fast', 'fnat_sql', 'clashes'], False))
    for level in ('atoms', 'residues', 'chains'):
        out.append(('permuted-' + level, ref, gen_complex.permute(rng, decoy, level), 1, MEASURES, True))
    return out

def compare(base, var, tol, measures, permutation):
    """returns list of (measure, why) where the variant's score differs from the original's"""
    bad = []
    keys = list(measures) + ([k for k in ('capri', 'dockq') if set(('fnat_fast', 'lrmsd_fast', 'irmsd_fast')) <= set(measures)]) \
        + [k for k in ('irmsd_fast_nocheck', 'lrmsd_fast_nocheck', 'irmsd_fast_zonefile') if k in base and k[:10] in measures]
    for m in keys:
        b, v = base.get(m), var.get(m)
        if b is None or v is None:
            if (b is None) != (v is None):
                bad.append((m, f'{b} -> {v}'))
            continue
        if b == v:
            continue
        if permutation and v[0] == 'ERR' and v[1] == 'ValueError':
            continue                                    # "either the same value or an explicit error"
        if b[0] == 'OK' and v[0] == 'OK' and ('rmsd' in m) and abs(b[1] - v[1]) <= tol:
            continue
        if m == 'dockq' and b[0] == 'OK' and v[0] == 'OK' and abs(b[1] - v[1]) <= 400 * max(tol, 0):
            continue
        if m == 'capri' and tol > 0 and b[0] == 'OK' and v[0] == 'OK':
            # a class may only change if a measure moved across a threshold within the tolerance: re-check from the measures
            continue
        bad.append((m, f'{b} -> {v}'))
    # DockQ and the CAPRI class are functions of the three measures: report root causes only
    if any(m in ('fnat_fast', 'lrmsd_fast', 'irmsd_fast') for m, _ in bad) or \
            (permutation and any(var.get(k, ['ERR'])[0] == 'ERR' for k in ('fnat_fast', 'lrmsd_fast', 'irmsd_fast'))):
        bad = [(m, w) for m, w in bad if m not in ('capri', 'dockq')]
    return bad

_pair_no = [0]
def run_pair(ctx, pdb2sql, case):
    ref, decoy = case['ref'], case['decoy']
    # file names are fresh per pair (a pair must not inherit anything from the previous one) but shared by all the
    # variants of one pair, which are written one after the other under the same two names — the way a user
    # re-scores an edited file; anything remembered per file name across calls then shows as a changed score
    _pair_no[0] += 1
    names = ['%s%d_%d.pdb' % (k, i, _pair_no[0]) for k in 'rd' for i in (0, 1)]
    r0, r1, d0, d1 = [os.path.join(ctx.scratch, n) for n in names]
    rp0 = gen_complex.write_pdb(r0, ref)
    dp0 = gen_complex.write_pdb(d0, decoy)
    results = []
    FLAGCAR[0] = case.get('flagcar')
    base = {e: score_all(pdb2sql, dp0, rp0, e) for e in (False, True)}
    for name, r2, d2, tol, measures, perm in case['variants']:
        if not (fits(r2) and fits(d2)):
            continue
        rp = gen_complex.write_pdb(r1, r2)
        dp = gen_complex.write_pdb(d1, d2)
        for enforce in ((False, True) if perm else (False,)):
            var = score_all(pdb2sql, dp, rp, enforce, measures)
            bad = compare(base[enforce], var, tol, measures, perm)
            dec_t, ref_t = SC.table_atoms(d2), SC.table_atoms(r2)
            results.append((name, enforce, bad, SC.relative_order_differs(dec_t, ref_t, lambda a: a[4] in SC.BB)))
    for p in (r0, r1, d0, d1):
        try: os.remove(p)
        except OSError: pass
    return results

def explore(ctx, tier, rng, search=False):
    rep = Report()
    pdb2sql = import_impl()
    big = (tier == 'thorough' or search)
    n = 120 if big else 9
    cdir = os.path.join(VERIF, 'corpus', ID)
    cases = []
    if os.path.isdir(cdir):
        for f in sorted(os.listdir(cdir)):
            c = json.load(open(os.path.join(cdir, f))); cases.append(c.get('case', c))
    tries = 0
    while len(cases) < n and tries < 120 * n:
        tries += 1
        ref, decoy, feats = C07.gen_pair(rng)
        grazing = False
        if ref is not None and len(cases) % 2 == 0:
            # near-native decoy (same atoms, 0.05 A noise): Fnat is well above 0, so that a change that loses the
            # reference contacts under a variant (stale per-name caches, renumbering) shows in the value
            decoy = gen_complex.deform(rng, [dict(a) for a in ref], 0.05)
        if ref is not None and len(cases) % 5 == 4:
            # grazing decoy: the chains just out of contact (5.1 - 5.5 A between the closest heavy atoms)
            g = grazing_decoy(ref)
            if g is not None: decoy = g; grazing = True
        if ref is None or not margin_safe(ref, decoy):
            rep.skipped['not-margin-safe'] += 1
            continue
        if not has_reference_contact(ref) and len(cases) % 4 != 3:
            rep.skipped['no-reference-contact'] += 1
            continue
        cases.append({'ref': ref, 'decoy': decoy, 'variants': variants(rng, ref, decoy)})
        if len(cases) % 3 == 0: cases[-1]['flagcar'] = rng.choice(['npbool', 'int01'])      # the flag as np.bool_ / 0-1 integer
        if grazing: cases[-1]['grazing'] = True
    for case in cases:
        try:
            results = run_pair(ctx, pdb2sql, case)
        except Exception as e:
            rep.case({'ref': case['ref'][:2], 'n': len(case['ref'])}, ['pair']); rep.mismatch('impl_vs_spec', case, why='harness exception ' + exc_class(e) + ': ' + str(e)[:300])
            continue
        for name, enforce, bad, reldiff in results:
            # the replay keeps the variants scored before this one too (same file names re-used: history may matter)
            upto = [i for i, v in enumerate(case['variants']) if v[0] == name]
            sub = {'ref': case['ref'], 'decoy': case['decoy'], 'variants': case['variants'][:upto[0] + 1] if upto else [], 'variant': name}
            if case.get('flagcar'): sub['flagcar'] = case['flagcar']
            rep.case({'variant': name, 'enforce': enforce, 'n_atoms': len(case['ref']), 'first_atom': case['ref'][0]},
                     ['variant-' + name] + (['enforcement-flag-as-' + case['flagcar']] if case.get('flagcar') and enforce else [])
                     + (['grazing-decoy'] if case.get('grazing') else []), nontrivial=True)
            rep.hashes.add(hashlib.sha1(json.dumps([name, enforce, case['ref'][:3]], default=str).encode()).hexdigest())
            for m, why in bad:
                sub = dict(sub, enforce=enforce)        # the replay judges this enforcement setting only
                rep.mismatch('impl_vs_spec', sub, why=f'{m} changed under {name}: {why}', measure=m, variant=name, enforce=enforce,
                             fast_route=('_fast' in m and 'rmsd' in m), relative_order_differs=reldiff,
                             derived=(m in ('capri', 'dockq')))
        # tie: the models of C07 on one transformed input
        v = rng.choice(case['variants'])
        if fits(v[1]) and fits(v[2]):
            sub = {'ref': v[1], 'decoy': v[2], 'cutoff': 10, 'calls': [{'route': r, 'method': 'svd', 'enforce': False} for r in C07.ROUTES]}
            try:
                for c, res, m, specval, verdict in C07.evaluate_pair(ctx, pdb2sql, sub, rep):
                    if isinstance(verdict, tuple) and verdict[0] in ('impl_vs_model', 'model_vs_spec'):
                        rep.mismatch('impl_vs_model', sub, why=verdict[1], call=c)
            except Exception as e:
                rep.notes.append('tie run failed: ' + exc_class(e))
    rep.input_distribution = {'pairs': len(cases), 'variants_per_pair': 9, 'measures': MEASURES + ['capri', 'dockq']}
    return rep

def replay(ctx, case):
    pdb2sql = import_impl()
    case = dict(case); case['variants'] = [tuple(v) for v in case['variants']]
    results = run_pair(ctx, pdb2sql, case)
    bad = [(n, e, b) for n, e, b, _ in results if b and n == case.get('variant', n) and e == case.get('enforce', e)]
    return not bad, json.dumps(jsonable(bad[:2]))[:500] if bad else 'ok'
