"""C13 — superpose(): one rigid motion of the whole structure, optimal on the shared selection."""
import os, sys, math
import numpy as np
from fractions import Fraction
from harness.core import *
from harness import gen_pdb, gen_complex
from harness.props.C01 import canon_rows

ID = 'C13'
REGIONS = ['const']
HAND_MODELLED = ['superpose.py:superpose', 'superpose.py:superpose_selection', 'superpose.py:get_intersection', 'superpose.py:get_trans_vect']
TRUSTED = ['the rotation returned by get_rotation_matrix is recorded from the real call and handed to the model as exact rationals '
           '(its optimality is property C06; here it is re-checked against an independent Kabsch minimum computed by the harness in binary64, tolerance 1e-6)',
           'NumPy array arithmetic in superpose_selection is compared with exact rational arithmetic within 1e-9']
RULE = ('targets of 2 chains (3-8 residues each, backbone + side chains), mobiles derived by deformation, rigid displacement (exact floating '
        'copy), deletion of atoms/residues on either side (equal or unequal selection sizes) and record permutation; selections by chain, '
        'residue list, atom names, backbone-only or not; both methods; export on/off with path inputs (directory snapshot), export off also as 0 / np.False_ / None / empty string; objects built from a file and moved in memory; selections of exactly two atoms. Non-trivial: '
        'the mobile differs from the target by more than a deformation (displacement, deletion or permutation).')

def rows_vec(rows):
    return [[Fraction(r[7][1], r[7][2]), Fraction(r[8][1], r[8][2]), Fraction(r[9][1], r[9][2])] for r in rows]

def sel_filter(rows, kwargs):
    out = []
    for r in rows:
        a = {k: (v[1] if v[0] in 'IT' else None) for k, v in zip(gen_pdb.COLS, r)}
        ok = True
        for k, v in kwargs.items():
            vals = v if isinstance(v, list) else [v]
            if a[k] not in vals:
                ok = False
        if ok:
            out.append(r)
    return out

def kabsch_min_rmsd(P, Q):
    """independent Kabsch in binary64: the minimum RMSD over all rigid motions, computed directly from the optimal rotation"""
    P = np.array([[float(x) for x in p] for p in P]); Q = np.array([[float(x) for x in q] for q in Q])
    n = len(P)
    if n == 0:
        return None
    P = P - P.mean(0); Q = Q - Q.mean(0)
    A = P.T @ Q
    V, s, Wt = np.linalg.svd(A)
    d = np.sign(np.linalg.det(V @ Wt))
    D = np.diag([1.0, 1.0, d if d != 0 else 1.0])
    U = (V @ D @ Wt).T
    diff = (U @ P.T).T - Q
    return math.sqrt((diff ** 2).sum() / n)

def make_db(pdb2sql, atoms, exact=None):
    db = pdb2sql.pdb2sql(gen_complex.lines_of(atoms))
    if exact is not None:
        for i, c in enumerate('xyz'):
            db.update_column(c, [float(v[i]) for v in exact])
    return db

def run_case(ctx, pdb2sql, case):
    sup = sys.modules['pdb2sql.superpose']
    rec = {}
    orig = sup.get_rotation_matrix
    def wrapper(p, q, method='svd'):
        m = orig(p, q, method=method)
        rec['R'] = np.array(m, dtype=float)
        rec['n'] = len(p)
        return m
    target_atoms, mobile_atoms = case['target'], case['mobile']
    kwargs = dict(case['kwargs'])
    d0 = set(os.listdir('.'))
    use_paths = case['export'] or bool(case.get('objects_from_files'))
    if use_paths:
        tp = gen_complex.write_pdb(os.path.join(ctx.scratch, 'tgt.pdb'), target_atoms)
        mp = gen_complex.write_pdb(os.path.join(ctx.scratch, 'mob.pdb'), mobile_atoms)
        d0 = set(os.listdir('.'))
        tdb = pdb2sql.pdb2sql(tp); mdb = pdb2sql.pdb2sql(mp)
        t_text = open(tp).read()
        if case.get('objects_from_files') and case.get('mobile_exact') is not None:
            # the object was built from a file and then moved in memory: what it holds NOW is the structure
            for i, c in enumerate('xyz'):
                mdb.update_column(c, [float(v[i]) for v in case['mobile_exact']])
    else:
        tdb = make_db(pdb2sql, target_atoms)
        mdb = make_db(pdb2sql, mobile_atoms, case.get('mobile_exact'))
    t_before = canon_rows(tdb.get('*')); m_before = canon_rows(mdb.get('*'))
    export_arg = case['export']
    if not case['export'] and case.get('export_carrier'):
        # "no export" said with another false value than the object False
        export_arg = {'int0': 0, 'npfalse': np.False_, 'npbool0': np.bool_(0), 'none': None, 'empty': ''}[case['export_carrier']]
    sup.get_rotation_matrix = wrapper
    try:
        try:
            if use_paths and case.get('by_path'):
                # mobile and target given as file names (always the same two names, rewritten for every case of the run)
                ret = pdb2sql.superpose(mp, tp, method=case['method'], only_backbone=case['only_backbone'], export=export_arg, **kwargs)
                mdb._close(); mdb = ret
                if open(tp).read() != t_text:
                    raise AssertionError('the target FILE was modified')
            else:
                ret = pdb2sql.superpose(mdb, tdb, method=case['method'], only_backbone=case['only_backbone'], export=export_arg, **kwargs)
            err = None
        except Exception as e:
            ret, err = None, exc_class(e) + ': ' + str(e)[:200]
    finally:
        sup.get_rotation_matrix = orig
    t_after = canon_rows(tdb.get('*')); m_after = canon_rows(mdb.get('*'))
    d1 = set(os.listdir('.'))
    newfiles = sorted(d1 - d0)
    out = {'err': err, 'newfiles': newfiles}
    exported = None
    for f in newfiles:
        if f.endswith('.pdb'):
            exported = open(f).read().split('\n')
        os.remove(f)
    tdb._close(); mdb._close()
    if err:
        return out, ('impl_vs_spec', dict(why='superpose raised', error=err))
    # selections as the library sees them
    k2 = dict(kwargs)
    if case['only_backbone']:
        k2['name'] = ['CA', 'C', 'N', 'O']
    sm, st = sel_filter(m_before, k2), sel_filter(t_before, k2)
    R = rec.get('R')
    kernel_called = R is not None
    if R is None:
        # the library did not ask the kernel for a rotation (allowed only if leaving the mobile where it is IS optimal):
        # judge the outcome as the identity motion; there is nothing to feed the model with, so the tie is skipped
        R = np.eye(3)
    Rq = [[Fraction(float(R[i][j])) for j in range(3)] for i in range(3)]
    reqs = [['superpose.model', Rq, m_before, sm, st], ['spec.superpose.shared_pairs', sm, st],
            ['spec.superpose.is_rotation', Fraction(1, 10**9), Rq], ['superpose.paired', sm, st]]
    new_model, shared, isrot, paired = ctx.model.batch(reqs)
    if new_model[0] != 'OK' or paired[0] != 'OK':
        return out, ('impl_vs_model', dict(why='model rejects the selections', model=new_model))
    new_model, paired = new_model[1], paired[1]
    out['reqs'], out['outs'] = reqs[1:3], [shared, isrot]
    new_impl = rows_vec(m_after)
    scale = 1 + max(abs(float(x)) for v in new_impl for x in v)
    # --- verdict against the specification ---
    if t_after != t_before:
        return out, ('impl_vs_spec', dict(why='target was modified'))
    if len(m_after) != len(m_before) or any(a[:7] != b[:7] or a[10:] != b[10:] for a, b in zip(m_after, m_before)):
        return out, ('impl_vs_spec', dict(why='mobile attributes other than coordinates, atom count or order changed'))
    if isrot != 1:
        return out, ('impl_vs_spec', dict(why='the applied matrix is not a proper rotation', R=R.tolist()))
    # one rigid motion: new = R old + t for all atoms, t from the first atom
    old = rows_vec(m_before)
    t = [float(new_impl[0][i]) - sum(float(Rq[i][j]) * float(old[0][j]) for j in range(3)) for i in range(3)]
    for o, nw in zip(old, new_impl):
        pred = [sum(float(Rq[i][j]) * float(o[j]) for j in range(3)) + t[i] for i in range(3)]
        if any(abs(pred[i] - float(nw[i])) > 1e-7 * scale for i in range(3)):
            return out, ('impl_vs_spec', dict(why='atoms were not all moved by one and the same rigid motion', atom=[float(x) for x in o]))
    # optimal on the identity-matched shared selection
    P_id = [[Q(x) for x in v] for v in shared[0]]; Q_id = [[Q(x) for x in v] for v in shared[1]]
    if len(P_id) >= 2:
        # (two pairs: the optimal rotation is not unique, the minimum RMSD on the fitted pairs is)
        # where did the shared mobile atoms go?
        key = {tuple(o): nw for o, nw in zip(map(tuple, old), new_impl)}
        moved = [key[tuple(p)] for p in P_id]
        rmsd = math.sqrt(sum(sum((float(a[i]) - float(b[i])) ** 2 for i in range(3)) for a, b in zip(moved, Q_id)) / len(P_id))
        best = kabsch_min_rmsd(P_id, Q_id)
        # also allow translation freedom: Kabsch on centred sets is the global optimum over rigid motions
        out['rmsd'], out['best'] = rmsd, best
        # when the selection sizes differ the pairs come from many2sql built on the EXPORTED TEXT of both structures
        # (superpose.get_intersection), i.e. the rotation is fitted on coordinates rounded to 0.001: minimal to text precision
        tol = 1e-6 * scale if len(sm) == len(st) else 1.5e-3
        if rmsd > best + tol:
            positional = (Q(paired[0][0][0]) if paired[0] else None)
            return out, ('impl_vs_spec', dict(why='not optimal on the shared (identity-matched) selection', rmsd=rmsd, best=best,
                                              equal_sizes=(len(sm) == len(st)), pairing_differs=(paired != shared)))
    if case.get('rigid_copy') and len(P_id) >= 4:
        tv = rows_vec(t_before)
        tk = {json.dumps(r[:7]): v for r, v in zip(t_before, tv)}
        for r, nw in zip(m_after, new_impl):
            if json.dumps(r[:7]) in tk:
                if any(abs(float(nw[i]) - float(tk[json.dumps(r[:7])][i])) > 1e-5 * scale for i in range(3)):
                    return out, ('impl_vs_spec', dict(why='a rigidly displaced copy did not land on the target', atom=r[:7]))
    # files
    if not case['export'] and newfiles:
        return out, ('impl_vs_spec', dict(why='a file was written although export=False', files=newfiles))
    if case['export']:
        # the name is derived from the input names with rstrip('.pdb') (a character-set strip: 'mob.pdb' -> 'mo'; DESIGN Appendix A)
        if len(newfiles) != 1 or not newfiles[0].endswith('_superposed_on_tgt.pdb'):
            return out, ('impl_vs_spec', dict(why='export=True must write exactly one file, the requested export', files=newfiles))
    # --- tie: implementation against the model ---
    if not kernel_called:
        return out, None
    nm = [[Q(x) for x in v] for v in new_model]
    if len(nm) != len(new_impl) or any(abs(float(a[i]) - float(b[i])) > 1e-8 * scale for a, b in zip(nm, new_impl) for i in range(3)):
        return out, ('impl_vs_model', dict(why='coordinates differ from the model fed with the recorded rotation'))
    return out, None

def gen_case(rng):
    feats = set()
    target = gen_complex.gen_complex(rng, nres=(3, 7))
    mobile = [dict(a) for a in target]
    case = {'method': rng.choice(['svd', 'quaternion']), 'only_backbone': rng.random() < 0.6, 'export': rng.random() < 0.2}
    k = rng.random()
    if k < 0.08 and not case['export']:
        # far from the origin, displaced only slightly: a structure around (5000, 5000, 5000) rotated by ~1e-3 rad about
        # its centroid and shifted by ~0.01 A must still be brought back onto the target
        off = [rng.uniform(3000, 8000) for _ in range(3)]
        for a in target:
            for c, o in zip('xyz', off):
                a[c] = round(a[c] + o, 3)
        mobile = [dict(a) for a in target]
        cen = [sum(a[c] for a in mobile) / len(mobile) for c in 'xyz']
        ax = [rng.gauss(0, 1) for _ in range(3)]; nrm = math.sqrt(sum(x * x for x in ax)); ax = [x / nrm for x in ax]
        ang = rng.uniform(5e-4, 1.5e-3); ca, sa = math.cos(ang), math.sin(ang)
        R = [[ca + ax[i] * ax[j] * (1 - ca) if i == j else ax[i] * ax[j] * (1 - ca) + sa * (0, -ax[2], ax[1], ax[2], 0, -ax[0], -ax[1], ax[0], 0)[3 * i + j]
              for j in range(3)] for i in range(3)]
        t = [rng.uniform(-0.01, 0.01) for _ in range(3)]
        ex = []
        for a in mobile:
            v = [a[c] - cen[i] for i, c in enumerate('xyz')]
            ex.append([sum(R[i][j] * v[j] for j in range(3)) + cen[i] + t[i] for i in range(3)])
        case['mobile_exact'] = ex
        feats.add('far-from-origin-small-displacement')
    elif k < 0.3:
        R = gen_complex.rand_rotation(rng); t = [rng.uniform(-20, 20) for _ in range(3)]
        moved = gen_complex.apply_motion(mobile, R, t, ndigits=None)
        case['mobile_exact'] = [[a['x'], a['y'], a['z']] for a in moved]
        if not case['export']:
            case['rigid_copy'] = True
            feats.add('rigid-copy')
        else:
            mobile = gen_complex.apply_motion(mobile, R, t, ndigits=3)
            case.pop('mobile_exact')
            feats.add('displaced')
    else:
        mobile = gen_complex.deform(rng, mobile, rng.choice([0.1, 0.5, 2.0]))
        if rng.random() < 0.6:
            R = gen_complex.rand_rotation(rng); t = [rng.uniform(-20, 20) for _ in range(3)]
            mobile = gen_complex.apply_motion(mobile, R, t, ndigits=3); feats.add('displaced')
    if rng.random() < 0.45 and 'mobile_exact' not in case:
        mobile = gen_complex.delete_some(rng, mobile, 0.1, 0.1); feats.add('mobile-deletion')
    if rng.random() < 0.3:
        target = gen_complex.delete_some(rng, target, 0.08, 0.08); feats.add('target-deletion')
        if 'mobile_exact' in case:
            case.pop('rigid_copy', None)
    if rng.random() < 0.12 and 'mobile_exact' not in case:
        mobile = gen_complex.permute(rng, mobile, rng.choice(['atoms', 'residues'])); feats.add('permutation')
    sel = rng.choice([{}, {'chainID': 'A'}, {'chainID': 'B'}, {'chainID': ['A', 'B']}])
    if not case['only_backbone'] and rng.random() < 0.5:
        sel = dict(sel); sel['name'] = rng.choice([['CA'], ['CA', 'CB', 'N'], ['N', 'CA', 'C', 'O', 'CB']])
    if 'mobile-deletion' in feats and rng.random() < 0.4:
        # a point mutation: one residue of the mobile carries another residue name (its atoms are then NOT the same
        # atoms as the target's: identity is chain, residue number, residue NAME and atom name)
        keys = sorted({(a['chainID'], a['resSeq']) for a in mobile})
        kmut = rng.choice(keys)
        for a in mobile:
            if (a['chainID'], a['resSeq']) == kmut:
                a['resName'] = 'TRP' if a['resName'] != 'TRP' else 'GLY'
        feats.add('mutated-residue')
    if case['export'] and rng.random() < 0.6:
        case['by_path'] = True; feats.add('inputs-by-file-name')
    if not case['export'] and rng.random() < 0.3:
        case['export_carrier'] = rng.choice(['int0', 'npfalse', 'npbool0', 'none', 'empty']); feats.add('no-export-as-' + case['export_carrier'])
    if not case['export'] and 'mobile_exact' in case and rng.random() < 0.5:
        case['objects_from_files'] = True; feats.add('object-built-from-file-then-moved')
    if not case['only_backbone'] and rng.random() < 0.12:
        # a selection of exactly two atoms of one residue (or the CA atoms of two residues)
        ress = sorted({(a['chainID'], a['resSeq']) for a in target} & {(a['chainID'], a['resSeq']) for a in mobile})
        if len(ress) >= 2:
            if rng.random() < 0.5:
                ch, n1 = rng.choice(ress); sel = {'chainID': ch, 'resSeq': [n1], 'name': rng.choice([['CA', 'C'], ['N', 'O'], ['CA', 'N']])}
            else:
                ch = rng.choice(sorted({c for c, _ in ress})); two = [n_ for c, n_ in ress if c == ch][:2]
                sel = {'chainID': ch, 'resSeq': two, 'name': ['CA']}
            feats.add('two-atom-selection')
    case.update({'target': target, 'mobile': mobile, 'kwargs': sel})
    feats.add('method-' + case['method'])
    if case['export']: feats.add('export')
    return case, feats

def explore(ctx, tier, rng, search=False):
    rep = Report()
    pdb2sql = import_impl()
    n = 900 if (tier == 'thorough' or search) else 150
    cdir = os.path.join(VERIF, 'corpus', 'C13')
    corpus = []
    if os.path.isdir(cdir):
        for f in sorted(os.listdir(cdir)):
            c = json.load(open(os.path.join(cdir, f))); corpus.append(c.get('case', c))
    for k in range(n + len(corpus)):
        if k < len(corpus):
            case, feats = corpus[k], {'corpus'}
        else:
            case, feats = gen_case(rng)
        try:
            out, bad = run_case(ctx, pdb2sql, case)
        except Exception as e:
            out, bad = {}, ('impl_vs_spec', dict(why='harness exception ' + exc_class(e) + ': ' + str(e)[:300]))
        rep.case(case, sorted(feats), nontrivial=bool(feats & {'rigid-copy', 'displaced', 'mobile-deletion', 'target-deletion', 'permutation'}))
        if 'reqs' in out and len(rep.model_reqs) < 30:
            rep.model_reqs += out['reqs']; rep.model_outs += out['outs']
        if bad:
            rep.mismatch(bad[0], case, **bad[1])
    rep.input_distribution = {'cases': n, 'corpus': len(corpus)}
    return rep

def replay(ctx, case):
    pdb2sql = import_impl()
    out, bad = run_case(ctx, pdb2sql, case)
    return not (bad and bad[0] == 'impl_vs_spec'), json.dumps(jsonable(bad[1]))[:500] if bad else 'ok'
