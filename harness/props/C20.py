"""C20 — file-backed databases: complete or empty at any crash; file names are data.

Every scenario  create[, modify][, commit][, modify]..., close(keep|remove)  is run by the real
library in forked child processes (the library is imported once, in this process; each child
chdirs into a fresh directory with victim files, wraps sqlite3.connect / os.path.isfile /
os.remove / open from OUTSIDE the library and SIGKILLs itself BEFORE the k-th intercepted
action, for every k).  Afterwards this process opens the file with a stock sqlite3 connection
(PRAGMA integrity_check, columns, rows), lists the directory and hashes the victims, and compares
with (a) the specification (verdict) and (b) the model's prediction for that crash point (tie)."""
import os, sys, json, signal, sqlite3, hashlib, shutil, random, string
from fractions import Fraction
from harness.core import *
from harness import fs_lib as L

ID = 'C20'
REGIONS = ['const', 'fs_callsites']
HAND_MODELLED = ['pdb2sqlcore.py:pdb2sql.__init__', 'pdb2sqlcore.py:pdb2sql._create_sql',
                 'pdb2sqlcore.py:pdb2sql._create_table (statement sequence)', 'pdb2sqlcore.py:pdb2sql.read_pdb (path input)',
                 'pdb2sqlcore.py:pdb2sql._fix_chainID', 'pdb2sqlcore.py:pdb2sql.update', 'pdb2sqlcore.py:pdb2sql.update_column',
                 'pdb2sqlcore.py:pdb2sql.add_column', 'pdb2sqlcore.py:pdb2sql._commit', 'pdb2sql_base.py:pdb2sql_base._close',
                 'pdb2sqlcore.py:pdb2sql.get (number of statements issued)']
TRUSTED = ['SQLite atomic commit and rollback-journal recovery (oracle: COMMIT replaces the durable image atomically; '
           'a hot journal is rolled back by the next reader) — exercised by SIGKILL at every intercepted action',
           'Python sqlite3 legacy transaction mode (implicit BEGIN before INSERT/UPDATE/DELETE, DDL autocommits outside a '
           'transaction) — modelled in Model_fs.step, validated at every crash point',
           'kills are placed at Python-call granularity (before each sqlite3 statement / commit / close / isfile / remove / connect), '
           'not inside SQLite; the OS keeps written pages after a process kill (no power-loss model)',
           'the ATOM rows handed to the model are the library\'s own in-memory parse of the same input (parsing is C01)']
RULE = ('scenarios create[,fix_chainID][,modify|commit]*,close(keep|remove) x a SIGKILL before EVERY intercepted action x '
        'file names over an alphabet with space, quotes, $ ; & | * ? ( ) ` and a leading dash, in directories with victim files '
        '(glob/word-split look-alikes of the name included), with and without a pre-existing file of that name. '
        'Non-trivial: a crash point inside an open transaction, after a commit event, or a name with a shell metacharacter.')

COLS = ['serial', 'name', 'altLoc', 'resName', 'chainID', 'resSeq', 'iCode', 'x', 'y', 'z', 'occ', 'temp', 'element', 'model']
REALCOLS = ['x', 'y', 'z', 'occ', 'temp']
INTCOLS = ['serial', 'resSeq', 'model']
TEXTCOLS = ['name', 'resName', 'chainID', 'element']

# ----------------------------------------------------------------------------------------
# wire encoding
def cell(v):
    if isinstance(v, bool):
        raise TypeError('bool cell')
    if isinstance(v, int):
        return v
    if isinstance(v, float):
        f = Fraction(v)
        return [f.numerator, f.denominator]
    if isinstance(v, str):
        return v
    raise TypeError(f'cell {type(v)}')

def w_opt(x):
    return [] if x is None else [x]

def w_step(s):
    if s[0] == 'commit':
        return ['commit']
    if s[0] == 'updcol':
        return ['updcol', s[1], [cell(v) for v in s[2]], w_opt(s[3])]
    if s[0] == 'update':
        return ['update', s[1], [[cell(v) for v in r] for r in s[2]], w_opt(s[3])]
    if s[0] == 'addcol':
        return ['addcol', s[1], s[2], cell(s[4])]
    raise ValueError(s)

def w_scenario(sc, rows):
    return [sc['name'], w_opt(sc['pdbpath']), [[cell(v) for v in r] for r in rows], bool(sc['fix']),
            [w_step(s) for s in sc['steps']], bool(sc['keep'])]

def w_outcome(o):
    if o[0] == 'table':
        return ['table', o[1], [[cell(v) for v in r] for r in o[2]]]
    return [o[0]]

def w_fs(sc):
    out = []
    for n, txt in sc['victims']:
        out.append([n, 'text', txt])
    if sc['pre'] is not None:
        if sc['pre'][0] == 'text':
            out.append([sc['name'], 'text', sc['pre'][1]])
        else:
            out.append([sc['name'], 'db', w_outcome(sc['pre'][1])])
    if sc['pdbpath']:
        out.append([sc['pdbpath'], 'text', ''.join(l + '\n' for l in sc['lines'])])
    return out

def canon_outcome(o):
    """decoded model outcome / observed outcome -> comparable"""
    if o[0] == 'table':
        return ('table', tuple(o[1]), tuple(tuple(tuple(c) if isinstance(c, list) else c for c in r) for r in o[2]))
    return (o[0],)

# ----------------------------------------------------------------------------------------
# observation with a stock reader
def observe(path):
    """(outcome, integrity) of the database file at path, read by a fresh stock sqlite3 connection"""
    if not os.path.exists(path):
        return ['nofile'], 'ok'
    try:
        c = sqlite3.connect(path)
        try:
            integ = [r[0] for r in c.execute('PRAGMA integrity_check')]
            names = [r[0] for r in c.execute("SELECT name FROM sqlite_master WHERE type='table'")]
            if not names:
                return ['notable'], ','.join(integ)
            cur = c.execute('SELECT * FROM %s' % names[0])
            cols = [d[0] for d in cur.description]
            rows = [list(r) for r in cur]
            return ['table', cols, rows], ','.join(integ)
        finally:
            c.close()
    except sqlite3.DatabaseError as e:
        return ['notdb'], 'error: %s' % e

def make_db(path, table):
    """an old database file with its own content (committed)"""
    c = sqlite3.connect(path)
    c.execute('CREATE TABLE ATOM (%s)' % ', '.join(table[0]))
    c.executemany('INSERT INTO ATOM VALUES (%s)' % ','.join('?' * len(table[0])), table[1])
    c.commit()
    c.close()

def setup_dir(d, sc):
    os.makedirs(d)
    for n, txt in sc['victims']:
        with open(os.path.join(d, n), 'w') as f:
            f.write(txt)
    if sc['pre'] is not None:
        p = os.path.join(d, sc['name'])
        if sc['pre'][0] == 'text':
            with open(p, 'w') as f:
                f.write(sc['pre'][1])
        else:
            make_db(p, (sc['pre'][1][1], sc['pre'][1][2]))
    if sc['pdbpath']:
        with open(os.path.join(d, sc['pdbpath']), 'w') as f:
            for l in sc['lines']:
                f.write(l + '\n')

# ----------------------------------------------------------------------------------------
# the child: run the scenario with the real library, die before the k-th intercepted action
def run_steps(pdb2sql_cls, sc):
    src = sc['pdbpath'] if sc['pdbpath'] else list(sc['lines'])
    name = sc['name']
    nc = sc.get('name_carrier')      # the same file name as pathlib.Path / numpy.str_ (sqlite3 and os accept both)
    if nc == 'path':
        import pathlib; name = pathlib.Path(name)
    elif nc == 'npstr':
        import numpy as np; name = np.str_(name)
    elif nc == 'bytes':
        name = os.fsencode(name)
    db = pdb2sql_cls(src, sqlfile=name, fix_chainID=sc['fix'])
    for s in sc['steps']:
        try:
            if s[0] == 'commit':
                db._commit()
            elif s[0] == 'updcol':
                db.update_column(s[1], list(s[2]), index=s[3])
            elif s[0] == 'update':
                if s[3] is None:
                    db.update(','.join(s[1]), [list(r) for r in s[2]])
                else:
                    db.update(','.join(s[1]), [list(r) for r in s[2]], rowID=list(s[3]))
            elif s[0] == 'addcol':
                db.add_column(s[1], s[2], s[3])
        except (ValueError, IndexError):
            pass                      # the caller catches the shape errors of update(): nothing was written
    rm = not sc['keep']
    fc = sc.get('flag_carrier')      # keep / remove said with a 0-1 integer or a NumPy boolean
    if fc == 'int01': rm = int(rm)
    elif fc == 'npbool':
        import numpy as np; rm = np.bool_(rm)
    db._close(rmdb=rm)

def child(pdb2sql_cls, d, sc, kill_at, wfd):
    try:
        os.chdir(d)
        count = [0]
        def gate(ev):
            if count[0] == kill_at:
                os.kill(os.getpid(), signal.SIGKILL)
            count[0] += 1
        tr = L.Tracer(d, gate=gate, statements=True)
        tr.install()
        err = None
        try:
            run_steps(pdb2sql_cls, sc)
        except BaseException as e:
            err = exc_class(e) + ': ' + str(e)[:200]
        tr.uninstall()
        evs = []
        for e in tr.events:
            k = e['kind']
            if k in ('exists', 'isfile'):
                evs.append(['exists', e['path']])
            elif k == 'open':
                evs.append(['read' if e['mode'] == 'r' else 'open-' + e['mode'], e['path']])
            elif k == 'remove':
                evs.append(['remove', e['path']])
            elif k == 'connect':
                evs.append(['connect', e['path']])
            elif k == 'exec':
                evs.append(['exec', e['stmt']])
            elif k in ('commit', 'closeconn'):
                evs.append([k])
            elif k == 'shell':
                evs.append(['shell', e['cmd']])
            else:
                evs.append([k, str(e.get('path'))])
        os.write(wfd, json.dumps({'events': evs, 'error': err}).encode())
    finally:
        os._exit(0)

def run_child(pdb2sql_cls, d, sc, kill_at):
    """returns (killed, report-or-None)"""
    r, w = os.pipe()
    sys.stdout.flush(); sys.stderr.flush()
    pid = os.fork()
    if pid == 0:
        os.close(r)
        child(pdb2sql_cls, d, sc, kill_at, w)
    os.close(w)
    chunks = []
    while True:
        b = os.read(r, 65536)
        if not b:
            break
        chunks.append(b)
    os.close(r)
    _, status = os.waitpid(pid, 0)
    killed = os.WIFSIGNALED(status) and os.WTERMSIG(status) == signal.SIGKILL
    rep = json.loads(b''.join(chunks).decode()) if chunks else None
    return killed, rep

# ----------------------------------------------------------------------------------------
# generators
def victims_for(rng, name):
    """victim files, including what a shell would make of the name (word splitting, globbing,
    command separators)"""
    vs = {'victim_1.txt': 'victim one\n', 'notes.md': 'keep me\n'}
    for tok in name.replace(';', ' ').replace('&', ' ').replace('|', ' ').replace('(', ' ').replace(')', ' ').split():
        tok = tok.strip('\'"`$')
        if tok and tok != name and '/' not in tok and tok not in ('.', '..') and all(32 < ord(c) < 127 for c in tok):
            vs.setdefault(tok, 'word-split look-alike of the database name\n')
    if '*' in name or '?' in name:
        g = name.replace('*', 'xx').replace('?', 'y')
        vs.setdefault(g, 'glob look-alike of the database name\n')
        vs.setdefault(name.replace('*', '').replace('?', 'z'), 'glob look-alike 2\n')
    vs.pop(name, None)
    vs.pop(name + '-journal', None)
    return sorted(vs.items())

def gen_atoms(rng, big=False):
    if big:
        nA, nB = rng.randint(120, 160), rng.randint(90, 120)
    else:
        nA, nB = rng.randint(1, 4), rng.randint(1, 3)
    chains = rng.choice([('A', 'B'), ('B', 'A'), ('X', 'C'), ('A', 'B')])
    return L.synth_complex(rng, nA, nB, chains=chains, first=(rng.choice([1, 1, 5, 98]), rng.choice([1, 2, 40])))

def gen_value(rng, col):
    if col in REALCOLS:
        return rng.randint(-8000, 8000) / 8.0
    if col in INTCOLS:
        return rng.randint(-50, 9999)
    return rng.choice(['CA', 'N', 'XX', 'Q', 'ALA', 'B', 'C'])

def gen_modify(rng, nrows, ncols_added):
    r = rng.random()
    if r < 0.35:
        col = rng.choice(REALCOLS + INTCOLS + TEXTCOLS)
        if rng.random() < 0.5:
            n = rng.choice([0, 1, nrows, nrows, max(0, nrows - 1), nrows + 2])
            return ['updcol', col, [gen_value(rng, col) for _ in range(n)], None]
        n = rng.randint(0, min(nrows, 6))
        idx = [rng.randint(0, nrows + 1) for _ in range(n)]
        return ['updcol', col, [gen_value(rng, col) for _ in range(n)], idx]
    if r < 0.7:
        cols = rng.choice([['x', 'y', 'z'], ['x', 'y', 'z'], ['occ'], ['name', 'resSeq'], ['temp', 'x']])
        kind = rng.random()
        if kind < 0.4:
            ids, n = None, nrows
        else:
            ids = sorted(set(rng.randint(0, nrows + 1) for _ in range(rng.randint(1, 5))), key=lambda _: rng.random())
            n = len([i for i in ids if i < nrows])
        bad = rng.random()
        if bad < 0.12:
            n += 1                                   # count mismatch -> ValueError, nothing written
        vals = [[gen_value(rng, c) for c in cols] for _ in range(n)]
        if bad > 0.92 and vals:
            vals = [v + [1.0] for v in vals]         # shape mismatch -> ValueError
        return ['update', cols, vals, ids]
    kind = rng.choice(['FLOAT', 'FLOAT', 'INT', 'TEXT'])
    name = 'c%d_%s' % (ncols_added, rng.choice(['q', 'w', 'score', 'lbl']))
    if kind == 'FLOAT':
        v = rng.choice([0, 0, 1, 2.5, -0.125, 7])
        return ['addcol', name, kind, v, float(v)]
    if kind == 'INT':
        v = rng.randint(-3, 9)
        return ['addcol', name, kind, v, v]
    v = rng.choice(['high', 'low', 'pos'])
    return ['addcol', name, kind, v, v]

def gen_scenario(rng, name, big=False, shape=None):
    atoms = gen_atoms(rng, big)
    nrows = len(atoms)
    steps = []
    added = 0
    if shape is None:
        shape = rng.choice(['c', 'mc', 'cm', 'mcm', 'cmc', 'm', '', 'mmcm', 'cmmc', 'random'])
    if shape == 'random':
        shape = ''.join(rng.choice('mc') for _ in range(rng.randint(0, 5)))
    for ch in shape:
        if ch == 'c':
            steps.append(['commit'])
        else:
            m = gen_modify(rng, nrows, added)
            if m[0] == 'addcol':
                added += 1
            steps.append(m)
    pre = None
    r = rng.random()
    if r < 0.3:
        pre = ('db', ['table', ['a', 'b'], [[1, 'old'], [2, 'older']]])
    elif r < 0.45:
        pre = ('text', 'this is not a database\n')
    elif r < 0.55:
        pre = ('db', ['table', list(COLS), []])
    usefile = rng.random() < 0.4
    sc = {'name': name, 'lines': L.pdb_lines(atoms), 'pdbpath': ('input structure.pdb' if usefile else None),
          'fix': rng.random() < 0.3, 'steps': steps, 'keep': rng.random() < 0.6, 'pre': pre,
          'victims': victims_for(rng, name)}
    if rng.random() < 0.3: sc['flag_carrier'] = rng.choice(['int01', 'npbool'])
    if rng.random() < 0.25 and not name.startswith('-') and '/' not in name: sc['name_carrier'] = rng.choice(['path', 'npstr', 'bytes'])
    return sc

def feature_tags(sc, group, outcome, journal, nsteps):
    f = []
    if any(c in sc['name'] for c in ' \'"$;&|*?()`') or sc['name'].startswith('-'):
        f.append('odd-name')
    if sc.get('name_carrier'): f.append('name-given-as-' + sc['name_carrier'])
    if sc.get('flag_carrier'): f.append('keep-flag-as-' + sc['flag_carrier'])
    if journal:
        f.append('crash-inside-transaction')
    if outcome[0] == 'table' and outcome[2]:
        f.append('crash-after-commit-event')
    if group == 0:
        f.append('crash-during-creation')
    elif group == nsteps + 1:
        f.append('crash-during-close')
    elif group == nsteps + 2:
        f.append('ran-to-end-' + ('keep' if sc['keep'] else 'remove'))
    if sc['pre'] is not None:
        f.append('pre-existing-file')
    return f

# ----------------------------------------------------------------------------------------
def parse_rows(pdb2sql_cls, sc):
    """the ATOM rows of the input as the library parses them (in memory)"""
    db = pdb2sql_cls(list(sc['lines']))
    rows = [list(r) for r in db.c.execute('SELECT * FROM ATOM')]
    db._close()
    return rows

def listing(d):
    return sorted(os.listdir(d))

def check_scenario(ctx, rep, pdb2sql_cls, sc, base, tag, kill_points='all', rng=None):
    """run one scenario at all (or sampled) crash points; returns number of child runs"""
    rows = parse_rows(pdb2sql_cls, sc)
    wsc = w_scenario(sc, rows)
    watch = [n for n, _ in sc['victims']] + ([sc['pdbpath']] if sc['pdbpath'] else [])
    req = ['fs.c20.run', wsc, w_fs(sc), watch]
    out = ctx.model.batch([req])[0]
    mtrace, mpoints = out[0], out[1]
    if len(rep.model_reqs) < 12 and len(rows) < 26:
        rep.model_reqs.append(req); rep.model_outs.append(out)
    N = len(mtrace)
    nsteps = len(sc['steps'])
    o0 = ['nofile'] if sc['pre'] is None else (['notdb'] if sc['pre'][0] == 'text' else sc['pre'][1])
    case_base = {'scenario': sc, 'tag': tag}
    points = []
    # reference run (no kill): trace tie
    d = os.path.join(base, 'ref')
    setup_dir(d, sc)
    before = L.snapshot(d)
    killed, r = run_child(pdb2sql_cls, d, sc, -1)
    nruns = 1
    case = dict(case_base, kill_at=None)
    if killed or r is None:
        rep.case(case, [])
        rep.mismatch('impl_vs_spec', case, problems=['the un-killed scenario did not finish'], report=r)
        shutil.rmtree(d, ignore_errors=True)
        return nruns
    points.append(observe_point(sc, case, d, before, N, nsteps + 2, mpoints[N] if N < len(mpoints) else None, r))
    if r['events'] != [list(x) for x in mtrace]:
        rep.mismatch('impl_vs_model', case, what='action sequence differs', impl=r['events'], model=mtrace)
    shutil.rmtree(d, ignore_errors=True)
    n_impl = len(r['events'])
    ks = list(range(max(N, n_impl)))
    if kill_points != 'all' and len(ks) > kill_points:
        keep = set(rng.sample(ks, kill_points)) | {0, len(ks) - 1}
        ks = [k for k in ks if k in keep]
    for k in ks:
        d = os.path.join(base, 'k%d' % k)
        setup_dir(d, sc)
        before = L.snapshot(d)
        killed, rk = run_child(pdb2sql_cls, d, sc, k)
        nruns += 1
        case = dict(case_base, kill_at=k)
        if not killed:
            if k < n_impl:
                rep.mismatch('impl_vs_model', case, what='child was not killed at the requested point', report=rk)
            shutil.rmtree(d, ignore_errors=True)
            continue
        mp = mpoints[k] if k < len(mpoints) else None
        points.append(observe_point(sc, case, d, before, k, mp[0] if mp is not None else None, mp, None))
        shutil.rmtree(d, ignore_errors=True)
    judge_points(ctx, rep, sc, wsc, o0, nsteps, points)
    return nruns

def short(o):
    return o if o[0] != 'table' else ['table', o[1], o[2][:5], '%d rows' % len(o[2])]

def observe_point(sc, case, d, before, k, group, mp, report):
    name = sc['name']
    files = listing(d)
    journal = (name + '-journal') in files
    obs, integ = observe(os.path.join(d, name))
    after_read = L.snapshot(d)
    problems = []
    # --- names are data: nothing but <name> and <name>-journal may appear, disappear or change
    allowed_names = {name, name + '-journal'}
    for f in sorted(set(before) | set(after_read)):
        if f in allowed_names:
            continue
        if before.get(f) != after_read.get(f):
            problems.append(f'file {f!r} was ' + ('created' if f not in before else 'removed' if f not in after_read else 'modified'))
    if report is not None:
        if report.get('error'):
            problems.append('the scenario raised ' + report['error'])
        for e in report['events']:
            if e[0] == 'shell':
                problems.append('a shell command was run: ' + e[1])
    if integ != 'ok' and obs[0] != 'notdb':
        problems.append('integrity_check: ' + integ)
    if obs[0] == 'notdb' and not (group == 0 and sc['pre'] is not None and sc['pre'][0] == 'text'):
        problems.append('the file does not open as a database: ' + integ)
    try:
        wobs = w_outcome(obs)
        obs_c = canon_outcome(dec(enc(wobs)))
    except (TypeError, ValueError) as e:
        wobs, obs_c = None, ('unencodable', str(e))
        problems.append('unreadable cell types in the recovered table: %s' % e)
    return dict(case=case, files=files, journal=journal, obs=obs, wobs=wobs, obs_c=obs_c, group=group, mp=mp,
                problems=problems, k=k)

def judge_points(ctx, rep, sc, wsc, o0, nsteps, points):
    reqs = []
    for p in points:
        if p['wobs'] is not None and p['group'] is not None:
            reqs.append(['spec.fs.c20.literal', wsc, w_outcome(o0), p['group'], p['wobs']])
            reqs.append(['spec.fs.c20.allowed', wsc, w_outcome(o0), p['group'], p['wobs']])
    outs = iter(ctx.model.batch(reqs))
    for p in points:
        case, obs, group, mp = p['case'], p['obs'], p['group'], p['mp']
        feats = feature_tags(sc, group, obs, p['journal'], nsteps)
        rep.case(case, feats, nontrivial=any(f in feats for f in ('odd-name', 'crash-inside-transaction', 'crash-after-commit-event')))
        problems = list(p['problems'])
        strict = None
        if p['wobs'] is not None and group is not None:
            lit, strict = next(outs), next(outs)
            if not lit:
                problems.append('recovered content is neither "no atoms" nor the complete last-committed table '
                                '(scenario step %d in progress)' % group)
        if problems:
            rep.mismatch('impl_vs_spec', case, problems=problems, observed=short(obs), files=p['files'], step=group)
            continue
        # --- tie: the model predicts this very state
        if mp is None:
            rep.mismatch('impl_vs_model', case, what='the implementation has more kill points than the model has actions')
            continue
        if p['obs_c'] != canon_outcome(mp[1]):
            rep.mismatch('impl_vs_model', case, what="recovered state differs from the model's prediction",
                         impl=short(obs), model=short(mp[1]))
        elif p['journal'] and not mp[2]:
            rep.mismatch('impl_vs_model', case, what='a rollback journal exists where the model has no open transaction')
        elif mp[3]:
            rep.mismatch('impl_vs_model', case, what='model changed watched files', model=mp[3])
        elif not strict:
            rep.mismatch('model_vs_spec', case, what='strict specification rejects a state the model predicts', step=group)

def explore(ctx, tier, rng, search=False):
    rep = Report()
    pdb2sql = import_impl()
    from pdb2sql.pdb2sqlcore import pdb2sql as P
    deep = (tier == 'thorough' or search)
    names = list(L.FIXED_ODD_NAMES)
    rng.shuffle(names)
    nscen, nnames = (64, 40) if deep else (8, 6)
    base = os.path.join(ctx.scratch, 'c20')
    shutil.rmtree(base, ignore_errors=True)
    os.makedirs(base)
    nruns = 0
    idx = 0
    # corpus first
    cdir = os.path.join(VERIF, 'corpus', 'C20')
    if os.path.isdir(cdir):
        for f in sorted(os.listdir(cdir)):
            c = json.load(open(os.path.join(cdir, f)))
            c = c.get('case', c)
            sc = c['scenario']
            nruns += check_scenario(ctx, rep, P, sc, os.path.join(base, 'corpus%d' % idx), 'corpus:' + f)
            idx += 1
    shapes = ['mcm', 'cm', 'mc', 'c', 'cmc', 'random', 'm', 'random']
    for i in range(nscen):
        shape = shapes[i % len(shapes)]
        # each scenario under several names: fixed odd ones, generated ones, one plain
        sn = []
        for j in range(nnames):
            r = rng.random()
            if j == 0:
                sn.append('plain_%d.db' % i)
            elif r < 0.5:
                sn.append(names[(i * nnames + j) % len(names)])
            else:
                sn.append(L.odd_name(rng, must=rng.choice(L.ODD)))
        seed_sc = rng.getrandbits(48)
        for j, name in enumerate(sn):
            # same scenario (same seed) under every name: the name is data
            sc = gen_scenario(random.Random(seed_sc), name, big=(i % 8 == 5 and j == 0), shape=shape)
            # big tables: sample the kill points (the model is quadratic in them)
            kp = 'all' if len(sc['lines']) < 100 else 12
            nruns += check_scenario(ctx, rep, P, sc, os.path.join(base, 's%d_%d' % (i, j)), f'gen:{i}:{j}', kill_points=kp, rng=rng)
    rep.input_distribution = {'scenarios': nscen, 'names_per_scenario': nnames, 'child_processes': nruns,
                              'shapes': shapes}
    for must in ('odd-name', 'crash-inside-transaction', 'crash-after-commit-event', 'crash-during-creation',
                 'crash-during-close', 'ran-to-end-keep', 'ran-to-end-remove', 'pre-existing-file'):
        if rep.features.get(must, 0) == 0:
            rep.notes.append(f'mandatory feature bin empty: {must}')
            rep.mismatch('impl_vs_model', {'bin': must}, what='generator degenerated: mandatory feature bin is empty')
    shutil.rmtree(base, ignore_errors=True)
    return rep

def replay(ctx, case):
    """re-run one recorded (scenario, kill point); returns (holds, text)"""
    pdb2sql = import_impl()
    from pdb2sql.pdb2sqlcore import pdb2sql as P
    sc = case['scenario']
    rep = Report()
    base = os.path.join(ctx.scratch, 'c20replay')
    shutil.rmtree(base, ignore_errors=True)
    os.makedirs(base)
    rows = parse_rows(P, sc)
    wsc = w_scenario(sc, rows)
    watch = [n for n, _ in sc['victims']] + ([sc['pdbpath']] if sc['pdbpath'] else [])
    out = ctx.model.batch([['fs.c20.run', wsc, w_fs(sc), watch]])[0]
    mtrace, mpoints = out
    N, nsteps = len(mtrace), len(sc['steps'])
    o0 = ['nofile'] if sc['pre'] is None else (['notdb'] if sc['pre'][0] == 'text' else sc['pre'][1])
    k = case.get('kill_at')
    d = os.path.join(base, 'run')
    setup_dir(d, sc)
    before = L.snapshot(d)
    killed, r = run_child(P, d, sc, -1 if k is None else k)
    if k is None:
        if killed or r is None:
            return False, 'the un-killed scenario did not finish'
        pt = observe_point(sc, case, d, before, N, nsteps + 2, mpoints[N] if N < len(mpoints) else None, r)
    else:
        mp = mpoints[k] if k < len(mpoints) else None
        pt = observe_point(sc, case, d, before, k, mp[0] if mp else nsteps + 2, mp, None)
    judge_points(ctx, rep, sc, wsc, o0, nsteps, [pt])
    shutil.rmtree(base, ignore_errors=True)
    bad = [m for m in rep.mismatches if m['kind'] == 'impl_vs_spec']
    if bad:
        return False, '; '.join(bad[0]['details'].get('problems', [])) or str(bad[0]['details'])
    return True, 'recovered state allowed by the specification; no other file touched'
