"""C14 — contact residues and residue extension are exact projections / closures of the contact atoms.
The verdict compares get_contact_residues(...) and get_contact_atoms(extend_to_residue=True, ...) with the
projection / closure (specification, extracted from Spec_contact.v) of what get_contact_atoms(...) itself
returns for the same call, on the table the library holds."""
import os, json, glob, collections
from fractions import Fraction
from harness.core import *
from harness.gen_contact import *
from harness.props.C05 import Struct, configs_for, impl_atoms, forced_structures, carry

ID = 'C14'
REGIONS = ['contact_test', 'contact_filters', 'contact_defaults', 'const']
HAND_MODELLED = ['interface.py:get_contact_residues', 'interface.py:_extend_contact_to_residue',
                 'interface.py:get_contact_atoms', 'pdb2sqlcore.py:get (chainID/resName/resSeq and rowID selections)']
TRUSTED = ['same as C05 (margin rule on the distance test; the table is the one the library returns)',
           'Python tuple ordering on (str, int, str) and sorted(set(.)) are modelled in Gallina (res3_leb, sort_by)']
RULE = ('the C05 structures enriched with residues that share a number but differ in name or chain, negative '
        'residue numbers, residues without backbone atoms; for each structure and chain selection all 2^5 '
        'combinations of allchains / only_backbone / excludeH / return_contact_pairs / extend_to_residue '
        '(get_contact_residues for extend=False, get_contact_atoms for extend=True); a fifth of the structures with the flags as np.bool_ / 0-1 integers. Non-trivial: the atom-level '
        'answer is non-empty and at least one of shared-number, negative-number, backbone-restricted-extension, '
        'extension-adds-atoms, several-atoms-per-residue holds.')
MANDATORY = ['shared-number', 'negative-number', 'backbone-restricted-extension', 'extension-adds-atoms']

def impl_residues(st, cutoff, allch, c1, c2, obb, exh, pairs, car=None):
    fc = (car or {}).get('flags')       # the flags as NumPy booleans / 0-1 integers
    return run_impl(lambda: (canon_respairs if pairs else canon_resdict)(st.db.get_contact_residues(
        cutoff=cutoff, allchains=carry(allch, fc), chain1=c1, chain2=c2, only_backbone_atoms=carry(obb, fc), excludeH=carry(exh, fc),
        return_contact_pairs=carry(pairs, fc))))

def make_case(lines, cutoff, allch, c1, c2, obb, exh, pairs, extend):
    return {'fn': 'residues', 'lines': lines, 'cutoff': cutoff, 'allchains': allch, 'chain1': c1, 'chain2': c2,
            'only_bb': obb, 'exclH': exh, 'pairs': pairs, 'extend': extend}

def evaluate(ctx, rep, pdb2sql, groups, record=True):
    reqs, plan = [], []
    for grp in groups:
        lines, cutoff, cfgs, base = grp[:4]
        renum = grp[4] if len(grp) > 4 else None
        car = grp[5] if len(grp) > 5 else None
        st = Struct(pdb2sql, lines)
        if renum:
            # repeated use of ONE object: residues are asked for, then the residues are renumbered / renamed through the
            # public API, then the calls under test: the answers must carry the NEW residue numbers and names
            run_impl(lambda: st.db.get_contact_residues(cutoff=cutoff))
            run_impl(lambda: st.db.get_contact_residues(cutoff=cutoff, allchains=True, return_contact_pairs=True))
            st.db.update_column('resSeq', [int(t[3]) + renum for t in st.table])
            st.db.update_column('resName', [{'ALA': 'GLY', 'GLY': 'ALA'}.get(t[2], t[2]) for t in st.table])
            st.table = table_of(st.db); st.wire = wire_table(st.table); st.chains = chains_of(st.table)
            base = list(base) + ['object-reused-after-renumbering']
        if has_empty_name(st.table):
            rep.skipped['out_of_model_empty_name'] += 1
            continue
        status, nexact = boundary_status(st.table, cutoff)
        if status == 'skip':
            rep.skipped['float_boundary'] += 1
            continue
        fq = Fraction(cutoff)
        resid = collections.defaultdict(set)
        for t in st.table:
            resid[t[3]].add((t[1], t[2]))
        shared = any(len(v) > 1 for v in resid.values())
        negative = any(t[3] < 0 for t in st.table)
        for allch, c1, c2, dom in cfgs:
            for obb in (False, True):
                for exh in (False, True):
                    A0 = impl_atoms(st, cutoff, allch, c1, c2, obb, exh, False)
                    P0 = impl_atoms(st, cutoff, allch, c1, c2, obb, exh, True)
                    for pairs in (False, True):
                        for extend in (False, True):
                            if extend:
                                impl = impl_atoms(st, cutoff, allch, c1, c2, obb, exh, pairs, extend=True, car=car)
                                mreq = ['contact.atoms', st.wire, fq, allch, c1, c2, True, obb, exh, pairs]
                            else:
                                impl = impl_residues(st, cutoff, allch, c1, c2, obb, exh, pairs, car=car)
                                mreq = ['contact.residues', st.wire, fq, allch, c1, c2, obb, exh, pairs]
                            k = len(reqs)
                            reqs.append(mreq)
                            ks, direct = None, None
                            src = P0 if pairs else A0
                            if src[0] == 'OK':
                                if extend and pairs:
                                    direct = src                      # the pair map is not affected by the extension
                                else:
                                    ks = len(reqs)
                                    if extend:
                                        reqs.append(['spec.contact.closure', st.wire, src[1], obb])
                                    elif pairs:
                                        reqs.append(['spec.contact.project_pairs', st.wire, src[1]])
                                    else:
                                        reqs.append(['spec.contact.project', st.wire, src[1]])
                            feats = list(base)
                            nonempty = src[0] == 'OK' and any(v for _, v in src[1])
                            if nonempty:
                                if shared: feats.append('shared-number')
                                if negative: feats.append('negative-number')
                                if extend and obb and not pairs: feats.append('backbone-restricted-extension')
                                if extend and not pairs and impl[0] == 'OK' and sort_keys(impl) != sort_keys(src):
                                    feats.append('extension-adds-atoms')
                            if src[0] != 'OK': feats.append('outside-domain(tie-only)')
                            cs_ = make_case(lines, cutoff, allch, c1, c2, obb, exh, pairs, extend)
                            if renum: cs_['prime_then_renumber'] = renum
                            if car: cs_['carriers'] = dict(car); feats.append('flags-as-' + car['flags'])
                            plan.append((cs_, impl, k, ks, direct, feats))
    outs = ctx.model.batch(reqs)
    rep.model_reqs += reqs
    rep.model_outs += outs
    results = []
    for case, impl, k, ks, direct, feats in plan:
        model = outs[k]
        verdict_ok, tie_ok, text = True, True, ''
        spec = None
        if ks is not None:
            spec = ['OK', sorted(outs[ks], key=lambda kv: kv[0])]
            got = sort_keys(impl)
        elif direct is not None:
            spec, got = sort_keys_vals(direct), sort_keys_vals(impl)
        if spec is not None:
            if got != spec:
                verdict_ok = False
                text = f'implementation {got} specification {spec}'
                rep.mismatch('impl_vs_spec', case, impl=got, spec=spec, model=model)
            else:
                text = f'implementation = specification = {spec}'
        if verdict_ok and impl != model:
            tie_ok = False
            text = f'implementation {impl} model {model}'
            rep.mismatch('impl_vs_model', case, impl=impl, model=model)
        if record:
            rep.case(case, feats, nontrivial=any(f in MANDATORY for f in feats))
        results.append((case, verdict_ok, tie_ok, text))
    return results

def enrich(rng, atoms):
    """make residues share numbers across names/chains, add negative numbers"""
    nums = sorted({a['resSeq'] for a in atoms})
    if rng.random() < 0.6 and nums:
        # collapse the numbering of one chain onto few values: neighbouring residues then share a number
        c = rng.choice(sorted({a['chain'] for a in atoms}))
        for a in atoms:
            if a['chain'] == c:
                a['resSeq'] = a['resSeq'] % 3 - 1
    if rng.random() < 0.4:
        sh = rng.randint(3, 9)
        for a in atoms:
            a['resSeq'] -= sh
    return atoms

def explore(ctx, tier, rng, search=False):
    rep = Report()
    pdb2sql = import_impl()
    big = (tier == 'thorough' or search)
    nstruct = 600 if big else 70
    groups = []
    for p in sorted(glob.glob(os.path.join(VERIF, 'corpus', ID, '*.json'))):
        c = json.load(open(p))
        c = c.get('case', c)
        if c.get('fn') == 'residues':
            groups.append((c['lines'], c['cutoff'], [(c['allchains'], c['chain1'], c['chain2'], True)], ['corpus']))
    for atoms, cutoff, base in forced_structures(rng):
        chains = sorted({a['chain'] for a in atoms})
        groups.append((to_lines(atoms), cutoff, configs_for(chains, rng), base))
    dist = collections.Counter()
    for k in range(nstruct):
        lattice = rng.random() < 0.6
        atoms = enrich(rng, gen_structure(rng, max_atoms=10))
        cutoff = rand_cutoff(rng)
        if lattice:
            cutoff = rng.choice(list(EXACT))
            for a in atoms:
                for c in 'xyz':
                    a[c] = int(round(a[c] / 125.0)) * 125
        if cutoff in EXACT and rng.random() < 0.5:
            plant_exact_pair(rng, atoms, cutoff)
        chains = sorted({a['chain'] for a in atoms})
        dist[f'chains={len(chains)}'] += 1
        dist['lattice-0.125' if lattice else 'grid-0.001'] += 1
        dist[f'atoms={10 * (len(atoms) // 10)}-{10 * (len(atoms) // 10) + 9}'] += 1
        grp = (to_lines(atoms), cutoff, configs_for(chains, rng, full=(len(chains) <= 3 and big)), [])
        if rng.random() < 0.15:
            grp = grp + (rng.choice([1, 100, -7]),)
        elif rng.random() < 0.2:
            grp = grp + (None, {'flags': rng.choice(['npbool', 'int01'])})
        groups.append(grp)
    for i in range(0, len(groups), 10):
        evaluate(ctx, rep, pdb2sql, groups[i:i + 10])
    empty = [m for m in MANDATORY if rep.features.get(m, 0) == 0]
    if empty:
        raise RuntimeError(f'generator degenerated: empty mandatory feature bins {empty}')
    rep.input_distribution = dict(dist)
    order = sorted(range(len(rep.model_reqs)), key=lambda i: len(rep.model_reqs[i][1]))
    rep.model_reqs = [rep.model_reqs[i] for i in order]
    rep.model_outs = [rep.model_outs[i] for i in order]
    return rep

def replay(ctx, case):
    pdb2sql = import_impl()
    rep = Report()
    grp = (case['lines'], case['cutoff'], [(case['allchains'], case['chain1'], case['chain2'], True)], [])
    if case.get('prime_then_renumber') or case.get('carriers'):
        grp = grp + (case.get('prime_then_renumber'), case.get('carriers'))
    res = evaluate(ctx, rep, pdb2sql, [grp], record=False)
    for c, vok, tok, text in res:
        if all(c[k] == case[k] for k in ('only_bb', 'exclH', 'pairs', 'extend')):
            return (vok and tok), text
    return True, 'case skipped (margin rule / outside the model)'
