"""C17 — query results do not depend on condition list length or on which table is used.
Large tables (1-3 structures, up to ~4000 atoms), value lists below / at / above the 950 / 999
limits, positive and negated, with and without duplicates, sorted and unsorted, alone and
combined, every table name, get / update / get_all."""
import random
from harness.core import *
from harness import gen_sql as G
from harness.findings import signature
from harness.props import C03 as Q3
from harness.props import C04 as Q4

ID = 'C17'
REGIONS = ['const', 'sql_get_consts', 'sql_tablenames']
HAND_MODELLED = ['pdb2sqlcore.py:pdb2sql.get (chunking 501-521, per-model recursion 444-449, limit 544-565)',
                 'pdb2sqlcore.py:pdb2sql.update', 'many2sql.py:many2sql.get_all', 'many2sql.py:many2sql.__init__ (table names)']
TRUSTED = Q3.TRUSTED + ['CPython recursion limit: unbounded recursion of get() ends in RecursionError (modelled by fuel exhaustion)']
RULE = ('1-3 structures of up to ~4000 atoms; conditions on serial / rowID / resSeq / name / x with list lengths '
        '{0,1,2,949,950,951,998,999,1000,1899,1900,1901,2851} and random, positive and negated, duplicate-free sorted / '
        'with duplicates / unsorted, alone and combined with a short or a second long condition (totals around 999), '
        'on every table name, through get, get_xyz, update, get_all. Non-trivial: some list has >= 949 values or the '
        'addressed table is not the first one.')

LENGTHS = [0, 1, 2, 949, 950, 951, 998, 999, 1000, 1899, 1900, 1901, 2851]

def long_list(rng, atoms, col, L, mode):
    """L values for column `col`: values present in the table first (in table order), absent fill after"""
    n = len(atoms)
    if col == 'rowID':
        present = list(range(n)); absent = lambda i: n + i
    elif col == 'serial':
        present = [a['serial'] for a in atoms]; mx = max(present) + 1; absent = lambda i: mx + i
    elif col == 'resSeq':
        seen, present = set(), []
        for a in atoms:
            if a['resSeq'] not in seen:
                seen.add(a['resSeq']); present.append(a['resSeq'])
        mx = max(present) + 1; absent = lambda i: mx + i
    elif col == 'name':
        seen, present = set(), []
        for a in atoms:
            if a['name'] not in seen:
                seen.add(a['name']); present.append(a['name'])
        absent = lambda i: 'X%d' % i
    else:   # x
        seen, present = set(), []
        for a in atoms:
            if a['x'] not in seen:
                seen.add(a['x']); present.append(a['x'])
        absent = lambda i: 1000.0 + i * 0.125
    frac = rng.choice([1.0, 1.0, 0.5, 0.1])
    k = min(len(present), int(L * frac) if L > 2 else L)
    if k < len(present) and rng.random() < 0.5:
        start = rng.randrange(len(present) - k + 1)
        vals = present[start:start + k]
    else:
        vals = present[:k]
    vals = vals + [absent(i) for i in range(L - len(vals))]
    if mode == 'dups' and L >= 2:
        # a present value repeated far away (in another piece when the list is long)
        vals[-1] = vals[0]
        if L > 1000: vals[960] = vals[3]
    elif mode == 'unsorted':
        rng.shuffle(vals)
    elif mode == 'reversed':
        vals = vals[::-1]
    elif mode == 'astext' and col in ('serial', 'resSeq'):
        vals = [str(v) if i % 3 == 0 else v for i, v in enumerate(vals)]
    return vals

def big_struct(rng, n, serial0=1):
    per = rng.choice([4, 7, 9])
    return G.gen_atoms(rng, n, chains=rng.choice([('A', 'B'), ('A', 'B', 'C')]), serial0=serial0, resseq0=1, natoms_per_res=per)

def feats_of(op, i, case):
    f = []
    kw = None
    if op[0] == 'get': kw, tn = op[3], op[2]
    elif op[0] == 'xyz': kw, tn = op[2], op[1]
    elif op[0] == 'get_all': kw, tn = op[2], None
    elif op[0] == 'update': kw, tn = op[4], op[3]
    elif op[0] == 'update_xyz': kw, tn = op[3], op[2]
    if kw is None:
        return f
    names = G.default_tablenames(case)
    for k, v in kw:
        if isinstance(v, list):
            L = len(v)
            cls = ('len<949' if L < 949 else 'len949-950' if L <= 950 else 'len951-999' if L <= 999 else
                   'len1000-1900' if L <= 1900 else 'len>1900')
            f.append(('neg-' if k.startswith('no_') else 'pos-') + cls)
            if L > 950 and len(set(map(repr, v))) < L: f.append('long-with-duplicates')
    nlong = sum(1 for _, v in kw if isinstance(v, list) and len(v) > 950)
    if nlong >= 2: f.append('two-long-lists')
    if len(kw) >= 2: f.append('combined')
    if tn is not None and names and tn.upper() != names[0].upper(): f.append('non-first-table')
    if op[0] in ('update', 'update_xyz'): f.append('update')
    if op[0] == 'get_all': f.append('get_all')
    if G.is_err(i): f.append('error-' + i[1])
    return f

def make_ops(rng, structs, names, nops, deep, many=True):
    ops = []
    atoms_of = {n: [a for a in s if a != 'ENDMDL'] for n, s in zip(names, structs)}
    lens = list(LENGTHS)
    rng.shuffle(lens)
    li = 0
    for q in range(nops):
        tn = rng.choice(names)
        atoms = atoms_of[tn]
        if li < len(lens):
            L = lens[li]; li += 1
        else:
            L = rng.choice(LENGTHS + [rng.randint(3, 3200), rng.randint(940, 1010)])
        col = rng.choice(['serial', 'serial', 'rowID', 'rowID', 'resSeq', 'name', 'x'])
        neg = rng.random() < 0.3
        mode = rng.choice(['sorted', 'sorted', 'sorted', 'dups', 'unsorted', 'reversed', 'astext'])
        kw = [[('no_' if neg else '') + col, long_list(rng, atoms, col, L, mode)]]
        r = rng.random()
        if r < 0.25:      # a short second condition
            kw.append(rng.choice([['chainID', 'A'], ['no_name', ['CA', 'ZZ']], ['resName', ['ALA', 'GLY', 'LYS']], ['chainID', ['A', 'B']],
                                  ['rowID', rng.randrange(len(atoms))], ['no_rowID', rng.randrange(len(atoms))]]))     # a position given as a scalar
        elif r < 0.40:    # totals around the 999 limit
            rest = rng.choice([48, 49, 50, 998 - min(L, 950), 999 - min(L, 950), 1000 - min(L, 950)])
            rest = max(0, min(rest, 900))
            col2 = 'resSeq' if col != 'resSeq' else 'serial'
            kw.append([('no_' if rng.random() < 0.2 else '') + col2, long_list(rng, atoms, col2, rest, 'sorted')])
            if rng.random() < 0.3:
                kw.append(rng.choice([['chainID', 'A'], ['model', 0], ['occ', 1.0]]))
        elif r < 0.50:    # a second long list
            col2 = 'resSeq' if col != 'resSeq' else 'rowID'
            kw.append([col2, long_list(rng, atoms, col2, rng.choice([951, 1000, 1900]), rng.choice(['sorted', 'unsorted']))])
        seen, kw2 = set(), []
        for k_, v_ in kw:
            if k_ not in seen:
                seen.add(k_); kw2.append([k_, v_])
        kw = kw2
        if rng.random() < 0.3:
            kw = kw[::-1]
        shown = tn if rng.random() < 0.8 else tn.lower()
        ops.append(['classes', shown, kw])
        r = rng.random()
        if r < 0.55:
            ops.append(['get', rng.choice(['rowID', 'x,y,z', 'serial,rowID', 'name', '*', 'rowID,chainID,resSeq']), shown, kw])
        elif r < 0.65:
            ops.append(['xyz', shown, kw])
        elif r < 0.85 or not many:
            cols = rng.choice([('temp', ['REAL']), ('x,y,z', ['REAL'] * 3), ('occ,resSeq', ['REAL', 'INT'])])
            ops.append(['update_dyn', cols[0], cols[1], shown, kw, None if rng.random() < 0.85 else rng.choice(['fewer', 'more']), rng.randrange(1 << 30)])
        else:
            ops[-1] = ['classes', '*', kw]
            ops.append(['get_all', rng.choice(['rowID', 'serial,name']), kw])
    return ops

def explore(ctx, tier, rng, search=False):
    rep = Report()
    G.check_schema(ctx, rep)
    deep = (tier == 'thorough' or search)
    plans = [([4000], None, 8), ([3000, 1000], None, 8), ([2900], None, 8), ([1300, 1000], ['ref', 'decoy'], 8), ([1000, 960], None, 8),
             ([1200, 300, 60], None, 8), ([1960, 400, 60], ['A_1', 'B_2', 'c3'], 8)]
    if deep:
        plans = [([4000], None, 40), ([3900, 1200], None, 40), ([2000, 1990, 960], ['A_1', 'B_2', 'c3'], 40),
                 ([1000], None, 30), ([960, 30], None, 30), ([2900, 2900], ['ref', 'decoy'], 30),
                 ([2900], None, 16), ([1960, 400, 60], None, 14)] * 2 + plans
    cases = []
    # multi-model structures (ENDMDL records) in a multi-table database: updates addressed to each table (two models of
    # equal size per structure, so that one value list fits every model)
    for q in range(6 if deep else 2):
        structs, half = [], []
        hsame = rng.randint(4, 20)
        for _ in range(2):
            h = hsame if q % 2 == 0 else rng.randint(4, 20)     # equal sizes: a value list fits either table
            st = big_struct(rng, 2 * h, serial0=1)
            structs.append(st[:h] + ['ENDMDL'] + st[h:] + ['ENDMDL']); half.append(h)
        case = {'structs': structs, 'part': 'multi-model'}
        if rng.random() < 0.5: case['tablenames'] = ['ref', 'decoy']
        names = G.default_tablenames(case)
        ops = []
        for tn, h in list(zip(names, half))[::-1] + list(zip(names, half)):
            col = rng.choice(['temp', 'occ', 'x,y,z'])
            nc = len(col.split(','))
            vals = [[rng.randint(-800, 800) * 0.125 for _ in range(nc)] for _ in range(h)]
            ops.append(['update', col, vals, tn, [], 'list'])
            ops.append(['get', rng.choice(['rowID', 'x,y,z', 'temp']), tn, []])
        case['ops'] = ops
        cases.append(case)
    for sizes, tns, nops in plans:
        structs = []
        s0 = 1
        for n in sizes:
            n2 = max(1, n + rng.randint(-20, 20))
            structs.append(big_struct(rng, n2, serial0=s0))
            s0 += rng.choice([0, 5000])
        case = {'structs': structs}
        if tns: case['tablenames'] = tns
        if len(structs) == 1 and rng.random() < 0.5: case['kind'] = 'many2sql'
        names = G.default_tablenames(case)
        case['ops'] = make_ops(rng, structs, names, nops, deep, many=(names != ['atom']))
        if rng.random() < 0.4: case['rowid_carrier'] = rng.choice(['i64', 'i32', 'intp'])     # positions as NumPy integers (np.where / np.argmin)
        cases.append(case)
    # small tables: the same machinery where lists are long but tables short (cheap, many)
    for t in range(60 if deep else 16):
        structs = [big_struct(rng, rng.randint(5, 60))] + ([big_struct(rng, rng.randint(5, 40), serial0=100)] if rng.random() < 0.5 else [])
        case = {'structs': structs}
        names = G.default_tablenames(case)
        case['ops'] = make_ops(rng, structs, names, 12, deep, many=(names != ['atom']))
        if t % 2 == 1: case['rowid_carrier'] = ['i64', 'i32', 'intp'][(t // 2) % 3]
        cases.append(case)
    # the recorded finding classes, on purpose
    for t in range(2):
        structs = [big_struct(rng, 30), big_struct(rng, 20, serial0=200)]
        case = {'structs': structs}
        a0 = structs[1]
        ops = [['add_column', 'w', 'FLOAT', 0, 'ATOM1'], ['get', 'w', 'ATOM1', []],
               ['classes', 'ATOM', [['serial', list(range(1, 961))], ['resSeq', list(range(1, 61))], ['model', 0]]],
               ['get', 'x', 'ATOM', [['serial', list(range(1, 961))], ['resSeq', list(range(1, 61))], ['model', 0]]]]
        case['ops'] = ops
        cases.append(case)
    G.run_cases(ctx, rep, cases, feats_of, keep_reqs=0, dyn=Q4.concretise)
    # a few small sessions for the vm_compute cross-check of extraction
    small = {'structs': [big_struct(random.Random(1), 6)], 'ops': [['get', 'rowID', 'atom', [['serial', list(range(1, 953))]]],
                                                                    ['get', 'rowID', 'atom', [['no_serial', [1, 2]]]]]}
    mq, sq = G.session_requests(small)
    outs = ctx.model.batch([mq, sq])
    rep.model_reqs, rep.model_outs = [mq, sq], outs
    rep.input_distribution = {'databases': len(cases), 'operations': sum(1 for c in cases for o in c['ops'] if o[0] != 'classes'),
                              'sizes': [[len(s) for s in c['structs']] for c in cases][:12]}
    return rep

def replay(ctx, case):
    return G.replay_case(ctx, case, dyn=Q4.concretise)

# ---- narrow signatures
def _kw_of_last(case):
    ops = case.get('ops') or []
    if not ops: return None
    op = ops[-1]
    return {'get': lambda: op[3], 'xyz': lambda: op[2], 'residues': lambda: op[2], 'chains': lambda: op[2],
            'get_all': lambda: op[2], 'update': lambda: op[4], 'update_xyz': lambda: op[3]}.get(op[0], lambda: None)()

@signature('c17_negated_long_list')
def sig_f10(case, details):
    kw = _kw_of_last(case)
    if kw is None: return False
    return any(k.startswith('no_') and isinstance(v, list) and len(v) > 950 for k, v in kw) \
        and 'RecursionError' in str(details.get('impl'))

@signature('c17_long_positive_list_chunk_order')
def sig_f11(case, details):
    kw = _kw_of_last(case)
    if kw is None: return False
    return any((not k.startswith('no_')) and isinstance(v, list) and len(v) > 950 for k, v in kw) \
        and details.get('f11_class') is True and not details.get('f10_class')

@signature('c17_limit_error_with_numeric_scalar')
def sig_limit_scalar(case, details):
    kw = _kw_of_last(case)
    if kw is None: return False
    return any(not isinstance(v, (list, str)) for k, v in kw) and 'TypeError' in str(details.get('impl')) \
        and 'ValueError' in str(details.get('spec'))
