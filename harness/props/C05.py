"""C05 — contact atoms: exactly the atoms within the cutoff of the other chain(s).
Correspondence implementation / model / specification on get_contact_atoms."""
import os, json, glob, collections
from fractions import Fraction
from harness.core import *
from harness.gen_contact import *

ID = 'C05'
REGIONS = ['contact_test', 'contact_filters', 'contact_defaults', 'const']
HAND_MODELLED = ['interface.py:get_contact_atoms', 'pdb2sql_base.py:get_chains',
                 'pdb2sqlcore.py:get (chainID= / rowID= selections, rowid order)']
TRUSTED = ['NumPy binary64 arithmetic in the distance test is compared with exact rational arithmetic under the '
           'margin rule (cases whose exact squared distance is within 1e-9 relative of cutoff^2 without being '
           'float-exact are skipped and counted)',
           'the ATOM table handed to the model/specification is the one the library itself returns '
           '(get rowID,chainID,resName,resSeq,name,x,y,z); it is cross-checked against the generator\'s atoms',
           'atoms with an empty name are outside the model (IndexError in the library)']
RULE = ('synthetic structures of 2-5 chains with 1-12 atoms each (0.125 A lattice: every distance decision is '
        'float-exact; 0.001 A grid: margin rule), planted pairs at exactly the cutoff, chains without contact, '
        'hydrogens, residues without backbone atoms, interleaved chains, segID chain names; for each structure '
        'allchains x all ordered chain pairs x only_backbone x excludeH x return_contact_pairs; a fifth of the structures again with the flags as np.bool_ / 0-1 integers and the cutoff as int / NumPy scalar; cutoff 0 on coincident atoms. Non-trivial: at '
        'least one of exact-cutoff-pair, hydrogen-filter-active, no-contact-chain, >=3-chains-allchains, '
        'backbone-filter-active.')
MANDATORY = ['exact-cutoff-pair', 'hydrogen-filter-active', 'no-contact-chain', '>=3-chains-allchains',
             'backbone-filter-active']

def configs_for(chains, rng, full=True):
    """(allchains, chain1, chain2, in_domain)"""
    out = [(True, 'A', 'B', len(chains) >= 2)]
    pairs = [(a, b) for a in chains for b in chains if a != b]
    if not full and len(pairs) > 6:
        pairs = rng.sample(pairs, 6)
    out += [(False, a, b, True) for a, b in pairs]
    # outside the property's domain: tie only
    r = rng.random()
    if r < 0.25:
        out.append((False, chains[0], '#', False))          # missing chain -> ValueError
    elif r < 0.4:
        out.append((False, chains[0], chains[0], False))    # the same chain twice
    return out

class Struct:
    def __init__(self, pdb2sql, lines):
        self.lines = lines
        import warnings
        with warnings.catch_warnings():
            warnings.simplefilter('ignore')
            self.db = pdb2sql.interface(lines)
        self.table = table_of(self.db)
        self.wire = wire_table(self.table)
        self.chains = chains_of(self.table)

def carry(v, car):
    """the same value in another carrier: flags as NumPy booleans / 0-1 integers, the cutoff as int / NumPy scalar"""
    import numpy as np
    if not car: return v
    if car == 'npbool': return np.bool_(v)
    if car == 'int01': return int(v)
    if car == 'np64': return np.float64(v)
    if car == 'np32': return np.float32(v)          # only used for cutoffs exactly representable in binary32
    if car == 'pyint': return int(v)
    if car == 'npint': return np.int64(int(v))
    raise ValueError(car)

def impl_atoms(st, cutoff, allch, c1, c2, obb, exh, pairs, extend=False, car=None):
    car = car or {}
    fc, cc = car.get('flags'), car.get('cutoff')
    return run_impl(lambda: (canon_pairs if pairs else canon_atoms)(st.db.get_contact_atoms(
        cutoff=carry(cutoff, cc), allchains=carry(allch, fc), chain1=c1, chain2=c2, extend_to_residue=carry(extend, fc),
        only_backbone_atoms=carry(obb, fc), excludeH=carry(exh, fc), return_contact_pairs=carry(pairs, fc))))

def make_case(lines, cutoff, allch, c1, c2, obb, exh, pairs):
    return {'fn': 'atoms', 'lines': lines, 'cutoff': cutoff, 'allchains': allch, 'chain1': c1, 'chain2': c2,
            'only_bb': obb, 'exclH': exh, 'pairs': pairs}

def evaluate(ctx, rep, pdb2sql, groups, record=True):
    """groups: list of (lines, cutoff, [(allch, c1, c2, in_domain)], base_feats).  Returns list of
    (case, verdict_ok, tie_ok, text)."""
    reqs, plan = [], []
    for grp in groups:
        lines, cutoff, cfgs, base = grp[:4]
        move = grp[4] if len(grp) > 4 else None
        car = grp[5] if len(grp) > 5 else None
        st = Struct(pdb2sql, lines)
        if move and move[0] in st.chains and len(st.chains) >= 2:
            # repeated use of ONE object: a first call, then the structure is modified through the public API
            # (one chain translated along x), then the calls under test: the answers must describe the NEW structure
            other = [c for c in st.chains if c != move[0]][0]
            run_impl(lambda: st.db.get_contact_atoms(cutoff=cutoff, chain1=move[0], chain2=other))
            run_impl(lambda: st.db.get_contact_atoms(cutoff=cutoff, allchains=True, return_contact_pairs=True))
            xs = [float(t[5]) + (move[1] / 1000.0 if t[1] == move[0] else 0.0) for t in st.table]
            st.db.update_column('x', xs)
            st.table = table_of(st.db); st.wire = wire_table(st.table); st.chains = chains_of(st.table)
        if has_empty_name(st.table):
            rep.skipped['out_of_model_empty_name'] += 1
            continue
        status, nexact = boundary_status(st.table, cutoff)
        if status == 'skip':
            rep.skipped['float_boundary'] += 1
            continue
        names = [t[4] for t in st.table]
        anyH = any(n.startswith('H') for n in names)
        anyNonBB = any(n not in BACKBONE for n in names)
        fq = Fraction(cutoff)
        for allch, c1, c2, dom in cfgs:
            cs = st.chains if allch else [c1, c2]
            for obb in (False, True):
                for exh in (False, True):
                    for pairs in (False, True):
                        impl = impl_atoms(st, cutoff, allch, c1, c2, obb, exh, pairs, car=car)
                        k = len(reqs)
                        reqs.append(['contact.atoms', st.wire, fq, allch, c1, c2, False, obb, exh, pairs])
                        ks = None
                        if dom:
                            ks = len(reqs)
                            reqs.append(['spec.contact.pairs' if pairs else 'spec.contact.atoms', st.wire, fq, cs, obb, exh])
                        feats = list(base)
                        if nexact: feats.append('exact-cutoff-pair')
                        if exh and anyH: feats.append('hydrogen-filter-active')
                        if obb and anyNonBB: feats.append('backbone-filter-active')
                        if allch and len(st.chains) >= 3: feats.append('>=3-chains-allchains')
                        if allch and not pairs and impl[0] == 'OK' and any(not v for _, v in impl[1]) and any(v for _, v in impl[1]):
                            feats.append('no-contact-chain')
                        if not dom: feats.append('outside-domain(tie-only)')
                        cs_ = make_case(lines, cutoff, allch, c1, c2, obb, exh, pairs)
                        if car:
                            cs_['carriers'] = dict(car); feats += ['carrier-%s-%s' % kv for kv in sorted(car.items())]
                        if cutoff == 0: feats.append('cutoff-zero')
                        if move:
                            cs_['prime_then_move'] = list(move); feats.append('object-reused-after-modification')
                        plan.append((cs_, impl, k, ks, feats, st))
    outs = ctx.model.batch(reqs)
    rep.model_reqs += reqs
    rep.model_outs += outs
    results = []
    swap_index = {}
    for case, impl, k, ks, feats, st in plan:
        model = outs[k]
        verdict_ok, tie_ok, text = True, True, ''
        if ks is not None:
            spec = ['OK', sorted(outs[ks], key=lambda kv: kv[0])]
            got = sort_keys_vals(impl) if case['pairs'] else sort_keys(impl)
            if got != spec:
                verdict_ok = False
                text = f'implementation {got} specification {spec}'
                rep.mismatch('impl_vs_spec', case, impl=got, spec=spec, model=model)
            else:
                text = f'implementation = specification = {spec}'
            if not case['allchains']:
                swap_index[(id(st), case['chain1'], case['chain2'], case['only_bb'], case['exclH'], case['pairs'])] = (case, impl)
        if verdict_ok and impl != model:
            tie_ok = False
            text = f'implementation {impl} model {model}'
            rep.mismatch('impl_vs_model', case, impl=impl, model=model)
        if record:
            nontrivial = any(f in MANDATORY for f in feats)
            rep.case(case, feats, nontrivial=nontrivial)
        results.append((case, verdict_ok, tie_ok, text))
    # swapping the two chains transposes the pair map and keeps the atom sets (checked on the implementation)
    for (sid, c1, c2, obb, exh, pairs), (case, impl) in swap_index.items():
        other = swap_index.get((sid, c2, c1, obb, exh, pairs))
        if other is None or c1 > c2 or impl[0] != 'OK' or other[1][0] != 'OK':
            continue
        if pairs:
            t = collections.defaultdict(list)
            for i, l in impl[1]:
                for j in l:
                    t[j].append(i)
            want = ['OK', sorted([[j, sorted(l)] for j, l in t.items()])]
            got = sort_keys_vals(other[1])
        else:
            want, got = sort_keys(impl), sort_keys(other[1])
        rep.features['swap-checked'] += 1
        if want != got:
            rep.mismatch('impl_vs_spec', other[0], impl=got, spec=want, note='swap of chain1/chain2 is not the transpose / same sets')
    return results

def forced_structures(rng):
    """deterministically present discriminating structures"""
    out = []
    # three chains on a line, 3 A apart, with a hydrogen and a side-chain atom; a far fourth chain
    A = lambda nm, rn, c, n, x, y, z: {'name': nm, 'resName': rn, 'chain': c, 'resSeq': n, 'x': x, 'y': y, 'z': z}
    s = [A('CA', 'ALA', 'A', 1, 0, 0, 0), A('HB', 'ALA', 'A', 1, 1000, 0, 0), A('CB', 'ALA', 'A', 1, 0, 1000, 0),
         A('N', 'GLY', 'B', 1, 3000, 0, 0), A('H', 'GLY', 'B', 1, 3000, 1000, 0), A('CG', 'LYS', 'B', 2, 4000, 2000, 2000),
         A('O', 'SER', 'C', -2, 6000, 0, 0), A('CA', 'SER', 'C', -2, 5000, 2000, 2000),
         A('CA', 'TRP', 'D', 7, 0, 0, 150000)]
    for c in (3.0, 5.0):
        out.append((s, c, ['forced']))
    # cutoff 0: exactly the coincident atoms of different chains are in contact (two such pairs here)
    z = [A('CA', 'ALA', 'A', 1, 0, 0, 0), A('CB', 'ALA', 'A', 1, 1500, 0, 0), A('N', 'GLY', 'B', 1, 0, 0, 0),
         A('H', 'GLY', 'B', 1, 1500, 0, 0), A('O', 'GLY', 'B', 2, 250, 0, 0), A('CA', 'SER', 'C', 3, 250, 0, 0),
         A('CA', 'TRP', 'D', 7, 0, 0, 9000)]
    for c in (0, 0.0):
        out.append((z, c, ['forced', 'cutoff-zero']))
    return out

def explore(ctx, tier, rng, search=False):
    rep = Report()
    pdb2sql = import_impl()
    big = (tier == 'thorough' or search)
    nstruct = 900 if big else 110
    groups = []
    # corpus first
    for p in sorted(glob.glob(os.path.join(VERIF, 'corpus', ID, '*.json'))):
        c = json.load(open(p))
        c = c.get('case', c)
        if c.get('fn') == 'atoms':
            groups.append((c['lines'], c['cutoff'], [(c['allchains'], c['chain1'], c['chain2'], True)], ['corpus']))
    for atoms, cutoff, base in forced_structures(rng):
        lines = to_lines(atoms)
        chains = sorted({a['chain'] for a in atoms})
        groups.append((lines, cutoff, configs_for(chains, rng), base))
    dist = collections.Counter()
    for k in range(nstruct):
        lattice = rng.random() < (0.6 if not big else 0.45)
        atoms = gen_structure(rng)
        cutoff = rand_cutoff(rng)
        if lattice:
            cutoff = rng.choice(list(EXACT))
            for a in atoms:
                for c in 'xyz':
                    a[c] = int(round(a[c] / 125.0)) * 125
        planted = False
        if cutoff in EXACT and rng.random() < 0.7:
            for _ in range(rng.choice([1, 1, 2])):
                planted |= plant_exact_pair(rng, atoms, cutoff)
        chains = sorted({a['chain'] for a in atoms})
        dist[f'chains={len(chains)}'] += 1
        dist[f'atoms={10 * (len(atoms) // 10)}-{10 * (len(atoms) // 10) + 9}'] += 1
        dist['lattice-0.125' if lattice else 'grid-0.001'] += 1
        dist[f'cutoff={cutoff}' if cutoff in EXACT else 'cutoff=other'] += 1
        if planted: dist['planted-exact-pair'] += 1
        if any(len(c) > 1 for c in chains): dist['segid-chain-names'] += 1
        base = []
        if any(len(c) > 1 for c in chains): base.append('segid-chain')
        groups.append((to_lines(atoms), cutoff, configs_for(chains, rng, full=(len(chains) <= 3 or big)), base))
        if k % 5 == 1:
            # the same questions with the arguments in other carriers (np.bool_ / 0-1 flags, int / NumPy-scalar cutoff)
            car = {'flags': rng.choice(['npbool', 'int01'])}
            if float(cutoff) == int(cutoff): car['cutoff'] = rng.choice(['pyint', 'npint', 'np64', 'np32'])
            elif cutoff in EXACT: car['cutoff'] = rng.choice(['np64', 'np32'])
            elif rng.random() < 0.5: car['cutoff'] = 'np64'
            groups.append((to_lines(atoms), cutoff, configs_for(chains, rng, full=False)[:3], base, None, car))
        if k % 6 == 0 and len(chains) >= 2 and all(len(c) == 1 for c in chains):
            mv = (rng.choice(chains), rng.choice([125, -250, 3000, 1000, -6125]))
            groups.append((to_lines(atoms), cutoff, configs_for(chains, rng, full=False)[:3], base, mv))
    # evaluate in slices (bounded memory, progress)
    for i in range(0, len(groups), 12):
        evaluate(ctx, rep, pdb2sql, groups[i:i + 12])
    # cross-check of the formatter against the library's parser on the generated atoms is implicit in table_of;
    # mandatory bins
    empty = [m for m in MANDATORY if rep.features.get(m, 0) == 0]
    if empty:
        raise RuntimeError(f'generator degenerated: empty mandatory feature bins {empty}')
    rep.input_distribution = dict(dist)
    # keep the vm_compute slice cheap: small requests first
    order = sorted(range(len(rep.model_reqs)), key=lambda i: len(rep.model_reqs[i][1]))
    rep.model_reqs = [rep.model_reqs[i] for i in order]
    rep.model_outs = [rep.model_outs[i] for i in order]
    return rep

def replay(ctx, case):
    pdb2sql = import_impl()
    rep = Report()
    chains = None
    cfg = (case['allchains'], case['chain1'], case['chain2'], True)
    st = Struct(pdb2sql, case['lines'])
    dom = (len(st.chains) >= 2) if case['allchains'] else (case['chain1'] != case['chain2'] and case['chain1'] in st.chains and case['chain2'] in st.chains)
    cfg = cfg[:3] + (dom,)
    grp = (case['lines'], case['cutoff'], [cfg], [])
    if case.get('prime_then_move') or case.get('carriers'):
        grp = grp + (tuple(case['prime_then_move']) if case.get('prime_then_move') else None, case.get('carriers'))
    res = evaluate(ctx, rep, pdb2sql, [grp], record=False)
    for c, vok, tok, text in res:
        if (c['only_bb'], c['exclH'], c['pairs']) == (case['only_bb'], case['exclH'], case['pairs']):
            return (vok and tok), text
    return True, 'case skipped (margin rule / outside the model)'
