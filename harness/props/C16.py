"""C16 — computations depend on their arguments only: no stray files, safe concurrently.

(i) footprints: every public routine (six score routines with / without a zone file — absent ->
    computed and written, present -> read —, contacts, superpose, align, export on / off) is run by
    the real library under wrappers of builtins.open, os.path.exists/isfile, os.remove/replace/rename/
    system, subprocess.*, sqlite3.connect, tempfile.mkstemp, in a directory pre-seeded with files named
    like the library's old scratch files.  Compared: the observed action sequence with the model's
    script (tie); the directory snapshots (names, sizes, hashes) before/after with the requested
    outputs (verdict); the value with the value obtained in a clean directory (verdict).
(ii) schedules: two real computations in two threads, parked at EVERY intercepted action and
    released one action at a time according to a schedule; each result is compared with the solo
    result (verdict), the interleaved action sequence and every text read with the model (tie).
    Schedules the model predicts to be bad are replayed first."""
import os, sys, json, threading, shutil, random, hashlib, itertools
from fractions import Fraction
from harness.core import *
from harness import fs_lib as L

ID = 'C16'
REGIONS = ['fs_callsites']
HAND_MODELLED = ['StructureSimilarity.py:compute_lrmsd_fast', 'StructureSimilarity.py:compute_lzone',
                 'StructureSimilarity.py:compute_irmsd_fast', 'StructureSimilarity.py:compute_izone',
                 'StructureSimilarity.py:compute_irmsd_pdb2sql', 'StructureSimilarity.py:get_izone_rowID',
                 'StructureSimilarity.py:compute_lrmsd_pdb2sql', 'StructureSimilarity.py:compute_fnat_fast',
                 'StructureSimilarity.py:compute_residue_pairs_ref', 'StructureSimilarity.py:compute_fnat_pdb2sql',
                 'StructureSimilarity.py:check_residues', 'StructureSimilarity.py:_write_zone',
                 'StructureSimilarity.py:read_zone', 'StructureSimilarity.py:get_data_zone_backbone',
                 'StructureSimilarity.py:_get_xyz', 'pdb2sqlcore.py:pdb2sql.read_pdb', 'pdb2sqlcore.py:pdb2sql._create_sql',
                 'pdb2sql_base.py:exportpdb', 'superpose.py:superpose', 'align.py:align', 'align.py:export_aligned',
                 'interface.py:interface.__init__']
TRUSTED = ['OS scheduling, thread switches inside SQLite/NumPy and OS buffering are NOT modelled: schedules are interleavings of '
           'the intercepted Python-level actions (one task runs at a time between two actions)',
           'tempfile.mkstemp returns a name that did not exist (O_EXCL) — oracle; the names drawn are fed to the model',
           'os.replace is atomic (POSIX rename) — oracle',
           'the numerical value of a routine is a deterministic function of the texts it reads (zone lines and exported lines '
           'of a clean solo run are handed to the model as oracle data)']
RULE = ('every routine x {no zone, zone absent, zone present} x {export on, off} x {clean, pre-seeded directory with decoy.db, '
        'ref.db, old and default-named (ref/decoy) *.izone / *.lzone with another zone, old exports}; pairs of tasks (shared zone cache, same reference / different decoys, disjoint '
        'exports, mixed routines) x schedules: all two-switch interleavings around the zone protocol first, then random ones. '
        'Non-trivial: a pre-seeded directory, a zone file written or read, an export, or a schedule with at least one switch '
        'inside the zone protocol.')

# ----------------------------------------------------------------------------------------
def modules():
    import_impl()
    from pdb2sql.StructureSimilarity import StructureSimilarity as SS
    from pdb2sql.interface import interface
    sup = sys.modules['pdb2sql.superpose'].superpose
    ali = sys.modules['pdb2sql.align'].align
    return {'SS': SS, 'interface': interface, 'superpose': sup, 'align': ali}

def canon(v):
    import numpy as np
    if isinstance(v, dict):
        return {str(k): canon(x) for k, x in sorted(v.items(), key=lambda kv: str(kv[0]))}
    if isinstance(v, (list, tuple)):
        return [canon(x) for x in v]
    if isinstance(v, np.generic):
        return v.item()
    if isinstance(v, np.ndarray):
        return canon(v.tolist())
    return v

def run_call(M, c):
    """one public routine of the real library; canonical result"""
    r = c['routine']
    if r in ('lrmsd_fast', 'irmsd_fast', 'irmsd_sql', 'lrmsd_sql', 'fnat_fast', 'fnat_sql'):
        sim = M['SS'](c['decoy'], c['ref'])
        if r == 'lrmsd_fast':
            return canon(sim.compute_lrmsd_fast(lzone=c['zone']))
        if r == 'irmsd_fast':
            return canon(sim.compute_irmsd_fast(izone=c['zone']))
        if r == 'irmsd_sql':
            return canon(sim.compute_irmsd_pdb2sql(izone=c['zone'], exportpath=c['export']))
        if r == 'lrmsd_sql':
            return canon(sim.compute_lrmsd_pdb2sql(exportpath=c['export']))
        if r == 'fnat_fast':
            return canon(sim.compute_fnat_fast())
        return canon(sim.compute_fnat_pdb2sql())
    if r == 'contacts':
        return canon(M['interface'](c['ref']).get_contact_atoms(cutoff=5.0))
    if r == 'superpose':
        sql = M['superpose'](c['decoy'], c['ref'], export=bool(c['export']))
        return sql.sql2pdb()
    if r == 'align':
        sql = M['align'](c['ref'], export=bool(c['export']))
        return sql.sql2pdb()
    raise ValueError(r)

def guarded(M, c):
    try:
        return ['OK', run_call(M, c)]
    except BaseException as e:
        return ['ERR', exc_class(e)]

def norm_event(e):
    k = e['kind']
    if k in ('exists', 'isfile'):
        return ['exists', e['path']]
    if k == 'open':
        if e['mode'] == 'r':
            return ['read', e['path']]
        if e['mode'] == 'w':
            return ['opentrunc', e['path']]
        return ['open-' + e['mode'], e['path']]
    if k == 'write':
        return ['write', e['path'], e['text']]
    if k == 'close':
        return ['close', e['path']]
    if k == 'remove':
        return ['remove', e['path']]
    if k == 'replace':
        return ['rename', e['path'], e['dst']]
    if k == 'mkstemp':
        return ['mkstemp', e.get('name') or '?']
    if k == 'connect':
        return ['connect', e['path']]
    if k == 'shell':
        return ['shell', e['cmd']]
    return [k, str(e.get('path'))]

def w_routine(c):
    r = c['routine']
    if r in ('lrmsd_fast', 'irmsd_fast'):
        return [r, [] if c['zone'] is None else [c['zone']]]
    if r == 'irmsd_sql':
        return [r, [] if c['zone'] is None else [c['zone']], [] if c['export'] is None else [c['export']]]
    if r == 'lrmsd_sql':
        return [r, [] if c['export'] is None else [c['export']]]
    if r in ('superpose', 'align'):
        return [r, bool(c['export'])]
    return [r]

def w_call(c, oracle, tmps):
    return [c['decoy'], c['ref'], w_routine(c), list(tmps), list(oracle['zone_lines']), list(oracle['out1']), list(oracle['out2'])]

def w_dir(files):
    """files: dict relpath -> text"""
    return [[p, 'text', t] for p, t in sorted(files.items())]

def wire_ok(s):
    return all(32 <= ord(ch) < 127 or ch == '\n' for ch in s)

# ----------------------------------------------------------------------------------------
def materialise(d, files, dirs=()):
    os.makedirs(d, exist_ok=True)
    for sub in dirs:
        os.makedirs(os.path.join(d, sub), exist_ok=True)
    for p, t in files.items():
        fp = os.path.join(d, p)
        os.makedirs(os.path.dirname(fp), exist_ok=True)
        with open(fp, 'w') as f:
            f.write(t)

def read_tree(d):
    out = {}
    for base, _, fs in os.walk(d):
        for f in fs:
            p = os.path.join(base, f)
            try:
                out[os.path.relpath(p, d)] = open(p, 'r', errors='replace').read()
            except OSError:
                out[os.path.relpath(p, d)] = '<unreadable>'
    return out

def traced_solo(M, c, d):
    """run one call alone in directory d under the tracer; returns (result, events, reads)"""
    cwd = os.getcwd()
    os.chdir(d)
    tr = L.Tracer(d)
    tr.install()
    try:
        res = guarded(M, c)
    finally:
        tr.uninstall()
        os.chdir(cwd)
    return res, [norm_event(e) for e in tr.events], [t for (_, _, t) in tr.reads]

def oracle_from(events, c):
    """zone lines and exported lines as a clean solo run produced them"""
    tmp_writes, outs = [], {}
    tmpnames = [e[1] for e in events if e[0] == 'mkstemp']
    for e in events:
        if e[0] == 'write':
            if e[1] in tmpnames or e[1] == c.get('zone'):
                tmp_writes.append(e[2])           # zone lines, whichever way they are written
            else:
                outs.setdefault(e[1], []).append(e[2])
    files = list(outs)
    o1 = [l[:-1] if l.endswith('\n') else l for l in outs[files[0]]] if len(files) > 0 else []
    o2 = [l[:-1] if l.endswith('\n') else l for l in outs[files[1]]] if len(files) > 1 else []
    return {'zone_lines': tmp_writes, 'out1': o1, 'out2': o2}

SEED_FILES = {'decoy.db': 'user data called decoy.db\n', 'ref.db': 'user data called ref.db\n',
              'old.izone': 'zone Z9-Z9\n', 'old.lzone': 'zone Z8-Z8\n', 'lrmsd_decoy.pdb': 'REMARK user file\n',
              'irmsd_ref.pdb': 'REMARK user file\n', 'fnat.log': 'log\n', 'aligned_structure.pdb': 'REMARK mine\n',
              'residue_contact_pairs.pckl': 'not a pickle\n', 'notes.txt': 'notes\n'}

def base_inputs(rng, variant=0):
    ref = L.synth_complex(rng, rng.randint(3, 5), rng.randint(2, 3))
    dec = L.perturb(rng, ref, 'B', angle=rng.uniform(0.1, 0.5), shift=(rng.uniform(-1, 1), rng.uniform(-1, 1), rng.uniform(-1, 1)))
    dec2 = L.perturb(rng, ref, 'B', angle=rng.uniform(-0.5, -0.1), shift=(rng.uniform(-1, 1), rng.uniform(-1, 1), rng.uniform(-1, 1)))
    txt = lambda atoms: ''.join(l + '\n' for l in L.pdb_lines(atoms))
    return txt(ref), txt(dec), txt(dec2)

def bundled_inputs():
    d = os.path.join(REPO, 'test', 'pdb', '1AK4')
    return (open(os.path.join(d, 'target.pdb')).read() if os.path.exists(os.path.join(d, 'target.pdb')) else None,
            os.path.join(d))

def call_configs():
    """(label, routine, zone-mode, export) for the footprint part"""
    out = []
    for r in ('lrmsd_fast', 'irmsd_fast'):
        for z in ('none', 'absent', 'present'):
            out.append((r, z, None))
    for z in ('none', 'present', 'absent'):
        for ex in (None, 'exp'):
            out.append(('irmsd_sql', z, ex))
    for ex in (None, 'exp'):
        out.append(('lrmsd_sql', 'none', ex))
    out += [('fnat_fast', 'none', None), ('fnat_sql', 'none', None), ('contacts', 'none', None)]
    for ex in (False, True):
        out += [('superpose', 'none', ex), ('align', 'none', ex)]
    return out

def make_call(routine, zmode, export, indir, zname=None, ext='.pdb'):
    zext = '.lzone' if routine == 'lrmsd_fast' else '.izone'
    zone = None if zmode == 'none' else (zname or ('cache/zone' + zext))
    return {'routine': routine, 'zone': zone, 'export': export,
            'decoy': indir + 'decoy' + ext, 'ref': indir + 'ref' + ext, 'zmode': zmode}

# ----------------------------------------------------------------------------------------
def footprint_case(ctx, rep, M, rng, base, idx, routine, zmode, export, seeded, texts, indir):
    ref_t, dec_t, _ = texts
    # input files are not always called *.pdb: the exported name is derived from the input name, and must never BE it
    ext = rng.choice(['.pdb', '.ent', '.PDB', '']) if (routine in ('align', 'superpose') and export) else '.pdb'
    c = make_call(routine, zmode, export, indir, ext=ext)
    files0 = {c['ref']: ref_t, c['decoy']: dec_t}
    dirs = ['cache'] + ([export] if isinstance(export, str) else [])
    case = {'part': 'footprint', 'call': c, 'seeded': seeded, 'inputs': {'ref': ref_t, 'decoy': dec_t}, 'indir': indir}
    # 1. clean reference run (also produces the zone file for the 'present' variant)
    dref = os.path.join(base, 'f%d_ref' % idx)
    cref = dict(c)
    zone_text = None
    if zmode == 'present':
        # a valid zone file made by the library itself in another clean directory
        dz = os.path.join(base, 'f%d_z' % idx)
        materialise(dz, files0, dirs)
        maker = dict(c, routine=('lrmsd_fast' if routine == 'lrmsd_fast' else 'irmsd_fast'))
        traced_solo(M, maker, dz)
        zone_text = open(os.path.join(dz, c['zone'])).read()
        shutil.rmtree(dz, ignore_errors=True)
        files0 = dict(files0, **{c['zone']: zone_text})
    materialise(dref, files0, dirs)
    res_ref, ev_ref, _ = traced_solo(M, cref, dref)
    oracle = oracle_from(ev_ref, c)
    shutil.rmtree(dref, ignore_errors=True)
    # 2. run under test
    files = dict(files0)
    if seeded:
        files.update(SEED_FILES)
        # files named like the zone files the library itself would save by default for these inputs
        # (<stem>.izone / <stem>.lzone next to the inputs and in the working directory): valid zone
        # syntax, but a different zone (the first residue of each chain only)
        first = {}
        for l in ref_t.splitlines():
            if l.startswith('ATOM') and l[21] not in first:
                first[l[21]] = int(l[22:26])
        stale = ''.join('zone %s%d-%s%d\n' % (ch, n, ch, n) for ch, n in sorted(first.items()))
        for stem in ('ref', 'decoy'):
            for ext in ('.izone', '.lzone'):
                for where in {indir, ''}:
                    if where + stem + ext != c.get('zone'):
                        files.setdefault(where + stem + ext, stale)
        if isinstance(export, str):
            files[export + '/keep.txt'] = 'already in the export directory\n'
    d = os.path.join(base, 'f%d' % idx)
    materialise(d, files, dirs)
    before = L.snapshot(d)
    res, ev, reads = traced_solo(M, c, d)
    after = L.snapshot(d)
    tree = read_tree(d)
    tmps = [e[1] for e in ev if e[0] == 'mkstemp']
    reqs = [['spec.fs.c16.outputs', w_call(c, oracle, tmps)],
            ['fs.c16.run', w_call(c, oracle, tmps), w_dir(files), sorted(set(files) | set(tree))]]
    outs = ctx.model.batch(reqs)
    if len(rep.model_reqs) < 4 and idx % 7 == 0:
        rep.model_reqs += reqs; rep.model_outs += outs
    requested, transients, inputs = outs[0]
    mtrace, mres, mwatch = outs[1]
    feats = ['routine-' + routine, 'zone-' + zmode]
    if seeded: feats.append('seeded-directory')
    if export: feats.append('export')
    if any(e[0] == 'mkstemp' for e in ev): feats.append('zone-written')
    rep.case(case, feats, nontrivial=(seeded or zmode != 'none' or bool(export)))
    problems = []
    changed = sorted(f for f in set(before) | set(after) if before.get(f) != after.get(f))
    for f in changed:
        if f not in requested:
            problems.append(f'file {f!r} was ' + ('created' if f not in before else 'removed' if f not in after else 'modified')
                            + ' but is not a requested output')
    for e in ev:
        if e[0] in ('shell',) or e[0].startswith('open-'):
            problems.append('unexpected action %r' % (e,))
        if e[0] == 'connect' and e[1] != ':memory:':
            problems.append('a database file was opened: %r' % e[1])
    if res != res_ref:
        problems.append('the value differs from the value in a clean directory: %r vs %r' % (str(res)[:80], str(res_ref)[:80]))
    if problems:
        rep.mismatch('impl_vs_spec', case, problems=problems, changed=changed, requested=requested)
        return
    # tie
    if res[0] == 'ERR' and res[1] in ('ValueError', 'IndexError', 'ZeroDivisionError') and ev == [list(x) for x in mtrace[:len(ev)]]:
        # the routine itself rejected the input (e.g. check_residues: residues/atoms of decoy and reference
        # differ) — the same way as in the clean directory (verdict above).  The scripts model the successful
        # path: what was done before the exception is a prefix of the script.
        rep.skipped['routine_raised_after_script_prefix'] += 1
        shutil.rmtree(d, ignore_errors=True)
        return
    if ev != [list(x) for x in mtrace]:
        k = next((i for i, (a, b) in enumerate(zip(ev, mtrace)) if a != list(b)), min(len(ev), len(mtrace)))
        rep.mismatch('impl_vs_model', case, what='action sequence differs at position %d' % k,
                     impl=ev[max(0, k - 2):k + 3], model=mtrace[max(0, k - 2):k + 3], n_impl=len(ev), n_model=len(mtrace))
        return
    m_ok = (mres[0] == 'OK') == (res[0] == 'OK')
    if not m_ok or (mres[0] == 'OK' and list(mres[1][1]) != reads) or (mres[0] == 'ERR' and mres[1] != res[1]):
        rep.mismatch('impl_vs_model', case, what='texts read / outcome differ', impl=[res[0], [r[:30] for r in reads]],
                     model=[mres[0], [str(r)[:30] for r in (mres[1][1] if mres[0] == 'OK' else [mres[1]])]])
        return
    for p, mc in zip(sorted(set(files) | set(tree)), mwatch):
        real = tree.get(p)
        mt = None if mc[0] == 'none' else (mc[1] if mc[0] == 'text' else '<db>')
        if real != mt:
            rep.mismatch('impl_vs_model', case, what='final content of %r differs' % p, impl=(real or '')[:200], model=str(mt)[:200])
            return
    shutil.rmtree(d, ignore_errors=True)

# ----------------------------------------------------------------------------------------
class Scheduled:
    """run calls in threads, one intercepted action at a time, following a schedule"""
    def __init__(self, M, calls, d):
        self.M, self.calls, self.d = M, calls, d
        n = len(calls)
        self.go = [threading.Semaphore(0) for _ in range(n)]
        self.state = ['new'] * n
        self.pending = [None] * n
        self.cv = threading.Condition()
        self.res = [None] * n
        self.order = []
        self.tr = L.Tracer(d, gate=self.gate, only_threads={})

    def gate(self, ev):
        i = ev['task']
        with self.cv:
            self.pending[i] = ev
            self.state[i] = 'parked'
            self.cv.notify_all()
        self.go[i].acquire()

    def worker(self, i):
        self.tr.only_threads[threading.get_ident()] = i
        r = guarded(self.M, self.calls[i])
        with self.cv:
            self.res[i] = r
            self.state[i] = 'done'
            self.cv.notify_all()

    def wait(self, i):
        with self.cv:
            ok = self.cv.wait_for(lambda: self.state[i] in ('parked', 'done'), timeout=120)
        if not ok:
            raise RuntimeError('task %d neither parked nor finished within 120 s' % i)

    def stepi(self, i):
        if self.state[i] != 'parked':
            return False
        with self.cv:
            self.order.append((i, self.pending[i]))
            self.state[i] = 'running'
        self.go[i].release()
        self.wait(i)
        return True

    def run(self, schedule):
        cwd = os.getcwd()
        os.chdir(self.d)
        self.tr.install()
        ths = []
        try:
            for i in range(len(self.calls)):
                t = threading.Thread(target=self.worker, args=(i,), daemon=True)
                ths.append(t)
                with self.cv:
                    self.state[i] = 'running'
                t.start()
                self.wait(i)
            for i in schedule:
                if i < len(self.calls):
                    self.stepi(i)
            for i in range(len(self.calls)):
                while self.state[i] != 'done':
                    if not self.stepi(i):
                        self.wait(i)
            for t in ths:
                t.join(10)
        finally:
            self.tr.uninstall()
            os.chdir(cwd)
        return self.res

def basis(mres):
    """what the value of a task is a function of, per the model: ['OK', [basis, reads]] -> basis"""
    return ['OK', list(mres[1][0])] if mres[0] == 'OK' else list(mres)

def two_switch_schedules(n0, n1, lim0, lim1):
    """A^i B^j A^* B^*: every pair of switch points inside the first lim actions"""
    out = []
    for i in range(0, min(n0, lim0) + 1):
        for j in range(0, min(n1, lim1) + 1):
            out.append([0] * i + [1] * j)
    return out

def sched_pairs():
    """(label, call0 spec, call1 spec, zone initially present?)  spec = (routine, zmode, export, decoy-file)"""
    return [
        ('lzone-cache-shared', ('lrmsd_fast', 'absent', None, 'decoy'), ('lrmsd_fast', 'absent', None, 'decoy2'), False),
        ('izone-cache-shared', ('irmsd_fast', 'absent', None, 'decoy'), ('irmsd_fast', 'absent', None, 'decoy2'), False),
        ('izone-cache-present', ('irmsd_fast', 'present', None, 'decoy'), ('irmsd_sql', 'present', None, 'decoy2'), True),
        ('lrmsd-sql-twice', ('lrmsd_sql', 'none', None, 'decoy'), ('lrmsd_sql', 'none', None, 'decoy2'), False),
        ('exports-disjoint', ('lrmsd_sql', 'none', 'exp1', 'decoy'), ('irmsd_sql', 'none', 'exp2', 'decoy2'), False),
        ('mixed', ('fnat_fast', 'none', None, 'decoy'), ('contacts', 'none', None, 'decoy'), False),
        ('lzone-and-fnat', ('lrmsd_fast', 'absent', None, 'decoy'), ('fnat_sql', 'none', None, 'decoy2'), False),
        ('superpose-align', ('superpose', 'none', True, 'decoy'), ('align', 'none', True, 'decoy2'), False),
    ]

def schedule_pair(ctx, rep, M, rng, base, pidx, label, s0, s1, present, texts, budget, seeded, cand_limit=None):
    ref_t, dec_t, dec2_t = texts
    calls = []
    for s in (s0, s1):
        c = make_call(s[0], s[1], s[2], 'in/')
        c['decoy'] = 'in/' + s[3] + '.pdb'
        calls.append(c)
    files0 = {'in/ref.pdb': ref_t, 'in/decoy.pdb': dec_t, 'in/decoy2.pdb': dec2_t}
    dirs = ['cache'] + [c['export'] for c in calls if isinstance(c['export'], str)]
    if seeded:
        files0.update(SEED_FILES)
    # solo runs (specification: what each returns when run alone) and oracle data
    solo, oracles, solo_n = [], [], []
    zone_text = None
    for i, c in enumerate(calls):
        d = os.path.join(base, 'p%d_solo%d' % (pidx, i))
        f = dict(files0)
        if present and c['zone']:
            if zone_text is None:
                dz = os.path.join(base, 'p%d_z' % pidx)
                materialise(dz, files0, dirs)
                traced_solo(M, dict(c, routine='irmsd_fast' if c['zone'].endswith('.izone') else 'lrmsd_fast'), dz)
                zone_text = open(os.path.join(dz, c['zone'])).read()
                shutil.rmtree(dz, ignore_errors=True)
            f[c['zone']] = zone_text
        materialise(d, f, dirs)
        r, ev, _ = traced_solo(M, c, d)
        solo.append(r); oracles.append(oracle_from(ev, c)); solo_n.append(len(ev))
        shutil.rmtree(d, ignore_errors=True)
    files = dict(files0)
    if present and zone_text is not None:
        for c in calls:
            if c['zone']:
                files[c['zone']] = zone_text
    # candidate schedules, the model's opinion on each (placeholder temp names)
    zlim = [16 + len(o['zone_lines']) for o in oracles]
    cands = two_switch_schedules(solo_n[0], solo_n[1], zlim[0], zlim[1])
    for _ in range(max(60, budget - len(cands) + 20)):
        # random schedules; in the thorough tier as many as the budget asks for
        n = rng.randint(1, solo_n[0] + solo_n[1])
        p0 = rng.choice([0.5, 0.5, 0.2, 0.8])
        cands.append([0 if rng.random() < p0 else 1 for _ in range(n)])
    if cand_limit and len(cands) > cand_limit:
        # quick tier: the model's opinion is asked on a sample (it is used to order the replays)
        cands = rng.sample(cands, cand_limit)
    ph = [['/placeholder/tmp%d' % i] for i in range(len(calls))]
    watch = sorted(set(files) | {c['zone'] for c in calls if c['zone']})
    wcalls = [w_call(c, o, t) for c, o, t in zip(calls, oracles, ph)]
    # one request: the directory and the calls are sent once, the model answers one boolean per task and schedule
    mout, mout_ip = ctx.model.batch([['fs.c16.sched_same', wcalls, w_dir(files), cands, False],
                                     ['fs.c16.sched_same', wcalls, w_dir(files), cands, True]])
    bad, risky, good = [], [], []
    for s, o, oip in zip(cands, mout, mout_ip):
        if not all(o):
            bad.append(s)                 # the model of TODAY's code predicts a wrong result
        elif not all(oip):
            risky.append(s)               # harmless today; a regression to in-place zone writing would hit it
        else:
            good.append(s)
    rng.shuffle(risky); rng.shuffle(good)
    # order of replay: predicted bad, then the race windows of the zone protocol, then the others
    chosen = bad + risky[:max(budget // 2, budget - len(good))] + good
    chosen = chosen[:budget]
    rep.notes.append(f'{label}: {len(cands)} candidate schedules, model-predicted bad: {len(bad)}, '
                     f'bad if the zone were written in place: {len(risky)}, replayed: {len(chosen)}')
    for si, s in enumerate(chosen):
        d = os.path.join(base, 'p%d_s%d' % (pidx, si))
        materialise(d, files, dirs)
        before = L.snapshot(d)
        run = Scheduled(M, calls, d)
        try:
            res = run.run(s)
        except RuntimeError as e:
            res = [['ERR', 'harness: ' + str(e)]] * len(calls)
        after = L.snapshot(d)
        case = {'part': 'schedule', 'pair': label, 'calls': calls, 'schedule': s, 'seeded': seeded, 'present': present,
                'inputs': {'ref': ref_t, 'decoy': dec_t, 'decoy2': dec2_t}}
        switches = sum(1 for a, b in zip(s, s[1:]) if a != b)
        feats = ['pair-' + label, 'switches-%d' % min(switches, 3)]
        if seeded: feats.append('seeded-directory')
        inzone = any(c['zone'] for c in calls) and switches >= 1
        if inzone: feats.append('switch-inside-zone-protocol')
        if s in risky: feats.append('in-place-race-window')
        rep.case(case, feats, nontrivial=(switches >= 1))
        problems = []
        for i, c in enumerate(calls):
            if res[i] != solo[i]:
                problems.append('task %d (%s) returned %s, alone it returns %s' % (i, c['routine'], str(res[i])[:80], str(solo[i])[:80]))
        order = [(i, norm_event(e)) for (i, e) in run.order]
        tmps = [[e[1] for (i, e) in order if i == t and e[0] == 'mkstemp'] for t in range(len(calls))]
        wcalls2 = [w_call(c, o, t or p) for c, o, t, p in zip(calls, oracles, tmps, ph)]
        reqs = [['spec.fs.c16.outputs', wc] for wc in wcalls2] + [['fs.c16.sched', wcalls2, w_dir(files), s, watch]]
        outs = ctx.model.batch(reqs)
        if len(rep.model_reqs) < 7 and si < 1 and pidx < 4:
            rep.model_reqs += reqs[-1:]; rep.model_outs += outs[-1:]
        requested = set()
        for o in outs[:len(calls)]:
            requested |= set(o[0])
        for f in sorted(set(before) | set(after)):
            if before.get(f) != after.get(f) and f not in requested:
                problems.append(f'file {f!r} was ' + ('created' if f not in before else 'removed' if f not in after else 'modified')
                                + ' but is not a requested output of either task')
        if problems:
            rep.mismatch('impl_vs_spec', case, problems=problems)
            shutil.rmtree(d, ignore_errors=True)
            continue
        mres, mwatch, morder = outs[-1]
        reads = [[t for (k, _, t) in run.tr.reads if k == i] for i in range(len(calls))]
        if [[i, e] for (i, e) in order] != [[i, list(a)] for (i, a) in morder]:
            k = next((j for j, (a, b) in enumerate(zip(order, morder)) if [a[0], a[1]] != [b[0], list(b[1])]), min(len(order), len(morder)))
            rep.mismatch('impl_vs_model', case, what='interleaved action sequence differs at position %d' % k,
                         impl=order[max(0, k - 2):k + 3], model=morder[max(0, k - 2):k + 3], n_impl=len(order), n_model=len(morder))
        else:
            for i in range(len(calls)):
                if (mres[i][0] == 'OK') != (res[i][0] == 'OK') or (mres[i][0] == 'OK' and list(mres[i][1][1]) != reads[i]):
                    rep.mismatch('impl_vs_model', case, what='texts read by task %d differ' % i,
                                 impl=[r[:40] for r in reads[i]], model=str(mres[i])[:300])
                    break
        shutil.rmtree(d, ignore_errors=True)

# ----------------------------------------------------------------------------------------
# ----------------------------------------------------------------------------------------
# (iii) array arguments: the superposition routines called directly with coordinate containers the caller keeps using
def array_args_case(rep, case):
    """two superposition computations sharing their argument containers (float64 arrays or nested lists): each returns what
    it returns alone (on fresh copies), and the caller's containers are left as they were"""
    import numpy as np, copy
    import_impl(); import importlib; sup = importlib.import_module('pdb2sql.superpose')
    def mk(v):
        return np.array(v, dtype=np.float64) if case['carrier'] == 'f64' else copy.deepcopy(v)
    problems = []
    try:
        alone = []
        for method in case['methods']:
            xyz, sm, st = mk(case['xyz']), mk(case['sel_m']), mk(case['sel_t'])
            alone.append(np.array(sup.superpose_selection(xyz, sm, st, method), dtype=float))
        sm, st = mk(case['sel_m']), mk(case['sel_t'])
        keep = [np.array(a, dtype=float).copy() for a in (sm, st)]
        for k, method in enumerate(case['methods']):
            # the coordinates to move are handed over afresh each time (the routine centres that array in place, Appendix A);
            # the two SELECTIONS are the containers the caller goes on using
            xyz = mk(case['xyz'])
            got = np.array(sup.superpose_selection(xyz, sm, st, method), dtype=float)
            if got.shape != alone[k].shape or not np.allclose(got, alone[k], rtol=0, atol=1e-9):
                problems.append('call %d (%s) sharing its argument containers with the previous call returns a result differing by %.3g from the one it returns alone'
                                % (k, method, float(np.max(np.abs(got - alone[k]))) if got.shape == alone[k].shape else float('nan')))
                break
            for nm, a, b in zip(('sel_mobile', 'sel_target'), (sm, st), keep):
                if not np.array_equal(np.array(a, dtype=float), b):
                    problems.append('call %d (%s) modified its argument %s' % (k, method, nm)); break
            if problems: break
    except Exception as e:
        problems.append('raised ' + exc_class(e) + ': ' + str(e)[:200])
    rep.case(case, ['array-arguments', 'carrier-' + case['carrier']])
    if problems:
        rep.mismatch('impl_vs_spec', case, problems=problems)

def gen_array_args(rng):
    n = rng.randint(3, 9)
    P = [[round(rng.uniform(-20, 20), 3) for _ in range(3)] for _ in range(n)]
    Qs = [[round(x + rng.uniform(-1, 1) + 7.0, 3) for x in p] for p in P]
    extra = [[round(rng.uniform(-20, 20), 3) for _ in range(3)] for _ in range(rng.randint(1, 5))]
    return {'part': 'array-arguments', 'carrier': rng.choice(['f64', 'f64', 'list']), 'xyz': P + extra, 'sel_m': P, 'sel_t': Qs,
            'methods': rng.choice([['svd', 'quaternion'], ['quaternion', 'svd'], ['svd', 'svd']])}

def explore(ctx, tier, rng, search=False):
    rep = Report()
    M = modules()
    deep = (tier == 'thorough' or search)
    base = os.path.join(ctx.scratch, 'c16')
    shutil.rmtree(base, ignore_errors=True)
    os.makedirs(base)
    # corpus
    cdir = os.path.join(VERIF, 'corpus', 'C16')
    if os.path.isdir(cdir):
        for f in sorted(os.listdir(cdir)):
            c = json.load(open(os.path.join(cdir, f)))
            holds, text = replay(ctx, c.get('case', c))
            rep.case({'corpus': f}, ['corpus'])
            if not holds:
                rep.mismatch('impl_vs_spec', c.get('case', c), problems=[text])
    # (i) footprints
    idx = 0
    nsets = 3 if deep else 1
    for k in range(nsets):
        texts = base_inputs(rng)
        for (routine, zmode, export) in call_configs():
            for seeded in (False, True):
                indir = rng.choice(['', 'in/'])
                footprint_case(ctx, rep, M, rng, base, idx, routine, zmode, export, seeded, texts, indir)
                idx += 1
    if deep:
        # the bundled complex
        d1 = os.path.join(REPO, 'test', 'pdb', '1AK4')
        try:
            ref_t = open(os.path.join(d1, 'target.pdb')).read()
            dec_t = open(os.path.join(d1, '1AK4_5w.pdb')).read() if os.path.exists(os.path.join(d1, '1AK4_5w.pdb')) else None
        except OSError:
            ref_t = dec_t = None
        if ref_t and dec_t and wire_ok(ref_t) and wire_ok(dec_t):
            for (routine, zmode, export) in [('lrmsd_fast', 'absent', None), ('irmsd_fast', 'absent', None), ('irmsd_sql', 'none', 'exp'),
                                             ('lrmsd_sql', 'none', None), ('fnat_fast', 'none', None), ('superpose', 'none', True)]:
                footprint_case(ctx, rep, M, rng, base, idx, routine, zmode, export, True, (ref_t, dec_t, dec_t), 'in/')
                idx += 1
        else:
            rep.notes.append('bundled 1AK4 files not used (not found under the expected names)')
    # (iii) array arguments
    for _ in range(60 if deep else 20):
        array_args_case(rep, gen_array_args(rng))
    # (ii) schedules
    pairs = sched_pairs()
    budget_total = 5000 if deep else 200
    weights = [4, 4, 2, 1, 2, 1, 2, 1]
    tot = sum(weights)
    texts = base_inputs(rng)
    for pidx, ((label, s0, s1, present), w) in enumerate(zip(pairs, weights)):
        schedule_pair(ctx, rep, M, rng, base, pidx, label, s0, s1, present, texts, max(4, budget_total * w // tot), seeded=(pidx % 2 == 0),
                      cand_limit=None)
    rep.input_distribution = {'footprint_cases': idx, 'schedule_pairs': len(pairs), 'schedule_budget': budget_total,
                              'routines': sorted(set(c[0] for c in call_configs()))}
    for must in ('seeded-directory', 'zone-written', 'zone-present', 'export', 'switch-inside-zone-protocol',
                 'pair-lzone-cache-shared', 'pair-izone-cache-shared'):
        if rep.features.get(must, 0) == 0:
            rep.notes.append(f'mandatory feature bin empty: {must}')
            rep.mismatch('impl_vs_model', {'bin': must}, what='generator degenerated: mandatory feature bin is empty')
    shutil.rmtree(base, ignore_errors=True)
    return rep

def replay(ctx, case):
    M = modules()
    rep = Report()
    base = os.path.join(ctx.scratch, 'c16replay')
    shutil.rmtree(base, ignore_errors=True)
    os.makedirs(base)
    rng = random.Random(0)
    if case.get('part') == 'footprint':
        c = case['call']
        texts = (case['inputs']['ref'], case['inputs']['decoy'], case['inputs']['decoy'])
        footprint_case(ctx, rep, M, rng, base, 0, c['routine'], c['zmode'], c['export'], case['seeded'], texts, case.get('indir', ''))
    elif case.get('part') == 'array-arguments':
        array_args_case(rep, case)
    elif case.get('part') == 'schedule':
        texts = (case['inputs']['ref'], case['inputs']['decoy'], case['inputs']['decoy2'])
        calls = case['calls']
        replay_schedule(ctx, rep, M, base, case, texts)
    shutil.rmtree(base, ignore_errors=True)
    bad = [m for m in rep.mismatches if m['kind'] == 'impl_vs_spec']
    if bad:
        return False, '; '.join(bad[0]['details'].get('problems', []))
    return True, 'only requested outputs changed; every task returned its solo result'

def replay_schedule(ctx, rep, M, base, case, texts):
    ref_t, dec_t, dec2_t = texts
    calls = case['calls']
    files0 = {'in/ref.pdb': ref_t, 'in/decoy.pdb': dec_t, 'in/decoy2.pdb': dec2_t}
    dirs = ['cache'] + [c['export'] for c in calls if isinstance(c['export'], str)]
    if case.get('seeded'):
        files0.update(SEED_FILES)
    solo = []
    zone_text = None
    for i, c in enumerate(calls):
        d = os.path.join(base, 'solo%d' % i)
        f = dict(files0)
        if case.get('present') and c['zone']:
            if zone_text is None:
                dz = os.path.join(base, 'z')
                materialise(dz, files0, dirs)
                traced_solo(M, dict(c, routine='irmsd_fast' if c['zone'].endswith('.izone') else 'lrmsd_fast'), dz)
                zone_text = open(os.path.join(dz, c['zone'])).read()
            f[c['zone']] = zone_text
        materialise(d, f, dirs)
        r, ev, _ = traced_solo(M, c, d)
        solo.append(r)
    files = dict(files0)
    if zone_text is not None:
        for c in calls:
            if c['zone']:
                files[c['zone']] = zone_text
    d = os.path.join(base, 'run')
    materialise(d, files, dirs)
    run = Scheduled(M, calls, d)
    res = run.run(case['schedule'])
    problems = []
    for i, c in enumerate(calls):
        if res[i] != solo[i]:
            problems.append('task %d (%s) returned %s, alone it returns %s' % (i, c['routine'], str(res[i])[:80], str(solo[i])[:80]))
    rep.case(case, [])
    if problems:
        rep.mismatch('impl_vs_spec', case, problems=problems)
