"""C12 — DockQ formula and CAPRI classification: correspondence implementation / model / spec."""
import math, itertools
from fractions import Fraction
from harness.core import *

ID = 'C12'
REGIONS = ['capri', 'dockq']
HAND_MODELLED = []          # nothing: capri_src / dockq_raw_src are regenerated
TRUSTED = ['CPython float comparison and arithmetic (binary64); round() on floats',
           'thresholds enter the model as the exact rationals of the source literals\' doubles']
RULE = ('cell representatives of the threshold arrangement (each threshold, its binary64 neighbours, '
        'midpoints, beyond) in all three coordinates, plus random points; DockQ on a grid, random points and '
        'custom d1,d2. Non-trivial: at least one coordinate exactly on / adjacent to a threshold, or a DockQ '
        'point with non-default scales or a non-zero RMSD.')

F_THR = [0.1, 0.3, 0.5]
L_THR = [1.0, 5.0, 10.0]
I_THR = [1.0, 2.0, 4.0]

def axis_points(thr, lo, hi):
    pts = {lo, hi}
    prev = lo
    for t in thr:
        pts |= {t, math.nextafter(t, -math.inf), math.nextafter(t, math.inf), (prev + t) / 2}
        prev = t
    pts.add((prev + hi) / 2)
    return sorted(p for p in pts if p >= 0)

def explore(ctx, tier, rng, search=False):
    rep = Report()
    pdb2sql = import_impl()
    SS = pdb2sql.StructureSimilarity
    fs = axis_points(F_THR, 0.0, 1.0)
    ls = axis_points(L_THR, 0.0, 60.0)
    is_ = axis_points(I_THR, 0.0, 25.0)
    cases = []
    for f, l, i in itertools.product(fs, ls, is_):
        cases.append(('capri', f, l, i))
    nrand = 4000 if (tier == 'thorough' or search) else 600
    for _ in range(nrand):
        f = rng.choice([rng.random(), rng.choice(fs), round(rng.random(), 1), round(rng.random(), 2)])
        l = rng.choice([rng.uniform(0, 30), rng.choice(ls), float(rng.randint(0, 12))])
        i = rng.choice([rng.uniform(0, 12), rng.choice(is_), float(rng.randint(0, 6))])
        cases.append(('capri', f, l, i))
    # the same measures in other carriers: binary32 NumPy scalars (values read from float32 arrays / HDF5; the case holds the
    # exact binary32 value) and whole numbers as Python int / NumPy integers
    import numpy as _np
    for _ in range(nrand // 4):
        f = rng.choice([rng.random(), rng.choice(fs)]); l = rng.choice([rng.uniform(0, 30), rng.choice(ls)]); i = rng.choice([rng.uniform(0, 12), rng.choice(is_)])
        cases.append(('capri', float(_np.float32(f)), float(_np.float32(l)), float(_np.float32(i)), 'npfloat32'))
    for _ in range(nrand // 6):
        cases.append(('capri', rng.choice([0, 1, 1]), rng.randint(0, 12), rng.randint(0, 6), rng.choice(['pyint', 'npint64', 'npint32'])))
    # DockQ
    grid = [0.0, 0.1, 0.25, 0.5, 0.9, 1.0]
    rg = [0.0, 0.3, 1.0, 1.5, 4.0, 8.5, 20.0, 100.0]
    for f, l, i in itertools.product(grid, rg, rg):
        cases.append(('dockq', f, l, i, 8.5, 1.5))
    for _ in range(nrand):
        f = rng.random(); l = rng.uniform(0, 40); i = rng.uniform(0, 15)
        if rng.random() < 0.5:
            d1, d2 = 8.5, 1.5
        else:
            d1, d2 = rng.choice([1.0, 4.0, 8.5, 12.5, rng.uniform(0.5, 20)]), rng.choice([0.5, 1.5, 3.0, rng.uniform(0.2, 8)])
        cases.append(('dockq', f, l, i, d1, d2))
    cases.append(('dockq', 1.0, 0.0, 0.0, 8.5, 1.5))
    for _ in range(nrand // 10):
        cases.append(('dockq', rng.choice([0, 1, 1]), rng.randint(0, 15), rng.randint(0, 8), 8.5, 1.5, rng.choice(['pyint', 'npint64', 'npint32'])))
    cases.append(('defaults',))

    reqs = []
    for c in cases:
        if c[0] == 'capri':
            reqs += [['capri'] + [Fraction(x) for x in c[1:4]], ['spec.capri'] + [Fraction(x) for x in c[1:4]]]
        elif c[0] == 'dockq':
            reqs += [['dockq'] + [Fraction(x) for x in c[1:6]], ['spec.dockq'] + [Fraction(x) for x in c[1:6]],
                     ['dockq_raw'] + [Fraction(x) for x in c[1:6]]]
        else:
            reqs += [['dockq_defaults']]
    outs = ctx.model.batch(reqs)
    rep.model_reqs, rep.model_outs = reqs, outs
    k = 0
    thr_all = {'f': set(), 'l': set(L_THR), 'i': set(I_THR)}
    import inspect
    import numpy as np
    def pyfloat(f, l, i): return (f, l, i)
    def npfloat64(f, l, i): return (np.float64(f), np.float64(l), np.float64(i))
    def mixed(f, l, i): return (f, np.float64(l), np.float64(i))
    def npfloat32(f, l, i): return (np.float32(f), np.float32(l), np.float32(i))
    def pyint(f, l, i): return (int(f), int(l), int(i))
    def npint64(f, l, i): return (np.int64(f), np.int64(l), np.int64(i))
    def npint32(f, l, i): return (np.int32(f), np.int32(l), np.int32(i))
    forced = {'npfloat32': npfloat32, 'pyint': pyint, 'npint64': npint64, 'npint32': npint32, 'npfloat64': npfloat64, 'mixed': mixed, 'pyfloat': pyfloat}
    carriers = [pyfloat, npfloat64, pyfloat, mixed]
    ci = 0
    for c in cases:
        if c[0] == 'capri':
            _, f, l, i = c[:4]
            m, s = outs[k], outs[k + 1]; k += 2
            # the values arrive as Python floats or as NumPy scalars (what the library's own get_rmsd returns): same class
            if len(c) > 4:
                car = forced[c[4]]
            else:
                car = carriers[ci % len(carriers)]; ci += 1
            try:
                impl = ['OK', str(SS.compute_CapriClass(*car(f, l, i)))]
            except Exception as e:
                impl = ['ERR', exc_class(e)]
            feats = ['carrier-' + car.__name__]
            if f in F_THR or l in L_THR or i in I_THR: feats.append('on-threshold')
            if any(math.nextafter(t, d) == x for t in F_THR for d in (-math.inf, math.inf) for x in (f,)) or \
               any(math.nextafter(t, d) == x for t in L_THR for d in (-math.inf, math.inf) for x in (l,)) or \
               any(math.nextafter(t, d) == x for t in I_THR for d in (-math.inf, math.inf) for x in (i,)):
                feats.append('threshold-neighbour')
            if impl[0] == 'OK': feats.append('class-' + impl[1])
            case = {'fn': 'capri', 'fnat': f, 'lrmsd': l, 'irmsd': i, 'carrier': car.__name__}
            rep.case(case, feats, nontrivial=('on-threshold' in feats or 'threshold-neighbour' in feats))
            if impl != s:
                rep.mismatch('impl_vs_spec', case, impl=impl, spec=s, model=m)
            elif impl != m:
                rep.mismatch('impl_vs_model', case, impl=impl, model=m, spec=s)
        elif c[0] == 'dockq':
            _, f, l, i, d1, d2 = c[:6]
            m, s, raw = Q(outs[k]), Q(outs[k + 1]), Q(outs[k + 2]); k += 3
            case = {'fn': 'dockq', 'fnat': f, 'lrmsd': l, 'irmsd': i, 'd1': d1, 'd2': d2}
            if len(c) > 6:
                case['carrier'] = c[6]; f, l, i = forced[c[6]](f, l, i)
            # margin rule: the exact value is too close to a rounding tie at 6 decimals
            scaled = raw * 10**6
            dist = abs((scaled - math.floor(scaled)) - Fraction(1, 2))
            if dist < Fraction(1, 10**6):
                rep.skipped['float_boundary'] += 1
                continue
            try:
                if (d1, d2) == (8.5, 1.5):
                    v = SS.compute_DockQScore(f, l, i)
                else:
                    v = SS.compute_DockQScore(f, l, i, d1=d1, d2=d2)
                impl = Fraction(int(round(v * 10**6)), 10**6)
                if abs(v - float(impl)) > 1e-12:
                    impl = Fraction(v)          # not rounded to six decimals at all
            except Exception as e:
                impl = exc_class(e)
            feats = ['carrier-' + case['carrier']] if case.get('carrier') else []
            if (d1, d2) != (8.5, 1.5): feats.append('custom-scales')
            if l > 0 or i > 0: feats.append('nonzero-rmsd')
            if (f, l, i) == (1.0, 0.0, 0.0): feats.append('perfect')
            rep.case(case, feats)
            if impl != s:
                rep.mismatch('impl_vs_spec', case, impl=impl, spec=s, model=m)
            elif impl != m:
                rep.mismatch('impl_vs_model', case, impl=impl, model=m, spec=s)
        else:
            d = outs[k]; k += 1
            sig = inspect.signature(SS.compute_DockQScore)
            case = {'fn': 'dockq_defaults'}
            rep.case(case, ['defaults'])
            try:
                impl = [Fraction(sig.parameters['d1'].default), Fraction(sig.parameters['d2'].default)]
            except Exception:
                # the defaults are not written as numbers in the signature any more: what they amount to is decided by the
                # calls without d1/d2 above (interleaved with calls that pass other scales)
                rep.notes.append('compute_DockQScore: defaults are not numeric literals in the signature')
                continue
            if impl != [Fraction(17, 2), Fraction(3, 2)]:
                rep.mismatch('impl_vs_spec', case, impl=impl, spec=[Fraction(17, 2), Fraction(3, 2)])
            elif impl != [Q(d[0]), Q(d[1])]:
                rep.mismatch('impl_vs_model', case, impl=impl, model=d)
    rep.input_distribution = {'capri_grid': len(fs) * len(ls) * len(is_), 'random_per_kind': nrand,
                              'dockq_grid': len(grid) * len(rg) ** 2}
    return rep

def replay(ctx, case):
    """re-run one recorded case against the implementation and the spec; returns (holds, text)"""
    pdb2sql = import_impl()
    SS = pdb2sql.StructureSimilarity
    if case['fn'] == 'capri':
        args = [Fraction(case[k]) for k in ('fnat', 'lrmsd', 'irmsd')]
        s = ctx.model.batch([['spec.capri'] + args])[0]
        import numpy as np
        f, l, i = case['fnat'], case['lrmsd'], case['irmsd']
        if case.get('carrier') == 'npfloat64': f, l, i = np.float64(f), np.float64(l), np.float64(i)
        if case.get('carrier') == 'mixed': l, i = np.float64(l), np.float64(i)
        if case.get('carrier') == 'npfloat32': f, l, i = np.float32(f), np.float32(l), np.float32(i)
        if case.get('carrier') in ('pyint', 'npint64', 'npint32'):
            ty = {'pyint': int, 'npint64': np.int64, 'npint32': np.int32}[case['carrier']]; f, l, i = ty(f), ty(l), ty(i)
        try:
            impl = ['OK', str(SS.compute_CapriClass(f, l, i))]
        except Exception as e:
            impl = ['ERR', exc_class(e)]
        return impl == s, f'implementation {impl} specification {s}'
    if case['fn'] == 'dockq':
        args = [Fraction(case[k]) for k in ('fnat', 'lrmsd', 'irmsd', 'd1', 'd2')]
        s = Q(ctx.model.batch([['spec.dockq'] + args])[0])
        import numpy as np
        f, l, i = case['fnat'], case['lrmsd'], case['irmsd']
        if case.get('carrier') in ('pyint', 'npint64', 'npint32'):
            ty = {'pyint': int, 'npint64': np.int64, 'npint32': np.int32}[case['carrier']]; f, l, i = ty(f), ty(l), ty(i)
        v = SS.compute_DockQScore(f, l, i, d1=case['d1'], d2=case['d2'])
        return Fraction(int(round(v * 10**6)), 10**6) == s and abs(v - float(s)) < 1e-12, f'implementation {v} specification {float(s)}'
    return True, 'n/a'
