"""C01 — parsing: one row per ATOM record, each field from its fixed wwPDB columns."""
import os, numpy as np
from pathlib import Path
from fractions import Fraction
from harness.core import *
from harness import gen_pdb

ID = 'C01'
REGIONS = ['const', 'create_table_loop', 'linelength', 'get_chainID', 'get_element']
HAND_MODELLED = ['pdb2sqlcore.py:pdb2sql.read_pdb (input-form dispatch)', 'pdb2sqlcore.py:pdb2sql._create_table (record loop skeleton)']
TRUSTED = ['CPython str.strip/startswith/split/slicing, int(), float() (correctly rounded strtod) as modelled in PyLib.v; '
           'inputs are printable ASCII plus newline; exotic numerals (exponent, underscore, nan, inf) are outside the model',
           'sqlite3 stores Python int/float/str unchanged in INT/REAL/TEXT columns']
RULE = ('files of 1-12 ATOM records generated field by field (serial 1-5 digits/negative/odd alignment, names of 1-4 '
        'characters at every start column, altLoc/iCode blank or not, blank chain with segID, resSeq -999..9999, '
        'coordinates at full width and in odd numeric forms, blank occupancy/B-factor/element, short lines) mixed with '
        'HETATM/TER/ANISOU/REMARK/END/blank lines, x 8 container forms; malformed stream: >80 columns, bad/blank/exotic '
        'numeric fields, blank chain+segID. Non-trivial: the file carries at least one discriminating feature tag '
        '(anything beyond plain right-aligned canonical fields).')

FORMS = ['path', 'Path', 'str', 'bytes', 'list_str', 'list_bytes', 'ndarray_str', 'ndarray_bytes',
         'ndarray_object_str', 'ndarray_object_bytes']        # object-dtype arrays (h5py variable-length strings)
MODEL_FORM = {'ndarray_object_str': 'ndarray_str', 'ndarray_object_bytes': 'ndarray_bytes'}

def canon_val(v):
    if isinstance(v, bool):
        return ['I', int(v)]
    if isinstance(v, (int, np.integer)):
        return ['I', int(v)]
    if isinstance(v, (float, np.floating)):
        f = Fraction(float(v))
        return ['R', f.numerator, f.denominator]
    if isinstance(v, str):
        return ['T', v]
    if isinstance(v, bytes):
        return ['B']
    if v is None:
        return ['N']
    return ['?', repr(v)]

def canon_rows(rows):
    return [[canon_val(v) for v in r] for r in rows]

def make_input(form, lines, trailing_nl, keep_nl, scratch, k):
    text = '\n'.join(lines) + ('\n' if trailing_nl else '')
    if form in ('path', 'Path'):
        p = os.path.join(scratch, f'c01_{k}.pdb')
        with open(p, 'w') as f:
            f.write(text)
        return (p if form == 'path' else Path(p)), ('text', text)
    if form == 'str':
        return text, ('text', text)
    if form == 'bytes':
        return text.encode(), ('text', text)
    ls = [l + '\n' for l in lines] if keep_nl else list(lines)
    if form == 'list_str':
        return ls, ('lines', ls)
    if form == 'list_bytes':
        return [l.encode() for l in ls], ('lines', ls)
    if form == 'ndarray_str':
        return np.array(ls), ('lines', ls)
    if form == 'ndarray_bytes':
        return np.array([l.encode() for l in ls]), ('lines', ls)
    if form == 'ndarray_object_str':
        return np.array(ls, dtype=object), ('lines', ls)
    if form == 'ndarray_object_bytes':
        return np.array([l.encode() for l in ls], dtype=object), ('lines', ls)
    raise ValueError(form)

def run_impl(pdb2sql, inp):
    try:
        db = pdb2sql.pdb2sql(inp)
    except Exception as e:
        return ['ERR', exc_class(e)]
    try:
        rows = db.get('*')
        nmodel = db._nModel
        if nmodel > 0:
            rows = [r for m in rows for r in m]
        else:
            # "one row per record, in input order" must also be what the narrow queries show
            rid, ch = db.get('rowID'), db.get('chainID')
            if rid != list(range(len(rows))) or ch != [r[4] for r in rows]:
                return ['OK', ['row order seen through get(rowID)/get(chainID) differs from get(*)', rid[:6], ch[:6]]]
        return ['OK', [canon_rows(rows), nmodel]]
    except Exception as e:
        return ['ERR', 'get:' + exc_class(e)]
    finally:
        db._close()

def one_case(rng, k, malformed_rate):
    feats = set()
    malformed = None
    if rng.random() < malformed_rate:
        malformed = rng.choice(['long', 'nochain', 'badnum', 'blanknum', 'exotic'])
    n = rng.randint(1, 12)
    lines = gen_pdb.gen_file_lines(rng, feats, n, malformed)
    form = FORMS[k % len(FORMS)] if rng.random() < 0.8 else rng.choice(FORMS)
    case = {'form': form, 'lines': lines, 'trailing_nl': rng.random() < 0.6, 'keep_nl': rng.random() < 0.5}
    if form in ('path', 'Path') and rng.random() < 0.3:
        case['stale_first'] = True; feats.add('file-name-reused-same-size-and-mtime')
    feats.add('form-' + form)
    return case, feats

def evaluate(ctx, pdb2sql, cases):
    """returns per-case (impl, model, spec, reqs, outs)"""
    reqs = []
    impls = []
    for k, case in enumerate(cases):
        inp, (kind, payload) = make_input(case['form'], case['lines'], case['trailing_nl'], case['keep_nl'], ctx.scratch, k)
        if case.get('stale_first') and case['form'] in ('path', 'Path'):
            # the same file name held ANOTHER text of the same size a moment ago (and was parsed), and the file's
            # modification time is the same (cp -p, rsync -t): what is read must be the text that is there now
            alt = payload.translate(str.maketrans('1234', '2143'))
            with open(str(inp), 'w') as f:
                f.write(alt)
            st = os.stat(str(inp))
            try:
                pdb2sql.pdb2sql(inp)._close()
            except Exception:
                pass
            with open(str(inp), 'w') as f:
                f.write(payload)
            os.utime(str(inp), ns=(st.st_atime_ns, st.st_mtime_ns))
        impls.append(run_impl(pdb2sql, inp))
        if kind == 'text':
            reqs.append(['parse.text', MODEL_FORM.get(case['form'], case['form']), payload])
            reqs.append(['spec.parse.table', payload.split('\n')])
        else:
            reqs.append(['parse.lines', MODEL_FORM.get(case['form'], case['form']), payload])
            reqs.append(['spec.parse.table', payload])
        if kind == 'text' and case['form'] in ('path', 'Path'):
            try:
                os.remove(str(inp))
            except OSError:
                pass
    outs = ctx.model.batch(reqs)
    res = []
    for k, case in enumerate(cases):
        m, s = outs[2 * k], outs[2 * k + 1]
        if s[0] == 'OK':
            s = ['OK', [s[1], 0]]
        res.append((impls[k], m, s))
    return res, reqs, outs

def verdict(case, impl, m, s):
    """None if fine, else ('impl_vs_spec'|'impl_vs_model', why)"""
    if m[0] == 'ERR' and m[1] == 'OutOfModel' or s[0] == 'ERR' and s[1] == 'OutOfModel':
        return 'skip'
    ok_spec = (impl == s) or (impl[0] == 'ERR' and s[0] == 'ERR')
    if not ok_spec and impl[0] == 'ERR' and impl[1] == 'FileNotFoundError' and case['form'] in ('str', 'bytes'):
        text = '\n'.join(case['lines']) + ('\n' if case['trailing_nl'] else '')
        if text.count('\nATOM ') <= 3:
            ok_spec = True      # documented limitation of the whole-file string form (DESIGN Appendix A): an error, not altered rows
    if not ok_spec and impl[0] == 'ERR' and impl[1] == 'IndexError' and not case['lines']:
        ok_spec = True
    if not ok_spec:
        return 'impl_vs_spec'
    if impl != m:
        return 'impl_vs_model'
    return None

def explore(ctx, tier, rng, search=False):
    rep = Report()
    pdb2sql = import_impl()
    n = 2400 if (tier == 'thorough' or search) else 320
    cases, featss = [], []
    # corpus first
    cdir = os.path.join(VERIF, 'corpus', 'C01')
    if os.path.isdir(cdir):
        for f in sorted(os.listdir(cdir)):
            c = json.load(open(os.path.join(cdir, f)))
            cases.append(c.get('case', c)); featss.append({'corpus'})
    for k in range(n):
        c, f = one_case(rng, k, 0.2)
        cases.append(c); featss.append(f)
    if tier == 'thorough' or search:
        # every bundled PDB file, in three forms
        for root, _, files in os.walk(os.path.join(REPO, 'test', 'pdb')):
            for fn in sorted(files):
                if fn.endswith('.pdb'):
                    txt = open(os.path.join(root, fn)).read()
                    if all(32 <= ord(c) < 127 or c == '\n' for c in txt) and 'ENDMDL' not in txt and len(txt) < 400000:
                        ls = txt.split('\n')
                        if ls and ls[-1] == '':
                            ls = ls[:-1]
                        for form in ('path', 'str', 'list_str'):
                            cases.append({'form': form, 'lines': ls, 'trailing_nl': True, 'keep_nl': True})
                            featss.append({'bundled-file', 'form-' + form})
    res, reqs, outs = evaluate(ctx, pdb2sql, cases)
    rep.model_reqs, rep.model_outs = [r for r in reqs if sum(len(x) for x in (r[-1] if isinstance(r[-1], list) else [r[-1]])) < 3000][:400], None
    idx = {id(r): i for i, r in enumerate(reqs)}
    rep.model_outs = [outs[idx[id(r)]] for r in rep.model_reqs]
    for case, feats, (impl, m, s) in zip(cases, featss, res):
        v = verdict(case, impl, m, s)
        if v == 'skip':
            rep.skipped['out_of_model_numeral'] += 1
            continue
        feats = set(feats)
        feats.add('accepted' if impl[0] == 'OK' else 'rejected-' + impl[1])
        small = dict(case)
        nontriv = any(not t.startswith('form-') and t not in ('accepted',) for t in feats)
        if len(case['lines']) > 40:
            small = {'form': case['form'], 'lines': case['lines'][:3] + ['…'], 'n_lines': len(case['lines'])}
            rep.evaluations += 1
            for f in feats: rep.features[f] += 1
            rep.hashes.add(hashlib.sha1(json.dumps(case, sort_keys=True).encode()).hexdigest())
        else:
            rep.case(case, sorted(feats), nontrivial=nontriv)
        if v:
            rep.mismatch(v, case, impl=impl, model=m, spec=s)
    rep.input_distribution = {'generated_files': n, 'forms': FORMS, 'malformed_rate': 0.2,
                              'records_per_file': '1-12'}
    return rep

def replay(ctx, case):
    pdb2sql = import_impl()
    res, _, _ = evaluate(ctx, pdb2sql, [case])
    impl, m, s = res[0]
    v = verdict(case, impl, m, s)
    return v in (None, 'skip', 'impl_vs_model'), f'implementation {json.dumps(impl)[:400]} specification {json.dumps(s)[:400]}'
