"""C10 — transforms move exactly the selected atoms by exactly the stated isometry.
Correspondence implementation / model / spec on real databases (pdb2sql(list_of_lines))."""
import math, itertools, json
from fractions import Fraction
from harness.core import *
from harness.geom_common import *

ID = 'C10'
REGIONS = ['g_rodrigues', 'g_euler', 'g_rotate', 'g_dbops', 'g_rand']
HAND_MODELLED = ['transform.py:rotate (None / empty-array branches)', 'transform.py:_get_xyz', 'transform.py:_update',
                 'pdb2sqlcore.py:update (as write-by-rowID on an abstract table)']
TRUSTED = ['NumPy cos/sin/dot/mean in binary64 (compared with the exact rational model within 1e-9, margin rule)',
           'numpy.random legacy generator (seed -> stream) as an oracle; SQLite REAL storage of float64',
           'the keyword selection itself (C03) is recomputed by the harness from the atom list']
RULE = ('histories of 1-6 transforms on tables of 1-40 atoms with independent selections; rational unit axes '
        '(Pythagorean quadruples), rational (cos, sin), generic angles in [-4pi, 4pi], multiples of pi/2, Euler triples, '
        'explicit matrices incl. the 24 lattice rotations on a 0.125 grid (compared exactly), followed by inverses. '
        'Also: a single selected atom exactly on the origin, integer-valued points as int64/int32 arrays or nested int lists, seeds as NumPy integer scalars. Non-trivial: a proper sub-selection, or a rotation whose angle is not a multiple of pi, or an Euler triple '
        'with three non-trivial angles, or an exact lattice case.')
TOL = 1e-9

# ----------------------------------------------------------------------------------------
def gen_op(rng, exact=False):
    r = rng.random()
    if exact:
        M = rng.choice(lattice_rotations())
        return {'op': 'rot_mat', 'mat': [[fs(x) for x in row] for row in M], 'lattice': True}
    if r < 0.2:
        v = [round(rng.uniform(-30, 30), rng.choice([0, 1, 3])) for _ in range(3)]
        return {'op': 'translation', 'vect': v}
    if r < 0.55:
        kind = rng.random()
        if kind < 0.45:
            u = unit_axis_rational(rng)
            c, s = circle_point(rng)
            return {'op': 'rot_axis', 'axis': [fs(x) for x in u], 'c': fs(c), 's': fs(s), 'angle': math.atan2(s, c), 'mode': 'rational'}
        if kind < 0.6:
            u = rng.choice([[1, 0, 0], [0, 1, 0], [0, 0, 1], [0, 0, -1]])
            k = rng.choice([-3, -2, -1, 1, 2, 3, 5])
            a = k * math.pi / 2
            return {'op': 'rot_axis', 'axis': [fs(x) for x in u], 'c': fs(math.cos(a)), 's': fs(math.sin(a)), 'angle': a, 'mode': 'quarter'}
        u = unit_axis_rational(rng) if rng.random() < 0.5 else None
        if u is None:
            w = [rng.gauss(0, 1) for _ in range(3)]
            n = math.sqrt(sum(x * x for x in w))
            u = [x / n for x in w]
        a = rng.uniform(-4 * math.pi, 4 * math.pi)
        return {'op': 'rot_axis', 'axis': [fs(x) for x in u], 'c': fs(math.cos(a)), 's': fs(math.sin(a)), 'angle': a, 'mode': 'generic'}
    if r < 0.8:
        if rng.random() < 0.5:
            cs = [circle_point(rng) for _ in range(3)]
            ang = [math.atan2(s, c) for c, s in cs]
            mode = 'rational'
        else:
            ang = [rng.uniform(-4 * math.pi, 4 * math.pi) for _ in range(3)]
            if rng.random() < 0.2:
                ang[rng.randrange(3)] = 0.0
            cs = [(math.cos(a), math.sin(a)) for a in ang]
            mode = 'generic'
        return {'op': 'rot_euler', 'cs': [fs(x) for p in cs for x in p], 'angles': ang, 'mode': mode}
    M = random_rotation_exact(rng)
    if rng.random() < 0.3:
        M = rng.choice(lattice_rotations())
    return {'op': 'rot_mat', 'mat': [[fs(x) for x in row] for row in M]}

def inverse_ops(o):
    if o['op'] == 'translation':
        return [{'op': 'translation', 'vect': [-x for x in o['vect']]}]
    if o['op'] == 'rot_axis':
        return [{'op': 'rot_axis', 'axis': o['axis'], 'c': o['c'], 's': fs(-Fr(o['s'])), 'angle': -o['angle'], 'mode': o['mode']}]
    if o['op'] == 'rot_euler':
        cs = [Fr(x) for x in o['cs']]
        a, b, g = o['angles']
        one, zero = fs(1), fs(0)
        return [{'op': 'rot_euler', 'cs': [one, zero, one, zero, fs(cs[4]), fs(-cs[5])], 'angles': [0.0, 0.0, -g], 'mode': o['mode']},
                {'op': 'rot_euler', 'cs': [one, zero, fs(cs[2]), fs(-cs[3]), one, zero], 'angles': [0.0, -b, 0.0], 'mode': o['mode']},
                {'op': 'rot_euler', 'cs': [fs(cs[0]), fs(-cs[1]), one, zero, one, zero], 'angles': [-a, 0.0, 0.0], 'mode': o['mode']}]
    M = [[Fr(x) for x in row] for row in o['mat']]
    return [{'op': 'rot_mat', 'mat': [[fs(x) for x in row] for row in transpose(M)]}]

def gen_db_case(rng, tier):
    r = rng.random()
    exact = r < 0.12
    if exact:
        n = rng.choice([1, 2, 4, 8, 16])
        atoms = make_atoms(rng, n, scale=16.0, grid=0.125, chains='A')
        hist = [dict(gen_op(rng, exact=True), sel={}) for _ in range(rng.randint(1, 3))]
        return {'kind': 'db', 'atoms': atoms, 'history': hist, 'inverse': False, 'exact': True}
    n = rng.choice([1, 2, 3, 5, 8, 13, 21, 40]) if rng.random() < 0.7 else rng.randint(1, 40)
    scale = rng.choice([2.0, 20.0, 200.0, 900.0])
    atoms = make_atoms(rng, n, scale=scale, chains=rng.choice(['A', 'AB', 'ABC']))
    # the exact model's numbers grow with every operation: long histories on small tables only
    kmax = 6 if n <= 8 else (4 if n <= 13 else (2 if n <= 21 else 1))
    k = rng.randint(1, kmax) if rng.random() < 0.6 else 1
    hist = []
    for _ in range(k):
        o = gen_op(rng)
        sel = random_selection(rng, atoms)
        if rng.random() < 0.04:
            sel = {'chainID': ['Z']}            # empty selection (tie only)
        o['sel'] = sel
        hist.append(o)
    if rng.random() < 0.12:
        # one atom alone, moved onto the origin (exactly: p + (-p) = 0) and away again / sitting on the origin from the start
        k = rng.randrange(n)
        sel = {'rowID': [k]}
        if rng.random() < 0.5:
            atoms[k][5:8] = [0.0, 0.0, 0.0]
            hist = [{'op': 'translation', 'vect': [round(rng.uniform(-30, 30), 3) for _ in range(3)], 'sel': sel}] + hist[:2]
        else:
            p = atoms[k][5:8]
            hist = [{'op': 'translation', 'vect': [-x for x in p], 'sel': sel}, {'op': 'translation', 'vect': list(p), 'sel': sel}] + hist[:1]
        return {'kind': 'db', 'atoms': atoms, 'history': hist, 'inverse': False, 'exact': False, 'origin_atom': True}
    inverse = rng.random() < (0.35 if n <= 21 else 0.15)
    if inverse:
        for o in reversed(list(hist)):
            for io in inverse_ops(o):
                io['sel'] = o['sel']
                hist.append(io)
    return {'kind': 'db', 'atoms': atoms, 'history': hist, 'inverse': inverse, 'exact': False}

def gen_fn_case(rng):
    n = rng.randint(1, 12)
    pts = [[round(rng.uniform(-50, 50), 3) for _ in range(3)] for _ in range(n)]
    o = gen_op(rng)
    while o['op'] == 'translation':
        o = gen_op(rng)
    center = None if rng.random() < 0.3 else [round(rng.uniform(-20, 20), 2) for _ in range(3)]
    case = {'kind': 'fn', 'pts': pts, 'o': o, 'center': center, 'center_is_list': rng.random() < 0.5}
    if rng.random() < 0.25:
        # coordinates that happen to be whole numbers, carried by an integer array or a nested list of Python ints
        case['pts'] = [[rng.randint(-50, 50) for _ in range(3)] for _ in range(n)]
        case['pts_carrier'] = rng.choice(['int64', 'int32', 'pylist'])
        if case['pts_carrier'] == 'pylist': case['center_is_list'] = False      # (list - list is not defined in Python)
    return case

# ----------------------------------------------------------------------------------------
def op_wire(o):
    if o['op'] == 'translation':
        return ['translation', wv(o['vect'])]
    if o['op'] == 'rot_axis':
        return ['rot_axis', wv(o['axis']), Fr(o['c']), Fr(o['s'])]
    if o['op'] == 'rot_euler':
        return ['rot_euler'] + [Fr(x) for x in o['cs']]
    return ['rot_mat', wm(o['mat'])]

def impl_apply(np, transform, db, o):
    sel = {k: list(v) for k, v in o['sel'].items()}
    if o['op'] == 'translation':
        return transform.translation(db, np.array(o['vect'], dtype=float), **sel)
    if o['op'] == 'rot_axis':
        return transform.rot_axis(db, [float(Fr(x)) for x in o['axis']], o['angle'], **sel)
    if o['op'] == 'rot_euler':
        return transform.rot_euler(db, *o['angles'], **sel)
    return transform.rot_mat(db, np.array([[float(Fr(x)) for x in row] for row in o['mat']]), **sel)

def run_db_impl(pdb2sql, case):
    import numpy as np
    db = pdb2sql.pdb2sql(atoms_lines(case['atoms']))
    before = db.get('*')
    statuses = []
    for o in case['history']:
        try:
            impl_apply(np, pdb2sql.transform, db, o)
            statuses.append('ok')
        except Exception as e:
            statuses.append(exc_class(e))
    after = db.get('*')
    db._close()
    return before, statuses, after

XYZ = (7, 8, 9)     # positions of x, y, z in get('*')

def db_requests(case, before):
    table = [[i, [Fr(r[j]) for j in XYZ]] for i, r in enumerate(before)]
    hist = [[select_positions(case['atoms'], o['sel']), op_wire(o)] for o in case['history']]
    return [['geom.db', table, hist], ['spec.geom.db', table, hist]]

def judge_db(case, before, statuses, after, mout, sout):
    """returns (spec_ok, model_ok, details)"""
    det = {}
    scale = max([abs(r[j]) for r in before for j in XYZ] + [1.0])
    for o in case['history']:
        if o['op'] == 'translation':
            scale = max(scale, scale + max(abs(x) for x in o['vect']))
    impl_xyz = [[r[j] for j in XYZ] for r in after]
    m_status, m_table = mout[0], [dv(r[1]) for r in mout[1]]
    # the spec skips operations that raised (empty selection: outside the property)
    s_table = [dv(r[1]) for r in sout]
    frame_ok = len(before) == len(after) and all(
        [v for j, v in enumerate(a) if j not in XYZ] == [v for j, v in enumerate(b) if j not in XYZ]
        for a, b in zip(before, after))
    if case.get('exact'):
        spec_ok = frame_ok and all(Fr(a) == b for ra, rb in zip(impl_xyz, s_table) for a, b in zip(ra, rb))
        model_ok = all(Fr(a) == b for ra, rb in zip(impl_xyz, m_table) for a, b in zip(ra, rb)) and m_status == statuses
    else:
        spec_ok = frame_ok and close_pts(impl_xyz, s_table, TOL, scale)
        model_ok = close_pts(impl_xyz, m_table, TOL, scale) and m_status == statuses
    if case.get('inverse') and all(s == 'ok' for s in statuses):
        b_xyz = [[r[j] for j in XYZ] for r in before]
        if not close_pts(impl_xyz, b_xyz, TOL * 10, scale):
            spec_ok = False
            det['inverse_not_restored'] = maxdiff(impl_xyz, b_xyz)
    if not frame_ok:
        det['frame'] = 'a non-coordinate attribute or the number of rows changed'
    if not spec_ok:
        det['max_diff_spec'] = maxdiff(impl_xyz, s_table)
    if not model_ok:
        det['max_diff_model'] = maxdiff(impl_xyz, m_table)
        det['status'] = [statuses, m_status]
    return spec_ok, model_ok, det

def db_feats(case, statuses):
    feats = set()
    n = len(case['atoms'])
    for o, st in zip(case['history'], statuses):
        k = len(select_positions(case['atoms'], o['sel']))
        if k == 0:
            feats.add('empty-selection')
        elif k == n:
            feats.add('all-atoms')
        elif k == 1:
            feats.add('single-atom')
        else:
            feats.add('sub-selection')
        if any(x.startswith('no_') for x in o['sel']):
            feats.add('negated-condition')
        feats.add(o['op'])
        if o['op'] == 'rot_axis':
            feats.add('axis-' + o['mode'])
        if o['op'] == 'rot_euler' and all(abs(math.sin(a)) > 1e-3 for a in o['angles']):
            feats.add('euler-three-angles')
        if o.get('lattice'):
            feats.add('lattice-exact')
    if len(case['history']) > 1:
        feats.add('composition')
    if case.get('inverse'):
        feats.add('followed-by-inverse')
    if case.get('origin_atom'):
        feats.add('selected-atom-on-the-origin')
    return sorted(feats)

NONTRIVIAL = {'sub-selection', 'single-atom', 'axis-rational', 'axis-generic', 'axis-quarter', 'euler-three-angles', 'lattice-exact'}

# ---- function-level cases -------------------------------------------------------------------
def fn_impl(pdb2sql, case):
    import numpy as np
    T = pdb2sql.transform
    car = case.get('pts_carrier')
    xyz = (np.array(case['pts'], dtype=float) if not car else [list(p) for p in case['pts']] if car == 'pylist'
           else np.array(case['pts'], dtype={'int64': np.int64, 'int32': np.int32}[car]))
    o = case['o']
    c = case['center']
    if c is not None:
        c = list(c) if case['center_is_list'] else np.array(c)
    if o['op'] == 'rot_axis':
        r = impl_call(T.rot_xyz_around_axis, xyz, [float(Fr(x)) for x in o['axis']], o['angle'], c)
    elif o['op'] == 'rot_euler':
        r = impl_call(T.rotation_euler, xyz, *o['angles'], c)
    else:
        r = impl_call(T.rotate, xyz, np.array([[float(Fr(x)) for x in row] for row in o['mat']]), c)
    if r[0] == 'OK':
        r[1] = r[1].tolist()
    return r

def fn_requests(case):
    o = case['o']
    pts = [wv(p) for p in case['pts']]
    c = wv(case['center']) if case['center'] is not None else []
    if o['op'] == 'rot_axis':
        m = ['geom.rot_axis', pts, wv(o['axis']), Fr(o['c']), Fr(o['s']), c]
    elif o['op'] == 'rot_euler':
        m = ['geom.rot_euler', pts] + [Fr(x) for x in o['cs']] + [c]
    else:
        m = ['geom.rotate', pts, wm(o['mat']), c]
    if case['center'] is not None:
        ctr = wv(case['center'])
    else:
        ctr = [sum(p[i] for p in pts) / len(pts) for i in range(3)]
    return [m] + [['spec.geom.point', op_wire(o), ctr, p] for p in pts]

# ---- random axis / angle ---------------------------------------------------------------------
def rand_case(pdb2sql, seed, carrier=None):
    import numpy as np
    T = pdb2sql.transform
    if carrier:      # the seed as a NumPy integer scalar (an element of np.arange / an integer array)
        seed = {'int64': np.int64, 'int32': np.int32, 'uint32': np.uint32, 'intp': np.intp}[carrier](seed)
    ax1, an1 = T.get_rot_axis_angle(seed)
    ax2, an2 = T.get_rot_axis_angle(seed)
    np.random.seed(seed)
    u1, u2, u3 = np.random.rand(), np.random.rand(), np.random.rand()
    return [float(x) for x in ax1], float(an1), [float(x) for x in ax2], float(an2), float(u1), float(u2), float(u3)

def rand_request(u1, u2, u3):
    theta = 2 * math.pi * u1
    cphi = 2 * u2 - 1
    sphi = math.sin(math.acos(cphi))
    return ['geom.rand', Fr(math.pi), Fr(u1), Fr(u2), Fr(u3), Fr(math.cos(theta)), Fr(math.sin(theta)), Fr(sphi)]

# ----------------------------------------------------------------------------------------
def explore(ctx, tier, rng, search=False):
    rep = Report()
    pdb2sql = import_impl()
    import pdb2sql.transform
    deep = (tier == 'thorough' or search)
    n_db, n_fn, n_rand = (2500, 600, 300) if deep else (400, 120, 60)
    cases = []
    # corpus first
    cdir = os.path.join(VERIF, 'corpus', ID)
    if os.path.isdir(cdir):
        for f in sorted(os.listdir(cdir)):
            c = json.load(open(os.path.join(cdir, f)))
            cases.append(c.get('case', c))
    # the rotation sense at pi/2 about z on an asymmetric set, all four kinds, always present
    base = [[1, 'N', 'ALA', 'A', 1, 1.0, 0.0, 0.0, 1.0, 0.0], [2, 'CA', 'ALA', 'A', 1, 0.0, 2.0, 0.0, 1.0, 0.0],
            [3, 'C', 'GLY', 'B', 2, 0.0, 0.0, 3.0, 1.0, 0.0], [4, 'O', 'GLY', 'B', 2, -1.5, 0.5, 0.25, 1.0, 0.0]]
    cases.append({'kind': 'db', 'atoms': base, 'inverse': False, 'exact': False, 'history': [
        {'op': 'rot_axis', 'axis': ['0/1', '0/1', '1/1'], 'c': fs(math.cos(math.pi / 2)), 's': fs(math.sin(math.pi / 2)),
         'angle': math.pi / 2, 'mode': 'quarter', 'sel': {}}]})
    cases.append({'kind': 'db', 'atoms': base, 'inverse': False, 'exact': False, 'history': [
        {'op': 'rot_euler', 'cs': [fs(x) for a in (0.3, 0.5, 0.7) for x in (math.cos(a), math.sin(a))],
         'angles': [0.3, 0.5, 0.7], 'mode': 'generic', 'sel': {'chainID': ['A']}}]})
    for _ in range(n_db):
        cases.append(gen_db_case(rng, tier))
    for _ in range(n_fn):
        cases.append(gen_fn_case(rng))
    for _ in range(n_rand):
        cases.append({'kind': 'rand', 'seed': rng.choice([0, 0, 1, 2019, rng.randrange(2 ** 31), rng.randrange(100)])})
        if rng.random() < 0.4: cases[-1]['seed_carrier'] = rng.choice(['int64', 'int32', 'uint32', 'intp'])

    # implementation first (the model needs what the database really holds), then one model batch
    impl_out, reqs, spans = [], [], []
    for c in cases:
        if c['kind'] == 'db':
            r = run_db_impl(pdb2sql, c)
            rq = db_requests(c, r[0])
        elif c['kind'] == 'fn':
            r = fn_impl(pdb2sql, c)
            rq = fn_requests(c)
        else:
            r = rand_case(pdb2sql, c['seed'], c.get('seed_carrier'))
            rq = [rand_request(*r[4:])]
        impl_out.append(r)
        spans.append((len(reqs), len(reqs) + len(rq)))
        reqs += rq
    outs = ctx.model.batch(reqs)
    # cheap requests first in the vm_compute slice
    order = sorted(range(len(reqs)), key=lambda i: len(enc(reqs[i])))
    rep.model_reqs = [reqs[i] for i in order]
    rep.model_outs = [outs[i] for i in order]

    dist = collections.Counter()
    for c, r, (a, b) in zip(cases, impl_out, spans):
        o = outs[a:b]
        if c['kind'] == 'db':
            before, statuses, after = r
            feats = db_feats(c, statuses)
            dist['atoms_%d' % (len(c['atoms']) // 10 * 10)] += 1
            dist['history_len_%d' % min(len(c['history']), 7)] += 1
            rep.case(c, feats, nontrivial=bool(set(feats) & NONTRIVIAL))
            spec_ok, model_ok, det = judge_db(c, before, statuses, after, o[0], o[1])
            if not spec_ok:
                rep.mismatch('impl_vs_spec', c, **det)
            elif not model_ok:
                rep.mismatch('impl_vs_model', c, **det)
        elif c['kind'] == 'fn':
            m = o[0]
            feats = ['fn-' + c['o']['op'], 'centre-given' if c['center'] is not None else 'centre-default']
            rep.case(c, feats, nontrivial=True)
            scale = max([abs(x) for p in c['pts'] for x in p] + [1.0]) * 2
            spec_pts = [dv(x) for x in o[1:]]
            if r[0] != 'OK':
                rep.mismatch('impl_vs_spec', c, impl=r)
            elif not close_pts(r[1], spec_pts, TOL, scale):
                rep.mismatch('impl_vs_spec', c, max_diff=maxdiff(r[1], spec_pts))
            elif m[0] != 'OK' or not close_pts(r[1], [dv(x) for x in m[1]], TOL, scale):
                rep.mismatch('impl_vs_model', c, model=str(m)[:300])
        else:
            ax1, an1, ax2, an2, u1, u2, u3 = r
            m = o[0]
            rep.case(c, ['random-axis-angle'], nontrivial=True)
            unit = abs(sum(x * x for x in ax1) - 1) < 1e-12
            if not (unit and 0 <= an1 < 2 * math.pi and ax1 == ax2 and an1 == an2):
                rep.mismatch('impl_vs_spec', c, axis=ax1, angle=an1, second=[ax2, an2])
            elif not (close_pts([ax1], [dv(m[0])], 1e-12) and close(an1, Q(m[1]), 1e-12)
                      and close(2 * math.pi * u1, Q(m[2]), 1e-12) and close(2 * u2 - 1, Q(m[3]), 1e-12)):
                rep.mismatch('impl_vs_model', c, axis=ax1, angle=an1, model=str(m)[:300])
    rep.input_distribution = dict(dist, db=n_db, fn=n_fn, rand=n_rand)
    for must in ('sub-selection', 'euler-three-angles', 'lattice-exact', 'followed-by-inverse', 'axis-rational', 'axis-generic'):
        if rep.features[must] == 0:
            rep.notes.append(f'mandatory feature bin {must} is empty')
    return rep

def replay(ctx, case):
    pdb2sql = import_impl()
    import pdb2sql.transform
    if case['kind'] == 'db':
        before, statuses, after = run_db_impl(pdb2sql, case)
        o = ctx.model.batch(db_requests(case, before))
        spec_ok, model_ok, det = judge_db(case, before, statuses, after, o[0], o[1])
        return spec_ok, f'implementation vs specification after {len(case["history"])} transform(s): {det if det else "equal within 1e-9"}'
    if case['kind'] == 'fn':
        r = fn_impl(pdb2sql, case)
        o = ctx.model.batch(fn_requests(case))
        if r[0] != 'OK':
            return False, f'implementation raised {r[1]}'
        spec_pts = [dv(x) for x in o[1:]]
        scale = max([abs(x) for p in case['pts'] for x in p] + [1.0]) * 2
        return close_pts(r[1], spec_pts, TOL, scale), f'max deviation from the specified isometry {maxdiff(r[1], spec_pts):.3e}'
    ax1, an1, ax2, an2, u1, u2, u3 = rand_case(pdb2sql, case['seed'], case.get('seed_carrier'))
    ok = abs(sum(x * x for x in ax1) - 1) < 1e-12 and 0 <= an1 < 2 * math.pi and ax1 == ax2 and an1 == an2
    return ok, f'axis {ax1} angle {an1}'
