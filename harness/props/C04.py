"""C04 — update: exactly the addressed cells change, to exactly the supplied values.
Histories of modifications on real pdb2sql / many2sql objects; the whole state (every table:
column names, declared types, rows) is compared after every step with the model and with the
list-of-records specification."""
import random
from harness.core import *
from harness import gen_sql as G
from harness.findings import signature
from harness.props import C03 as Q3

ID = 'C04'
REGIONS = ['const', 'sql_get_consts', 'sql_update_consts', 'sql_views']
HAND_MODELLED = ['pdb2sqlcore.py:pdb2sql.update', 'pdb2sqlcore.py:pdb2sql.update_column',
                 'pdb2sqlcore.py:pdb2sql.add_column', 'pdb2sqlcore.py:pdb2sql._fix_chainID',
                 'pdb2sql_base.py:pdb2sql_base.update_xyz', 'pdb2sqlcore.py:pdb2sql.get',
                 'transform.py:translation (get + update skeleton)']
TRUSTED = Q3.TRUSTED + ['sqlite3.executemany runs the parameter rows in order, each as its own statement; a failing row '
                        'leaves the earlier rows written (observed, modelled)',
                        'value carriers are reduced to Python numbers by the harness (what .item()/.tolist() deliver); '
                        'float32 values enter as the doubles of the same value']
RULE = ('histories of 1-8 operations (update / update_xyz / update_column with and without index / add_column / '
        'translate / queries, fix_chainID at load) on 1-2 structures of <= 30 atoms, selections as in C03, value '
        'carriers list / float64 / float32 / int64 / int32 / NumPy scalars / str arrays / tuples, shape mismatches in a '
        'malformed stream (fewer, more, ragged, wrong column count, bare numbers, empty). Non-trivial: every '
        'modifying step (the whole state is compared after it).')

WRITABLE = ['serial', 'name', 'altLoc', 'resName', 'chainID', 'resSeq', 'iCode', 'x', 'y', 'z', 'occ', 'temp', 'element', 'model']
TYPE = dict(G.COLS)
NEWCOLS = ['w', 'score', 'tag', 'q_1', 'Flag', 'b2']
COLTYPES = ['FLOAT', 'INT', 'TEXT', 'str', 'REAL', '', 'BLOB', 'DOUBLE', 'VARCHAR', 'NUMERIC', 'int', 'Text', 'CHARINT']

def gen_value(rng, decl, carrier):
    u = decl.upper()
    if carrier in ('f64', 'f32'):
        return rng.randint(-800, 800) * 0.125
    if carrier in ('i64', 'i32'):
        return rng.randint(-999, 9999)
    if carrier == 'U':
        return rng.choice(['A', 'B', 'CA', 'XY', 'Q'])
    if carrier in ('npscalar', 'npscalar32', 'npscalar_tail'):
        if 'INT' in u: return rng.randint(-99, 999)
        if u in ('REAL', 'FLOAT', 'DOUBLE'): return rng.randint(-800, 800) * 0.125
        return rng.choice([rng.randint(0, 9), rng.randint(-80, 80) * 0.125]) if carrier == 'npscalar32' else rng.choice(['Z', 'CB', rng.randint(0, 9)])
    # plain python values
    r = rng.random()
    if 'INT' in u:
        return rng.choice([rng.randint(-999, 9999)] * 5 + [float(rng.randint(0, 50)), str(rng.randint(0, 99)), ' 7 ', '3.0', '2.5', 2.5, 'abc', None])
    if u in ('REAL', 'FLOAT', 'DOUBLE'):
        return rng.choice([G.coord(rng)] * 5 + [rng.randint(-20, 20), '1.5', '12', 'xyz', None])
    if u in ('TEXT', 'VARCHAR'):
        return rng.choice([rng.choice(['A', 'B', 'CA', 'XYZ', '', 'H2', '7', ' x'])] * 5 + [rng.randint(0, 99), None, 1.5])
    return rng.choice([rng.randint(-5, 5), G.coord(rng), 'high', '12', '1.50', None])

def carrier_for(rng, decls):
    us = [d.upper() for d in decls]
    opts = ['list', 'list', 'list', 'npscalar', 'tuple_rows', 'npscalar_tail']
    if all(u in ('REAL', 'FLOAT', 'DOUBLE') for u in us): opts += ['f64', 'f64', 'f32', 'f32', 'i64', 'npscalar32']
    if all('INT' in u for u in us): opts += ['i64', 'i64', 'i32', 'f64', 'npscalar32']
    if all(u in ('TEXT', 'VARCHAR') for u in us): opts += ['U']
    return rng.choice(opts)

class HistGen:
    """generates the abstract operations of one history; selection-dependent value lists are made
    concrete in concretise() with the row count read from the live object"""
    def __init__(self, rng, structs, names):
        self.rng, self.structs, self.names = rng, structs, names
        self.cols = {n: [(c, t) for c, t in G.COLS] for n in names}
        self.nrows = {n: sum(1 for a in s if a != 'ENDMDL') for n, s in zip(names, structs)}
        self.atoms = {n: [a for a in s if a != 'ENDMDL'] for n, s in zip(names, structs)}

    def table(self):
        rng = self.rng
        tn = rng.choice(self.names)
        shown = tn if rng.random() < 0.8 else rng.choice([tn.upper(), tn.lower()])
        if rng.random() < 0.02: shown = 'nosuch'
        return tn, shown

    def kw(self, tn, nmax=2):
        rng = self.rng
        if rng.random() < 0.25:
            return []
        return Q3.rand_kw(rng, self.atoms[tn], nmax=nmax, weird=0.02, alias_ok=False)

    def op(self):
        rng = self.rng
        tn, shown = self.table()
        r = rng.random()
        cols = self.cols[tn]
        if r < 0.30:
            k = rng.choice([1, 1, 2, 3])
            pick = rng.sample(cols, min(k, len(cols)))
            cstr = ','.join(c for c, _ in pick)
            if rng.random() < 0.04:
                cstr = rng.choice(['nosuch', 'x ,y', ' x', '*', 'X', cstr + ',', 'x,nosuch'])
                pick = [(c, 'REAL') for c in cstr.split(',')]
            mal = None if rng.random() < 0.8 else rng.choice(['fewer', 'more', 'ragged', 'ragged', 'wrongcols', 'flatnum', 'empty', 'flatstr'])
            return ['update_dyn', cstr, [t for _, t in pick], shown, self.kw(tn), mal, rng.randrange(1 << 30)]
        if r < 0.42:
            mal = None if rng.random() < 0.85 else rng.choice(['fewer', 'more', 'ragged', 'wrongcols'])
            return ['update_dyn', 'XYZ', ['REAL'] * 3, shown, self.kw(tn), mal, rng.randrange(1 << 30)]
        if r < 0.62:
            c, t = rng.choice(cols)
            if rng.random() < 0.03: c = rng.choice(['nosuch', 'X', 'order'])
            n = self.nrows[tn]
            car = carrier_for(rng, [t])
            if car == 'tuple_rows': car = 'list'
            if rng.random() < 0.5:
                m = rng.choice([n, n, n, max(0, n - 2), n + 2, 0])
                vals = [gen_value(rng, t, car) for _ in range(m)]
                return ['update_column', c, vals, None, shown, car]
            m = rng.randint(0, min(n, 6) + 1)
            idx = [rng.choice([rng.randrange(max(n, 1)), rng.randrange(max(n, 1)), n + rng.randint(0, 3), -1]) for _ in range(m)]
            if rng.random() < 0.2: idx = idx + [0]
            if rng.random() < 0.2 and idx: idx = idx + [idx[0]]
            vals = [gen_value(rng, t, car) for _ in range(len(idx) + rng.choice([0, 0, 1, -1]))]
            vals = vals[:max(0, len(vals))]
            return ['update_column', c, vals, idx, shown, car, rng.choice([None, None, 'i64', 'npscalar', 'i32'])]
        if r < 0.72:
            name = rng.choice(NEWCOLS + (['x', 'Name', 'rowid', 'my col'] if rng.random() < 0.1 else []))
            ct = rng.choice(COLTYPES)
            val = rng.choice([0, 0, 1, 2.5, -0.125, 'high', 'positive', '7', None, 1e3, 'a b', 100])
            if tn in self.cols and not any(c.lower() == name.lower() for c, _ in cols) and name.isidentifier() and name.lower() not in ('rowid',) and shown != 'nosuch':
                self.cols[tn] = cols + [(name, ct)]
            car = rng.choice([None, None, 'npscalar', 'npscalar32']) if isinstance(val, (int, float, str)) and val not in (1e3,) else None
            if car == 'npscalar32' and isinstance(val, str): car = 'npscalar'
            return ['add_column', name, ct, val, shown, car]
        if r < 0.80:
            return ['translate', [rng.randint(-40, 40) * 0.125 for _ in range(3)], shown, self.kw(tn, 1)]
        if r < 0.88:
            return ['get', '*', shown, []]
        if r < 0.92:
            return ['colnames']
        return ['get', Q3.rand_columns(rng), shown, self.kw(tn)]

def concretise(lib, impl, op):
    """update_dyn -> update / update_xyz with as many value rows as the selection has right now"""
    _, cstr, decls, tn, kw, mal, seed = op
    rng = random.Random(seed)
    import io, contextlib
    try:
        with contextlib.redirect_stdout(io.StringIO()):
            sel = impl.db.get('rowID', tablename=tn, **dict(kw))
        n = len(sel) if all(isinstance(v, int) for v in sel) else 2
    except BaseException:
        n = 2
    if n == 0 and mal is None and rng.random() < 0.7:
        kw = []
        try:
            n = len(impl.db.get('rowID', tablename=tn))
        except BaseException:
            n = 2
    car = carrier_for(rng, decls)
    if mal in ('ragged', 'flatnum', 'flatstr', 'empty'):
        car = 'list'
    nrow = n
    if mal == 'fewer': nrow = max(0, n - rng.choice([1, 2]))
    if mal == 'more': nrow = n + rng.choice([1, 2])
    ncol = len(decls)
    dd = list(decls)
    if mal == 'wrongcols':
        dd = dd + [dd[0]] if rng.random() < 0.5 or ncol == 1 else dd[:-1]
    vals = [[gen_value(rng, d, car) for d in dd] for _ in range(nrow)]
    if mal == 'ragged' and nrow >= 2:
        j = rng.randrange(1, nrow)
        vals[j] = vals[j][:-1] if rng.random() < 0.5 else vals[j] + [vals[j][0]]
    if mal == 'flatnum': vals = [v[0] for v in vals] if vals else [1.0]
    if mal == 'flatstr': vals = ['C' * ncol for _ in range(nrow)]
    if mal == 'empty': vals = []
    if car == 'U' or car in ('f64', 'f32', 'i64', 'i32'):
        if nrow == 0 or mal == 'wrongcols' and False:
            car = 'list'
    if cstr == 'XYZ':
        return ['update_xyz', vals, tn, kw, car]
    return ['update', cstr, vals, tn, kw, car]

def feats_of(op, i, case):
    f = ['op-' + op[0]]
    if op[0] in ('update', 'update_xyz'):
        vals = op[2] if op[0] == 'update' else op[1]
        car = op[5] if op[0] == 'update' else op[4]
        f.append('carrier-' + str(car))
        kw = op[4] if op[0] == 'update' else op[3]
        if kw: f.append('selection')
        if any(isinstance(v, list) and len(v) > 950 for _, v in kw): f.append('selection-over-950-values')
        lens = {len(v) if isinstance(v, (list, str)) else -1 for v in vals}
        if len(lens) > 1: f.append('ragged-values')
    if op[0] == 'update_column':
        f.append('carrier-' + str(op[5]))
        f.append('with-index' if op[3] is not None else 'without-index')
    if len(case['structs']) > 1: f.append('multi-table')
    if G.is_err(i): f.append('error-' + i[1])
    return f if op[0] in G.MODIFYING else (f if op[0] == 'get' and op[1] == '*' else [])

def long_selection_case(ctx, rep, case):
    """update() with a selection of more than 950 values: "the i-th supplied value row lands on the i-th atom that the
    SAME selection returns, and no other atom, attribute, row count or row order changes" — read literally: the order is
    the one get() gives for that selection on that object (for such lists it is the piece order, known finding F11 of
    C17), so the prediction is computed from the implementation's own get() and a plain list-of-records update."""
    import io, contextlib
    lib = import_impl()
    rng = random.Random(case['seed'])
    impl = G.Impl(lib, case)
    feats = ['op-update', 'selection', 'selection-over-950-values']
    try:
        db = impl.db
        cols = case['columns'].split(',')
        kw = dict(case['selection'])
        with contextlib.redirect_stdout(io.StringIO()):
            before = db.get('*')
            order = db.get('rowID', **kw)
            def val(c):
                if c in ('x', 'y', 'z', 'temp', 'occ'): return rng.randint(-8000, 8000) * 0.125
                if c in ('resSeq', 'serial'): return rng.randint(-999, 9999)
                return rng.choice(['N', 'CA', 'C', 'O', 'CB'])
            values = [[val(c) for c in cols] for _ in order]
            try:
                db.update(case['columns'], values, **kw)
                res = ['OK']
            except BaseException as e:
                if isinstance(e, (KeyboardInterrupt, MemoryError)): raise
                res = ['ERR', exc_class(e)]
            after = db.get('*')
        names = [c for c, _ in G.COLS]
        pred = [list(r) for r in before]
        for i, rid in enumerate(order):
            for c, v in zip(cols, values[i]):
                pred[rid][names.index(c)] = v
        sub = {k: v for k, v in case.items() if not k.startswith('_')}
        rep.case({'part': 'long-selection', 'n': len(before), 'columns': case['columns'], 'selection_head': case['selection'][0][1][:5], 'seed': case['seed']}, feats, nontrivial=True)
        if res != ['OK']:
            rep.mismatch('impl_vs_spec', sub, what='update with a well-shaped value list raised', impl=res)
        elif after != pred:
            k = next(i for i, (x, y) in enumerate(zip(after, pred)) if x != y) if len(after) == len(pred) else -1
            rep.mismatch('impl_vs_spec', sub, what='the i-th value row did not land on the i-th atom the same selection returns (or another cell changed)',
                         row=k, got=after[k] if k >= 0 else len(after), expected=pred[k] if k >= 0 else len(pred),
                         selection_order_head=order[:5])
    finally:
        impl.close()

def explore(ctx, tier, rng, search=False):
    rep = Report()
    G.check_schema(ctx, rep)
    deep = (tier == 'thorough' or search)
    nh = 3000 if deep else 600
    cases = []
    for h in range(nh):
        n = rng.randint(1, 30)
        chains = rng.choice([('A', 'B'), ('A',), ('X', 'B', '1'), ('b', 'a'), ('1', 'A'), ('A', '2', 'B'), ('0', 'B', 'A')])
        structs = [G.gen_atoms(rng, n, chains=chains)]
        case = {'structs': structs}
        if rng.random() < 0.3: case['rowid_carrier'] = rng.choice(['i64', 'i32', 'intp'])
        r = rng.random()
        if r < 0.25:
            structs.append(G.gen_atoms(rng, rng.randint(1, 20), serial0=300))
            if rng.random() < 0.4:
                case['tablenames'] = rng.choice([['ref', 'decoy'], ['A1', 'B_2'], ['ATOM', 'other']])
        elif r < 0.37:
            case['kind'] = 'pdb2sql'
            case['fix_chainID'] = True
            if rng.random() < 0.15:
                many = [chr(c) for c in range(ord('a'), ord('z') + 1)] + ['0', '1', '2']
                k = rng.choice([26, 27, 28])
                structs[0] = G.gen_atoms(rng, k + rng.randint(0, 3), chains=tuple(many[:k]))
        elif r < 0.42 and n >= 3:
            cut = rng.randint(1, n - 1)
            structs[0] = structs[0][:cut] + ['ENDMDL'] + structs[0][cut:] + ['ENDMDL']
        names = G.default_tablenames(case)
        g = HistGen(rng, structs, names)
        case['ops'] = [g.op() for _ in range(rng.randint(1, 8))]
        cases.append(case)
    # selections listing more than 950 values (answered piece by piece): checked against the statement read literally
    long_cases = []
    for h in range(12 if deep else 2):
        n = rng.randint(1000, 1100)
        atoms = G.gen_atoms(rng, n, chains=('A', 'B'))
        ids = list(range(n))
        L = rng.choice([ids[::-1], ids[300:] + ids[:300], rng.sample(ids, 960), sorted(rng.sample(ids, 955), reverse=True)])
        col = rng.choice(['temp', 'x,y,z', 'resSeq', 'name'])
        long_cases.append({'structs': [atoms], 'kind': 'pdb2sql', 'part': 'long-selection', 'columns': col,
                           'selection': [['rowID', L]], 'seed': rng.randrange(1 << 30)})
    for c in long_cases:
        long_selection_case(ctx, rep, c)
    G.run_cases(ctx, rep, cases, feats_of, keep_reqs=24, dyn=concretise)
    rep.input_distribution = {'histories': nh, 'operations': sum(len(c['ops']) for c in cases),
                              'with_two_tables': sum(1 for c in cases if len(c['structs']) > 1),
                              'fix_chainID_at_load': sum(1 for c in cases if c.get('fix_chainID'))}
    return rep

def replay(ctx, case):
    if case.get('part') == 'long-selection':
        rep = Report()
        long_selection_case(ctx, rep, case)
        bad = [m for m in rep.mismatches if m['kind'] == 'impl_vs_spec']
        return not bad, json.dumps(jsonable(bad[0]['details']), default=str)[:800] if bad else 'ok'
    return G.replay_case(ctx, case, dyn=concretise)

@signature('c04_ragged_values_partial_write')
def sig_ragged(case, details):
    ops = case.get('ops') or []
    if not ops or ops[-1][0] not in ('update', 'update_xyz'): return False
    op = ops[-1]
    vals = op[2] if op[0] == 'update' else op[1]
    ncol = len(op[1].split(',')) if op[0] == 'update' else 3
    if not vals or not all(isinstance(v, (list, str)) for v in vals): return False
    return len(vals[0]) == ncol and any(len(v) != ncol for v in vals[1:]) \
        and details.get('what') == 'error raised but the table was modified'

# shared with C17 (registered here because C17 imports this module)
@signature('c17_column_validated_against_first_table')
def sig_first_table(case, details):
    ops = case.get('ops') or []
    if not ops or ops[-1][0] not in ('get', 'update'): return False
    cols = [p.strip() for p in ops[-1][1].split(',')]
    names = G.default_tablenames(case)
    added = [o[1] for o in ops[:-1] if o[0] == 'add_column' and o[4].upper() != names[0].upper()]
    return any(c in added for c in cols) and 'ValueError' in str(details.get('impl'))
