"""C18 — align(): the chosen principal axis ends up on the requested Cartesian axis.
Real databases (pdb2sql(list_of_lines) / interface(list_of_lines)), get('*') before/after, the
eigen-solver and the spherical angles recorded in-process and handed to the executable model."""
import math, json
from fractions import Fraction
from harness.core import *
from harness.geom_common import *

ID = 'C18'
REGIONS = ['g_rodrigues', 'g_rotate', 'g_rotation_angle', 'g_align_table', 'g_align_misc']
HAND_MODELLED = ['align.py:align / align_interface (selection, export flag)', 'align.py:align_pca_vect (read all, write all)',
                 'align.py:pca (np.cov as sample covariance)', 'align.py:_align_along_axis (fold over the regenerated table)']
TRUSTED = ['numpy.linalg.eigh as an oracle (recorded; eigen-equation, orthonormality and order checked to 1e-9)',
           'np.arctan2 / np.arccos / np.cos / np.sin: the model receives cos/sin of the recorded angles; '
           'the hypothesis v = r (sin th cos ph, sin th sin ph, cos th) is checked on every recorded call',
           'interface.get_contact_atoms (C05) supplies the contact atoms of align_interface']
RULE = ('elongated / flattened synthetic structures (extreme eigenvalue gap ratio >= 1.05) in ~200 orientations incl. the '
        'poles and the coordinate planes x {x,y,z} / {xy,xz,yz} x selections x export on/off; plus _align_along_axis on '
        'exact rational spherical angles; scalar selection values; export off also said as 0 / np.False_ / None / empty string. Non-trivial: every case (each has a distinct orientation / axis / selection).')
TOL = 1e-9

def orientations(rng, k):
    """(cphi, sphi, cth, sth) rational: poles, coordinate planes, axes, generic"""
    out = []
    one, zero = Fraction(1), Fraction(0)
    quarter = [(one, zero), (zero, one), (-one, zero), (zero, -one)]
    for cs in quarter:
        out.append(cs + (one, zero))          # north pole (phi arbitrary)
        out.append(cs + (-one, zero))         # south pole
        out.append(cs + (zero, one))          # the four horizontal axes
    for _ in range(12):
        c, s = circle_point(rng)
        out.append((c, s, zero, one))         # in the xy-plane
        c2, s2 = circle_point(rng)
        out.append(rng.choice(quarter) + (c2, abs(s2)))   # in the xz / yz planes
    while len(out) < k:
        c, s = circle_point(rng)
        c2, s2 = circle_point(rng)
        out.append((c, s, c2, abs(s2)))
    return out

def frame_from(o):
    """orthonormal rational frame whose third column is the unit vector with the given spherical angles"""
    cphi, sphi, cth, sth = o
    # Rz(phi) . Ry(theta): columns = images of e_x, e_y, e_z
    Rz = [[cphi, -sphi, 0], [sphi, cphi, 0], [0, 0, 1]]
    Ry = [[cth, 0, sth], [0, 1, 0], [-sth, 0, cth]]
    return matmul(Rz, Ry)

def gen_align_case(rng, o, interface, ratio=None):
    """atoms with the extreme principal direction (largest variance; least for an interface) along the unit
    vector with spherical angles o"""
    F = frame_from(o)
    shift = [rng.uniform(-30, 30) for _ in range(3)]
    atoms = []
    if not interface:
        n = rng.choice([4, 6, 10, 20, 40])
        symmetric = ratio is not None         # a cross of +/- points: the sample covariance is diagonal in the local frame,
        if symmetric: n = 12                  # so the extreme direction is the nominal one up to the 0.001 A rounding
        ratio = ratio or rng.choice([1.03, 1.1, 1.5, 3.0, 10.0])       # of standard deviations
        cross = [(1, 0, 0), (-1, 0, 0), (0, 1, 0), (0, -1, 0), (0, 0, 1), (0, 0, -1)]
        for k in range(n):
            loc = [rng.uniform(-4, 4), rng.uniform(-4, 4) * rng.choice([1.0, 0.5]), rng.uniform(-4, 4) * ratio]
            if symmetric:
                e = cross[k % 6]; r = 2.0 + (k // 6)
                loc = [e[0] * r, e[1] * r * 0.7, e[2] * r * ratio]
            p = [float(sum(F[i][j] * loc[j] for j in range(3))) + shift[i] for i in range(3)]
            chain = 'A' if k < n // 2 else 'B'
            atoms.append([k + 1, rng.choice(NAMES), rng.choice(RESN), chain, k // 3 + 1] + [round(x, 3) for x in p] + [1.0, 0.0])
        sel = rng.choice([{}, {}, {'chainID': ['A']}, {'no_name': ['H']}, {'name': ['CA', 'C', 'N', 'O', 'CB']},
                          {'name': 'CA'}, {'chainID': 'B'}, {'name': rng.choice(NAMES), 'chainID': 'A'}])     # scalar values = one-element lists
        return {'kind': 'align', 'atoms': atoms, 'axis': rng.choice('xyz'), 'sel': sel, 'export': rng.random() < 0.25,
                'orient': [fs(x) for x in o]}
    m = rng.choice([3, 4, 5])
    k = 0
    for chain, h in (('A', 1.9), ('B', -1.9)):
        for a in range(m):
            for b in range(m):
                loc = [3.1 * (a - (m - 1) / 2) + rng.uniform(-0.4, 0.4), 3.1 * (b - (m - 1) / 2) * rng.choice([1.0, 1.3]) + rng.uniform(-0.4, 0.4),
                       h + rng.uniform(-0.3, 0.3)]
                p = [float(sum(F[i][j] * loc[j] for j in range(3))) + shift[i] for i in range(3)]
                k += 1
                atoms.append([k, rng.choice(['CA', 'C', 'N', 'O', 'CB']), rng.choice(RESN), chain, k] + [round(x, 3) for x in p] + [1.0, 0.0])
    return {'kind': 'interface', 'atoms': atoms, 'plane': rng.choice(['xy', 'xz', 'yz']), 'cutoff': rng.choice([5.0, 8.5]),
            'export': rng.random() < 0.2, 'orient': [fs(x) for x in o]}

def gen_fn_case(rng, o):
    cphi, sphi, cth, sth = o
    r = Fraction(rng.randint(1, 40), rng.choice([1, 2, 8]))
    v = [r * sth * cphi, r * sth * sphi, r * cth]
    extra = [[Fraction(rng.randint(-20, 20), 4) for _ in range(3)] for _ in range(rng.randint(0, 3))]
    # symmetric set: the centroid is the origin, so the rotation about the centroid is linear
    pts = [v, [-x for x in v]] + extra + [[-x for x in p] for p in extra]
    axis = rng.choice(['x', 'y', 'z', 'x', 'y', 'z', 'w', 'X', ''])
    return {'kind': 'fn', 'pts': [[fs(x) for x in p] for p in pts], 'axis': axis, 'orient': [fs(x) for x in o], 'r': fs(r)}

# ----------------------------------------------------------------------------------------
XYZ = (7, 8, 9)

def run_impl(pdb2sql, case):
    import numpy as np
    A = sys.modules['pdb2sql.align']
    lines = atoms_lines(case['atoms'])
    rec_ang = []
    orig = A.get_rotation_angle
    def wrapped(v):
        out = orig(v)
        rec_ang.append(([float(x) for x in v], float(out[0]), float(out[1])))
        return out
    before_files = set(os.listdir('.'))
    export_arg = case['export']
    if not case['export'] and case.get('export_carrier'):     # "no export" said with another false value than the object False
        export_arg = {'int0': 0, 'npfalse': np.False_, 'npbool0': np.bool_(0), 'none': None, 'empty': ''}[case['export_carrier']]
    A.get_rotation_angle = wrapped
    try:
        with record_linalg(np) as rec:
            if case['kind'] == 'align':
                db = pdb2sql.pdb2sql(lines)
                before = db.get('*')
                selpos = db.get('rowID', **case['sel'])
                r = impl_call(A.align, db, case['axis'], export_arg, **case['sel'])
            else:
                db = pdb2sql.interface(lines)
                before = db.get('*')
                ca = db.get_contact_atoms(cutoff=case['cutoff'])
                selpos = [i for v in ca.values() for i in v]
                r = impl_call(A.align_interface, db, case['plane'], export_arg, cutoff=case['cutoff'])
    finally:
        A.get_rotation_angle = orig
    after = db.get('*')
    db._close()
    new_files = sorted(set(os.listdir('.')) - before_files)
    for f in new_files:
        os.remove(f)
    eigh = [(a.tolist(), [float(x) for x in out[0]], out[1].tolist()) for name, a, out in rec if name == 'eigh']
    return {'status': r[0] if r[0] == 'OK' else r, 'before': before, 'after': after, 'selpos': selpos,
            'eigh': eigh, 'angles': rec_ang, 'files': new_files}

def requests(case, R):
    if R['status'] != 'OK' or len(R['selpos']) < 2:
        return []
    table = [[i, [Fr(r[j]) for j in XYZ]] for i, r in enumerate(R['before'])]
    if len(R['eigh']) == 1 and len(R['angles']) == 1:
        _, u, v = R['eigh'][0]
        vect, phi, theta = R['angles'][0]
    else:
        # the library did not go through one eigen-decomposition and one angle computation (e.g. it decided not to rotate):
        # nothing to feed the model with (placeholders, the tie is reported as broken) — the specification is judged anyway
        u, v, phi, theta = [0.0, 0.0, 1.0], [[1.0, 0.0, 0.0], [0.0, 1.0, 0.0], [0.0, 0.0, 1.0]], 0.0, 0.0
    cs = [Fr(math.cos(phi)), Fr(math.sin(phi)), Fr(math.cos(theta)), Fr(math.sin(theta))]
    axis = case['axis'] if case['kind'] == 'align' else {'xy': 'z', 'xz': 'y', 'yz': 'x'}[case['plane']]
    sel_before = [[Fr(R['before'][i][j]) for j in XYZ] for i in R['selpos']]
    sel_after = [[Fr(R['after'][i][j]) for j in XYZ] for i in R['selpos']]
    e = {'x': [1, 0, 0], 'y': [0, 1, 0], 'z': [0, 0, 1]}[axis]
    reqs = [['geom.align', table, axis] + cs,
            ['geom.pca_vect', case['kind'] == 'interface', wv(u), wm(v)],
            ['geom.sample_cov', sel_before],
            ['spec.geom.cov', sel_after],
            ['spec.geom.sph'] + cs]
    # exact verdict: lam I - Cov' >= 0 (largest variance) / Cov' - lam I >= 0 (least), lam within 1e-9 of var_e
    import numpy as np
    Sa = np.array([[R['after'][i][j] for j in XYZ] for i in R['selpos']], dtype=float)
    cf = np.cov(Sa.T)
    k = 'xyz'.index(axis)
    tr = float(np.trace(cf))
    if case['kind'] == 'align':
        reqs.append(['spec.geom.principal', sel_after, e, Fr(float(cf[k][k]) * (1 + 1e-9) + 1e-12 * tr)])
    else:
        reqs.append(['spec.geom.least', sel_after, e, Fr(float(cf[k][k]) * (1 - 1e-9) - 1e-12 * tr)])
        reqs.append(['geom.plane_axis', case['plane']])
    return reqs

def judge(case, R, outs):
    import numpy as np
    det, feats = {}, [case['kind'], 'export-on' if case['export'] else 'export-off']
    o = [Fr(x) for x in case['orient']]
    if o[3] == 0: feats.append('pole')
    elif o[2] == 0 or o[0] == 0 or o[1] == 0: feats.append('coordinate-plane')
    else: feats.append('generic-orientation')
    feats.append('axis-' + (case['axis'] if case['kind'] == 'align' else case['plane']))
    if case['kind'] == 'align' and case['sel']: feats.append('sub-selection')
    if case.get('near_aligned'): feats.append('almost-aligned-already')
    if len(R['selpos']) < 2:
        return True, True, {}, feats, 'fewer_than_2_selected_atoms'       # no principal direction: outside the premise
    if len(R['selpos']) <= 3: feats.append('selection-of-2-or-3-atoms')
    if R['status'] != 'OK':
        return False, True, {'impl': str(R['status'])}, feats, None
    before, after = R['before'], R['after']
    X = np.array([[r[j] for j in XYZ] for r in before], dtype=float)
    Y = np.array([[r[j] for j in XYZ] for r in after], dtype=float)
    S0 = X[R['selpos']]
    # premise of the property: well separated extreme principal direction of the selected atoms
    w = np.linalg.eigvalsh(np.cov(S0.T))
    eps = 1e-9 * max(float(w[2]), 1e-300)
    if case['kind'] == 'align':
        separated = w[2] > eps and w[2] >= 1.05 * max(w[1], 0.0)          # two or three atoms: w[1] may be 0
    else:
        separated = w[1] > eps and w[1] >= 1.05 * max(w[0], 0.0)
    if not separated:
        return True, True, {}, feats, 'gap_ratio_below_1.05'
    scale = max(1.0, float(abs(X).max()))
    spec_ok = True
    # (a) frame: nothing but coordinates changes; files only on request
    if len(before) != len(after) or any([v for j, v in enumerate(a) if j not in XYZ] != [v for j, v in enumerate(b) if j not in XYZ]
                                        for a, b in zip(before, after)):
        spec_ok = False; det['frame'] = 'a non-coordinate attribute changed'
    if (not case['export'] and R['files']) or (case['export'] and len(R['files']) != 1):
        spec_ok = False; det['files'] = R['files']
    # (b) one rigid rotation about the centroid of the whole structure
    c0, c1 = X.mean(0), Y.mean(0)
    if abs(c0 - c1).max() > TOL * scale:
        spec_ok = False; det['centroid_moved'] = float(abs(c0 - c1).max())
    G0, G1 = (X - c0) @ (X - c0).T, (Y - c1) @ (Y - c1).T
    if abs(G0 - G1).max() > TOL * scale * scale:
        spec_ok = False; det['not_an_isometry'] = float(abs(G0 - G1).max())
    H = (X - c0).T @ (Y - c1)
    if np.linalg.matrix_rank(H, tol=1e-6 * scale * scale) == 3 and np.linalg.det(H) < 0:
        spec_ok = False; det['handedness'] = 'mirror image'
    # (c) the extreme principal direction of the selected atoms is the target axis
    covs = np.array([[float(x) for x in r] for r in dm(outs[3])])
    axis = case['axis'] if case['kind'] == 'align' else {'xy': 'z', 'xz': 'y', 'yz': 'x'}[case['plane']]
    k = 'xyz'.index(axis)
    tr = float(np.trace(covs))
    off = max(abs(covs[i][k]) for i in range(3) if i != k)
    if off > TOL * tr * 10:
        spec_ok = False; det['axis_is_not_a_principal_direction'] = off / tr
    w1 = np.linalg.eigvalsh(covs)
    accepted, var_e = bool(outs[5][0]), float(Q(outs[5][1]))
    if abs(var_e - covs[k][k]) > TOL * tr:
        spec_ok = False; det['variance_along_axis'] = [var_e, float(covs[k][k])]
    if case['kind'] == 'align' and not accepted:
        spec_ok = False; det['not_the_largest_variance'] = [float(covs[k][k]), float(w1[2])]
    if case['kind'] == 'interface' and not accepted:
        spec_ok = False; det['not_the_least_variance'] = [float(covs[k][k]), float(w1[0])]
    # ---- tie: model fed with the recorded oracle answers
    m = outs[0]
    if len(R['eigh']) != 1 or len(R['angles']) != 1:
        det['model'] = 'expected exactly one eigh call and one get_rotation_angle call: %d, %d' % (len(R['eigh']), len(R['angles']))
        return spec_ok, False, det, feats, None
    model_ok = m[0] == 'OK' and close_pts(Y.tolist(), [dv(r[1]) for r in m[1]], TOL, scale)
    Cin, u, v = R['eigh'][0]
    vect, phi, theta = R['angles'][0]
    if not close_pts([vect], [dv(outs[1])], 1e-12):
        model_ok = False; det['pca_vect'] = [vect, [float(x) for x in dv(outs[1])]]
    if not close_pts(Cin, dm(outs[2]), TOL, float(abs(np.array(Cin)).max())):
        model_ok = False; det['sample_cov'] = 'model covariance != recorded eigh input'
    if case['kind'] == 'interface' and outs[6] != ['OK', axis]:
        model_ok = False; det['plane_axis'] = outs[6]
    if not model_ok:
        det['model'] = str(m)[:200]
    # oracle hypotheses
    hyp = []
    Cn, un, vn = np.array(Cin), np.array(u), np.array(v)
    sc = max(abs(Cn).max(), 1e-300)
    if abs(Cn @ vn - vn @ np.diag(un)).max() > TOL * sc: hyp.append('eigh: C v != v diag(u)')
    if abs(vn.T @ vn - np.eye(3)).max() > TOL: hyp.append('eigh: eigenvectors not orthonormal')
    if not (un[0] <= un[1] <= un[2]): hyp.append('eigh: eigenvalues not ascending')
    r = math.sqrt(sum(x * x for x in vect))
    sphv = [float(x) for x in dv(outs[4])]
    if max(abs(vect[i] - r * sphv[i]) for i in range(3)) > TOL: hyp.append('angles: v != r (sin th cos ph, sin th sin ph, cos th)')
    if hyp:
        det['oracle_hypotheses'] = hyp
    return spec_ok, model_ok, det, feats, None

# ---- function level --------------------------------------------------------------------------
def fn_impl(pdb2sql, case):
    import numpy as np
    A = sys.modules['pdb2sql.align']
    o = [Fr(x) for x in case['orient']]
    phi, theta = math.atan2(o[1], o[0]), math.atan2(o[3], o[2])
    xyz = np.array([[float(Fr(x)) for x in p] for p in case['pts']])
    r = impl_call(A._align_along_axis, xyz, case['axis'], phi, theta)
    if r[0] == 'OK':
        r[1] = r[1].tolist()
    return r

def fn_requests(case):
    o = [Fr(x) for x in case['orient']]
    return [['geom.align_along_axis', [wv(p) for p in case['pts']], case['axis']] + o, ['spec.geom.unit_axis', case['axis']]]

def fn_judge(case, r, outs):
    m, e = outs
    feats = ['fn', 'fn-axis-' + (case['axis'] if case['axis'] in 'xyz' and case['axis'] else 'bad')]
    o = [Fr(x) for x in case['orient']]
    if o[3] == 0: feats.append('pole')
    elif o[2] == 0 or o[0] == 0 or o[1] == 0: feats.append('coordinate-plane')
    else: feats.append('generic-orientation')
    rr = float(Fr(case['r']))
    if e[0] == 'ERR':
        spec_ok = (r == ['ERR', 'ValueError'])
        return spec_ok, (m[0] == 'ERR' and r[0] == 'ERR' and m[1] == r[1]), {'impl': str(r)[:100]}, feats
    if r[0] != 'OK':
        return False, False, {'impl': r}, feats
    target = [rr * float(x) for x in dv(e[1])]
    scale = max(1.0, rr)
    spec_ok = close_pts([r[1][0]], [target], TOL, scale)
    model_ok = m[0] == 'OK' and close_pts(r[1], [dv(x) for x in m[1]], TOL, max(scale, 20.0))
    det = {}
    if not spec_ok:
        det = {'image_of_v': r[1][0], 'expected': target}
    return spec_ok, model_ok, det, feats

# ----------------------------------------------------------------------------------------
def explore(ctx, tier, rng, search=False):
    rep = Report()
    pdb2sql = import_impl()
    import pdb2sql.align
    deep = (tier == 'thorough' or search)
    n_or = 600 if deep else 200
    ors = orientations(rng, n_or)
    cases = []
    cdir = os.path.join(VERIF, 'corpus', ID)
    if os.path.isdir(cdir):
        for f in sorted(os.listdir(cdir)):
            c = json.load(open(os.path.join(cdir, f)))
            cases.append(c.get('case', c))
    for i, o in enumerate(ors):
        cases.append(gen_align_case(rng, o, interface=(i % 4 == 3)))
        for _ in range(3):
            cases.append(gen_fn_case(rng, o))
    # almost aligned already: the extreme direction within 0.03 - 0.5 degree of the target axis (but not on it)
    def circ(t):
        t = Fraction(t); return ((1 - t * t) / (1 + t * t), 2 * t / (1 + t * t))
    for t in ([Fraction(1, 250), Fraction(1, 700), Fraction(1, 2000)] if not deep else [Fraction(1, k) for k in (120, 250, 400, 700, 1200, 2000, 4000)]):
        c_, s_ = circ(t)
        ph = circle_point(rng)
        for o, ax in (((ph[0], ph[1], c_, s_), 'z'), ((c_, s_, Fraction(0), Fraction(1)), 'x'), ((s_, c_, Fraction(0), Fraction(1)), 'y')):
            c = gen_align_case(rng, o, False, ratio=10.0); c['axis'] = ax; c['sel'] = {}; c['near_aligned'] = True; cases.append(c)
    # selections of exactly two or three atoms (their largest-variance direction is perfectly well defined)
    for o in ors[-3:] + ors[:1]:
        for m in (2, 3):
            c = gen_align_case(rng, o, False)
            for r in c['atoms'][:m]:
                r[1] = 'SG'
            for r in c['atoms'][m:]:
                if r[1] == 'SG': r[1] = 'CB'
            c['sel'] = {'name': ['SG']}; cases.append(c)
    # every axis / plane at a generic orientation and at the north pole, always present
    for o in (ors[-1], ors[0]):
        for ax in 'xyz':
            c = gen_align_case(rng, o, False); c['axis'] = ax; cases.append(c)
            c = gen_fn_case(rng, o); c['axis'] = ax; cases.append(c)
        for pl in ('xy', 'xz', 'yz'):
            c = gen_align_case(rng, o, True); c['plane'] = pl; cases.append(c)
    for i, c in enumerate(cases):
        if c['kind'] != 'fn' and not c['export'] and not c.get('export_carrier') and i % 3 == 1:
            c['export_carrier'] = ['int0', 'npfalse', 'npbool0', 'none', 'empty'][(i // 3) % 5]
    impl, reqs, spans = [], [], []
    for c in cases:
        if c['kind'] == 'fn':
            R = fn_impl(pdb2sql, c)
            rq = fn_requests(c)
        else:
            R = run_impl(pdb2sql, c)
            rq = requests(c, R)
        impl.append(R)
        spans.append((len(reqs), len(reqs) + len(rq)))
        reqs += rq
    outs = ctx.model.batch(reqs)
    order = sorted(range(len(reqs)), key=lambda i: len(enc(reqs[i])))
    rep.model_reqs = [reqs[i] for i in order]
    rep.model_outs = [outs[i] for i in order]
    dist = collections.Counter()
    for c, R, (a, b) in zip(cases, impl, spans):
        if c['kind'] == 'fn':
            spec_ok, model_ok, det, feats = fn_judge(c, R, outs[a:b])
            skip = None
        else:
            dist['atoms_%d' % (len(c['atoms']) // 10 * 10)] += 1
            spec_ok, model_ok, det, feats, skip = judge(c, R, outs[a:b])
        if skip:
            rep.skipped[skip] += 1
            continue
        rep.case(c, feats, nontrivial=True)
        if not spec_ok:
            rep.mismatch('impl_vs_spec', c, **det)
        elif not model_ok:
            rep.mismatch('impl_vs_model', c, **det)
        elif det.get('oracle_hypotheses'):
            rep.notes.append('oracle hypothesis not met on a recorded answer: ' + '; '.join(det['oracle_hypotheses']))
    rep.input_distribution = dict(dist, orientations=len(ors))
    for must in ('pole', 'coordinate-plane', 'generic-orientation', 'axis-x', 'axis-y', 'axis-z', 'axis-xy', 'axis-xz', 'axis-yz',
                 'export-on', 'export-off', 'sub-selection', 'fn-axis-x', 'fn-axis-y', 'fn-axis-z', 'fn-axis-bad'):
        if rep.features[must] == 0:
            rep.notes.append(f'mandatory feature bin {must} is empty')
    rep.notes = sorted(set(rep.notes))[:20]
    return rep

def replay(ctx, case):
    pdb2sql = import_impl()
    import pdb2sql.align
    if case['kind'] == 'fn':
        r = fn_impl(pdb2sql, case)
        outs = ctx.model.batch(fn_requests(case))
        spec_ok, model_ok, det, feats = fn_judge(case, r, outs)
        return spec_ok, f'_align_along_axis(axis={case["axis"]!r}): ' + (json.dumps(jsonable(det))[:400] if det else 'v is mapped onto r e_axis')
    R = run_impl(pdb2sql, case)
    rq = requests(case, R)
    if not rq:
        return False, f'implementation: {R["status"]}'
    outs = ctx.model.batch(rq)
    spec_ok, model_ok, det, feats, skip = judge(case, R, outs)
    what = 'align(axis=%r)' % case['axis'] if case['kind'] == 'align' else 'align_interface(plane=%r)' % case['plane']
    return spec_ok, what + ': ' + (json.dumps(jsonable(det))[:500] if det else 'principal direction on the target axis; single rotation about the centroid')
