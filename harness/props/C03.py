"""C03 — selection: get() returns exactly the rows satisfying AND-of-keys, OR-of-values.
Correspondence implementation / model / specification on real pdb2sql objects."""
import itertools
from harness.core import *
from harness import gen_sql as G
from harness.findings import signature

ID = 'C03'
REGIONS = ['const', 'sql_get_consts', 'sql_views']
HAND_MODELLED = ['pdb2sqlcore.py:pdb2sql.get', 'pdb2sqlcore.py:pdb2sql.get_colnames',
                 'pdb2sql_base.py:pdb2sql_base.get_xyz', 'pdb2sql_base.py:pdb2sql_base.get_residues',
                 'pdb2sql_base.py:pdb2sql_base.get_chains']
TRUSTED = ['SQLite (here 3.40): column affinity from the declared type, affinity applied to IN operands, BINARY '
           'collation, three-valued IN / NOT IN, rows in rowid order — the fragment of coq/Model_sqlval.v, '
           'validated on every run because every case goes through the real SQLite',
           'CPython str.split/strip, dict insertion order; sqlite3 parameter binding of int/float/str/None',
           'outside the model (skipped and counted): float values against TEXT columns, exponent-form numeric text, '
           'integers beyond 2^53, keyword keys null/true/false/current_*, rowID conditions given as floats']
RULE = ('bounded-exhaustive: tables of <= 6 atoms x every subset of size 0-4 of a pool of 8 atomic conditions '
        '(text/int/real/rowID x positive/negated x present/absent x numeric-as-text) x 6 attribute lists (rowID at '
        'every position, *); random: tables <= 60 atoms, 0-4 conditions, attribute lists of length 1-5, malformed '
        'names. A third of the sessions carry their rowID / no_rowID values as NumPy integers (int64/int32/intp). Non-trivial: the query has at least one condition, or a multi-attribute / rowID attribute list.')

ATTR_LISTS = ['rowID', 'x,y,z', 'rowID,name', 'name, rowID ,resSeq', 'serial,chainID,rowID', '*']

def cond_pool(rng, atoms, tablekind):
    n = len(atoms)
    a = lambda: rng.choice(atoms)
    absent_name = 'ZZ'
    def maybe_list(vals):
        return vals if rng.random() < 0.6 or len(vals) > 1 else vals[0]
    digit_chain = atoms[0]['chainID'].isdigit()
    pool = []
    pool.append(['name', maybe_list([a()['name']] + ([absent_name] if rng.random() < 0.5 else []))])
    pool.append(['no_resName', maybe_list([a()['resName']] + ([rng.choice(['XXX', a()['resName']])] if rng.random() < 0.5 else []))])
    if digit_chain:
        pool.append(['chainID', maybe_list([int(a()['chainID'])])])            # number against a TEXT column
    else:
        pool.append([rng.choice(['chainID', 'no_chainID']), maybe_list([a()['chainID']])])
    rs = a()['resSeq']
    pool.append(['resSeq', rng.choice([[rs, 9999], [str(rs)], ' %d ' % rs, '%d.0' % rs, [float(rs), 'abc'], rs])])
    pool.append(['no_serial', maybe_list([a()['serial'], rng.choice([a()['serial'], 77777])])])
    xv = a()['x']
    pool.append([rng.choice(['x', 'no_x']), rng.choice([xv, [xv, 0.3], repr(xv), [xv, None]])])
    pool.append(['rowID', rng.choice([[rng.randrange(n), rng.randrange(n + 2)], rng.randrange(n), [n - 1, 0], []])])
    pool.append(['no_rowID', rng.choice([rng.randrange(n), [0, n], [rng.randrange(n)]])])
    return pool

def rand_value(rng, atoms, col):
    a = rng.choice(atoms)
    v = a[col] if col in a else None
    k = rng.random()
    if col in ('serial', 'resSeq'):
        return rng.choice([v, v, v + 1000, str(v), ' %d' % v, '%d.0' % v, float(v), 'abc', None, '%d.5' % v, '1e1'])
    if col in ('x', 'y', 'z', 'occ', 'temp'):
        return rng.choice([v, v, v + 0.125, repr(v), int(v) if v == int(v) else v, None, 'x'])
    if col == 'model':
        return rng.choice([0, 0, 1, '0', None])
    if col == 'rowID':
        return rng.choice([rng.randrange(len(atoms)), rng.randrange(len(atoms)), len(atoms), -1])
    return rng.choice([v, v, v, 'ZZ', v.lower() if isinstance(v, str) else v, '', None, 1, (v + ' ') if isinstance(v, str) else v, 1.5])

def rand_kw(rng, atoms, nmax=4, weird=0.05, alias_ok=True):
    cols = [c for c, _ in G.COLS] + ['rowID']
    kw, used = [], set()
    for _ in range(rng.randint(0, nmax)):
        col = rng.choice(cols)
        key = ('no_' if rng.random() < 0.35 else '') + col
        r = rng.random()
        if r < weird:
            key = rng.choice(['nosuch', 'no_nosuch', col.upper(), 'no_' + col.lower(), 'Name', 'no_no_name', 'index', 'order'])
        k2 = key[3:] if key.startswith('no_') else key
        if not alias_ok and k2 != 'rowID' and k2.upper() in ('ROWID', 'OID', '_ROWID_'):
            key = 'nosuch'
        if key in used:
            continue
        used.add(key)
        if rng.random() < 0.5:
            val = rand_value(rng, atoms, col)
            if col == 'rowID' and rng.random() < 0.03:
                val = rng.choice(['1', None, 1.0])
        else:
            val = [rand_value(rng, atoms, col) for _ in range(rng.choice([0, 1, 1, 2, 3, 5]))]
        kw.append([key, val])
    return kw

def rand_columns(rng):
    cols = [c for c, _ in G.COLS]
    r = rng.random()
    if r < 0.12:
        return '*'
    k = rng.randint(1, 5)
    pick = rng.sample(cols, k)
    if rng.random() < 0.55:
        pick[rng.randrange(k)] = 'rowID'
    if rng.random() < 0.08:     # malformed
        pick[rng.randrange(k)] = rng.choice(['nosuch', 'X', '', 'Name', '*', 'rowid', 'x y'])
    sep = rng.choice([',', ',', ', ', ' ,'])
    s = sep.join(pick)
    if rng.random() < 0.05:
        s = ' ' + s
    return s

def feats_of(op, i, case):
    f = []
    if op[0] in ('get', 'xyz', 'residues', 'chains', 'get_all'):
        kw = op[3] if op[0] == 'get' else op[2]
        cols = op[1] if op[0] in ('get', 'get_all') else op[0]
        if any(k.startswith('no_') for k, _ in kw): f.append('negated-key')
        if any(k in ('rowID', 'no_rowID') for k, _ in kw):
            f.append('rowID-key')
            if case.get('rowid_carrier'): f.append('rowID-key-numpy-integer')
        if any(isinstance(x, str) and x.strip().replace('.', '', 1).lstrip('+-').isdigit()
               for _, v in kw for x in (v if isinstance(v, list) else [v])): f.append('numeric-text-value')
        if any(x is None for _, v in kw for x in (v if isinstance(v, list) else [v])): f.append('none-value')
        if any(v == [] for _, v in kw): f.append('empty-list')
        if any(not isinstance(v, list) for _, v in kw): f.append('scalar-value')
        if len(kw) >= 2: f.append('conjunction')
        if any(k.replace('no_', '') in ('score', 'flag', 'tag') for k, _ in kw): f.append('added-column-key')
        if op[0] == 'get':
            pieces = [p.strip() for p in cols.split(',')]
            if 'rowID' in pieces: f.append('rowID-attribute')
            if len(pieces) > 1: f.append('multi-attribute')
            if cols == '*': f.append('star')
            if any(q in ('score', 'flag', 'tag') for q in pieces): f.append('added-column-attribute')
        else:
            f.append('view-' + op[0])
        if i == ['OK', []]: f.append('empty-result')
        if G.is_err(i): f.append('error-' + i[1])
    return f

def nontrivial(feats):
    return any(x in feats for x in ('negated-key', 'rowID-key', 'conjunction', 'scalar-value', 'multi-attribute', 'rowID-attribute'))

def small_table(rng, digit=False):
    n = rng.randint(1, 6)
    chains = rng.choice([('1', '2'), ('1',)]) if digit else rng.choice([('A', 'B'), ('A',), ('B', 'A', 'C')])
    return G.gen_atoms(rng, n, chains=chains, serial0=rng.choice([1, 1, 50]), resseq0=rng.choice([1, -2, 10]))

def explore(ctx, tier, rng, search=False):
    rep = Report()
    G.check_schema(ctx, rep)
    deep = (tier == 'thorough' or search)
    cases = []
    # ---- bounded-exhaustive part
    ntab = 60 if deep else 20
    for t in range(ntab):
        atoms = small_table(rng, digit=(t % 4 == 3))
        kind = 'pdb2sql'
        tn = 'atom'
        pool = cond_pool(rng, atoms, kind)
        ops = []
        for r in range(0, 5):
            for sub in itertools.combinations(range(len(pool)), r):
                kw = [pool[j] for j in sub]
                if rng.random() < 0.5:
                    kw = kw[::-1]
                for cols in ATTR_LISTS:
                    ops.append(['get', cols, rng.choice([tn, 'ATOM', 'atom']), kw])
        for r in range(0, 3):
            for sub in itertools.combinations(range(len(pool)), r):
                kw = [pool[j] for j in sub]
                ops += [['xyz', tn, kw], ['residues', tn, kw], ['chains', tn, kw]]
        cases.append({'structs': [atoms], 'kind': kind, 'ops': ops, 'part': 'exhaustive'})
        if t % 3 == 1: cases[-1]['rowid_carrier'] = rng.choice(['i64', 'i32', 'intp'])   # np.where / np.argmax deliver these
    # ---- random part
    nrand_tab = 120 if deep else 30
    per = 160 if deep else 100
    for t in range(nrand_tab):
        n = rng.randint(1, 60)
        atoms = G.gen_atoms(rng, n, chains=rng.choice([('A', 'B'), ('A',), ('A', 'B', 'C', 'D'), ('1', '2')]),
                            serial0=rng.choice([1, 100]), resseq0=rng.choice([1, -5]), dup_serial=rng.random() < 0.2)
        struct = list(atoms)
        if rng.random() < 0.12 and n >= 3:           # MODEL/ENDMDL inputs: model tie only (spec: Unspecified)
            cut = rng.randint(1, n - 1)
            struct = atoms[:cut] + ['ENDMDL'] + atoms[cut:] + (['ENDMDL'] if rng.random() < 0.7 else [])
        two = rng.random() < 0.15
        structs = [struct] + ([G.gen_atoms(rng, rng.randint(1, 20), serial0=500)] if two else [])
        names = G.default_tablenames({'structs': structs})
        ops = []
        for _ in range(per):
            tn = rng.choice(names + ([names[0].upper(), names[0].lower()] if rng.random() < 0.3 else []))
            if rng.random() < 0.02:
                tn = rng.choice(['nosuch', 'ATOM7'])
            kw = rand_kw(rng, atoms)
            r = rng.random()
            if r < 0.8: ops.append(['get', rand_columns(rng), tn, kw])
            elif r < 0.85: ops.append(['xyz', tn, kw])
            elif r < 0.9: ops.append(['residues', tn, kw])
            elif r < 0.95: ops.append(['chains', tn, kw])
            elif r < 0.98 and two: ops.append(['get_all', rand_columns(rng), kw])
            else: ops.append(['colnames'])
        # a column added to the table in the middle of the session is an attribute like any other: it can be
        # requested, alone or with others, and used in conditions (the object has already answered queries before)
        if rng.random() < 0.3 and not any(x == 'ENDMDL' for x in struct):
            cname, ctype, cval = rng.choice([('score', 'FLOAT', 2.5), ('flag', 'INT', 7), ('score', 'FLOAT', 0.0), ('tag', 'TEXT', 'x')])
            at = rng.randint(1, len(ops) - 1)
            tail = []
            for _ in range(rng.randint(3, 10)):
                r = rng.random()
                if r < 0.4: tail.append(['get', cname, names[0], rand_kw(rng, atoms, nmax=2)])
                elif r < 0.7: tail.append(['get', rng.choice(['name,%s,rowID' % cname, '%s,x' % cname, 'rowID,%s' % cname]), names[0], rand_kw(rng, atoms, nmax=2)])
                elif r < 0.9: tail.append(['get', rand_columns(rng), names[0], [[rng.choice([cname, 'no_' + cname]), rng.choice([cval, [cval], 99])]]])
                else: tail.append(['colnames'])
            ops[at:at] = [['add_column', cname, ctype, cval, names[0]]] + tail
        cases.append({'structs': structs, 'ops': ops, 'part': 'random'})
        if rng.random() < 0.3: cases[-1]['rowid_carrier'] = rng.choice(['i64', 'i32', 'intp'])
    # ---- the two recorded finding classes, on purpose (a few)
    for t in range(6 if deep else 3):
        atoms = small_table(rng)
        n = len(atoms)
        ops = [['get', rng.choice(['rowID,rowID', 'rowID,x,rowID', 'name, rowID,rowID']), 'atom', []],
               ['get', 'name', 'atom', [[rng.choice(['rowid', 'ROWID', 'no_rowid', 'oid', '_rowid_']), rng.randrange(n)]]]]
        cases.append({'structs': [atoms], 'kind': 'pdb2sql', 'ops': ops, 'part': 'finding-classes'})
    for c in cases:
        rep.input_distribution[c['part']] = rep.input_distribution.get(c['part'], 0) + len(c['ops'])
    G.run_cases(ctx, rep, cases, feats_of, keep_reqs=40)
    # hashes: only non-trivial cases count as distinct non-trivial (Report.case uses feats != [])
    return rep

def replay(ctx, case):
    return G.replay_case(ctx, case)

# ---- narrow signatures of the recorded findings of this property
def _last_query(case):
    """(columns or None, kw) of the last operation when it is a query"""
    ops = case.get('ops') or []
    if not ops: return None
    op = ops[-1]
    if op[0] == 'get': return op[1], op[3]
    if op[0] == 'get_all': return op[1], op[2]
    if op[0] in ('xyz', 'residues', 'chains'): return None, op[2]
    return None

@signature('c03_duplicate_rowid_column')
def sig_dup_rowid(case, details):
    q = _last_query(case)
    return bool(q) and q[0] is not None and [p.strip() for p in q[0].split(',')].count('rowID') >= 2

@signature('c03_rowid_alias_key')
def sig_alias(case, details):
    q = _last_query(case)
    if not q: return False
    for k, _ in q[1]:
        k2 = k[3:] if k.startswith('no_') else k
        if k2 != 'rowID' and k2.upper() in ('ROWID', 'OID', '_ROWID_'):
            return True
    return False
