"""C06 — optimal superposition: a proper rotation attaining the minimum RMSD.
Verdict: the returned matrix is a proper rotation (1e-9) and its residual is within 1e-9 (relative to
the data scale) of the certified minimum; the certificate (an LDL^T check of lam I - H over exact
rationals, H = Horn's matrix written from the literature) is evaluated by the extracted specification.
Tie: the recorded LAPACK answers are handed to the executable model as exact rationals."""
import math, json
from fractions import Fraction
from harness.core import *
from harness.geom_common import *

ID = 'C06'
REGIONS = ['g_kabsch', 'g_quat', 'g_dispatch']
HAND_MODELLED = ['superpose.py:get_rotation_matrix_Kabsh (guard order, size test)', 'superpose.py:get_rotation_matrix_quaternion (guard order, size test)',
                 'superpose.py:get_rotation_matrix (str.lower, table lookup)']
TRUSTED = ['numpy.linalg.svd / eigh (LAPACK) as oracles: outputs recorded per call, svd_ok / eig_ok checked on them to 1e-9',
           'NumPy dot/mean/det in binary64 (exact rational model, 1e-9 margin)']
RULE = ('pairs of centred n x 3 sets, n = 1..40: generic, planar, collinear, single point, identical, mirror images '
        '(negative-determinant covariance), near-equal singular values, scales 0.01..1000, both methods and spellings; '
        'uncentred / unequal sizes / unknown method in the malformed stream. Non-trivial: rank < 3, or det < 0, or '
        'near-equal singular values, or scale != 1, or a guard case.')
TOL = 1e-9

# ----------------------------------------------------------------------------------------
def centre_exact(P):
    n = len(P)
    m = [sum(p[i] for p in P) / n for i in range(3)]
    return [[p[i] - m[i] for i in range(3)] for p in P]

def apply(M, p):
    return [sum(M[i][j] * p[j] for j in range(3)) for i in range(3)]

def gen_integer_case(rng):
    """exactly centred point sets on the integer lattice, handed over as INTEGER arrays (grid / lattice models): Q is a
    lattice rotation of P (or of its mirror image), optionally with integer noise that keeps the centroid at the origin"""
    import itertools
    n = rng.choice([3, 4, 5, 8, 12])
    P = [[rng.randint(-20, 20) for _ in range(3)] for _ in range(n - 1)]
    P.append([-sum(p[i] for p in P) for i in range(3)])
    rots = []
    for perm in itertools.permutations(range(3)):
        for sg in itertools.product([1, -1], repeat=3):
            M = [[sg[i] if perm[i] == j else 0 for j in range(3)] for i in range(3)]
            det = (M[0][0] * (M[1][1] * M[2][2] - M[1][2] * M[2][1]) - M[0][1] * (M[1][0] * M[2][2] - M[1][2] * M[2][0])
                   + M[0][2] * (M[1][0] * M[2][1] - M[1][1] * M[2][0]))
            if det == 1:
                rots.append(M)
    R = rng.choice(rots)
    mirror = rng.random() < 0.3
    Qs = [[sum(R[i][j] * (p[j] if not (mirror and j == 2) else -p[j]) for j in range(3)) for i in range(3)] for p in P]
    if rng.random() < 0.5 and n >= 4:
        i, j = rng.sample(range(n), 2); k = rng.randrange(3); d = rng.randint(1, 3)
        Qs[i][k] += d; Qs[j][k] -= d
    return {'kind': 'integer-lattice', 'P': P, 'Q': Qs, 'method': rng.choice(['svd', 'quaternion', 'quaternion']), 'scale': 1.0, 'dtype': 'int'}

def gen_case(rng):
    if rng.random() < 0.08:
        return gen_integer_case(rng)
    kind = rng.choice(['generic', 'generic', 'noisy', 'planar', 'linear', 'single', 'identical', 'mirror', 'mirror-noisy',
                       'near-equal', 'planar-mirror', 'two-points'])
    n = {'single': 1, 'two-points': 2}.get(kind, rng.choice([3, 3, 4, 4, 5, 6, 8, 13, 25, 40]))
    scale = rng.choice([0.01, 0.1, 1.0, 1.0, 10.0, 100.0, 1000.0])
    g = Fraction(1, 8)
    def rp():
        return [Fraction(rng.randint(-40, 40)) * g for _ in range(3)]
    if kind in ('planar', 'planar-mirror'):
        a, b = rp(), rp()
        P = []
        for _ in range(n):
            k1, k2 = rng.randint(-5, 5), rng.randint(-5, 5)
            P.append([a[i] * k1 + b[i] * k2 for i in range(3)])
    elif kind == 'linear':
        a = rp()
        P = []
        for _ in range(n):
            k1 = rng.randint(-9, 9)
            P.append([a[i] * k1 for i in range(3)])
    elif kind == 'near-equal':
        # an almost isotropic set: the three singular values of P^T Q nearly coincide
        base = [[1, 0, 0], [-1, 0, 0], [0, 1, 0], [0, -1, 0], [0, 0, 1], [0, 0, -1]]
        e = 10 ** rng.choice([4, 6, 9])
        P = [[Fraction(x) + Fraction(rng.randint(-3, 3), e) for x in b] for b in base]
        n = 6
    else:
        P = [rp() for _ in range(n)]
    P = centre_exact(P)
    R = random_rotation_exact(rng)
    if kind == 'identical':
        Qs = [list(p) for p in P]
    elif kind in ('mirror', 'planar-mirror', 'mirror-noisy'):
        Qs = [apply(R, [p[0], p[1], -p[2]]) for p in P]
    else:
        Qs = [apply(R, p) for p in P]
    if kind in ('noisy', 'mirror-noisy', 'generic') and rng.random() < 0.7:
        Qs = [[x + Fraction(rng.randint(-200, 200), 1000) for x in q] for q in Qs]
    Qs = centre_exact(Qs)
    s = Fraction(scale)
    Pf = [[float(x * s) for x in p] for p in P]
    Qf = [[float(x * s) for x in q] for q in Qs]
    # floats: re-centre in floating point the way a caller would (mean ~ 1e-16 * scale)
    method = rng.choice(['svd', 'quaternion', 'svd', 'quaternion', 'SVD', 'Quaternion'])
    return {'kind': kind, 'P': Pf, 'Q': Qf, 'method': method, 'scale': scale}

def gen_malformed(rng):
    c = gen_case(rng)
    c.pop('dtype', None)
    r = rng.random()
    if r < 0.35:
        k = rng.randrange(3)
        off = rng.choice([1e-5, 2e-6, 0.5, -3.0]) * max(1.0, c['scale'])
        which = rng.choice(['P', 'Q'])
        c[which] = [[x + (off if i == k else 0.0) for i, x in enumerate(p)] for p in c[which]]
        c['kind'] = 'uncentred'
    elif r < 0.7:
        c['Q'] = c['Q'] + [[0.0, 0.0, 0.0]] if rng.random() < 0.5 or len(c['Q']) < 2 else c['Q'][:-1]
        c['kind'] = 'unequal-sizes'
    else:
        c['method'] = rng.choice(['kabsch', 'quat', '', 'svd ', 'quaternions'])
        c['kind'] = 'bad-method'
    return c

# ----------------------------------------------------------------------------------------
def run_impl(pdb2sql, case):
    import numpy as np
    S = sys.modules['pdb2sql.superpose']
    dt = np.int64 if case.get('dtype') == 'int' else float
    P, Qm = np.array(case['P'], dtype=dt), np.array(case['Q'], dtype=dt)
    with record_linalg(np) as rec:
        r = impl_call(S.get_rotation_matrix, P, Qm, case['method'])
    ora = {'svd': None, 'eig': None}
    for name, a, out in rec:
        if name == 'svd':
            ora['svd'] = (a.tolist(), out[0].tolist(), [float(x) for x in out[1]], out[2].tolist())
        elif name in ('eigh', 'eig'):
            l, U = out
            # eigh answers with real arrays; should the general solver come back, its complex answer is kept as the
            # real parts the cast would keep, and the imaginary size is reported as a violated oracle hypothesis
            ora['eig'] = (a.tolist(), [float(np.real(x)) for x in l], [[float(np.real(x)) for x in row] for row in U],
                          float(max(abs(np.imag(l)).max(), abs(np.imag(U)).max())), name)
    if r[0] == 'OK':
        r[1] = np.array(r[1]).tolist()
    return r, ora

Z3 = [[Fraction(0)] * 3] * 3
Z4 = [[Fraction(0)] * 4] * 4

def requests(case, r, ora):
    P, Qm = [wv(p) for p in case['P']], [wv(q) for q in case['Q']]
    V, Wh = (wm(ora['svd'][1]), wm(ora['svd'][3])) if ora['svd'] else (Z3, Z3)
    l, U4 = (wv(ora['eig'][1]), wm(ora['eig'][2])) if ora['eig'] else ([Fraction(0)] * 4, Z4)
    reqs = [['geom.rotmat', case['method'], P, Qm, V, Wh, l, U4]]
    if r[0] == 'OK':
        import numpy as np
        U = wm(r[1])
        # independent estimate of the optimum: symmetric eigen-solver on Horn's matrix built here
        C = np.array(case['P'], dtype=float).T @ np.array(case['Q'], dtype=float)
        H = np.array([[C[0, 0] + C[1, 1] + C[2, 2], C[1, 2] - C[2, 1], C[2, 0] - C[0, 2], C[0, 1] - C[1, 0]],
                      [C[1, 2] - C[2, 1], C[0, 0] - C[1, 1] - C[2, 2], C[0, 1] + C[1, 0], C[2, 0] + C[0, 2]],
                      [C[2, 0] - C[0, 2], C[0, 1] + C[1, 0], C[1, 1] - C[0, 0] - C[2, 2], C[1, 2] + C[2, 1]],
                      [C[0, 1] - C[1, 0], C[2, 0] + C[0, 2], C[1, 2] + C[2, 1], C[2, 2] - C[0, 0] - C[1, 1]]])
        w, vec = np.linalg.eigh(H)
        G = float((np.array(case['P']) ** 2).sum() + (np.array(case['Q']) ** 2).sum())
        delta = 1e-12 * G + 1e-300
        lam = float(w[-1]) + delta
        q = [float(x) for x in vec[:, -1]]
        reqs += [['spec.geom.rot_defect', U], ['spec.geom.resid', U, P, Qm],
                 ['spec.geom.enclosure', P, Qm, wv(q), Fr(lam)],
                 (['geom.cov', P, Qm] if ora['svd'] else ['geom.F', P, Qm])]
    return reqs

def oracle_ok(case, ora, covm, Fm):
    """svd_spec / eig_spec on the recorded answers, and the model's covariance / F against the recorded inputs"""
    import numpy as np
    notes = []
    if ora['svd']:
        A, V, s, Wh = (np.array(x) for x in ora['svd'])
        sc = max(1e-300, abs(A).max())
        if abs(V @ np.diag(s) @ Wh - A).max() > 1e-9 * sc: notes.append('svd: A != V S Wh')
        if abs(V.T @ V - np.eye(3)).max() > 1e-9 or abs(Wh @ Wh.T - np.eye(3)).max() > 1e-9: notes.append('svd: factors not orthogonal')
        if not (s[0] >= s[1] >= s[2] >= 0): notes.append('svd: singular values not sorted / negative')
        if covm is not None and abs(np.array([[float(x) for x in r] for r in covm]) - A).max() > 1e-9 * max(sc, 1e-300) + 1e-300:
            notes.append('model covariance != recorded svd input')
    if ora['eig']:
        F, l, U, im, solver = ora['eig']
        F, l, U = np.array(F), np.array(l), np.array(U)
        sc = max(1e-300, abs(F).max())
        k = int(np.argmax(l))
        q = U[:, k]
        if solver != 'eigh': notes.append(f'eig: the solver called is {solver}, not eigh')
        if im > 0: notes.append(f'eig: complex output (max imaginary part {im:.2e})')
        if abs(F @ q - l[k] * q).max() > 1e-9 * sc: notes.append('eig: F q != lambda q')
        if abs(q @ q - 1) > 1e-9: notes.append('eig: eigenvector not unit')
        if Fm is not None and abs(np.array([[float(x) for x in r] for r in Fm]) - F).max() > 1e-9 * sc + 1e-300:
            notes.append('model F != recorded eig input')
    return notes

def judge(case, r, ora, outs):
    """-> (spec_ok, model_ok, details, feats, skipped)"""
    m = outs[0]
    det, feats = {}, [case['kind'], 'method-' + case['method'].strip().lower()]
    if case['kind'] in ('uncentred', 'unequal-sizes', 'bad-method'):
        spec_ok = (r == ['ERR', 'ValueError'])          # "rejected with an error"
        model_ok = (m[0] == 'ERR' and r[0] == 'ERR' and m[1] == r[1])
        if not spec_ok: det['impl'] = str(r)[:200]
        if not model_ok: det['model'] = str(m)[:200]
        return spec_ok, model_ok, det, feats + ['guard'], None
    if r[0] != 'OK':
        return False, (m[0] == 'ERR' and m[1] == r[1]), {'impl': r}, feats, None
    import numpy as np
    defect = [abs(float(Q(x))) for x in outs[1]]
    resid = Q(outs[2])
    psd, lo, hi = outs[3][0], Q(outs[3][1]), Q(outs[3][2])
    covm, Fm = (dm(outs[4]), None) if ora['svd'] else (None, dm(outs[4]))
    G = float((np.array(case['P']) ** 2).sum() + (np.array(case['Q']) ** 2).sum())
    delta = 1e-12 * G + 1e-300
    tol = TOL * G + 4 * delta
    A = np.array(case['P']).T @ np.array(case['Q'])
    sv = np.linalg.svd(A, compute_uv=False)
    rank = int((sv > 1e-9 * max(sv[0], 1e-300)).sum()) if sv[0] > 0 else 0
    feats.append('rank-%d' % rank)
    if np.linalg.det(A) < -1e-12 * max(sv[0], 1e-300) ** 3: feats.append('det-negative')
    if rank == 3 and (sv[0] - sv[2]) < 1e-3 * sv[0]: feats.append('near-equal-singular-values')
    if case['scale'] != 1.0: feats.append('scaled')
    if not psd:
        return True, True, {}, feats, 'certificate_not_psd'
    spec_ok = True
    if max(defect) > TOL:
        spec_ok = False; det['not_a_proper_rotation'] = max(defect); det['det_minus_1'] = defect[-1]
    if float(resid - lo) > tol:
        spec_ok = False; det['residual_above_certified_minimum'] = float(resid - lo); det['G'] = G
    if max(defect) <= TOL and (float(lo - resid) > tol or float(lo - hi) > tol):
        spec_ok = False; det['certificate_inconsistent'] = [float(lo), float(resid), float(hi)]
    notes = oracle_ok(case, ora, covm, Fm)
    model_ok = (m[0] == 'OK' and close_pts(r[1], dm(m[1]), TOL) and not [x for x in notes if 'model' in x])
    if not model_ok:
        det['model'] = str(m)[:300]; det['oracle_notes'] = notes
    hyp = [x for x in notes if 'model' not in x]
    if hyp:
        det['oracle_hypotheses'] = hyp
        feats.append('oracle-hypothesis-violated')
    return spec_ok, model_ok, det, feats, None

NONTRIVIAL = {'rank-0', 'rank-1', 'rank-2', 'det-negative', 'near-equal-singular-values', 'scaled', 'guard'}

def explore(ctx, tier, rng, search=False):
    rep = Report()
    pdb2sql = import_impl()
    import pdb2sql.superpose
    deep = (tier == 'thorough' or search)
    n_ok, n_bad = (4000, 600) if deep else (700, 120)
    cases = []
    cdir = os.path.join(VERIF, 'corpus', ID)
    if os.path.isdir(cdir):
        for f in sorted(os.listdir(cdir)):
            c = json.load(open(os.path.join(cdir, f)))
            cases.append(c.get('case', c))
    # fixed: the mirror image of an asymmetric tetrahedron, both methods (the determinant correction)
    tet = centre_exact([[Fraction(x) for x in p] for p in ([1, 0, 0], [0, 2, 0], [0, 0, 3], [-1, -1, -1])])
    for meth in ('svd', 'quaternion'):
        cases.append({'kind': 'mirror', 'P': [[float(x) for x in p] for p in tet],
                      'Q': [[float(p[0]), float(p[1]), float(-p[2])] for p in tet], 'method': meth, 'scale': 1.0})
    for _ in range(n_ok):
        cases.append(gen_case(rng))
    for _ in range(n_bad):
        cases.append(gen_malformed(rng))
    impl, reqs, spans = [], [], []
    for c in cases:
        r, ora = run_impl(pdb2sql, c)
        rq = requests(c, r, ora)
        impl.append((r, ora))
        spans.append((len(reqs), len(reqs) + len(rq)))
        reqs += rq
    outs = ctx.model.batch(reqs)
    order = sorted(range(len(reqs)), key=lambda i: len(enc(reqs[i])))
    rep.model_reqs = [reqs[i] for i in order]
    rep.model_outs = [outs[i] for i in order]
    dist = collections.Counter()
    by_pair = {}
    for c, (r, ora), (a, b) in zip(cases, impl, spans):
        spec_ok, model_ok, det, feats, skip = judge(c, r, ora, outs[a:b])
        dist['n_%d' % len(c['P'])] += 1
        dist['scale_%g' % c['scale']] += 1
        if skip:
            rep.skipped[skip] += 1
            continue
        rep.case(c, feats, nontrivial=bool(set(feats) & NONTRIVIAL))
        if not spec_ok:
            rep.mismatch('impl_vs_spec', c, **det)
        elif not model_ok:
            rep.mismatch('impl_vs_model', c, **det)
        elif det.get('oracle_hypotheses'):
            rep.notes.append('oracle hypothesis not met on a recorded answer: ' + '; '.join(det['oracle_hypotheses']))
    rep.input_distribution = dict(dist)
    for must in ('rank-1', 'rank-2', 'det-negative', 'near-equal-singular-values', 'guard', 'method-quaternion', 'method-svd'):
        if rep.features[must] == 0:
            rep.notes.append(f'mandatory feature bin {must} is empty')
    rep.notes = sorted(set(rep.notes))[:20]
    return rep

def replay(ctx, case):
    pdb2sql = import_impl()
    import pdb2sql.superpose
    r, ora = run_impl(pdb2sql, case)
    outs = ctx.model.batch(requests(case, r, ora))
    spec_ok, model_ok, det, feats, skip = judge(case, r, ora, outs)
    return spec_ok, (f'get_rotation_matrix(method={case["method"]!r}) on a {case["kind"]} pair of {len(case["P"])} points: ' +
                     (json.dumps(jsonable(det))[:600] if det else 'proper rotation, residual at the certified minimum'))
