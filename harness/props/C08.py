"""C08 — Fnat (both routines) and the clash count equal their definitions.
Correspondence implementation / model / specification on compute_fnat_fast, compute_fnat_pdb2sql,
compute_clashes (and compute_residue_pairs_ref through the fast route)."""
import os, json, glob, collections, copy
from fractions import Fraction
from harness.core import *
from harness.gen_contact import *
from harness import findings

ID = 'C08'
REGIONS = ['contact_test', 'contact_filters', 'fnat_fast_reader', 'contact_callers', 'const']
HAND_MODELLED = ['StructureSimilarity.py:compute_fnat_fast', 'StructureSimilarity.py:compute_residue_pairs_ref',
                 'StructureSimilarity.py:compute_fnat_pdb2sql', 'StructureSimilarity.py:compute_clashes',
                 'interface.py:get_contact_atoms', 'interface.py:get_contact_residues', 'pdb2sqlcore.py:_fix_chainID']
TRUSTED = ['margin rule on every distance decision (reference and decoy); round(n/m, 6) is modelled as the exact '
           'half-even decimal rounding of the binary64 quotient',
           'reference/decoy tables given to the model and the specification are the ones the library parses '
           '(the fast route\'s own reader is modelled from the raw lines)',
           'tie-only (implementation vs model, no verdict) outside the property\'s quantifier: complexes that do not '
           'have the same two single-character chain identifiers in reference and decoy, decoy residues consisting of '
           'hydrogens only (compute_fnat_fast raises ValueError), empty reference interface (ZeroDivisionError)']
RULE = ('two-chain reference complexes (0.125 A lattice and 0.001 A grid) with decoys obtained by identity, rigid '
        'displacement of one chain plus jitter, deletion of residues on either side, hydrogens stripped; cutoffs 3-8 A '
        'incl. residue pairs whose closest heavy atoms sit exactly at the cutoff; both routines, inputs as line lists '
        'and as files. Clash count on two-chain structures incl. pairs at exactly 3.000 A. Non-trivial: at least one '
        'reference contact and (a missing residue, a hydrogen in the interface, an exact-cutoff pair, or a partial '
        'Fnat strictly between 0 and 1); for clashes at least one inter-chain pair below 3.5 A.')
MANDATORY = ['missing-residue-side1', 'missing-residue-side2', 'hydrogens', 'exact-cutoff-pair', 'partial-fnat',
             'identical-decoy', 'clash-at-exactly-3A', 'clash-below-3A']

# ----------------------------------------------------------------------------------------
def _line_atoms(lines):
    """(chain, name, x, y, z) of the ATOM lines, exact decimals (used by the F18 signature only)"""
    out = []
    for l in lines:
        if l.startswith('ATOM'):
            ch = l[21] if l[21] != ' ' else l[72:76].strip()
            out.append((ch, l[12:16].strip(), Fraction(l[30:38].strip()), Fraction(l[38:46].strip()), Fraction(l[46:54].strip())))
    return out

def exact3_pairs(lines, c1, c2):
    at = _line_atoms(lines)
    n = 0
    for a in at:
        for b in at:
            if a[0] == c1 and b[0] == c2 and not a[1].startswith('H') and not b[1].startswith('H'):
                if (a[2] - b[2]) ** 2 + (a[3] - b[3]) ** 2 + (a[4] - b[4]) ** 2 == 9:
                    n += 1
    return n

@findings.signature('c08_clash_pair_at_exactly_3A')
def sig_f18(case, details):
    """compute_clashes over-counts by exactly the number of inter-chain heavy-atom pairs at exactly 3.000 A"""
    if case.get('fn') != 'clashes':
        return False
    n = exact3_pairs(case['lines'], case['chain1'], case['chain2'])
    if n == 0:
        return False
    try:
        return details['impl'] == ['OK', details['spec'][1] + n]
    except Exception:
        return False

# ----------------------------------------------------------------------------------------
class Side:
    """one structure as the library parses it"""
    def __init__(self, pdb2sql, lines):
        import warnings
        with warnings.catch_warnings():
            warnings.simplefilter('ignore')
            db = pdb2sql.pdb2sql(lines)
            self.table = table_of(db)
            db._close()
        self.wire = wire_table(self.table)
        self.chains = chains_of(self.table)

def h_only_residue(table):
    d = collections.defaultdict(list)
    for t in table:
        d[(t[1], t[3], t[2])].append(t[4])
    return any(all(n.startswith('H') for n in v) for v in d.values())

def evaluate(ctx, rep, pdb2sql, cases, record=True):
    SS = pdb2sql.StructureSimilarity
    reqs, plan = [], []
    for case in cases:
        if case['fn'] == 'fnat':
            ref, dec = Side(pdb2sql, case['ref']), Side(pdb2sql, case['decoy'])
            if has_empty_name(ref.table) or has_empty_name(dec.table):
                rep.skipped['out_of_model_empty_name'] += 1
                continue
            cutoff = case['cutoff']
            s1, n1 = boundary_status(ref.table, cutoff)
            s2, n2 = boundary_status(dec.table, cutoff)
            if 'skip' in (s1, s2):
                rep.skipped['float_boundary'] += 1
                continue
            if case['as_file']:
                rp, dp = os.path.join(ctx.scratch, 'c08_ref.pdb'), os.path.join(ctx.scratch, 'c08_decoy.pdb')
                open(rp, 'w').write('\n'.join(case['ref']) + '\n')
                open(dp, 'w').write('\n'.join(case['decoy']) + '\n')
                rin, din = rp, dp
                dlines = [l + '\n' for l in case['decoy']]
            else:
                rin, din, dlines = case['ref'], case['decoy'], case['decoy']
            def call():
                sim = SS(din, rin)
                if case.get('prime_pickle') is not None and case['as_file']:
                    # the reference residue pairs were saved earlier for ANOTHER cutoff under the library's default file
                    # name (next to the reference): the value asked for now depends on its own cutoff only
                    try:
                        SS(din, rin).compute_residue_pairs_ref(cutoff=case['prime_pickle'])
                    except Exception:
                        pass
                if case.get('prime_cutoff') is not None:
                    # repeated use of ONE StructureSimilarity object: an earlier call with another cutoff must not
                    # influence this one ("any cutoff"; computations depend on their arguments only)
                    try:
                        (sim.compute_fnat_fast if case['route'] == 'fast' else sim.compute_fnat_pdb2sql)(cutoff=case['prime_cutoff'])
                    except Exception:
                        pass
                v = sim.compute_fnat_fast(cutoff=cutoff) if case['route'] == 'fast' else sim.compute_fnat_pdb2sql(cutoff=cutoff)
                return ['OK', fnat_value(v)]
            impl = run_impl(call)
            if case['as_file']:
                import glob as _glob
                for f in _glob.glob(os.path.join(ctx.scratch, '*.pckl')) + _glob.glob(os.path.join(os.path.dirname(ctx.scratch), '*residue_contact_pairs.pckl')):
                    try: os.remove(f)
                    except OSError: pass
            fq = Fraction(cutoff)
            k = len(reqs)
            if case['route'] == 'fast':
                reqs.append(['contact.fnat_fast', ref.wire, dlines, fq])
            else:
                reqs.append(['contact.fnat_sql', dec.wire, ref.wire, fq])
            ks = len(reqs)
            reqs.append(['spec.contact.fnat', ref.wire, dec.wire, fq])
            dom = (len(ref.chains) == 2 and dec.chains == ref.chains and all(len(c) == 1 for c in ref.chains)
                   and not h_only_residue(dec.table))
            plan.append((case, impl, k, ks, dom, ref, dec, n1 + n2))
        else:
            sd = Side(pdb2sql, case['lines'])
            if has_empty_name(sd.table):
                rep.skipped['out_of_model_empty_name'] += 1
                continue
            s1, n1 = boundary_status(sd.table, 3.0)
            if s1 == 'skip':
                rep.skipped['float_boundary'] += 1
                continue
            impl = run_impl(lambda: ['OK', int(SS.compute_clashes(case['lines'], chain1=case['chain1'], chain2=case['chain2']))])
            k = len(reqs)
            reqs.append(['contact.clashes', sd.wire, case['chain1'], case['chain2']])
            ks = len(reqs)
            reqs.append(['spec.contact.clashes', sd.wire, case['chain1'], case['chain2']])
            dom = (len(sd.chains) == 2 and sorted([case['chain1'], case['chain2']]) == sd.chains)
            plan.append((case, impl, k, ks, dom, sd, None, n1))
    outs = ctx.model.batch(reqs)
    rep.model_reqs += reqs
    rep.model_outs += outs
    results = []
    for case, impl, k, ks, dom, A, B, nexact in plan:
        model, spec = outs[k], outs[ks]
        feats = []
        verdict_ok, tie_ok, text = True, True, ''
        if case['fn'] == 'fnat':
            if model[0] == 'OK':
                model = ['OK', Q(model[1])]
            exact = None
            if spec[0] == 'OK':
                exact = Q(spec[1][1])
                spec = ['OK', Q(spec[1][0])]
            if not dom or spec[0] != 'OK':
                feats.append('outside-domain(tie-only)')
            else:
                ra = {(t[1], t[3], t[2]) for t in A.table}
                rb = {(t[1], t[3], t[2]) for t in B.table}
                c1, c2 = A.chains
                if any(r not in rb for r in ra if r[0] == c1): feats.append('missing-residue-side1')
                if any(r not in rb for r in ra if r[0] == c2): feats.append('missing-residue-side2')
                if any(t[4].startswith('H') for t in A.table + B.table): feats.append('hydrogens')
                if nexact: feats.append('exact-cutoff-pair')
                if 0 < exact < 1: feats.append('partial-fnat')
                if case['ref'] == case['decoy']: feats.append('identical-decoy')
                feats.append('route-' + case['route'])
                if case['as_file']: feats.append('file-input')
                if impl != spec:
                    verdict_ok = False
                    text = f'implementation {impl} specification {spec} (exact fraction {exact})'
                    rep.mismatch('impl_vs_spec', case, impl=impl, spec=spec, model=model)
                else:
                    text = f'implementation = specification = {spec}'
                # the statement's corollaries, checked on the implementation's value
                if impl[0] == 'OK' and not (0 <= impl[1] <= 1):
                    verdict_ok = False
                    rep.mismatch('impl_vs_spec', case, impl=impl, spec='a fraction in [0,1]')
                if impl[0] == 'OK' and case['ref'] == case['decoy'] and impl[1] != 1:
                    verdict_ok = False
                    rep.mismatch('impl_vs_spec', case, impl=impl, spec='decoy = reference gives 1')
        else:
            if not dom:
                feats.append('outside-domain(tie-only)')
            else:
                if nexact and exact3_pairs(case['lines'], case['chain1'], case['chain2']): feats.append('clash-at-exactly-3A')
                if spec > 0: feats.append('clash-below-3A')
                spec = ['OK', spec]
                if impl != spec:
                    verdict_ok = False
                    text = f'implementation {impl} specification {spec}'
                    rep.mismatch('impl_vs_spec', case, impl=impl, spec=spec, model=model)
                else:
                    text = f'implementation = specification = {spec}'
        if (verdict_ok or sig_f18(case, {'impl': impl, 'spec': spec})) and impl != model:
            tie_ok = False
            text += f' | implementation {impl} model {model}'
            rep.mismatch('impl_vs_model', case, impl=impl, model=model)
        if record:
            rep.case(case, feats, nontrivial=any(f in MANDATORY for f in feats))
        results.append((case, verdict_ok, tie_ok, text))
    return results

# ----------------------------------------------------------------------------------------
def residues_of(atoms):
    seen = []
    for a in atoms:
        k = (a['chain'], a['resSeq'], a['resName'])
        if k not in seen:
            seen.append(k)
    return seen

def make_decoy(rng, ref, kind):
    dec = copy.deepcopy(ref)
    chains = sorted({a['chain'] for a in ref})
    if 'move' in kind:
        c = rng.choice(chains)
        grid = 125 if all(a[k] % 125 == 0 for a in ref for k in 'xyz') else 1
        sh = [rng.randint(-3000, 3000) // grid * grid for _ in range(3)]
        for a in dec:
            if a['chain'] == c:
                for k, s in zip('xyz', sh):
                    a[k] += s
            if rng.random() < 0.3:
                for k in 'xyz':
                    a[k] += rng.randint(-600, 600) // grid * grid
    if 'delete' in kind:
        side = rng.choice(chains + [None])
        res = [r for r in residues_of(dec) if side is None or r[0] == side]
        ndel = rng.randint(1, max(1, len(res) // 2))
        gone = set(rng.sample(res, min(ndel, len(res))))
        keep = [a for a in dec if (a['chain'], a['resSeq'], a['resName']) not in gone]
        # the decoy stays a two-chain complex (the statement's quantifier); otherwise keep one atom of the chain
        for c in chains:
            if not any(a['chain'] == c for a in keep):
                keep.append(next(a for a in dec if a['chain'] == c))
        dec = keep
    if 'collapse' in kind:
        # an unrefined decoy: the whole complex somewhere else in space, and a few heavy atoms of one chain placed
        # exactly ON atoms of the other chain (distance 0.000, legal on the 3-decimal grid) — the closest possible
        # contact, which any distance computation must still count
        off = [rng.randint(20000, 150000) for _ in range(3)]
        for a in dec:
            for k, s in zip('xyz', off):
                a[k] += s
        A = [a for a in dec if a['chain'] == chains[0] and not a['name'].startswith('H')]
        B = [a for a in dec if a['chain'] == chains[-1] and not a['name'].startswith('H')]
        if A and B:
            for _ in range(rng.randint(2, 8)):
                a, b = rng.choice(A), rng.choice(B)
                for k in 'xyz':
                    b[k] = a[k]
    if 'noH' in kind:
        d2 = [a for a in dec if not a['name'].startswith('H')]
        if all(any(a['chain'] == c for a in d2) for c in chains):
            dec = d2
    if 'rename' in kind:       # tie-only: other chain names in the decoy
        m = {c: x for c, x in zip(chains, rng.sample('PQRS', len(chains)))}
        for a in dec:
            a['chain'] = m[a['chain']]
    if 'honly' in kind:        # tie-only: a decoy residue reduced to hydrogens
        r = rng.choice(residues_of(dec))
        for a in dec:
            if (a['chain'], a['resSeq'], a['resName']) == r:
                a['name'] = 'H' + a['name'][:2]
    if 'dropchain' in kind:    # tie-only: a whole chain missing
        dec = [a for a in dec if a['chain'] != chains[-1]] or dec
    return dec

def gen_fnat_cases(rng, n, big):
    cases = []
    dist = collections.Counter()
    for k in range(n):
        lattice = rng.random() < 0.6
        tie_only = rng.random() < 0.12
        nch = 2 if (not tie_only or rng.random() < 0.6) else 3
        ref = gen_structure(rng, nchains=nch, max_atoms=10, spread=4000, allow_seg=tie_only, interleave=(rng.random() < 0.15))
        cutoff = rng.choice([5.0, 5.0, 5, 3.0, 4.5, 6.0, 7.0, 8.5, 3.75, 4.25]) if (lattice or rng.random() < 0.6) \
            else round(rng.uniform(3.0, 8.0), rng.choice([1, 2]))
        if lattice:
            for a in ref:
                for c in 'xyz':
                    a[c] = int(round(a[c] / 125.0)) * 125
        if float(cutoff) in EXACT and rng.random() < 0.6:
            plant_exact_pair(rng, ref, float(cutoff), heavy=True)
        kinds = [['same'], ['move'], ['delete'], ['move', 'delete'], ['noH'], ['move', 'noH', 'delete'], ['collapse'], ['collapse', 'delete']]
        if tie_only:
            kinds = [['rename'], ['honly', 'move'], ['dropchain'], ['same'], ['move']]
        for kind in (kinds if big else rng.sample(kinds, min(len(kinds), 3))):
            dec = make_decoy(rng, ref, kind)
            if lattice and 'move' in kind and float(cutoff) in EXACT and rng.random() < 0.5:
                plant_exact_pair(rng, dec, float(cutoff), heavy=True)
            rl, dl = to_lines(ref), to_lines(dec)
            for route in ('fast', 'sql'):
                as_file = rng.random() < 0.3
                cs = {'fn': 'fnat', 'ref': rl, 'decoy': dl, 'cutoff': cutoff, 'route': route, 'as_file': as_file}
                if rng.random() < 0.2:
                    cs['prime_cutoff'] = rng.choice([3.0, 8.0, 12.0, 4.0]); dist['object-reused-with-other-cutoff'] += 1
                if as_file and rng.random() < 0.5:
                    cs['prime_pickle'] = rng.choice([3.0, 8.0, 12.0, 4.0]); dist['pairs-saved-earlier-for-other-cutoff'] += 1
                cases.append(cs)
            dist['decoy=' + '+'.join(kind)] += 1
        dist['lattice-0.125' if lattice else 'grid-0.001'] += 1
        dist[f'cutoff={cutoff}'] += 1
    return cases, dist

def gen_clash_cases(rng, n):
    cases = []
    for k in range(n):
        lattice = rng.random() < 0.6
        nch = 2 if rng.random() < 0.85 else 3
        atoms = gen_structure(rng, nchains=nch, max_atoms=10, spread=3000, allow_seg=False)
        # squeeze the chains together so that clashes exist
        f = rng.choice([2, 3, 4])
        for a in atoms:
            for c in 'xyz':
                a[c] = a[c] // f
        if lattice:
            for a in atoms:
                for c in 'xyz':
                    a[c] = int(round(a[c] / 125.0)) * 125
        if rng.random() < 0.45:
            plant_exact_pair(rng, atoms, 3.0, heavy=(rng.random() < 0.8))
        chains = sorted({a['chain'] for a in atoms})
        lines = to_lines(atoms)
        c1, c2 = chains[0], chains[1]
        cases.append({'fn': 'clashes', 'lines': lines, 'chain1': c1, 'chain2': c2})
        if rng.random() < 0.5:
            cases.append({'fn': 'clashes', 'lines': lines, 'chain1': c2, 'chain2': c1})
        if rng.random() < 0.1:
            cases.append({'fn': 'clashes', 'lines': lines, 'chain1': c1, 'chain2': '#'})
    return cases

def forced_cases():
    A = lambda nm, rn, c, n, x, y, z: {'name': nm, 'resName': rn, 'chain': c, 'resSeq': n, 'x': x, 'y': y, 'z': z}
    ref = [A('CA', 'ALA', 'A', 1, 0, 0, 0), A('HB', 'ALA', 'A', 1, 1000, 0, 0), A('CB', 'SER', 'A', 2, 0, 4000, 0),
           A('N', 'GLY', 'B', 1, 5000, 0, 0), A('O', 'GLY', 'B', 2, 0, 4000, 3000), A('H', 'GLY', 'B', 2, 0, 1000, 0)]
    dec1 = [a for a in ref if not (a['chain'] == 'A' and a['resSeq'] == 1)]       # first-chain residue missing (F3)
    dec2 = [a for a in ref if not (a['chain'] == 'B' and a['resSeq'] == 2)]
    out = []
    for d in (ref, dec1, dec2):
        for route in ('fast', 'sql'):
            out.append({'fn': 'fnat', 'ref': to_lines(ref), 'decoy': to_lines(d), 'cutoff': 5.0, 'route': route, 'as_file': route == 'fast'})
    cl = [A('CA', 'ALA', 'A', 1, 0, 0, 0), A('CB', 'ALA', 'A', 1, 1000, 0, 0), A('N', 'GLY', 'B', 1, 2000, 2000, 0), A('O', 'GLY', 'B', 1, 0, 2875, 0)]
    out.append({'fn': 'clashes', 'lines': to_lines(cl), 'chain1': 'A', 'chain2': 'B'})
    return out

def explore(ctx, tier, rng, search=False):
    rep = Report()
    pdb2sql = import_impl()
    big = (tier == 'thorough' or search)
    cases = []
    for p in sorted(glob.glob(os.path.join(VERIF, 'corpus', ID, '*.json'))):
        c = json.load(open(p))
        cases.append(c.get('case', c))
    cases += forced_cases()
    fc, dist = gen_fnat_cases(rng, 900 if big else 150, big)
    cases += fc
    cases += gen_clash_cases(rng, 5000 if big else 500)
    for i in range(0, len(cases), 200):
        evaluate(ctx, rep, pdb2sql, cases[i:i + 200])
    empty = [m for m in MANDATORY if rep.features.get(m, 0) == 0]
    if empty:
        raise RuntimeError(f'generator degenerated: empty mandatory feature bins {empty}')
    rep.input_distribution = dict(dist)
    order = sorted(range(len(rep.model_reqs)), key=lambda i: len(rep.model_reqs[i][1]))
    rep.model_reqs = [rep.model_reqs[i] for i in order]
    rep.model_outs = [rep.model_outs[i] for i in order]
    return rep

def replay(ctx, case):
    pdb2sql = import_impl()
    rep = Report()
    res = evaluate(ctx, rep, pdb2sql, [case], record=False)
    if not res:
        return True, 'case skipped (margin rule / outside the model)'
    _, vok, tok, text = res[0]
    if not vok and rep.mismatches and sig_f18(case, rep.mismatches[0]['details']):
        text += '  [matches known finding F18: pair at exactly 3.000 A counted]'
    return (vok and tok), text
