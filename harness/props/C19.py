"""C19 — many2sql: intersection = common atoms, row-aligned; per-structure queries; intersect()."""
import itertools
from fractions import Fraction
from harness.core import *
from harness import gen_pdb
from harness.props.C01 import canon_rows

ID = 'C19'
REGIONS = ['const']
HAND_MODELLED = ['many2sql.py:many2sql.get_intersection (query construction, slicing of joined rows)',
                 'many2sql.py:many2sql.intersect', 'many2sql.py:many2sql.__call__', 'many2sql.py:many2sql.get_all']
TRUSTED = ['SQLite INNER JOIN with equality constraints = nested loops over matching tuples (result order canonicalised: '
           'compared as sorted lists of aligned tuples); column names are case-insensitive in SQL']
RULE = ('2-4 structures derived from a common parent of 4-14 atoms by independent deletions, coordinate changes and record '
        'permutations (keys unique within each structure), x match-key subsets (default 4 keys, 3-key and 2-key subsets, with and '
        'without uniqueness), x attribute lists (*, x,y,z, name,resSeq, single column); also get_all, __call__ and intersect(). '
        'Also homo-dimer families with chains A and a, explicit table names out of alphabetical order, intersect() of an intersected database and of a selection db(**sel). Non-trivial: at least one deletion or permutation, i.e. the intersection is a proper, re-ordered subset.')

STD = ['serial', 'name', 'altLoc', 'resName', 'chainID', 'resSeq', 'iCode', 'x', 'y', 'z', 'occ', 'temp', 'element', 'model']
MATCHES = [['name', 'resname', 'resSeq', 'chainID'], ['name', 'resSeq', 'chainID'], ['name', 'resName', 'resSeq'],
           ['resSeq', 'chainID'], ['name'], ['name', 'resname', 'resSeq', 'chainID', 'x']]
COLSETS = ['*', 'x,y,z', 'name,resSeq', 'chainID', 'serial,name,x']

def unique_parent(rng, n):
    atoms = gen_pdb.gen_atoms(rng, n, chains=rng.choice([('A',), ('A', 'B')]))
    if n <= 8 and rng.random() < 0.3:
        # homo-dimer whose chains are labelled A and a: the same residues and atom names in both chains
        half = [a for a in atoms if a['chainID'] == atoms[0]['chainID']]
        atoms = [dict(a, chainID='A') for a in half] + [dict(a, chainID='a', x=round(a['x'] + 7.5, 3), serial=a['serial'] + 500) for a in half]
    seen, out = set(), []
    for a in atoms:
        k = (a['name'], a['resName'], a['resSeq'], a['chainID'])
        if k in seen:
            continue
        seen.add(k); out.append(a)
    return out

def derive(rng, parent, feats):
    atoms = [dict(a) for a in parent]
    if rng.random() < 0.7 and len(atoms) > 2:
        for _ in range(rng.randint(1, max(1, len(atoms) // 3))):
            atoms.pop(rng.randrange(len(atoms)))
        feats.add('deletion')
    if rng.random() < 0.6:
        rng.shuffle(atoms); feats.add('permutation')
    for a in atoms:
        if rng.random() < 0.5:
            a['x'] = min(9990.0, max(-990.0, round(a['x'] + rng.uniform(-2, 2), 3)))
        a['serial'] = rng.randint(1, 9999)
    return atoms

def tuples(data):
    """per-structure lists -> sorted list of aligned tuples"""
    n = len(data[0]) if data else 0
    assert all(len(d) == n for d in data), [len(d) for d in data]
    return sorted(json.dumps([data[i][k] for i in range(len(data))]) for k in range(n))

def col_idx(cols):
    return list(range(14)) if cols == '*' else [STD.index(c.strip()) for c in cols.split(',')]

def match_idx(match):
    low = [s.lower() for s in STD]
    return [low.index(m.lower()) for m in match]

def run_case(ctx, pdb2sql, case, rep=None):
    structs = case['structures']
    inputs, objs = [], []
    for s_atoms, as_obj in zip(structs, case.get('as_objects') or [False] * len(structs)):
        if as_obj:
            # the structure is handed over as a pdb2sql OBJECT whose present content differs from the text it was built
            # from (x set afterwards with update_column): what counts is the object's state at the time of the call
            o = pdb2sql.pdb2sql([gen_pdb.atom_line(dict(a, x=0.0)) for a in s_atoms])
            o.update_column('x', [float(a['x']) for a in s_atoms])
            inputs.append(o); objs.append(o)
        else:
            inputs.append([gen_pdb.atom_line(a) for a in s_atoms])
    db = pdb2sql.many2sql(inputs, tablenames=(list(case['tablenames']) if case.get('tablenames') else None))
    for o in objs:
        o._close()
    # structure i lives in table i of the names given (or of the default names ATOM, ATOM1, ...), in input order
    names = list(case['tablenames']) if case.get('tablenames') else ['ATOM'] + ['ATOM%d' % i for i in range(1, len(inputs))]
    out_names = list(db._get_table_names())
    tables = [canon_rows(db.get('*', tablename=n)) for n in names]
    out = {}
    try:
        data = db.get_intersection(case['cols'], match=case['match'])
        data = [[(r if isinstance(r, list) else [r]) for r in d] for d in data]
        out['impl'] = ['OK', tuples([canon_rows(d) for d in data])]
    except Exception as e:
        out['impl'] = ['ERR', exc_class(e)]
    reqs = [['many.intersection', match_idx(case['match']), col_idx(case['cols']), tables],
            ['spec.many.intersection', match_idx(case['match']), col_idx(case['cols']), tables],
            ['spec.many.unique', match_idx(case['match']), tables]]
    m, s, uniq = ctx.model.batch(reqs)
    out['names_ok'] = (out_names == names)
    out['model'] = ['OK', tuples(m)]
    out['spec'] = ['OK', tuples(s)]
    out['unique'] = uniq == 1
    out['reqs'], out['outs'] = reqs, [m, s, uniq]
    # per-structure queries
    sel = case.get('sel') or {}
    try:
        ga = db.get_all('name,resSeq,x', **sel)
        want = [db.get('name,resSeq,x', tablename=n, **sel) for n in names]
        own = []
        for s_atoms in structs:
            rows = [[a['name'], a['resSeq'], a['x']] for a in s_atoms
                    if all((a[k] in v if isinstance(v, list) else a[k] == v) for k, v in sel.items())]
            own.append(rows)
        out['get_all_ok'] = (ga == want == own)
        if not out['get_all_ok']:
            out['get_all'] = [ga, own]
    except Exception as e:
        out['get_all_ok'] = False; out['get_all'] = exc_class(e)
    # intersect(): one table per structure with the aligned rows (to text precision)
    try:
        if out['impl'][0] == 'OK' and len(json.loads(out['impl'][1][0]) if out['impl'][1] else []) >= 0 and case['cols'] == '*':
            ndb = db.intersect(match=case['match'])
            nn = ndb._get_table_names()
            nt = [canon_rows(ndb.get('*', tablename=n)) for n in nn]
            out['intersect_tables'] = (nn == names, tuples(nt))
            # the intersected database is a many2sql like any other: intersecting it again changes nothing
            if nt and nt[0] and out['unique']:      # (with non-unique keys the rows multiply at every join)
                ndb2 = ndb.intersect(match=case['match'])
                nn2 = ndb2._get_table_names()
                nt2 = [canon_rows(ndb2.get('*', tablename=n)) for n in nn2]
                out['reintersect_ok'] = (nn2 == names and len(nt2) == len(nt) and tuples(nt2) == tuples(nt))
                ndb2._close()
            ndb._close()
        # the per-structure selection db(**sel) is again a many2sql: its intersect() holds its own get_intersection rows
        if case['cols'] == '*' and sel and out.get('get_all_ok') and all(own) and out['unique']:
            sub = db(**sel)
            si = sub.get_intersection('*', match=case['match'])
            if si and si[0]:
                sn = sub.intersect(match=case['match'])
                snn = sn._get_table_names()
                snt = [canon_rows(sn.get('*', tablename=n)) for n in snn]
                out['sub_intersect_ok'] = (snn == names and len(snt) == len(si) and tuples(snt) == text_round(tuples([canon_rows(d) for d in si])))
                sn._close()
            sub._close()
    except Exception as e:
        out['intersect_tables'] = ('ERR', exc_class(e))
    db._close()
    return out

def text_round(tups):
    """aligned tuples as they look after the PDB text round trip of intersect(): coordinates to 3 decimals etc."""
    out = []
    for t in tups:
        rows = json.loads(t)
        nr = []
        for r in rows:
            r = list(r)
            for i in (7, 8, 9):
                f = Fraction(r[i][1], r[i][2]); v = float('%.3f' % float(f)); fr = Fraction(v); r[i] = ['R', fr.numerator, fr.denominator]
            for i in (10, 11):
                f = Fraction(r[i][1], r[i][2]); v = float('%.2f' % float(f)); fr = Fraction(v); r[i] = ['R', fr.numerator, fr.denominator]
            nr.append(r)
        out.append(json.dumps(nr))
    return sorted(out)

def explore(ctx, tier, rng, search=False):
    rep = Report()
    pdb2sql = import_impl()
    n = 700 if (tier == 'thorough' or search) else 110
    for k in range(n):
        feats = set()
        parent = unique_parent(rng, rng.randint(4, 14))
        ns = rng.choice([2, 2, 3, 4])
        structs = [derive(rng, parent, feats) for _ in range(ns)]
        match = MATCHES[k % len(MATCHES)] if rng.random() < 0.7 else MATCHES[0]
        cols = COLSETS[k % len(COLSETS)]
        sel = rng.choice([{}, {'chainID': 'A'}, {'name': ['CA', 'N', 'C', 'O']}, {'resSeq': [1, 10, 11]}])
        case = {'structures': structs, 'match': match, 'cols': cols, 'sel': sel}
        if rng.random() < 0.25:
            case['tablenames'] = rng.choice([['ref', 'decoy_2', 'Decoy1', 'm4'], ['t2', 't1', 't0', 'T3'], ['b', 'a', 'd', 'c'], ['ATOM', 'x9', 'ATOM1', 'A0']])[:ns]
            feats.add('explicit-table-names')
        if any(a['chainID'] == 'a' for a in parent): feats.add('chains-A-and-a')
        if rng.random() < 0.35:
            case['as_objects'] = [rng.random() < 0.6 for _ in structs]; feats.add('structures-given-as-modified-objects')
        feats.add(f'structures-{ns}'); feats.add('match-' + '+'.join(match)); feats.add('cols-' + cols)
        try:
            out = run_case(ctx, pdb2sql, case)
        except Exception as e:
            rep.case(case, sorted(feats)); rep.mismatch('impl_vs_spec', case, error='exception ' + exc_class(e) + ' ' + str(e)[:200])
            continue
        if not out['unique']:
            feats.add('non-unique-keys')
        if out['impl'][0] == 'OK' and not out['impl'][1]:
            feats.add('empty-intersection')
        rep.case(case, sorted(feats), nontrivial=('deletion' in feats or 'permutation' in feats))
        if len(rep.model_reqs) < 60:
            rep.model_reqs += out['reqs'][:2]; rep.model_outs += out['outs'][:2]
        j = judge(case, out)
        if j:
            rep.mismatch(j[0], case, **j[1])
    rep.input_distribution = {'families': n, 'match_sets': MATCHES, 'column_sets': COLSETS}
    return rep

def judge(case, out):
    if out['unique'] and out['impl'] != out['spec']:
        return 'impl_vs_spec', dict(impl=out['impl'], spec=out['spec'])
    if out['impl'] != out['model']:
        return 'impl_vs_model', dict(impl=out['impl'], model=out['model'])
    if not out['get_all_ok']:
        return 'impl_vs_spec', dict(why="get_all / per-table get differ from each structure's own atoms", got=out.get('get_all'))
    if not out.get('names_ok', True):
        return 'impl_vs_spec', dict(why='the tables are not listed in the order of the structures given')
    if out.get('reintersect_ok') is False and out['unique']:
        return 'impl_vs_spec', dict(why='intersect() of an intersected database does not hold one table per structure with the same aligned rows')
    if out.get('sub_intersect_ok') is False and out['unique']:
        return 'impl_vs_spec', dict(why='intersect() of a selection db(**sel) differs from its own get_intersection rows / one table per structure')
    if 'intersect_tables' in out and out['unique']:
        it = out['intersect_tables']
        if it[0] == 'ERR':
            return 'impl_vs_spec', dict(why='intersect() raised', got=list(it), empty_intersection=(not out['spec'][1]))
        if not (it[0] is True and it[1] == text_round(out['spec'][1])):
            return 'impl_vs_spec', dict(why='intersect() tables differ from the aligned common atoms', got=it[1][:3], want=text_round(out['spec'][1])[:3])
    return None

def replay(ctx, case):
    pdb2sql = import_impl()
    out = run_case(ctx, pdb2sql, case)
    j = judge(case, out)
    ok = not (j and j[0] == 'impl_vs_spec')
    return ok, json.dumps(jsonable(j[1] if j else {k: out[k] for k in ('impl', 'spec', 'unique')}))[:600]
