"""gen_pdb.py — generators of PDB ATOM records at text level (C01) and at value level (C02…)."""
import random, string
from fractions import Fraction

UP = string.ascii_uppercase
ELEMENTS = ['C', 'N', 'O', 'S', 'H', 'P', 'FE', 'ZN', 'CA', 'MG', 'SE', 'CL']
RESNAMES = ['ALA', 'GLY', 'MET', 'LYS', 'TRP', 'A', 'DG', 'U', 'HOH', 'SER']
NAMES = ['N', 'CA', 'C', 'O', 'CB', 'CG', 'CD1', 'OE1', 'HE21', '1HG', '2HD1', 'H', 'HA', 'FE', 'ZN', 'OXT', "O5'", 'P']

def place(txt, width, how):
    """put txt in a field of `width` columns: 'r' right, 'l' left, 'c' centre-ish"""
    txt = txt[:width]
    pad = width - len(txt)
    if how == 'r':
        return ' ' * pad + txt
    if how == 'l':
        return txt + ' ' * pad
    left = pad // 2
    return ' ' * left + txt + ' ' * (pad - left)

def coord_text(rng, feats):
    k = rng.random()
    if k < 0.55:
        v = rng.uniform(-999.999, 9999.999)
        return place('%.3f' % v, 8, 'r')
    if k < 0.65:
        feats.add('coord-full-width')
        return rng.choice(['-999.999', '9999.999', '-100.000', '1000.000', '   0.000', '  -0.001'])
    if k < 0.75:
        feats.add('coord-odd-form')
        return place(rng.choice(['1.5', '+1.000', '.5', '1.', '-.25', '12', '007.100', '1.23456', '0.1', '2.675']), 8, rng.choice('rlc'))
    if k < 0.85:
        v = rng.uniform(-99999, 999999)
        return place(('%.2f' % v)[:8], 8, 'r')
    return place('%.3f' % rng.uniform(-50, 50), 8, rng.choice('rl'))

def name_field(rng, feats):
    nm = rng.choice(NAMES + [rng.choice(UP) + rng.choice(UP + '123') , rng.choice(UP)])
    nm = nm[:4]
    if len(nm) == 4:
        return nm
    starts = list(range(0, 4 - len(nm) + 1))
    st = rng.choice(starts)
    feats.add(f'name-len{len(nm)}-col{13 + st}')
    return ' ' * st + nm + ' ' * (4 - len(nm) - st)

def gen_atom_line(rng, feats, malformed=None):
    """one ATOM line, field by field; returns text (<= 80 columns unless malformed says otherwise)"""
    # serial
    k = rng.random()
    if k < 0.5:
        serial = place(str(rng.randint(1, 9999)), 5, 'r')
    elif k < 0.65:
        serial = str(rng.randint(10000, 99999)); feats.add('serial-5-digits')
    elif k < 0.75:
        serial = place(str(-rng.randint(1, 9999)), 5, 'r'); feats.add('serial-negative')
    else:
        serial = place(str(rng.randint(0, 999)), 5, rng.choice('rlc')); feats.add('serial-odd-align')
    name = name_field(rng, feats)
    altloc = rng.choice([' ', ' ', 'A', 'B', '1'])
    if altloc != ' ': feats.add('altLoc')
    resname = place(rng.choice(RESNAMES), 3, rng.choice('rrl'))
    chain = rng.choice(['A', 'B', 'C', 'a', '1', ' '])
    k = rng.random()
    if k < 0.6:
        resseq = place(str(rng.randint(1, 999)), 4, 'r')
    elif k < 0.75:
        resseq = str(rng.randint(1000, 9999)); feats.add('resSeq-4-digits')
    elif k < 0.9:
        resseq = place(str(-rng.randint(1, 999)), 4, 'r'); feats.add('resSeq-negative')
    else:
        resseq = place(str(rng.randint(0, 99)), 4, rng.choice('lc')); feats.add('resSeq-odd-align')
    icode = rng.choice([' ', ' ', ' ', 'A', 'Z'])
    if icode != ' ': feats.add('iCode')
    x, y, z = coord_text(rng, feats), coord_text(rng, feats), coord_text(rng, feats)
    occ = rng.choice(['  1.00', '  0.50', '      ', ' 0.5  ', '100.00', ' -1.00', '   1  '])
    temp = rng.choice([' 20.00', '  9.67', '      ', '123.45', '-12.30', ' 5.   ', '    .5'])
    if occ.strip() == '': feats.add('blank-occ')
    if temp.strip() == '': feats.add('blank-temp')
    segid = rng.choice(['    ', '    ', 'SEG1', 'A   ', '   B', ' XY '])
    if chain == ' ':
        if segid.strip():
            feats.add('chain-from-segID')
        else:
            # blank chain and blank segID is malformed: keep only when asked for
            if malformed != 'nochain':
                segid = 'S1  '; feats.add('chain-from-segID')
    el = rng.choice(['', '', 'C', 'N', 'FE', 'H'])
    element = place(el, 2, rng.choice('rrl'))
    if not el: feats.add('blank-element')
    charge = rng.choice(['  ', '  ', '1+', '2-'])
    line = 'ATOM  ' + serial + ' ' + name + altloc + resname + ' ' + chain + resseq + icode + '   ' + \
        x + y + z + occ + temp + '      ' + segid + element + charge
    assert len(line) == 80, len(line)
    if malformed is None:
        # short lines: drop trailing blanks, or cut after the coordinates/occupancy
        k = rng.random()
        if k < 0.25:
            line = line.rstrip(' '); feats.add('short-line-rstrip')
        elif k < 0.35 and chain != ' ':
            cut = rng.choice([54, 60, 66, 72, 76, 78])
            line = line[:cut]; feats.add(f'short-line-cut{cut}')
        return line
    feats.add('malformed-' + malformed)
    if malformed == 'long':
        return line + rng.choice(['X', ' ', '  Y', ' ' * 5])
    if malformed == 'nochain':
        return line[:21] + ' ' + line[22:72] + '    ' + line[76:]
    if malformed == 'badnum':
        fld = rng.choice([(6, 11), (22, 26), (30, 38), (38, 46), (46, 54), (54, 60), (60, 66)])
        bad = rng.choice(['ab', '1 2', '1..2', '-', '+', '1-2', '--1', '1,5', '#'])
        w = fld[1] - fld[0]
        return line[:fld[0]] + place(bad, w, 'r') + line[fld[1]:]
    if malformed == 'blanknum':
        fld = rng.choice([(6, 11), (22, 26), (30, 38), (38, 46), (46, 54)])
        return line[:fld[0]] + ' ' * (fld[1] - fld[0]) + line[fld[1]:]
    if malformed == 'exotic':
        fld = rng.choice([(30, 38), (38, 46), (54, 60), (6, 11)])
        bad = rng.choice(['1e2', 'nan', 'inf', '1_0', '-inf', '1E1'])
        return line[:fld[0]] + place(bad, fld[1] - fld[0], 'r') + line[fld[1]:]
    raise ValueError(malformed)

OTHER = [
    'HETATM 1000  O   HOH A 201      10.000  10.000  10.000  1.00 20.00           O  ',
    'TER    1001      LYS A 100',
    'ANISOU    1  N   MET A   1     2406   1892   1614    198    519   -328       N  ',
    'REMARK   2 RESOLUTION.    1.80 ANGSTROMS.',
    'END',
    'CRYST1   52.000   58.600   61.900  90.00  90.00  90.00 P 21 21 21    8',
    '',
    'HEADER    TEST',
    'SIGATM    1  N   MET A   1       0.010   0.010   0.010  0.00  0.00           N',
    ' ATOM     1  N   MET A   1      27.340  24.430   2.614  1.00  9.67           N',
    'atom      1  N   MET A   1      27.340  24.430   2.614  1.00  9.67           N',
]

def gen_file_lines(rng, feats, natoms, malformed=None):
    lines = []
    bad_at = rng.randrange(natoms) if malformed else -1
    for i in range(natoms):
        while rng.random() < 0.25:
            lines.append(rng.choice(OTHER)); feats.add('other-records')
        lines.append(gen_atom_line(rng, feats, malformed if i == bad_at else None))
    while rng.random() < 0.3:
        lines.append(rng.choice(OTHER)); feats.add('other-records')
    return lines

# ----------------------------------------------------------------------------------------
# value-level atoms (tables that fit their field widths), for export and later properties
def gen_name_element(rng):
    k = rng.random()
    if k < 0.3:
        nm = rng.choice(['N', 'C', 'O', 'H', 'P', 'S']); el = nm
    elif k < 0.55:
        nm = rng.choice(['CA', 'CB', 'CG', 'OG', 'NZ', 'HA', 'SD']); el = nm[0]
    elif k < 0.65:
        nm = rng.choice(['FE', 'ZN', 'CA', 'MG', 'Fe', 'Zn', 'Cl', 'na']); el = nm      # (element symbols are also written in title / lower case)
    elif k < 0.8:
        nm = rng.choice(['CD1', 'OE1', 'NH2', 'HB2', 'OXT']); el = nm[0]
    elif k < 0.9:
        nm = rng.choice('0123456789') + rng.choice(['HG', 'HD', 'HB', 'HE']); el = 'H'
    else:
        nm = rng.choice(['HE21', 'HD11', '1HD1', 'HH12', '0HD1']); el = 'H'
    return nm, el

def gen_coord(rng, wide=False):
    """a coordinate as an exact double; mostly millesimal, sometimes anything"""
    k = rng.random()
    if not wide or k < 0.7:
        return round(rng.uniform(-999.4, 9999.4), 3)
    if k < 0.8:
        return rng.uniform(-999.4, 9999.4)
    mag = 10 ** rng.uniform(-3, 7.9)
    v = mag if rng.random() < 0.6 else -min(mag, 9.9e6)
    return v

def gen_atoms(rng, n, chains=('A', 'B'), wide=False, hydrogens=True):
    """list of dicts with the 13 standard attributes; values fit their PDB field widths"""
    atoms = []
    serial = rng.choice([1, 1, 100, 99990 - n])
    per_chain = max(1, n // len(chains))
    resseq = rng.choice([1, -3, 10, 995])
    for i in range(n):
        ch = chains[min(i // per_chain, len(chains) - 1)]
        if i % per_chain == 0:
            resseq = rng.choice([1, -3, 10, 995])
        elif rng.random() < 0.3:
            resseq += rng.choice([1, 1, 2])
        nm, el = gen_name_element(rng)
        if not hydrogens and nm.lstrip('123')[0] == 'H':
            nm, el = 'CA', 'C'
        atoms.append({
            'serial': serial + i, 'name': nm, 'altLoc': rng.choice(['', '', '', 'A']),
            'resName': rng.choice(RESNAMES), 'chainID': ch, 'resSeq': resseq,
            'iCode': rng.choice(['', '', '', 'B']),
            'x': gen_coord(rng, wide), 'y': gen_coord(rng, wide), 'z': gen_coord(rng, wide),
            'occ': rng.choice([1.0, 0.5, 0.25, round(rng.uniform(0, 1), 2)]),
            'temp': rng.choice([10.0, round(rng.uniform(0, 99), 2), 123.45]),
            'element': el})
    return atoms

COLS = ['serial', 'name', 'altLoc', 'resName', 'chainID', 'resSeq', 'iCode', 'x', 'y', 'z', 'occ', 'temp', 'element']

def fmt_name(nm, el):
    if len(nm) == 4:
        return nm
    if len(nm) == 1:
        return ' ' + nm + '  '
    if len(nm) == 2:
        return (nm + '  ') if nm == el else (' ' + nm + ' ')
    return (nm + ' ') if nm[0].isdigit() else (' ' + nm)

def atom_line(a):
    """independent wwPDB formatter (not the library's): canonical 80-column ATOM line"""
    return ('ATOM  %5d %s%1s%3s %1s%4d%1s   %8.3f%8.3f%8.3f%6.2f%6.2f          %2s  ' % (
        a['serial'], fmt_name(a['name'], a['element']), a['altLoc'], a['resName'], a['chainID'], a['resSeq'],
        a['iCode'], a['x'], a['y'], a['z'], a['occ'], a['temp'], a['element']))
