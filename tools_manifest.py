#!/venv/bin/python
"""tools_manifest.py — (re)write MANIFEST.json from the table below; run after adding a check."""
import json
props = [json.loads(l) for l in open('/verif/properties.jsonl')]
LEVEL_NOTE = ('Trusted: Coq 8.16.1 kernel (vm_compute in finite computations and in the cases_*.v cross-check; no native_compute), '
              'translator /verif/translator, ExtrOcamlBasic extraction + ocaml/driver.ml, harness and canonicalisers; ')
DONE = {
 'C05': ('§5.C05',
  'The loops of get_contact_atoms are modelled literally over a symmetric contact test (Section parameter) instantiated with the exact dist^2 <= cutoff^2; '
  'the distance-test operator, backbone names, hydrogen predicate and defaults are regenerated. Coq proves for any number of chains and atoms and all '
  'option combinations: two-chain atoms and pairs equal the set-comprehension spec, swap transposes, all-chains atoms exact, all-chains pair map '
  '(every contacting pair of different chains exactly once under the atom of the earlier chain), cutoff inclusive (stated about the regenerated operator). '
  'Correspondence on 2-5 chain structures for all 2^4 option combinations and all ordered chain pairs, with float-exact pairs at exactly the cutoff.',
  'hand-written Gallina model + regenerated operators + Coq theorems (fold invariants) + differential check',
  'NumPy distance arithmetic compared with exact rationals under the margin rule; the order inside an all-chains pair-map entry is characterised up to permutation. '
  'Print Assumptions: closed under the global context.'),
 'C14': ('§5.C14',
  'get_contact_residues and _extend_contact_to_residue modelled on top of the C05 model. Coq proves: residues are exactly the projection of the contact atoms, '
  'the residue pair map is the projection of the atom pair map (set level), extension is the closure over owning residues (all atoms, or backbone atoms under '
  'only_backbone) including residues sharing a number but differing in name or chain. Correspondence for all 2^5 option combinations.',
  'hand-written Gallina model + Coq theorems + differential check',
  'as C05. Print Assumptions: closed under the global context.'),
 'C07': ('§5.C07',
  'The four RMSD routines (fast/SQL x i/L), compute_izone/compute_lzone, check_residues, the identity-keyed intersections and the three '
  'fixed-column readers are modelled on top of the contact model (C05/C14) and the superposition model (C13), with the rotation kernel as a '
  'recorded oracle (C06); reader columns, zone format, contact test and get_rmsd shape are regenerated. Coq proves: the readers read the wwPDB '
  'columns; the SQL route pairs by identity for any record order and the SQL i-RMSD is exactly its definition (the specification pairs of the zone) for any decoy, the fast i-RMSD and the fast L-RMSD under the same-relative-order condition, the SQL L-RMSD on structures listing the same atoms in the same order when it picks the long chain named by the definition (partial; F5 is the other case); missing atoms are left out; the fast route pairs by identity under the '
  'same-relative-order condition and is refuted without it (F6); compute_izone equals the zone of the definition for every two-chain reference and cutoff; the reported value is the kernel residual on the centred fitted atoms, hence minimal over all rigid motions once the kernel is optimal among rotations (C06); '
  'identical structures score 0. Harness: implementation vs extracted model (exact mean squared deviation from the recorded rotation) and vs the '
  'specification (zone + identity pairs from Coq, minimum evaluated by an independent Kabsch) on generated complexes, 4 routines x 2 methods.',
  'hand-written Gallina pipeline model with oracle rotation + Coq theorems + regenerated readers + differential check',
  'The interface zone is proved equal to its definition (C07_izone_exact, on top of the C05/C14 theorems). The optimum over rotations is '
  'C06\'s theorem, evaluated numerically by the harness (binary64 Kabsch, 2e-4 guard band at rounding ties). Known finding F6. '
  'Print Assumptions: closed under the global context.'),
 'C08': ('§5.C08',
  'compute_fnat_fast (own fixed-column reader, regenerated and proved equal to the wwPDB slices), compute_fnat_pdb2sql (with fix_chainID renaming), '
  'compute_residue_pairs_ref and compute_clashes modelled; caller constants regenerated. Coq proves both Fnat routes equal the definition (absent residue = '
  'not preserved), range [0,1], identical => 1, clash count exact outside the F18 class and refuted inside it. Correspondence on reference/decoy pairs with '
  'deletions on either side, hydrogens, cutoffs 3-8, exact-cutoff residue pairs.',
  'hand-written Gallina model + regenerated reader/constants + Coq theorems + refutation witness + differential check',
  'Known finding F18 (pair at exactly 3.000 A counted as a clash). round(nCommon/nTotal, 6) modelled as exact half-even on the binary64 quotient. '
  'Print Assumptions: closed under the global context.'),
 'C09': ('§5.C09',
  'Zone files: the line format is regenerated from _write_zone; Coq proves that for every one-character chain identifier other than blank and - and '
  'every integer residue number the written line is read back as exactly (chain, number), and that a whole zone file is read back as exactly the '
  'in-memory zone (so the three zone sources are interchangeable), and that the writer publishes atomically; and that on structures listing the same '
  'atoms in the same order the fast and the SQL i-RMSD route use the same coordinate lists and report the same value for the same rotation, and that the SQL route selects '
  'the same reference rows with and without a zone file; likewise fast = SQL for the L-RMSD when both routes pick the same long chain (else F5), and the two Fnat routes agree '
  '(both equal the C08 specification). Route agreement in general: on generated pairs '
  '(incl. equal-sized chains, rank-differing chains, incomplete decoys, negative numbers) all call forms of each measure — {fast, SQL} x {svd, '
  'quaternion} x {no zone file, written, read back}, and both Fnat routes — are run and compared pairwise; zone files written by the library are '
  'compared with the model text and read back through both consumers.',
  'regenerated zone format + Coq round-trip theorems (string lemmas, induction over the zone) + exhaustive call-form comparison on generated pairs',
  'PARTIAL: fast = SQL for the RMSD measures is a theorem on aligned structures (same atoms, same order) only; otherwise it and svd = quaternion follow from C07 and C06 theorems and are decided per run by execution. '
  'Known finding F5 (the two L-RMSD routes choose the long chain differently on ambiguous sizes). Print Assumptions: closed under the global context.'),
 'C10': ('§5.C10',
  'Rodrigues matrix, Euler matrices and product order, rotate, translation, the database wrappers and the random axis/angle are regenerated once against a number '
  'dictionary and instantiated at Q (executable) and at R (theorems). Coq proves over the reals: the Rodrigues matrix is a rotation, fixes its axis, is '
  'right-handed, inverse by the opposite angle; Euler = x then y then z; rotate is rigid; any finite composition is rigid (induction); only selected atoms and only '
  'coordinates change; inverse restores; random axis unit, angle in [0,2pi). Correspondence on real databases with rational rotations (24 lattice rotations exactly).',
  'regenerated ring-polymorphic model + Coq theorems over R (ring/nsatz) + differential check',
  'cos/sin enter as a pair (c,s) with c^2+s^2=1; NumPy arithmetic within 1e-9. Axioms: the standard-library Reals axioms only '
  '(ClassicalDedekindReals.sig_forall_dec, sig_not_dec, FunctionalExtensionality.functional_extensionality_dep).'),
 'C06': ('§5.C06',
  'The Kabsch steps, the 16 entries of F, the 9 entries of the quaternion matrix, dispatch and guards are regenerated; svd and eigh are Section oracles with '
  'their specifications. Coq proves over the reals for any number of points, with no rank or sign assumption: the quaternion matrix is a rotation, every rotation '
  'comes from a unit quaternion (surjectivity), the Wahba certificate is sound, Kabsch is optimal over ALL rotations and never reflects, the quaternion method is '
  'optimal, both attain the same residual, guards reject uncentred/unequal input; plus a closed PSD/enclosure checker used at run time. The harness records the '
  'real LAPACK outputs, checks the oracle hypotheses on them and feeds them to the extracted model; degenerate sets (planar, linear, point, identical, mirror).',
  'regenerated ring-polymorphic model + oracle hypotheses + Coq theorems over R (nsatz/ring) + certified run-time enclosure + differential check',
  'LAPACK svd/eigh are oracles whose specifications are validated on every recorded call (1e-9). F19g (complex eig on collinear sets) was found by this check and '
  'fixed in /repo. Axioms: the standard-library Reals axioms only.'),
 'C18': ('§5.C18',
  'get_rotation_angle, the per-axis table of _align_along_axis and the rotation helper are regenerated; pca is an oracle (eigh of the covariance). Coq proves: the '
  'aligned vector lands on the requested axis for x, y, z (from the regenerated table), the table is total, covariance rotates, single rotation about the centroid, '
  'principal axis on target under the eigen-oracle and a gap, only coordinates change. Correspondence in ~200 orientations incl. poles and coordinate planes.',
  'regenerated ring-polymorphic model + oracle hypotheses + Coq theorems over R + differential check',
  'arctan2/arccos are oracles whose defining hypothesis is checked on every recorded call; no-file-without-export is a harness check. F13 was fixed in /repo. '
  'Axioms: the standard-library Reals axioms only.'),
 'C11': ('§5.C11',
  'Coq proves on the contact/Fnat/clash models (C05/C14/C08): every rigid motion preserves all squared distances, hence every contact decision at every '
  'cutoff, hence contact atoms, pair maps, residue extension (the i-RMSD zone), residue pairs, the clash count and Fnat (decoy and reference may move '
  'independently); generally the contact computation depends on the atoms only through identity fields and contact decisions (congruence theorem); '
  'serial, altLoc, iCode, occupancy, B-factor, element and model are never read. Metamorphic correspondence: margin-safe pairs are scored by the six '
  'routines, clashes, DockQ and CAPRI class together with nine variants (lattice motions of decoy / of both, arbitrary rigid motion, rewritten ignored '
  'fields, residue-number shift, added hydrogens, three permutation levels x both enforcement settings); the C07 models are re-tied on a variant.',
  'Coq invariance theorems on the models (congruence, ring identities) + metamorphic differential check of the real routines',
  'Also proved: the residual left on a rigidly displaced copy m.P+t by the rotation r.m^T equals the residual left on P by r (rotation candidates '
  'of the two problems correspond one to one, so the minimum RMSD is the same); under any strictly increasing renumbering of the residues (+k) contact '
  'atoms, pair map, residue extension and clash count are unchanged, residue pairs are mapped key by key and Fnat is unchanged; with hydrogens excluded '
  '(clash count, Fnat) the result is that of the structure without its hydrogen atoms, and row labels are immaterial (any strictly increasing relabelling), so '
  'hydrogen records inserted anywhere change neither; the interface / ligand zones of a renumbered reference are the old zones renumbered and the fast '
  'i-RMSD / L-RMSD pipelines give the same value; any permutation of the decoy records leaves the SQL i-RMSD unchanged. PARTIAL: the SQL RMSD routes under renumbering, RMSD under added hydrogens, and permutations for the other measures are decided by '
  'the metamorphic correspondence only. '
  'Known finding F6 (permuted decoy + fast RMSD routes without enforcement). Print Assumptions: closed under the global context.'),
 'C12': ('§5.C12',
  'CAPRI cascade and DockQ formula are regenerated from the source by the translator on every run; theorems (total, equal to the '
  'published table in two readings, monotone; DockQ = formula, range, perfect, monotone) are proved in Coq for all rationals; '
  'implementation, extracted model and extracted spec are compared on every cell of the threshold arrangement and on random points.',
  'regenerated Gallina model + Coq theorems (lra cell decomposition) + differential check vs extracted model/spec',
  'CPython float semantics modelled as exact rationals of doubles (margin rule at rounding ties). Print Assumptions: closed under the global context.'),
 'C03': ('§5.C03',
  'Hand-written Gallina mirror of pdb2sql.get (column/key validation, per-model recursion, list vs scalar, rowID +1/-1, chunking with fuel, 999 check, '
  'flattening) over a mini-SQL semantics with SQLite affinity rules; constants of get are regenerated and proved to be the ones the model is built from. '
  'Coq proves for all tables, attribute strings and conditions (lists <= 950 values): get = the row-by-row specification (filter, project, shape), '
  'scalar = singleton list, unknown names rejected, rowID zero-based in all three roles. Bounded-exhaustive (every subset of a condition pool on small tables) '
  'and random correspondence of implementation, extracted model and extracted spec on real SQLite databases.',
  'hand-written Gallina model + Coq theorems (induction over rows and conditions) + regenerated constants + differential check',
  'SQLite value layer (affinity on store and on IN operands, BINARY collation, NULL) is an assumption shared by model and spec, validated by every '
  'correspondence case. Known findings F20 (duplicate rowID column), F23 (rowid aliases). Print Assumptions: closed under the global context.'),
 'C04': ('§5.C04',
  'Gallina models of update, update_xyz, update_column (with/without index), add_column and _fix_chainID over the same table semantics; specification '
  'is the list-of-records machine. Coq proves step refinement for every modelled operation, the frame properties (other rows, other columns, count and '
  'order unchanged), atomicity of shape errors, and by induction over histories that every reachable model state equals the specification state. '
  'Correspondence: after every step of generated histories the full state of every table of the real database is compared with model and spec; value '
  'carriers of all listed Python/NumPy types.',
  'hand-written Gallina model + Coq refinement theorems (induction over histories) + history correspondence',
  'NumPy carriers are reduced to Python numbers by the harness (no Coq statement about NumPy types); _fix_chainID by correspondence only. '
  'Known findings F19 (ragged value list: partial write), F22b. Print Assumptions: closed under the global context.'),
 'C17': ('§5.C17',
  'The chunking and per-model recursions of get with tablename threading are modelled with explicit fuel. Coq proves, for every list length and every '
  'table name, that outside the recorded finding classes the result equals the row-by-row specification on the addressed table or the documented '
  'too-many-variables error, that the result never depends on another table, and refutes the full statement with vm_compute witnesses for each finding. '
  'Correspondence on databases of 1-3 structures up to 4000 atoms with list lengths around 950/999/1900/2851, positive/negated, duplicates, unsorted.',
  'hand-written Gallina model with fuel + Coq theorems (induction on the number of long lists) + refutation witnesses + differential check',
  'Known findings F10 (negated long list: RecursionError), F11 (chunk order / duplicates), F21 (TypeError instead of the documented ValueError), '
  'F22 (columns validated against the first table). update() with long lists by correspondence only. Print Assumptions: closed under the global context.'),
 'C13': ('§5.C13',
  'superpose() is modelled with the rotation kernel as an oracle argument (its optimality is C06): selection pairing (by position when sizes are '
  'equal, else through the identity-keyed many2sql intersection), centring on the selections, one rigid motion applied to ALL atoms, write-back of '
  'x,y,z only. Coq proves, for any matrix, atom list and selections: every atom undergoes the same affine map; with an orthogonal matrix all '
  'distances are preserved; the deviation left on the paired atoms equals the kernel residual on the centred selections (so optimality reduces to '
  'C06); centroid decomposition: the residual of ANY affine map r x + t on the pairs is the rotation residual on the centred sets plus '
  'n|r cP + t - cQ|^2, hence superpose is optimal among ALL rigid motions (any rotation, any translation) as soon as its kernel rotation is optimal '
  'among rotations on the centred sets (C06), with a non-vacuity example; only coordinates change (count, order, all other cells); pairing is by identity when sizes differ and is refuted when they are equal (F7). '
  'The harness runs superpose on real databases with the kernel wrapped, feeds the recorded matrix to the extracted model (exact rationals) and '
  'checks rigidity, optimality on the identity-matched selection against an independent Kabsch minimum, landing of rigid copies, untouched target, '
  'and the directory snapshot for export on/off.',
  'hand-written Gallina model with oracle rotation + Coq theorems (ring identities, induction over atom lists) + correspondence on real databases',
  'Rotation kernel and LAPACK are oracles (recorded per run; C06 is the property about them); the minimum RMSD used in the verdict is computed by '
  'the harness in binary64 (tolerance 1e-6, or PDB text precision when the pairs come from the exported text). Known finding F7. '
  'Print Assumptions: closed under the global context.'),
 'C15': ('§5.C15',
  'Every derivation in the library (sub-selection call, interface(db), many2sql([db,...]), many2sql call) rebuilds the new object from the '
  'exported text of the selected rows; the model is snapshot = parse(export(rows)) over the regenerated C01/C02 leaf functions. Coq proves that '
  'the snapshot holds one row per selected row, in order, each depending only on its own source row; that it is faithful (through the C02 round-trip '
  'theorems: every derived row equals its source row in the integer/text attributes and at PDB text precision in the numeric ones, approx_row); and (on the functional store) that for '
  'every history an object is changed only by operations addressed to it. The tie to the code is the history correspondence: after every step of '
  'generated histories over up to 6 live objects, get(*) of every live object is compared with its own reference table, and every derived table with '
  'the extracted model (exactly) and with the text-precision specification approx_row.',
  'Gallina store model + Coq theorems (induction over histories) + history correspondence against the implementation',
  'PARTIAL: independence is true by construction in the functional model; that the implementation gives every object its own connection is '
  'observed by the history correspondence, not proved. Selections are evaluated by an independent Python predicate (their semantics is C03). '
  'Empty selections hit known finding F17. Print Assumptions: closed under the global context.'),
 'C20': ('§5.C20',
  'Abstract file system with durable image + pending transaction (Python sqlite3 legacy transaction mode: implicit BEGIN before DML, DDL autocommit when no '
  'transaction is open), scripts for create[,modify][,commit][,modify],close(keep|remove). Coq proves for every initial directory, scenario, file name and crash '
  'point: the recovered file holds the complete last-committed table or no atoms (never part of one), close(keep) leaves exactly the table, close(remove) removes '
  'exactly that file, names are data (touched paths within {name, name-journal}); the static table of every file-system call site is regenerated from the AST and '
  'proved equal to the one the scripts use (no shell command, removals name only sqlfile). Harness: child processes killed before every statement/commit/close, '
  'stock sqlite3 re-opens the file (integrity_check); odd file names, victim files.',
  'Gallina transition model + Coq theorems (all scenarios x crash points x names) + regenerated call-site table + fault injection in child processes',
  'PARTIAL: SQLite atomic commit / hot-journal rollback are oracles; kills are placed at Python-call granularity. F14 fixed in /repo. '
  'Print Assumptions: closed under the global context.'),
 'C16': ('§5.C16',
  'One script of file-system/connection actions per public routine over the abstract file system; schedules are lists of task indices. Coq proves: every script '
  'stays in its requested footprint, inputs unchanged, cwd irrelevant, non-interference for arbitrary programs and any number of tasks with disjoint write sets '
  '(induction over schedules), shared zone cache with atomic publication gives every task the same zone for all schedules (rely/guarantee), termination, and the '
  'refutation for an in-place writer (a schedule with a partial zone exists). The regenerated call-site table is proved to contain no scratch database and an '
  'atomic zone writer. Harness: every routine under wrappers of open/os/sqlite3/tempfile with directory snapshots and pre-seeded victim files; two real '
  '(including default-named ref/decoy .izone/.lzone files holding another zone); two real computations in two threads parked at every intercepted action and released along model-enumerated schedules (predicted-bad ones first).',
  'Gallina scripts + Coq theorems over all schedules + regenerated call-site table + controlled thread schedules and directory snapshots',
  'PARTIAL: os.replace atomicity, mkstemp freshness and OS scheduling inside SQLite/NumPy are oracles (bounded exercise). F8, F9 fixed in /repo. '
  'Print Assumptions: closed under the global context.'),
 'C19': ('§5.C19',
  'The query built by get_intersection (INNER JOIN of all tables, equality on every match key for every pair of tables, one slice of the '
  'joined row per table) is modelled as a nested-loop join; Coq proves, for any number of structures and any match keys, the exact '
  'characterisation of the result (tuple in result iff row i is an atom of structure i and all rows match pairwise), row alignment, own values, '
  'and that no common atom is left out. Implementation, extracted model and the look-up specification are compared as sorted aligned tuples on '
  'families of 2-4 structures derived by deletions, permutations and coordinate changes, for several match-key subsets and attribute lists; '
  'get_all, per-table get and intersect() are compared with each structure\'s own atoms.',
  'hand-written Gallina join model + Coq theorems (induction over the table list) + differential check vs extracted model/spec',
  'SQLite INNER JOIN semantics is an oracle validated on every run (result order canonicalised). Keys assumed non-NULL. '
  'Empty intersections hit known finding F17 in intersect(). Print Assumptions: closed under the global context.'),
 'C02': ('§5.C02',
  'The coordinate formatter, the atom-name aligner and the sequence of format specifications of data2pdb are regenerated from the source '
  'on every run, as are the parser\'s column table, defaults and guards (C01). Coq proves for every row that fits its field widths: the line is '
  'exactly 80 columns; every piece occupies its own columns, which today are the wwPDB columns; a coordinate raises exactly outside '
  '(-1e7+0.5, 1e8-0.5) and otherwise occupies 8 columns with as many decimals as fit (specification predicate coord_ok, including the '
  'one-fewer allowance just below a power of ten); the whole specification predicate line_ok holds of the exported line; float() of a written '
  'field is the printed decimal rounded once to binary64 (relative error 2^-53, proved); the regenerated parser applied to the exported line '
  'returns the row itself in every integer/text attribute and the printed decimals in the numeric ones, hence approx_row (the property\'s own '
  'comparison) holds; exporting the re-read row gives the identical line unless a coordinate moved onto a format-switch threshold or is a '
  'negative zero (both shown by examples); canonical records are reproduced. The round trip is refuted for an empty chain identifier (F24). '
  'Harness: implementation = extracted model and executable specification on threshold windows, wide tables, empty-chain tables, exportpdb '
  'files and bundled records.',
  'regenerated Gallina model + Coq theorems (digit/rounding lemmas, lra cell decomposition, string lemmas) + executable Coq spec applied to implementation output',
  'CPython str.format / float() / str.strip() modelled in PyLib.v (fixed-point formatting and parsing correctly rounded on exact rationals). The '
  'round-trip theorems assume text attributes that str.strip() leaves unchanged and a non-empty chain. exportpdb file handling and sql2pdb = '
  'map over the selected rows are tied by correspondence. Known finding F24. Print Assumptions: closed under the global context.'),
 'C01': ('§5.C01',
  'Slice table, column types, record prefixes, blank-field defaults, 80-column guard, segID and element rules are regenerated from the '
  'source on every run; Coq proves for every printable record that the regenerated parser returns exactly the row (or error) of the wwPDB '
  'column specification, and for every sequence of lines one row per ATOM record in order, other records ignored, malformed text rejected. '
  'The input-form dispatch and loop skeleton are hand-modelled and compared with the implementation on generated files x 8 container forms.',
  'regenerated Gallina model + Coq theorems (induction over lines, per-field equalities) + differential check vs extracted model/spec',
  'CPython str/int()/float() primitives modelled in PyLib.v for printable ASCII (exotic numerals and MODEL/ENDMDL outside the model); '
  'forms_agree (all list / ndarray / bytes / str / file forms of one text give the same table: a theorem on the modelled dispatch, the '
  'container conversions themselves by correspondence). Print Assumptions: closed under the global context.'),
}
checks = []
for p in props:
    if p['id'] in DONE:
        ref, text, tech, note = DONE[p['id']]
        checks.append({'property_id': p['id'], 'quick_cmd': f'./check {p["id"]} --tier quick',
                       'thorough_cmd': f'./check {p["id"]} --tier thorough',
                       'evidence_file': f'/verif/evidence/{p["id"]}.json',
                       'replay_cmd_template': f'./check {p["id"]} --replay {{path}}', 'engine': 'coq-proof+correspondence',
                       'level_claimed': {'category': 'proof', 'text': text, 'design_ref': ref},
                       'level_note': LEVEL_NOTE + note, 'technique': tech})
ids = sorted(DONE)
m = {'version': 1, 'setup_cmd': './setup.sh',
     'hooks': {'guard': 'PDB2SQL_VERIF', 'enable': 'no source hooks are needed: the harness wraps sqlite3/os/open from its own process',
               'baseline_off_cmd': 'cd /repo && /venv/bin/python -m pytest -ra -q -p no:cacheprovider --timeout=900 --continue-on-collection-errors',
               'source_commits': [], 'add_only': True},
     'engines': [{'name': 'translator', 'path': '/verif/translator', 'serves_properties': ids, 'kind_free_text': 'Python-ast to Gallina, fail-closed, regenerated every run'},
                 {'name': 'coq', 'path': '/verif/coq', 'serves_properties': ids, 'kind_free_text': 'Coq 8.16.1 development: model, spec, theorems'},
                 {'name': 'extracted-model', 'path': '/verif/ocaml', 'serves_properties': ids, 'kind_free_text': 'OCaml extraction of model and spec + line-protocol driver'},
                 {'name': 'harness', 'path': '/verif/harness', 'serves_properties': ids, 'kind_free_text': 'generators, implementation runner, differ, violation protocol, evidence'}],
     'checks': checks,
     'notes': 'See DESIGN.md. Checks rebuild the generated model text from /repo on every run. Genuine defects repaired in /repo are listed in known_findings.json.',
     'not_applicable': [{'property_id': p['id'], 'reason': 'check not built yet in this session (planned, see DESIGN.md §8); not claimed until its theorems and correspondence exist'}
                        for p in props if p['id'] not in DONE]}
json.dump(m, open('/verif/MANIFEST.json', 'w'), indent=1)
print('claimed:', ids)
