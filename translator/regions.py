"""Registered regions: one recipe per source region -> Coq text.  See py2coq.py."""
import ast, copy, hashlib, json, os, sys
from py2coq import *

SRC = {}      # relpath -> (tree, lines)

def load(repo, rel):
    if rel not in SRC:
        p = os.path.join(repo, rel)
        txt = open(p).read()
        SRC[rel] = (ast.parse(txt), txt.split('\n'))
    return SRC[rel]

BASE = 'pdb2sql/pdb2sql_base.py'
CORE = 'pdb2sql/pdb2sqlcore.py'
SIM = 'pdb2sql/StructureSimilarity.py'
TRANS = 'pdb2sql/transform.py'
SUP = 'pdb2sql/superpose.py'
ALIGN = 'pdb2sql/align.py'
IFACE = 'pdb2sql/interface.py'
MANY = 'pdb2sql/many2sql.py'

def header(info):
    return f'(* source: {info["file"]}:{info["lines"][0]}-{info["lines"][1]} sha1 {info["sha1"]} *)\n'

def masked_dump(node, holes):
    """ast.dump of node with the given sub-nodes replaced by placeholders"""
    ids = {id(h) for h in holes}
    class M(ast.NodeTransformer):
        def generic_visit(self, n):
            if id(n) in ids:
                return ast.Name(id='HOLE')
            return super().generic_visit(n)
        def visit(self, n):
            if id(n) in ids:
                return ast.Name(id='HOLE')
            return super().visit(n)
    # NodeTransformer mutates: work on a copy but keep id mapping through a parallel walk
    cp = copy.deepcopy(node)
    for a, b in zip(ast.walk(node), ast.walk(cp)):
        if id(a) in ids:
            b._hole = True
    class M2(ast.NodeTransformer):
        def visit(self, n):
            if getattr(n, '_hole', False):
                return ast.Name(id='HOLE')
            return self.generic_visit(n)
    cp = M2().visit(cp)
    return ast.dump(cp, annotate_fields=False, include_attributes=False)

def skel_hash(node, holes):
    return hashlib.sha1(masked_dump(node, holes).encode()).hexdigest()[:16]

# ----------------------------------------------------------------------------------------
# region: constants of pdb2sql_base.__init__
def r_const(repo):
    tree, lines = load(repo, BASE)
    fn = find_func(find_class(tree, 'pdb2sql_base'), '__init__')
    want = {'backbone_atoms': None, 'SQLITE_LIMIT_VARIABLE_NUMBER': None, 'max_sql_values': None,
            'col': None, 'delimiter': None}
    for s in fn.body:
        if isinstance(s, ast.Assign) and len(s.targets) == 1 and isinstance(s.targets[0], ast.Attribute) \
                and isinstance(s.targets[0].value, ast.Name) and s.targets[0].value.id == 'self' \
                and s.targets[0].attr in want:
            if want[s.targets[0].attr] is not None:
                fail(s, 'constant assigned twice')
            want[s.targets[0].attr] = literal(s.value)
    for k, v in want.items():
        if v is None:
            raise Untranslatable(f'constant self.{k} not found')
    col, delim = want['col'], want['delimiter']
    if not (isinstance(col, dict) and all(isinstance(k, str) and isinstance(v, str) for k, v in col.items())):
        raise Untranslatable('self.col is not a dict str->str')
    if not (isinstance(delim, dict) and all(isinstance(v, list) and len(v) == 2 and all(isinstance(i, int) and i >= 0 for i in v) for v in delim.values())):
        raise Untranslatable('self.delimiter is not a dict str->[int,int]')
    out = header(region_info(lines, fn, BASE))
    out += 'Definition col_src : list (string * string) :=\n  [' + '; '.join(f'({coq_string(k)}, {coq_string(v)})' for k, v in col.items()) + '].\n'
    out += 'Definition delimiter_src : list (string * (nat * nat)) :=\n  [' + '; '.join(f'({coq_string(k)}, ({v[0]}%nat, {v[1]}%nat))' for k, v in delim.items()) + '].\n'
    out += 'Definition backbone_src : list string := [' + '; '.join(coq_string(x) for x in want['backbone_atoms']) + '].\n'
    out += f'Definition sql_limit_src : Z := {int(want["SQLITE_LIMIT_VARIABLE_NUMBER"])}.\n'
    out += f'Definition max_sql_values_src : Z := {int(want["max_sql_values"])}.\n'
    return out

# ----------------------------------------------------------------------------------------
# region: the record loop of pdb2sql._create_table (holes: prefixes, blank-field defaults, type tags)
CREATE_TABLE_SKEL = None   # filled from golden/skeletons.json

def r_create_table_loop(repo, skeletons):
    tree, lines = load(repo, CORE)
    fn = find_func(find_class(tree, 'pdb2sql'), '_create_table')
    loops = [s for s in fn.body if isinstance(s, ast.For) and isinstance(s.iter, ast.Name) and s.iter.id == 'pdbdata']
    if len(loops) != 1:
        raise Untranslatable('record loop not found in _create_table')
    loop = loops[0]
    holes = []
    try:
        b = loop.body
        if_atom = b[1]
        atom_prefix = if_atom.test.args[0]
        if_end = if_atom.orelse[0]
        end_prefix = if_end.test.args[0]
        inner = [s for s in b if isinstance(s, ast.For)][0]
        if_delim = inner.body[0]
        if_blank = if_delim.body[1]
        defaults = []
        for s in if_blank.body:
            cn = s.test.comparators[0]
            val = s.body[0].value
            defaults.append((cn, val))
            holes += [cn, val]
        if_type = if_delim.body[2]
        int_tag = if_type.test.comparators[0]
        real_tag = if_type.orelse[0].test.comparators[0]
        int_fn = if_type.body[0].value.func
        real_fn = if_type.orelse[0].body[0].value.func
        holes += [atom_prefix, end_prefix, int_tag, real_tag]
    except (IndexError, AttributeError) as e:
        raise Untranslatable(f'_create_table loop has an unexpected shape ({e})')
    # the default list itself is a hole region: mask the whole list of ifs by masking pairs;
    h = skel_hash(loop, holes)
    if skeletons.get('create_table_loop') not in (None, h) or len(defaults) != skeletons.get('create_table_ndefaults', len(defaults)):
        raise Untranslatable(f'_create_table loop skeleton changed ({h})')
    skeletons.setdefault('create_table_loop', h)
    skeletons.setdefault('create_table_ndefaults', len(defaults))
    if not (isinstance(int_fn, ast.Name) and int_fn.id == 'int' and isinstance(real_fn, ast.Name) and real_fn.id == 'float'):
        raise Untranslatable('conversion functions are not int()/float()')
    out = header(region_info(lines, loop, CORE))
    out += f'Definition atom_prefix_src : string := {coq_string(literal(atom_prefix))}.\n'
    out += f'Definition endmdl_prefix_src : string := {coq_string(literal(end_prefix))}.\n'
    out += f'Definition int_tag_src : string := {coq_string(literal(int_tag))}.\n'
    out += f'Definition real_tag_src : string := {coq_string(literal(real_tag))}.\n'
    items = []
    for cn, val in defaults:
        name = literal(cn)
        if isinstance(val, ast.Constant) and isinstance(val.value, (int, float)) and not isinstance(val.value, bool):
            items.append(f'({coq_string(name)}, DConst {coq_Q(val.value)})')
        elif isinstance(val, ast.Call) and dotted(val.func) == 'pdb2sql._get_chainID' and len(val.args) == 1 and isinstance(val.args[0], ast.Name) and val.args[0].id == 'line':
            items.append(f'({coq_string(name)}, DChainFromSegID)')
        elif isinstance(val, ast.Call) and dotted(val.func) == 'pdb2sql._get_element' and len(val.args) == 1 and isinstance(val.args[0], ast.Name) and val.args[0].id == 'line':
            items.append(f'({coq_string(name)}, DElementGuess)')
        else:
            fail(val, 'blank-field default')
    out += 'Definition blank_defaults_src : list (string * blank_default) :=\n  [' + '; '.join(items) + '].\n'
    return out

# ----------------------------------------------------------------------------------------
def r_linelength(repo):
    tree, lines = load(repo, CORE)
    fn = find_func(find_class(tree, 'pdb2sql'), '_format_pdb_linelength')
    tr = FunTr('str')
    # len() yields nat; 80 - linelen is nat subtraction (guarded by linelen < 80); ' ' * k
    class T(FunTr):
        def expr(self, n, env):
            if isinstance(n, ast.BinOp) and isinstance(n.op, ast.Sub):
                l, lt = super().expr(n.left, env)
                r, rt = super().expr(n.right, env)
                if 'nat' in (lt, rt):
                    return f'({self.as_nat(l, lt, n)} - {self.as_nat(r, rt, n)})%nat', 'nat'
            return super().expr(n, env)
    tr = T('str')
    return header(region_info(lines, fn, CORE)) + tr.function(fn, 'linelength_src', {'pdb_line': 'str'})

def r_get_chainID(repo):
    tree, lines = load(repo, CORE)
    fn = find_func(find_class(tree, 'pdb2sql'), '_get_chainID')
    tr = FunTr('str', ignore_calls=['warnings.warn'])
    return header(region_info(lines, fn, CORE)) + tr.function(fn, 'get_chainID_src', {'pdb_line': 'str'})

def r_get_element(repo):
    tree, lines = load(repo, CORE)
    fn = find_func(find_class(tree, 'pdb2sql'), '_get_element')
    tr = FunTr('str', ignore_calls=['warnings.warn'])
    return header(region_info(lines, fn, CORE)) + tr.function(fn, 'get_element_src', {'pdb_line': 'str'})

# ----------------------------------------------------------------------------------------
def r_format_xyz(repo):
    tree, lines = load(repo, BASE)
    fn = find_func(find_class(tree, 'pdb2sql_base'), '_format_xyz')
    tr = FunTr('str')
    return header(region_info(lines, fn, BASE)) + tr.function(fn, 'format_xyz_src', {'i': 'Q'})

def r_format_atomname(repo):
    tree, lines = load(repo, BASE)
    fn = find_func(find_class(tree, 'pdb2sql_base'), '_format_atomname')
    tr = FunTr('str', subscript_names={('data', 1): 'data_name', ('data', 12): 'data_element'})
    return header(region_info(lines, fn, BASE)) + tr.function(
        fn, 'format_atomname_src', {'data_name': 'str', 'data_element': 'str'}, skip_params=('self', 'data'))

def r_export_layout(repo):
    """data2pdb: the sequence of pieces making one line"""
    tree, lines = load(repo, BASE)
    fn = find_func(find_class(tree, 'pdb2sql_base'), 'data2pdb')
    loops = [s for s in fn.body if isinstance(s, ast.For)]
    if len(loops) != 1 or not (isinstance(loops[0].target, ast.Name) and loops[0].target.id == 'd'):
        raise Untranslatable('data2pdb loop not found')
    body = loops[0].body
    pieces = []
    def piece(e):
        if isinstance(e, ast.Constant) and isinstance(e.value, str):
            return f'PLit {coq_string(e.value)}'
        if isinstance(e, ast.BinOp) and isinstance(e.op, ast.Mult) and isinstance(e.left, ast.Constant) \
                and isinstance(e.left.value, str) and isinstance(e.right, ast.Constant) and isinstance(e.right.value, int):
            return f'PLit {coq_string(e.left.value * e.right.value)}'
        if isinstance(e, ast.Call):
            f = e.func
            if isinstance(f, ast.Attribute) and f.attr == 'format' and isinstance(f.value, ast.Constant) and len(e.args) == 1:
                align, width, prec, kind = parse_format(f.value.value, e)
                a = e.args[0]
                if not (isinstance(a, ast.Subscript) and isinstance(a.value, ast.Name) and a.value.id == 'd' and isinstance(a.slice, ast.Constant)):
                    fail(e, 'format argument')
                al = {'>': 'ARight', '<': 'ALeft', '^': 'ACenter'}[align]
                if kind == 'f':
                    return f'PFixed {a.slice.value}%nat {al} {width}%nat {prec}%nat'
                if kind == '' and prec is None:
                    return f'PField {a.slice.value}%nat {al} {width}%nat'
                fail(e, 'format kind')
            name = dotted(f)
            if name == 'self._format_atomname' and len(e.args) == 1 and isinstance(e.args[0], ast.Name) and e.args[0].id == 'd':
                return 'PAtomName'
            if name == 'pdb2sql_base._format_xyz' and len(e.args) == 1:
                a = e.args[0]
                if isinstance(a, ast.Subscript) and isinstance(a.value, ast.Name) and a.value.id == 'd' and isinstance(a.slice, ast.Constant):
                    return f'PXyz {a.slice.value}%nat'
        fail(e, 'line piece')
    first = True
    for s in body:
        if first:
            if not (isinstance(s, ast.Assign) and isinstance(s.targets[0], ast.Name) and s.targets[0].id == 'line'):
                fail(s, 'first statement of data2pdb loop')
            pieces.append(piece(s.value)); first = False
        elif isinstance(s, ast.AugAssign) and isinstance(s.op, ast.Add) and isinstance(s.target, ast.Name) and s.target.id == 'line':
            pieces.append(piece(s.value))
        elif isinstance(s, ast.Expr) and isinstance(s.value, ast.Call) and dotted(s.value.func) == 'pdb.append' \
                and isinstance(s.value.args[0], ast.Name) and s.value.args[0].id == 'line' and s is body[-1]:
            pass
        else:
            fail(s, 'statement in data2pdb loop')
    out = header(region_info(lines, fn, BASE))
    out += 'Definition export_layout_src : list piece :=\n  [' + ';\n   '.join(pieces) + '].\n'
    # sql2pdb asks the columns in self.col order
    fn2 = find_func(find_class(tree, 'pdb2sql_base'), 'sql2pdb')
    ok = any(isinstance(s, ast.Assign) and ast.dump(s.value, annotate_fields=False) ==
             ast.dump(ast.parse("','.join(self.col.keys())").body[0].value, annotate_fields=False) for s in fn2.body)
    if not ok:
        raise Untranslatable('sql2pdb no longer requests the columns of self.col in order')
    return out

# ----------------------------------------------------------------------------------------
def r_capri(repo):
    tree, lines = load(repo, SIM)
    fn = find_func(find_class(tree, 'StructureSimilarity'), 'compute_CapriClass')
    tr = FunTr('str', ignore_calls=['warnings.warn'])
    return header(region_info(lines, fn, SIM)) + tr.function(
        fn, 'capri_src', {'fnat': 'Q', 'lrmsd': 'Q', 'irmsd': 'Q', 'system': 'str'})

def r_dockq(repo):
    tree, lines = load(repo, SIM)
    fn = find_func(find_class(tree, 'StructureSimilarity'), 'compute_DockQScore')
    body = strip_doc(fn.body)
    if not (len(body) == 3 and isinstance(body[0], ast.FunctionDef) and body[0].name == 'scale_rms'):
        raise Untranslatable('compute_DockQScore shape')
    inner = body[0]
    itr = FunTr('Q')
    out = header(region_info(lines, fn, SIM))
    # scale_rms has a bare return of an arithmetic expression: total
    if not (len(inner.body) == 1 and isinstance(inner.body[0], ast.Return)):
        raise Untranslatable('scale_rms shape')
    env = {}
    env, rn = itr.bind(env, 'rms', 'Q')
    env, dn = itr.bind(env, 'd', 'Q')
    t, ty = itr.expr(inner.body[0].value, env)
    out += f'Definition scale_rms_src ({rn} {dn} : Q) : Q := {itr.as_Q(t, ty, inner)}.\n'
    # dockq = expr ; return round(dockq, 6): split raw value and rounding
    if not (isinstance(body[1], ast.Assign) and isinstance(body[2], ast.Return)):
        raise Untranslatable('compute_DockQScore shape')
    tr = FunTr('Q', helpers={'scale_rms': ('scale_rms_src', ['Q', 'Q'], 'Q', False)})
    env = {}
    binders = []
    for p in ['fnat', 'lrmsd', 'irmsd', 'd1', 'd2']:
        env, cn = tr.bind(env, p, 'Q')
        binders.append(cn)
    t, ty = tr.expr(body[1].value, env)
    out += f'Definition dockq_raw_src ({" ".join(binders)} : Q) : Q := {tr.as_Q(t, ty, body[1])}.\n'
    r = body[2].value
    if not (isinstance(r, ast.Call) and isinstance(r.func, ast.Name) and r.func.id == 'round' and len(r.args) == 2
            and isinstance(r.args[0], ast.Name) and r.args[0].id == body[1].targets[0].id and isinstance(r.args[1], ast.Constant)):
        raise Untranslatable('compute_DockQScore return shape')
    out += f'Definition dockq_digits_src : nat := {int(r.args[1].value)}%nat.\n'
    defaults = [literal(d) for d in fn.args.defaults]
    if len(defaults) != 2:
        raise Untranslatable('compute_DockQScore defaults')
    out += f'Definition dockq_d1_src : Q := {coq_Q(defaults[0])}.\nDefinition dockq_d2_src : Q := {coq_Q(defaults[1])}.\n'
    return out

def r_rmsd(repo):
    tree, lines = load(repo, SIM)
    fn = find_func(find_class(tree, 'StructureSimilarity'), 'get_rmsd')
    body = strip_doc(fn.body)
    want = ast.parse("n = len(P)\nreturn round(np.sqrt(1. / n * np.sum((P - Q)**2)), DIGITS)").body
    if len(body) != 2:
        raise Untranslatable('get_rmsd shape')
    try:
        digits = body[1].value.args[1]
        d = literal(digits)
    except Exception:
        raise Untranslatable('get_rmsd shape')
    if masked_dump(ast.Module(body=body, type_ignores=[]), [digits]) != masked_dump(ast.Module(body=want, type_ignores=[]), [want[1].value.args[1]]):
        raise Untranslatable('get_rmsd is no longer round(sqrt(1/n * sum((P-Q)**2)), k)')
    out = header(region_info(lines, fn, SIM))
    out += '(* rmsd P Q = round (sqrt (msd P Q)) digits, msd = (1/n) * sum of squared coordinate differences *)\n'
    out += 'Definition rmsd_shape_src : rmsd_shape := RmsdRoundSqrtMeanSq.\n'
    out += f'Definition rmsd_digits_src : nat := {int(d)}%nat.\n'
    return out

def r_zone_format(repo):
    """the '%' format of a zone line in StructureSimilarity._write_zone and its argument tuple"""
    tree, lines = load(repo, SIM)
    fn = find_func(find_class(tree, 'StructureSimilarity'), '_write_zone')
    writes = [n for n in ast.walk(fn) if isinstance(n, ast.Call) and isinstance(n.func, ast.Attribute) and n.func.attr == 'write']
    if len(writes) != 1:
        raise Untranslatable('_write_zone: expected exactly one write call')
    arg = writes[0].args[0]
    if not (isinstance(arg, ast.BinOp) and isinstance(arg.op, ast.Mod) and isinstance(arg.left, ast.Constant)
            and isinstance(arg.left.value, str) and isinstance(arg.right, ast.Tuple)):
        fail(arg, 'zone line is not a %-format of a tuple')
    fmt = arg.left.value
    names = []
    for e in arg.right.elts:
        if not isinstance(e, ast.Name):
            fail(e, 'zone format argument')
        names.append(e.id)
    # which local holds the chain / the number: chain = res[0]; num = res[1]
    roles = {}
    for s in ast.walk(fn):
        if isinstance(s, ast.Assign) and isinstance(s.targets[0], ast.Name) and isinstance(s.value, ast.Subscript) \
                and isinstance(s.value.slice, ast.Constant) and isinstance(s.value.value, ast.Name) and s.value.value.id == 'res':
            roles[s.targets[0].id] = s.value.slice.value
    pieces = []
    i = 0
    k = 0
    lit = ''
    while i < len(fmt):
        if fmt[i] == '%':
            if i + 1 >= len(fmt) or fmt[i + 1] not in 'sd' or k >= len(names):
                raise Untranslatable(f'zone format {fmt!r}')
            if lit:
                pieces.append(f'ZLit {coq_string(lit)}'); lit = ''
            role = roles.get(names[k])
            if fmt[i + 1] == 's' and role == 0:
                pieces.append('ZChain')
            elif fmt[i + 1] == 'd' and role == 1:
                pieces.append('ZNum')
            else:
                raise Untranslatable(f'zone format: %{fmt[i+1]} applied to {names[k]}')
            k += 1; i += 2
        else:
            lit += fmt[i]; i += 1
    if lit:
        pieces.append(f'ZLit {coq_string(lit)}')
    if k != len(names):
        raise Untranslatable('zone format: unused arguments')
    # the file must be published atomically: written to a temporary name, then os.replace
    calls = [dotted(n.func) for n in ast.walk(fn) if isinstance(n, ast.Call) and isinstance(n.func, (ast.Attribute, ast.Name))]
    atomic = 'tempfile.mkstemp' in calls and 'os.replace' in calls and 'open' not in calls
    out = header(region_info(lines, fn, SIM))
    out += 'Definition zone_format_src : list zpiece :=\n  [' + '; '.join(pieces) + '].\n'
    out += f'Definition zone_write_atomic_src : bool := {"true" if atomic else "false"}.\n'
    return out

# ----------------------------------------------------------------------------------------
GROUPS = {
    'Generated_parse.v': {
        'imports': 'From Verif Require Import PyLib ModelTypes.\nOpen Scope string_scope.\n',
        'regions': [('const', r_const), ('create_table_loop', r_create_table_loop),
                    ('linelength', r_linelength), ('get_chainID', r_get_chainID), ('get_element', r_get_element)],
    },
    'Generated_export.v': {
        'imports': 'From Verif Require Import PyLib ModelTypes.\nOpen Scope string_scope.\n',
        'regions': [('format_xyz', r_format_xyz), ('format_atomname', r_format_atomname),
                    ('export_layout', r_export_layout)],
    },
    'Generated_zone.v': {
        'imports': 'From Verif Require Import PyLib ModelTypes.\nOpen Scope string_scope.\n',
        'regions': [('zone_format', r_zone_format)],
    },
    'Generated_scores.v': {
        'imports': 'From Verif Require Import PyLib ModelTypes.\nOpen Scope string_scope.\n',
        'regions': [('capri', r_capri), ('dockq', r_dockq), ('rmsd', r_rmsd)],
    },
}

def _load_cluster_groups():
    """merge GROUPS_<k> of every translator/regions_<k>.py (cluster files) into GROUPS"""
    import glob, importlib
    here = os.path.dirname(os.path.abspath(__file__))
    for p in sorted(glob.glob(os.path.join(here, 'regions_*.py'))):
        name = os.path.basename(p)[:-3]
        mod = importlib.import_module(name)
        importlib.reload(mod)
        for k, v in vars(mod).items():
            if k.startswith('GROUPS_') and isinstance(v, dict):
                GROUPS.update(v)

def generate(repo, coqdir, golden_dir, update_golden=False):
    """returns status dict: region -> {status: regenerated|fallback|failed, error, ...}"""
    import inspect
    skel_path = os.path.join(golden_dir, 'skeletons.json')
    skeletons = json.load(open(skel_path)) if os.path.exists(skel_path) else {}
    if update_golden:
        skeletons = {}
    status = {}
    SRC.clear()
    _load_cluster_groups()
    for fname, grp in GROUPS.items():
        text = '(* GENERATED by /verif/translator from /repo — do not edit *)\n' + grp['imports']
        for rid, fn in grp['regions']:
            gpath = os.path.join(golden_dir, rid + '.v')
            try:
                if 'skeletons' in inspect.signature(fn).parameters:
                    t = fn(repo, skeletons)
                else:
                    t = fn(repo)
                status[rid] = {'status': 'regenerated', 'file': fname}
                if update_golden:
                    open(gpath, 'w').write(t)
            except (Untranslatable, SyntaxError, OSError, KeyError) as e:
                if os.path.exists(gpath):
                    t = '(* FALLBACK: region could not be regenerated; committed golden text *)\n' + open(gpath).read()
                    status[rid] = {'status': 'fallback', 'file': fname, 'error': str(e)[:500]}
                else:
                    t = f'(* region {rid} failed and has no golden text *)\n'
                    status[rid] = {'status': 'failed', 'file': fname, 'error': str(e)[:500]}
            if os.path.exists(gpath) and status[rid]['status'] == 'regenerated':
                status[rid]['same_as_golden'] = (body_of(open(gpath).read()) == body_of(t))
            text += f'\n(* ---- region {rid} ---- *)\n' + t
        p = os.path.join(coqdir, fname)
        if not os.path.exists(p) or open(p).read() != text:
            open(p, 'w').write(text)
    if update_golden:
        json.dump(skeletons, open(skel_path, 'w'), indent=1, sort_keys=True)
    return status

def body_of(t):
    return '\n'.join(l for l in t.split('\n') if not l.startswith('(* source:') and not l.startswith('(* FALLBACK'))

if __name__ == '__main__':
    here = os.path.dirname(os.path.abspath(__file__))
    repo = sys.argv[1] if len(sys.argv) > 1 else '/repo'
    upd = '--update-golden' in sys.argv
    st = generate(repo, os.path.join(here, '..', 'coq'), os.path.join(here, '..', 'coq', 'golden'), upd)
    print(json.dumps(st, indent=1))
