"""regions_sql.py — translator regions of cluster sql (C03, C04, C17).

The control skeletons of get()/update() are hand-modelled (Model_sql.v); what is regenerated here
are the constants and leaf expressions those skeletons are built from, read at expression level
(harmless rewrites — renamed locals, reordered statements, reformatting — still translate):

  sql_get_consts     pdb2sqlcore.py:get        'no_' prefix and its slice, the 'rowID' key, the +1 on
                                                condition values, the -1 on output, the two limit
                                                comparisons, the flattening width, default table name
  sql_update_consts  pdb2sqlcore.py:update / update_column / add_column   the +1 on row addresses,
                                                the UPDATE / ALTER statement texts, defaults
  sql_views          pdb2sql_base.py:get_xyz / get_residues / get_chains / update_xyz   attribute
                                                strings and default table names
  sql_tablenames     many2sql.py:__init__      'ATOM', 'ATOM'+str(i)

Fail-closed: a pattern that is not found exactly as often as expected raises Untranslatable.
Coq side: coq/Generated_sql.v; the theorems of Proofs_sql_src.v state that the hand-written model
is built from exactly these values (a semantic change of the source breaks them)."""
import ast
from py2coq import *
from regions import load, header, CORE, BASE, MANY

def _const(n, ty):
    return isinstance(n, ast.Constant) and isinstance(n.value, ty) and not (ty is int and isinstance(n.value, bool))

def _one(vals, what):
    s = set(vals)
    if len(s) != 1:
        raise Untranslatable(f'{what}: expected one consistent value, found {sorted(map(repr, s))}')
    return s.pop()

def _cmp_name(op):
    names = {ast.Gt: '>', ast.GtE: '>=', ast.Lt: '<', ast.LtE: '<=', ast.Eq: '==', ast.NotEq: '!='}
    for k, v in names.items():
        if isinstance(op, k):
            return v
    raise Untranslatable('comparison operator')

def _attr_self(n, name):
    return isinstance(n, ast.Attribute) and isinstance(n.value, ast.Name) and n.value.id == 'self' and n.attr == name

def _default_of(fn, pname):
    args = fn.args
    names = [a.arg for a in args.args]
    if pname not in names:
        raise Untranslatable(f'{fn.name}: no parameter {pname}')
    i = names.index(pname) - (len(names) - len(args.defaults))
    if i < 0 or not _const(args.defaults[i], str):
        raise Untranslatable(f'{fn.name}: parameter {pname} has no string default')
    return args.defaults[i].value

def _plus_const(n):
    """x + c with c an int literal -> c"""
    if isinstance(n, ast.BinOp) and isinstance(n.op, ast.Add) and _const(n.right, int):
        return n.right.value
    return None

def r_sql_get_consts(repo):
    tree, lines = load(repo, CORE)
    fn = find_func(find_class(tree, 'pdb2sql'), 'get')
    prefixes, slices, keys, in_shifts, out_shifts, chunk_cmp, limit_cmp, flat = [], [], [], [], [], [], [], []
    for n in ast.walk(fn):
        # if k.startswith('no_'): k = k[3:]
        if isinstance(n, ast.If) and isinstance(n.test, ast.Call) and isinstance(n.test.func, ast.Attribute) \
                and n.test.func.attr == 'startswith' and len(n.test.args) == 1 and _const(n.test.args[0], str):
            prefixes.append(n.test.args[0].value)
            for s in n.body:
                if isinstance(s, ast.Assign) and isinstance(s.value, ast.Subscript) and isinstance(s.value.slice, ast.Slice) \
                        and s.value.slice.upper is None and s.value.slice.step is None and _const(s.value.slice.lower, int):
                    slices.append(s.value.slice.lower.value)
        # k == 'rowID'
        if isinstance(n, ast.Compare) and len(n.ops) == 1 and isinstance(n.ops[0], ast.Eq) and isinstance(n.left, ast.Name) \
                and _const(n.comparators[0], str):
            keys.append(n.comparators[0].value)
        # int(v + 1)
        if isinstance(n, ast.Call) and isinstance(n.func, ast.Name) and n.func.id == 'int' and len(n.args) == 1:
            c = _plus_const(n.args[0])
            if c is not None:
                in_shifts.append(c)
        # data[i][index] -= 1
        if isinstance(n, ast.AugAssign) and isinstance(n.op, ast.Sub) and isinstance(n.target, ast.Subscript) and _const(n.value, int):
            out_shifts.append(n.value.value)
        if isinstance(n, ast.Compare) and len(n.ops) == 1:
            r = n.comparators[0]
            if _attr_self(r, 'max_sql_values'):
                chunk_cmp.append(_cmp_name(n.ops[0]))
            if _attr_self(r, 'SQLITE_LIMIT_VARIABLE_NUMBER'):
                limit_cmp.append(_cmp_name(n.ops[0]))
            # len(data[0]) == 1
            if isinstance(n.left, ast.Call) and isinstance(n.left.func, ast.Name) and n.left.func.id == 'len' and _const(r, int) \
                    and isinstance(n.ops[0], ast.Eq) and isinstance(n.left.args[0], ast.Subscript):
                flat.append(r.value)
    if len(prefixes) != 2 or len(slices) != 2:
        raise Untranslatable(f'get: expected the negation prefix test twice, found {len(prefixes)}/{len(slices)}')
    prefix = _one(prefixes, 'negation prefix')
    cut = _one(slices, 'negation prefix slice')
    if len(in_shifts) != 2 or len(out_shifts) != 1:
        raise Untranslatable(f'get: rowID shifts: in {in_shifts} out {out_shifts}')
    if len(chunk_cmp) != 1 or len(limit_cmp) != 1 or len(flat) != 1:
        raise Untranslatable(f'get: limit comparisons {chunk_cmp} {limit_cmp}, flatten {flat}')
    out = header(region_info(lines, fn, CORE))
    out += f'Definition neg_prefix_src : string := {coq_string(prefix)}.\n'
    out += f'Definition neg_prefix_cut_src : nat := {int(cut)}%nat.\n'
    out += f'Definition rowid_key_src : string := {coq_string(_one(keys, "rowID key"))}.\n'
    out += f'Definition rowid_in_shift_src : Z := {int(_one(in_shifts, "rowID shift on conditions"))}.\n'
    out += f'Definition rowid_out_shift_src : Z := {int(out_shifts[0])}.\n'
    out += f'Definition chunk_cmp_src : string := {coq_string(chunk_cmp[0])}.\n'
    out += f'Definition limit_cmp_src : string := {coq_string(limit_cmp[0])}.\n'
    out += f'Definition flatten_width_src : nat := {int(flat[0])}%nat.\n'
    out += f'Definition get_default_table_src : string := {coq_string(_default_of(fn, "tablename"))}.\n'
    return out

def r_sql_update_consts(repo):
    tree, lines = load(repo, CORE)
    cls = find_class(tree, 'pdb2sql')
    up, uc, ac = find_func(cls, 'update'), find_func(cls, 'update_column'), find_func(cls, 'add_column')
    def shifts(fn):
        out = []
        for n in ast.walk(fn):
            c = _plus_const(n)
            if c is not None and not isinstance(n.left, ast.Constant) and not (isinstance(n.left, ast.BinOp)):
                if isinstance(n.left, (ast.Subscript, ast.Name, ast.Call)):
                    out.append(c)
        return out
    def strs(fn):
        return [n.value for n in ast.walk(fn) if _const(n, str)]
    su, sc = shifts(up), shifts(uc)
    if len(su) != 1 or len(sc) != 2:
        raise Untranslatable(f'update/update_column: row address shifts {su} {sc}')
    where = [s for s in strs(up) if 'WHERE' in s]
    upd = [s for s in strs(up) if s.startswith('UPDATE')]
    ucq = [s for s in strs(uc) if s.startswith('UPDATE')]
    alt = [s for s in strs(ac) if s.startswith('ALTER')]
    if len(where) != 1 or len(upd) != 1 or len(ucq) != 1 or len(alt) != 1:
        raise Untranslatable('update/update_column/add_column: statement texts')
    out = header(region_info(lines, up, CORE))
    out += f'Definition update_shift_src : Z := {int(su[0])}.\n'
    out += f'Definition update_column_shift_src : Z := {int(_one(sc, "update_column shift"))}.\n'
    out += f'Definition update_head_src : string := {coq_string(upd[0])}.\n'
    out += f'Definition update_where_src : string := {coq_string(where[0])}.\n'
    out += f'Definition update_column_query_src : string := {coq_string(ucq[0])}.\n'
    out += f'Definition add_column_query_src : string := {coq_string(alt[0])}.\n'
    out += f'Definition update_default_table_src : string := {coq_string(_default_of(up, "tablename"))}.\n'
    out += f'Definition update_column_default_table_src : string := {coq_string(_default_of(uc, "tablename"))}.\n'
    out += f'Definition add_column_default_table_src : string := {coq_string(_default_of(ac, "tablename"))}.\n'
    out += f'Definition add_column_default_type_src : string := {coq_string(_default_of(ac, "coltype"))}.\n'
    return out

def r_sql_views(repo):
    tree, lines = load(repo, BASE)
    cls = find_class(tree, 'pdb2sql_base')
    out = ''
    def first_str_arg(fn, callee):
        found = []
        for n in ast.walk(fn):
            if isinstance(n, ast.Call) and isinstance(n.func, ast.Attribute) and _attr_self(n.func, callee) \
                    and n.args and _const(n.args[0], str):
                found.append(n.args[0].value)
                # tablename must be threaded through
                if not any(k.arg == 'tablename' and isinstance(k.value, ast.Name) and k.value.id == 'tablename' for k in n.keywords):
                    raise Untranslatable(f'{fn.name}: tablename is not passed on to self.{callee}')
                if not any(k.arg is None for k in n.keywords):
                    raise Untranslatable(f'{fn.name}: **kwargs is not passed on to self.{callee}')
        if len(found) != 1:
            raise Untranslatable(f'{fn.name}: expected one call self.{callee}(<str>, ...)')
        return found[0]
    spec = [('get_xyz', 'get', 'xyz'), ('get_residues', 'get', 'residues'), ('get_chains', 'get', 'chains'), ('update_xyz', 'update', 'update_xyz')]
    first = None
    for fname, callee, tag in spec:
        fn = find_func(cls, fname)
        first = first or fn
        out += f'Definition {tag}_columns_src : string := {coq_string(first_str_arg(fn, callee))}.\n'
        out += f'Definition {tag}_default_table_src : string := {coq_string(_default_of(fn, "tablename"))}.\n'
    return header(region_info(lines, first, BASE)) + out

def r_sql_tablenames(repo):
    tree, lines = load(repo, MANY)
    fn = find_func(find_class(tree, 'many2sql'), '__init__')
    base, pref = [], []
    for n in ast.walk(fn):
        if isinstance(n, ast.Assign) and isinstance(n.value, ast.List) and len(n.value.elts) == 1 and _const(n.value.elts[0], str) \
                and isinstance(n.targets[0], ast.Attribute) and n.targets[0].attr == 'tablenames':
            base.append(n.value.elts[0].value)
        if isinstance(n, ast.BinOp) and isinstance(n.op, ast.Add) and _const(n.left, str) and isinstance(n.right, ast.Call) \
                and isinstance(n.right.func, ast.Name) and n.right.func.id == 'str':
            pref.append(n.left.value)
    if len(base) != 1 or len(pref) != 1:
        raise Untranslatable(f'many2sql.__init__: default table names {base} {pref}')
    out = header(region_info(lines, fn, MANY))
    out += f'Definition many_first_table_src : string := {coq_string(base[0])}.\n'
    out += f'Definition many_table_prefix_src : string := {coq_string(pref[0])}.\n'
    return out

GROUPS_sql = {
    'Generated_sql.v': {
        'imports': 'From Verif Require Import PyLib ModelTypes.\nOpen Scope string_scope.\n',
        'regions': [('sql_get_consts', r_sql_get_consts), ('sql_update_consts', r_sql_update_consts),
                    ('sql_views', r_sql_views), ('sql_tablenames', r_sql_tablenames)],
    },
}
