"""regions_geom.py — registered regions of the geometry cluster (C10, C06, C18).

Same contract as regions.py: every recipe r_xxx(repo) -> Coq text, fail-closed
(raise Untranslatable), working on expressions (local names are irrelevant, constant
sub-expressions are folded by Python's own evaluation of literals only).

All arithmetic is emitted ONCE, polymorphic in a dictionary  N : Num T  (Model_geom_num.v);
Run_geom.v instantiates it at NumQ (executable, extracted), Proofs_geom_*.v at NumR.

GeoTr is a small typed translator for the NumPy fragment these functions use:
  num | vec3 | mat3 | pts (n x 3 array) | ptsT (its transpose) | angle (only through cos/sin)
"""
import ast, os, sys
from py2coq import *

TRANS = 'pdb2sql/transform.py'
SUP = 'pdb2sql/superpose.py'
ALIGN = 'pdb2sql/align.py'

def load(repo, rel):
    txt = open(os.path.join(repo, rel)).read()
    return ast.parse(txt), txt.split('\n')

def header(info):
    return f'(* source: {info["file"]}:{info["lines"][0]}-{info["lines"][1]} sha1 {info["sha1"]} *)\n'

# ----------------------------------------------------------------------------------------
class GeoTr:
    def __init__(self, env=None):
        self.env = dict(env or {})     # python name -> (coq text | tuple, type)
        self.fresh = 0
        self.used = set()              # python names read since the last reset

    def bind(self, name, text, ty):
        self.env[name] = (text, ty)

    def newname(self, base):
        self.fresh += 1
        return f'{base}_{self.fresh}'

    # ---- numbers -------------------------------------------------------------------------
    def lit(self, v):
        if isinstance(v, bool):
            raise Untranslatable('bool literal in arithmetic')
        if isinstance(v, int):
            return f'(nofZ N ({v}))'
        n, d = q_of_float(v)
        if d == 1:
            return f'(nofZ N ({n}))'
        return f'(ndiv N (nofZ N ({n})) (nofZ N ({d})))'

    def as_num(self, t, ty, n):
        if ty == 'num':
            return t
        fail(n, f'{ty} used as a number')

    def expr(self, n):
        """-> (coq text, type)"""
        if isinstance(n, ast.Constant) and isinstance(n.value, (int, float)) and not isinstance(n.value, bool):
            return self.lit(n.value), 'num'
        if isinstance(n, ast.Name):
            if n.id in self.env:
                self.used.add(n.id)
                return self.env[n.id]
            fail(n, f'unknown name {n.id}')
        if isinstance(n, ast.Attribute):
            try:
                name = dotted(n)
            except Untranslatable:
                name = None
            if name in self.env:                       # np.pi
                return self.env[name]
            if n.attr == 'T':
                t, ty = self.expr(n.value)
                if ty == 'mat3':
                    return f'(mtrans {t})', 'mat3'
                if ty == 'pts':
                    return t, 'ptsT'
                if ty == 'ptsT':
                    return t, 'pts'
                fail(n, f'.T of {ty}')
            fail(n, 'attribute')
        if isinstance(n, ast.UnaryOp) and isinstance(n.op, ast.USub):
            t, ty = self.expr(n.operand)
            if ty == 'num':
                return f'(nopp N {t})', 'num'
            if ty == 'vec3':
                return f'(vopp N {t})', 'vec3'
            fail(n, f'unary minus on {ty}')
        if isinstance(n, ast.BinOp):
            return self.binop(n)
        if isinstance(n, ast.Subscript):
            base, bty = self.expr(n.value)
            idx = n.slice
            if bty == 'mat3' and isinstance(idx, ast.Tuple) and len(idx.elts) == 2 \
                    and all(isinstance(e, ast.Constant) and e.value in (0, 1, 2) for e in idx.elts):
                i, j = (e.value for e in idx.elts)
                return f'(m{i}{j} {base})', 'num'
            fail(n, 'subscript')
        if isinstance(n, (ast.List, ast.Tuple)) and len(n.elts) == 3:
            parts = [self.as_num(*self.expr(e), n) for e in n.elts]
            return '(V3 ' + ' '.join(parts) + ')', 'vec3'
        if isinstance(n, ast.Call):
            return self.call(n)
        fail(n, 'expression')

    def binop(self, n):
        if isinstance(n.op, ast.Pow):
            if isinstance(n.right, ast.Constant) and n.right.value == 2:
                t = self.as_num(*self.expr(n.left), n)
                return f'(nmul N {t} {t})', 'num'
            fail(n, 'power other than 2')
        l, lt = self.expr(n.left)
        r, rt = self.expr(n.right)
        opn = {ast.Add: 'add', ast.Sub: 'sub', ast.Mult: 'mul', ast.Div: 'div'}.get(type(n.op))
        if opn is None:
            fail(n, 'operator')
        if lt == 'num' and rt == 'num':
            return f'(n{opn} N {l} {r})', 'num'
        if lt == 'vec3' and rt == 'vec3' and opn in ('add', 'sub'):
            return f'(v{opn} N {l} {r})', 'vec3'
        if lt == 'pts' and rt == 'vec3' and opn in ('add', 'sub'):      # broadcasting over rows
            return f'(map (fun p_ => v{opn} N p_ {r}) {l})', 'pts'
        if lt == 'mat3' and rt == 'num' and opn == 'div':
            return f'(mdivs N {l} {r})', 'mat3'
        fail(n, f'{lt} {opn} {rt}')

    def matrix_literal(self, n):
        """np.array([[..],[..],[..]]) / np.array([a,b,c])"""
        if isinstance(n, ast.List) and len(n.elts) == 3 and all(isinstance(r, ast.List) and len(r.elts) == 3 for r in n.elts):
            parts = [self.as_num(*self.expr(e), n) for r in n.elts for e in r.elts]
            return '(M3 ' + '\n      '.join(parts) + ')', 'mat3'
        if isinstance(n, ast.List) and len(n.elts) == 3:
            parts = [self.as_num(*self.expr(e), n) for e in n.elts]
            return '(V3 ' + ' '.join(parts) + ')', 'vec3'
        fail(n, 'array literal shape')

    def call(self, n):
        name = dotted(n.func)
        a = n.args
        if n.keywords:
            fail(n, 'keyword arguments')
        if name == 'np.array' and len(a) == 1:
            return self.matrix_literal(a[0])
        if name in ('np.cos', 'np.sin') and len(a) == 1:
            if isinstance(a[0], ast.Name) and a[0].id in self.env and self.env[a[0].id][1] == 'angle':
                c, s = self.env[a[0].id][0]
                return (c if name == 'np.cos' else s), 'num'
            fail(n, 'cos/sin of something that is not a named angle')
        if name == 'np.dot' and len(a) == 2:
            l, lt = self.expr(a[0])
            r, rt = self.expr(a[1])
            if lt == 'mat3' and rt == 'mat3':
                return f'(mmul N {l} {r})', 'mat3'
            if lt == 'mat3' and rt == 'vec3':
                return f'(mvmul N {l} {r})', 'vec3'
            if lt == 'mat3' and rt == 'ptsT':                  # M . X^T  : columns are points
                return f'(map (mvmul N {l}) {r})', 'ptsT'
            if lt == 'ptsT' and rt == 'pts':                   # P^T . Q
                return f'(ptq N {l} {r})', 'mat3'
            fail(n, f'np.dot of {lt} and {rt}')
        if name == 'np.mean' and len(a) == 2 and isinstance(a[1], ast.Constant) and a[1].value == 0:
            t, ty = self.expr(a[0])
            if ty == 'pts':
                return f'(mean N {t})', 'vec3'
            fail(n, f'np.mean of {ty}')
        if name == 'np.abs' and len(a) == 1:
            t, ty = self.expr(a[0])
            if ty == 'vec3':
                return f'(vabs N {t})', 'vec3'
            if ty == 'num':
                return f'(nabs N {t})', 'num'
            fail(n, f'np.abs of {ty}')
        if name == 'np.trace' and len(a) == 1:
            t, ty = self.expr(a[0])
            if ty == 'mat3':
                return f'(mtrace N {t})', 'num'
            fail(n, 'np.trace')
        if name == 'np.linalg.det' and len(a) == 1:
            t, ty = self.expr(a[0])
            if ty == 'mat3':
                return f'(mdet N {t})', 'num'
            fail(n, 'np.linalg.det')
        if name == 'np.eye' and len(a) == 1 and isinstance(a[0], ast.Constant) and a[0].value == 3:
            return '(meye N)', 'mat3'
        fail(n, f'call {name}')

def params(fn):
    return [a.arg for a in fn.args.args]

def is_call(s, name):
    return isinstance(s, ast.Call) and dotted(s.func) == name

def tuple_assign(s, k):
    """a, b = e1, e2  ->  [(name, expr)]"""
    if isinstance(s, ast.Assign) and len(s.targets) == 1 and isinstance(s.targets[0], ast.Tuple) \
            and isinstance(s.value, ast.Tuple) and len(s.targets[0].elts) == k == len(s.value.elts) \
            and all(isinstance(e, ast.Name) for e in s.targets[0].elts):
        return [(t.id, v) for t, v in zip(s.targets[0].elts, s.value.elts)]
    return None

def simple_assign(s):
    if isinstance(s, ast.Assign) and len(s.targets) == 1 and isinstance(s.targets[0], ast.Name):
        return s.targets[0].id, s.value
    return None

def bind_trig(tr, s):
    """ct, st = np.cos(angle), np.sin(angle)  ->  binds ct, st to the (c, s) pair of the angle"""
    ta = tuple_assign(s, 2)
    if not ta:
        fail(s, 'expected  c, s = np.cos(x), np.sin(x)')
    (cn, ce), (sn, se) = ta
    if not (is_call(ce, 'np.cos') and is_call(se, 'np.sin') and len(ce.args) == 1 and len(se.args) == 1
            and ast.dump(ce.args[0]) == ast.dump(se.args[0])):
        fail(s, 'expected  c, s = np.cos(x), np.sin(x)')
    tr.bind(cn, tr.expr(ce)[0], 'num')
    tr.bind(sn, tr.expr(se)[0], 'num')
    return cn, sn, (tr.expr(ce)[0], tr.expr(se)[0])

POLY = '{T : Type} (N : Num T)'

# ----------------------------------------------------------------------------------------
# transform.py
def r_rodrigues(repo):
    tree, lines = load(repo, TRANS)
    fn = find_func(tree, 'rot_xyz_around_axis')
    if params(fn) != ['xyz', 'axis', 'angle', 'center'] or literal(fn.args.defaults[0]) is not None:
        raise Untranslatable('rot_xyz_around_axis signature')
    body = strip_doc(fn.body)
    if len(body) != 4:
        raise Untranslatable('rot_xyz_around_axis: expected 4 statements')
    tr = GeoTr({'angle': (('ct', 'st'), 'angle')})
    bind_trig(tr, body[0])
    # ux, uy, uz = axis
    s = body[1]
    if not (isinstance(s, ast.Assign) and isinstance(s.targets[0], ast.Tuple) and len(s.targets[0].elts) == 3
            and isinstance(s.value, ast.Name) and s.value.id == 'axis'):
        fail(s, 'expected  ux, uy, uz = axis')
    for e, c in zip(s.targets[0].elts, ('ux', 'uy', 'uz')):
        tr.bind(e.id, c, 'num')
    sa = simple_assign(body[2])
    if not sa:
        fail(body[2], 'expected  rot_mat = np.array(...)')
    mt, mty = tr.expr(sa[1])
    if mty != 'mat3':
        fail(body[2], 'rotation matrix is not 3x3')
    # return rotate(xyz, rot_mat, center)
    r = body[3]
    if not (isinstance(r, ast.Return) and is_call(r.value, 'rotate') and len(r.value.args) == 3 and not r.value.keywords
            and [ast.dump(x) for x in r.value.args] == [ast.dump(ast.Name(id='xyz', ctx=ast.Load())),
                                                         ast.dump(ast.Name(id=sa[0], ctx=ast.Load())),
                                                         ast.dump(ast.Name(id='center', ctx=ast.Load()))]):
        fail(r, 'expected  return rotate(xyz, rot_mat, center)')
    out = header(region_info(lines, fn, TRANS))
    out += '(* rot_xyz_around_axis(xyz, axis, angle, center) = rotate(xyz, rodrigues_src ct st ux uy uz, center)\n' \
           '   with (ct, st) = (cos angle, sin angle) and (ux, uy, uz) = axis *)\n'
    out += f'Definition rodrigues_src {POLY} (ct st ux uy uz : T) : mat3 T :=\n  {mt}.\n'
    return out

def r_euler(repo):
    tree, lines = load(repo, TRANS)
    fn = find_func(tree, 'rotation_euler')
    if params(fn) != ['xyz', 'alpha', 'beta', 'gamma', 'center'] or literal(fn.args.defaults[0]) is not None:
        raise Untranslatable('rotation_euler signature')
    body = strip_doc(fn.body)
    if len(body) != 8:
        raise Untranslatable('rotation_euler: expected 8 statements')
    tr = GeoTr({'alpha': (('ca', 'sa'), 'angle'), 'beta': (('cb', 'sb'), 'angle'), 'gamma': (('cg', 'sg'), 'angle')})
    owner = {}
    for s in body[0:3]:
        cn, sn, pr = bind_trig(tr, s)
        owner[cn] = pr
        owner[sn] = pr
    out = header(region_info(lines, fn, TRANS))
    mats = {}
    for s in body[3:6]:
        sa = simple_assign(s)
        if not sa:
            fail(s, 'expected  rX = np.array(...)')
        tr.used = set()
        t, ty = tr.expr(sa[1])
        if ty != 'mat3':
            fail(s, 'not a 3x3 matrix')
        # which (c, s) pair does it use?
        pair = sorted({owner[u] for u in tr.used if u in owner})
        if len(pair) != 1:
            fail(s, 'an Euler factor must use exactly one angle')
        cname = f'euler_{sa[0]}_src'
        out += f'Definition {cname} {POLY} ({pair[0][0]} {pair[0][1]} : T) : mat3 T :=\n  {t}.\n'
        tr.bind(sa[0], f'({cname} N {pair[0][0]} {pair[0][1]})', 'mat3')
        mats[sa[0]] = (cname, pair[0])
    sa = simple_assign(body[6])
    if not sa:
        fail(body[6], 'expected  rot_mat = np.dot(...)')
    t, ty = tr.expr(sa[1])
    if ty != 'mat3':
        fail(body[6], 'product is not a 3x3 matrix')
    r = body[7]
    if not (isinstance(r, ast.Return) and is_call(r.value, 'rotate') and len(r.value.args) == 3 and not r.value.keywords
            and [getattr(x, 'id', None) for x in r.value.args] == ['xyz', sa[0], 'center']):
        fail(r, 'expected  return rotate(xyz, rot_mat, center)')
    out += '(* rotation_euler(xyz, alpha, beta, gamma, center) = rotate(xyz, euler_src ..., center) *)\n'
    out += f'Definition euler_src {POLY} (ca sa cb sb cg sg : T) : mat3 T :=\n  {t}.\n'
    return out

def r_rotate(repo):
    tree, lines = load(repo, TRANS)
    fn = find_func(tree, 'rotate')
    if params(fn) != ['xyz', 'rot_mat', 'center'] or literal(fn.args.defaults[0]) is not None:
        raise Untranslatable('rotate signature')
    body = strip_doc(fn.body)
    if len(body) != 3:
        raise Untranslatable('rotate: expected 3 statements')
    # if center is None: center = <expr>
    s = body[0]
    ok = isinstance(s, ast.If) and not s.orelse and len(s.body) == 1 and isinstance(s.test, ast.Compare) \
        and isinstance(s.test.left, ast.Name) and s.test.left.id == 'center' and len(s.test.ops) == 1 \
        and isinstance(s.test.ops[0], ast.Is) and isinstance(s.test.comparators[0], ast.Constant) \
        and s.test.comparators[0].value is None and simple_assign(s.body[0]) and simple_assign(s.body[0])[0] == 'center'
    if not ok:
        fail(s, 'expected  if center is None: center = ...')
    tr = GeoTr({'xyz': ('xyz', 'pts'), 'rot_mat': ('rot_mat', 'mat3')})
    ct, cty = tr.expr(simple_assign(s.body[0])[1])
    if cty != 'vec3':
        fail(s, 'default centre is not a 3-vector')
    # if not isinstance(center, (list, np.ndarray)): raise TypeError(...)
    s = body[1]
    want = ast.parse('if not isinstance(center, (list, np.ndarray)):\n    raise TypeError("x")').body[0]
    if not (isinstance(s, ast.If) and ast.dump(s.test) == ast.dump(want.test) and len(s.body) == 1 and not s.orelse
            and isinstance(s.body[0], ast.Raise) and is_call(s.body[0].exc, 'TypeError')):
        fail(s, 'expected the isinstance(center, (list, np.ndarray)) / TypeError guard')
    r = body[2]
    if not isinstance(r, ast.Return):
        fail(r, 'expected return')
    tr.bind('center', 'center', 'vec3')
    t, ty = tr.expr(r.value)
    if ty != 'pts':
        fail(r, f'rotate returns {ty}, expected an n x 3 array')
    out = header(region_info(lines, fn, TRANS))
    out += f'Definition rotate_default_center_src {POLY} (xyz : list (vec3 T)) : vec3 T :=\n  {ct}.\n'
    out += '(* a centre that is neither a list nor an ndarray raises: *)\n'
    out += 'Definition rotate_bad_center_exc_src : string := "TypeError".\n'
    out += f'Definition rotate_apply_src {POLY} (xyz : list (vec3 T)) (rot_mat : mat3 T) (center : vec3 T) : list (vec3 T) :=\n  {t}.\n'
    return out

def _db_wrapper(fn, inner_name, extra):
    """xyz = _get_xyz(db, **kwargs); xyz = <inner>(xyz, extra...); _update(db, xyz, **kwargs)"""
    body = strip_doc(fn.body)
    if fn.args.kwarg is None or fn.args.kwarg.arg != 'kwargs' or params(fn) != ['db'] + extra:
        raise Untranslatable(f'{fn.name} signature')
    src = [f'xyz = _get_xyz(db, **kwargs)']
    if inner_name == '+=':
        src.append(f'xyz += {extra[0]}')
    else:
        src.append(f'xyz = {inner_name}(xyz, {", ".join(extra)})')
    src.append('_update(db, xyz, **kwargs)')
    want = ast.parse('\n'.join(src)).body
    if len(body) != 3 or any(ast.dump(a) != ast.dump(b) for a, b in zip(body, want)):
        raise Untranslatable(f'{fn.name} is no longer  get selection -> {inner_name} -> update selection')

def r_dbops(repo):
    """translation / rot_axis / rot_euler / rot_mat and the two helpers"""
    tree, lines = load(repo, TRANS)
    _db_wrapper(find_func(tree, 'translation'), '+=', ['vect'])
    _db_wrapper(find_func(tree, 'rot_axis'), 'rot_xyz_around_axis', ['axis', 'angle'])
    _db_wrapper(find_func(tree, 'rot_euler'), 'rotation_euler', ['alpha', 'beta', 'gamma'])
    _db_wrapper(find_func(tree, 'rot_mat'), 'rotate', ['mat'])
    g = find_func(tree, '_get_xyz')
    u = find_func(tree, '_update')
    wg = ast.parse("def _get_xyz(db, **kwargs):\n    return np.array(db.get('x,y,z', **kwargs))").body[0]
    wu = ast.parse("def _update(db, xyz, **kwargs):\n    db.update('x,y,z', xyz, **kwargs)").body[0]
    if ast.dump(ast.Module(body=strip_doc(g.body), type_ignores=[])) != ast.dump(ast.Module(body=wg.body, type_ignores=[])) \
            or params(g) != ['db'] or g.args.kwarg is None:
        raise Untranslatable('_get_xyz is no longer  np.array(db.get("x,y,z", **kwargs))')
    if ast.dump(ast.Module(body=strip_doc(u.body), type_ignores=[])) != ast.dump(ast.Module(body=wu.body, type_ignores=[])) \
            or params(u) != ['db', 'xyz'] or u.args.kwarg is None:
        raise Untranslatable('_update is no longer  db.update("x,y,z", xyz, **kwargs)')
    tr = GeoTr({'xyz': ('xyz', 'pts'), 'vect': ('vect', 'vec3')})
    t, ty = tr.expr(ast.parse('xyz + vect').body[0].value)
    fn = find_func(tree, 'translation')
    out = header(region_info(lines, fn, TRANS))
    out += '(* every database-level transform is  write_selection (f (read_selection)) with the same selection;\n' \
           '   the columns read and written are: *)\n'
    out += 'Definition db_columns_src : string := "x,y,z".\n'
    out += f'Definition translation_src {POLY} (xyz : list (vec3 T)) (vect : vec3 T) : list (vec3 T) :=\n  {t}.\n'
    out += '(* rot_axis: f = rot_xyz_around_axis(., axis, angle)   [centre: default]\n' \
           '   rot_euler: f = rotation_euler(., alpha, beta, gamma) [centre: default]\n' \
           '   rot_mat: f = rotate(., mat)                           [centre: default] *)\n'
    out += 'Definition db_transforms_use_default_center_src : bool := true.\n'
    return out

def r_rand(repo):
    tree, lines = load(repo, TRANS)
    fn = find_func(tree, 'get_rot_axis_angle')
    body = strip_doc(fn.body)
    if params(fn) != ['seed'] or len(body) != 7:
        raise Untranslatable('get_rot_axis_angle shape')
    want0 = ast.parse('if seed is not None:\n    np.random.seed(seed)').body[0]
    if ast.dump(body[0]) != ast.dump(want0):
        fail(body[0], 'expected  if seed is not None: np.random.seed(seed)')
    ta = tuple_assign(body[1], 2)
    if not ta or not all(ast.dump(e) == ast.dump(ast.parse('np.random.rand()').body[0].value) for _, e in ta):
        fail(body[1], 'expected  u1, u2 = np.random.rand(), np.random.rand()')
    tr = GeoTr({ta[0][0]: ('u1', 'num'), ta[1][0]: ('u2', 'num'), 'np.pi': ('pi', 'num')})
    out = header(region_info(lines, fn, TRANS))
    out += '(* draws, in this order: u1, u2, u3 = np.random.rand() x 3 (after np.random.seed(seed) when a seed is given) *)\n'
    # theta = <num expr>
    th = simple_assign(body[2])
    if not th:
        fail(body[2], 'expected theta = ...')
    t, ty = tr.expr(th[1])
    out += f'Definition rand_theta_src {POLY} (pi u1 u2 : T) : T :=\n  {tr.as_num(t, ty, body[2])}.\n'
    # phi = np.arccos(<num expr>)
    ph = simple_assign(body[3])
    if not (ph and is_call(ph[1], 'np.arccos') and len(ph[1].args) == 1):
        fail(body[3], 'expected phi = np.arccos(...)')
    t, ty = tr.expr(ph[1].args[0])
    out += '(* phi = arccos(rand_cosphi_src): cos phi is this number, sin phi = sqrt(1 - cos^2 phi) >= 0 *)\n'
    out += f'Definition rand_cosphi_src {POLY} (pi u1 u2 : T) : T :=\n  {tr.as_num(t, ty, body[3])}.\n'
    tr.bind(th[0], ('c_theta', 's_theta'), 'angle')
    tr.bind(ph[0], ('c_phi', 's_phi'), 'angle')
    ax = simple_assign(body[4])
    if not ax:
        fail(body[4], 'expected axis = [...]')
    t, ty = tr.expr(ax[1])
    if ty != 'vec3':
        fail(body[4], 'axis is not a 3-vector')
    out += f'Definition rand_axis_src {POLY} (c_theta s_theta c_phi s_phi : T) : vec3 T :=\n  {t}.\n'
    an = simple_assign(body[5])
    if not an:
        fail(body[5], 'expected angle = ...')
    class T2(GeoTr):
        def call(self, n):
            if is_call(n, 'np.random.rand') and not n.args:
                return 'u3', 'num'
            return super().call(n)
    tr2 = T2({'np.pi': ('pi', 'num')})
    t, ty = tr2.expr(an[1])
    out += f'Definition rand_angle_src {POLY} (pi u3 : T) : T :=\n  {tr2.as_num(t, ty, body[5])}.\n'
    r = body[6]
    if not (isinstance(r, ast.Return) and isinstance(r.value, ast.Tuple)
            and [getattr(e, 'id', None) for e in r.value.elts] == [ax[0], an[0]]):
        fail(r, 'expected return axis, angle')
    return out

# ----------------------------------------------------------------------------------------
# superpose.py
def _size_guard(s, eq_form):
    """Kabsch:  if pshape[0] == qshape[0]: npts = pshape[0]  else: raise ValueError
       quaternion: if pshape[0] != qshape[0]: raise ValueError"""
    if not isinstance(s, ast.If):
        fail(s, 'expected the size guard')
    t = s.test
    if not (isinstance(t, ast.Compare) and len(t.ops) == 1
            and ast.dump(t.left) == ast.dump(ast.parse('pshape[0]').body[0].value)
            and ast.dump(t.comparators[0]) == ast.dump(ast.parse('qshape[0]').body[0].value)):
        fail(s, 'size guard does not compare pshape[0] with qshape[0]')
    if eq_form:
        ok = isinstance(t.ops[0], ast.Eq) and len(s.body) == 1 and simple_assign(s.body[0]) \
            and ast.dump(simple_assign(s.body[0])[1]) == ast.dump(ast.parse('pshape[0]').body[0].value) \
            and len(s.orelse) == 1 and isinstance(s.orelse[0], ast.Raise) and is_call(s.orelse[0].exc, 'ValueError')
        return simple_assign(s.body[0])[0] if ok else fail(s, 'size guard shape')
    ok = isinstance(t.ops[0], ast.NotEq) and len(s.body) == 1 and isinstance(s.body[0], ast.Raise) \
        and is_call(s.body[0].exc, 'ValueError') and not s.orelse
    if not ok:
        fail(s, 'size guard shape')
    return None

def _shapes(body):
    want = ast.parse('pshape = P.shape\nqshape = Q.shape').body
    if [ast.dump(x) for x in body[:2]] != [ast.dump(x) for x in want]:
        fail(body[0], 'expected pshape = P.shape; qshape = Q.shape')

def _centre_guard(tr, s_means, s_eps, s_if):
    """p0, q0 = np.abs(np.mean(P, 0)), np.abs(np.mean(Q, 0)); eps = 1E-6;
       if any(p0 > eps) or any(q0 > eps): raise ValueError"""
    ta = tuple_assign(s_means, 2)
    if not ta:
        fail(s_means, 'expected p0, q0 = ...')
    for nm, e in ta:
        t, ty = tr.expr(e)
        if ty != 'vec3':
            fail(s_means, 'centre test quantity is not a 3-vector')
        tr.bind(nm, t, 'vec3')
    ea = simple_assign(s_eps)
    if not (ea and isinstance(ea[1], ast.Constant) and isinstance(ea[1].value, float)):
        fail(s_eps, 'expected eps = <float literal>')
    eps = tr.lit(ea[1].value)
    tr.bind(ea[0], 'eps', 'num')
    if not (isinstance(s_if, ast.If) and not s_if.orelse and len(s_if.body) == 1 and isinstance(s_if.body[0], ast.Raise)
            and is_call(s_if.body[0].exc, 'ValueError') and isinstance(s_if.test, ast.BoolOp) and isinstance(s_if.test.op, ast.Or)):
        fail(s_if, 'centring guard shape')
    parts = []
    for v in s_if.test.values:
        if not (is_call(v, 'any') and len(v.args) == 1 and isinstance(v.args[0], ast.Compare) and len(v.args[0].ops) == 1
                and isinstance(v.args[0].ops[0], ast.Gt)):
            fail(v, 'expected any(x > eps)')
        l, lt = tr.expr(v.args[0].left)
        r, rt = tr.expr(v.args[0].comparators[0])
        if lt != 'vec3' or rt != 'num':
            fail(v, 'expected any(vector > number)')
        parts.append(f'vany_gt N {l} {r}')
    return eps, '(' + ' || '.join(parts) + ')%bool'

def r_kabsch(repo):
    tree, lines = load(repo, SUP)
    fn = find_func(tree, 'get_rotation_matrix_Kabsh')
    body = strip_doc(fn.body)
    if params(fn) != ['P', 'Q'] or len(body) != 14:
        raise Untranslatable(f'get_rotation_matrix_Kabsh shape ({len(body)} statements)')
    _shapes(body)
    npts = _size_guard(body[2], True)
    tr = GeoTr({'P': ('P', 'pts'), 'Q': ('Q', 'pts')})
    eps, guard = _centre_guard(tr, body[3], body[4], body[5])
    out = header(region_info(lines, fn, SUP))
    out += '(* 1. sizes differ -> ValueError;  2. not centred -> ValueError *)\n'
    out += f'Definition centre_eps_src {POLY} : T := {eps}.\n'
    out += f'Definition kabsch_uncentred_src {POLY} (P Q : list (vec3 T)) : bool :=\n  let eps := centre_eps_src N in {guard}.\n'
    # A = np.dot(P.T, Q) / npts
    tr.bind(npts, '(nlen N P)', 'num')
    a = simple_assign(body[6])
    t, ty = tr.expr(a[1]) if a else fail(body[6], 'expected A = ...')
    if ty != 'mat3':
        fail(body[6], 'covariance is not 3x3')
    out += f'Definition kabsch_cov_src {POLY} (P Q : list (vec3 T)) : mat3 T :=\n  {t}.\n'
    # V, _, W = np.linalg.svd(A)
    s = body[7]
    if not (isinstance(s, ast.Assign) and isinstance(s.targets[0], ast.Tuple) and len(s.targets[0].elts) == 3
            and is_call(s.value, 'np.linalg.svd') and len(s.value.args) == 1 and not s.value.keywords
            and isinstance(s.value.args[0], ast.Name) and s.value.args[0].id == a[0]):
        fail(s, 'expected  V, _, W = np.linalg.svd(A)')
    vn, _, wn = (e.id for e in s.targets[0].elts)
    out += '(* V, _, Wh = np.linalg.svd(kabsch_cov_src P Q)   [oracle: first and third component used] *)\n'
    tr2 = GeoTr({vn: ('V', 'mat3'), wn: ('Wh', 'mat3')})
    lets = []
    # W = W.T
    for s in body[8:10]:
        sa = simple_assign(s)
        if not sa:
            fail(s, 'expected an assignment')
        t, ty = tr2.expr(sa[1])
        cn = tr2.newname(sa[0])
        lets.append(f'let {cn} := {t} in')
        tr2.bind(sa[0], cn, ty)
    # Id = np.eye(3)
    sa = simple_assign(body[10])
    if not (sa and is_call(sa[1], 'np.eye')):
        fail(body[10], 'expected Id = np.eye(3)')
    t, ty = tr2.expr(sa[1])
    idn = sa[0]
    cn = tr2.newname(idn)
    lets.append(f'let {cn} := {t} in')
    tr2.bind(idn, cn, ty)
    # if d < 0: Id[2, 2] = -1
    s = body[11]
    if not (isinstance(s, ast.If) and not s.orelse and len(s.body) == 1 and isinstance(s.test, ast.Compare) and len(s.test.ops) == 1):
        fail(s, 'expected  if d < 0: Id[2, 2] = -1')
    l, lt = tr2.expr(s.test.left)
    r, rt = tr2.expr(s.test.comparators[0])
    if lt != 'num' or rt != 'num':
        fail(s, 'determinant test on non-numbers')
    if isinstance(s.test.ops[0], ast.Lt):
        cond = f'nltb N {l} {r}'
    elif isinstance(s.test.ops[0], ast.Gt):
        cond = f'nltb N {r} {l}'
    else:
        fail(s, 'determinant test operator')
    asg = s.body[0]
    if not (isinstance(asg, ast.Assign) and isinstance(asg.targets[0], ast.Subscript) and isinstance(asg.targets[0].value, ast.Name)
            and asg.targets[0].value.id == idn and isinstance(asg.targets[0].slice, ast.Tuple)
            and all(isinstance(e, ast.Constant) and e.value in (0, 1, 2) for e in asg.targets[0].slice.elts)):
        fail(asg, 'expected an element assignment to the identity matrix')
    i, j = (e.value for e in asg.targets[0].slice.elts)
    v, vt = tr2.expr(asg.value)
    old = tr2.env[idn][0]
    cn = tr2.newname(idn)
    lets.append(f'let {cn} := if {cond} then mset {old} {i}%nat {j}%nat {tr2.as_num(v, vt, asg)} else {old} in')
    tr2.bind(idn, cn, 'mat3')
    sa = simple_assign(body[12])
    t, ty = tr2.expr(sa[1]) if sa else fail(body[12], 'expected U = ...')
    if ty != 'mat3':
        fail(body[12], 'U is not 3x3')
    r = body[13]
    if not (isinstance(r, ast.Return) and isinstance(r.value, ast.Name) and r.value.id == sa[0]):
        fail(r, 'expected return U')
    out += f'Definition kabsch_post_src {POLY} (V Wh : mat3 T) : mat3 T :=\n  ' + '\n  '.join(lets) + f'\n  {t}.\n'
    return out

def r_quat(repo):
    tree, lines = load(repo, SUP)
    fn = find_func(tree, 'get_rotation_matrix_quaternion')
    body = strip_doc(fn.body)
    if params(fn) != ['P', 'Q']:
        raise Untranslatable('get_rotation_matrix_quaternion signature')
    _shapes(body)
    _size_guard(body[2], False)
    tr = GeoTr({'P': ('P', 'pts'), 'Q': ('Q', 'pts')})
    eps, guard = _centre_guard(tr, body[3], body[4], body[5])
    out = header(region_info(lines, fn, SUP))
    out += f'Definition quat_centre_eps_src {POLY} : T := {eps}.\n'
    out += f'Definition quat_uncentred_src {POLY} (P Q : list (vec3 T)) : bool :=\n  let eps := quat_centre_eps_src N in {guard}.\n'
    sa = simple_assign(body[6])
    t, ty = tr.expr(sa[1]) if sa else fail(body[6], 'expected R = ...')
    if ty != 'mat3':
        fail(body[6], 'correlation matrix is not 3x3')
    rn = sa[0]
    out += f'Definition quat_corr_src {POLY} (P Q : list (vec3 T)) : mat3 T :=\n  {t}.\n'
    # F = np.zeros((4, 4)); 16 element assignments
    k = 7
    def zeros(s, dim):
        sa = simple_assign(s)
        if not (sa and is_call(sa[1], 'np.zeros') and literal(sa[1].args[0]) == (dim, dim)):
            fail(s, f'expected np.zeros(({dim}, {dim}))')
        return sa[0]
    fname = zeros(body[k], 4); k += 1
    trF = GeoTr({rn: ('R', 'mat3')})
    ent = {}
    while k < len(body) and isinstance(body[k], ast.Assign) and isinstance(body[k].targets[0], ast.Subscript) \
            and getattr(body[k].targets[0].value, 'id', None) == fname:
        s = body[k]
        idx = s.targets[0].slice
        if not (isinstance(idx, ast.Tuple) and all(isinstance(e, ast.Constant) and e.value in (0, 1, 2, 3) for e in idx.elts)):
            fail(s, 'index of F')
        key = tuple(e.value for e in idx.elts)
        if key in ent:
            fail(s, 'entry of F assigned twice')
        t, ty = trF.expr(s.value)
        ent[key] = trF.as_num(t, ty, s)
        k += 1
    cells = [ent.get((i, j), '(n0 N)') for i in range(4) for j in range(4)]
    out += f'Definition quat_F_src {POLY} (R : mat3 T) : mat4 T :=\n  M4 ' + '\n     '.join(cells) + '.\n'
    # l, U = np.linalg.eigh(F)   (the symmetric solver: real eigenvalues, real orthonormal eigenvectors;
    # the general solver eig returns complex arrays here and is NOT accepted, see finding F19)
    s = body[k]; k += 1
    if not (isinstance(s, ast.Assign) and isinstance(s.targets[0], ast.Tuple) and len(s.targets[0].elts) == 2
            and is_call(s.value, 'np.linalg.eigh') and len(s.value.args) == 1 and not s.value.keywords
            and getattr(s.value.args[0], 'id', None) == fname):
        fail(s, 'expected  l, U = np.linalg.eigh(F)')
    ln, un = (e.id for e in s.targets[0].elts)
    # indmax = np.argmax(l)
    sa = simple_assign(body[k]); k += 1
    if not (sa and isinstance(sa[1], ast.Call) and dotted(sa[1].func) in ('np.argmax', 'np.argmin') and len(sa[1].args) == 1
            and getattr(sa[1].args[0], 'id', None) == ln):
        fail(body[k - 1], 'expected  indmax = np.argmax(l)')
    pick = dotted(sa[1].func).split('.')[1]
    ind = sa[0]
    out += '(* l, U = np.linalg.eigh(quat_F_src R)  [oracle: symmetric eigen-solver, real answer];  the column of U that is used: *)\n'
    out += 'Definition quat_eigensolver_src : string := "eigh".\n'
    out += f'Definition quat_pick_src {POLY} (l : list T) : nat := {pick} N l.\n'
    # q0, q1, q2, q3 = U[:, indmax]
    s = body[k]; k += 1
    want = ast.parse(f'a, b, c, d = {un}[:, {ind}]').body[0]
    if not (isinstance(s, ast.Assign) and isinstance(s.targets[0], ast.Tuple) and len(s.targets[0].elts) == 4
            and ast.dump(s.value) == ast.dump(want.value)):
        fail(s, 'expected  q0, q1, q2, q3 = U[:, indmax]')
    trU = GeoTr({e.id: (f'(w{i} q)', 'num') for i, e in enumerate(s.targets[0].elts)})
    uname = zeros(body[k], 3); k += 1
    ent = {}
    while k < len(body) and isinstance(body[k], ast.Assign) and isinstance(body[k].targets[0], ast.Subscript) \
            and getattr(body[k].targets[0].value, 'id', None) == uname:
        s = body[k]
        idx = s.targets[0].slice
        if not (isinstance(idx, ast.Tuple) and all(isinstance(e, ast.Constant) and e.value in (0, 1, 2) for e in idx.elts)):
            fail(s, 'index of U')
        key = tuple(e.value for e in idx.elts)
        if key in ent:
            fail(s, 'entry of U assigned twice')
        t, ty = trU.expr(s.value)
        ent[key] = trU.as_num(t, ty, s)
        k += 1
    cells = [ent.get((i, j), '(n0 N)') for i in range(3) for j in range(3)]
    out += f'Definition quat_rot_src {POLY} (q : vec4 T) : mat3 T :=\n  M3 ' + '\n     '.join(cells) + '.\n'
    r = body[k]
    if not (k == len(body) - 1 and isinstance(r, ast.Return) and getattr(r.value, 'id', None) == uname):
        fail(r, 'expected return U as the last statement')
    return out

def r_dispatch(repo):
    tree, lines = load(repo, SUP)
    fn = find_func(tree, 'get_rotation_matrix')
    body = strip_doc(fn.body)
    if params(fn) != ['p', 'q', 'method'] or not isinstance(literal(fn.args.defaults[0]), str) or len(body) != 2:
        raise Untranslatable('get_rotation_matrix shape')
    s = body[0]
    table = []
    while True:
        if not (isinstance(s, ast.If) and isinstance(s.test, ast.Compare) and len(s.test.ops) == 1 and isinstance(s.test.ops[0], ast.Eq)
                and ast.dump(s.test.left) == ast.dump(ast.parse('method.lower()').body[0].value)
                and isinstance(s.test.comparators[0], ast.Constant) and isinstance(s.test.comparators[0].value, str)
                and len(s.body) == 1 and simple_assign(s.body[0]) and isinstance(simple_assign(s.body[0])[1], ast.Call)):
            fail(s, 'dispatch shape')
        call = simple_assign(s.body[0])[1]
        if [getattr(x, 'id', None) for x in call.args] != ['p', 'q'] or call.keywords:
            fail(s, 'kernel arguments')
        kern = {'get_rotation_matrix_Kabsh': 'KKabsch', 'get_rotation_matrix_quaternion': 'KQuaternion'}.get(dotted(call.func))
        if kern is None:
            fail(s, 'unknown kernel')
        table.append((s.test.comparators[0].value, kern, simple_assign(s.body[0])[0]))
        if len(s.orelse) == 1 and isinstance(s.orelse[0], ast.If):
            s = s.orelse[0]
            continue
        if not (len(s.orelse) == 1 and isinstance(s.orelse[0], ast.Raise) and is_call(s.orelse[0].exc, 'ValueError')):
            fail(s, 'expected a final  else: raise ValueError')
        break
    r = body[1]
    if not (isinstance(r, ast.Return) and all(getattr(r.value, 'id', None) == t[2] for t in table)):
        fail(r, 'expected return mat')
    out = header(region_info(lines, fn, SUP))
    out += '(* method.lower() is looked up in this table, in order; anything else raises ValueError *)\n'
    out += 'Definition rotmat_dispatch_src : list (string * kernel) :=\n  [' + '; '.join(f'({coq_string(k)}, {v})' for k, v, _ in table) + '].\n'
    out += f'Definition rotmat_default_method_src : string := {coq_string(literal(fn.args.defaults[0]))}.\n'
    return out

def r_superpose_selection(repo):
    tree, lines = load(repo, SUP)
    fn = find_func(tree, 'superpose_selection')
    body = strip_doc(fn.body)
    want = ast.parse('''
sel_mob = np.copy(selection_mobile)
sel_tar = np.copy(selection_target)
tr_mobile = get_trans_vect(sel_mob)
tr_target = get_trans_vect(sel_tar)
sel_tar += tr_target
sel_mob += tr_mobile
rmat = get_rotation_matrix(sel_mob, sel_tar, method=method)
xyz_mobile += tr_mobile
origin = np.array([0, 0, 0])
xyz_mobile = rotate(xyz_mobile, rmat, center=origin)
xyz_mobile -= tr_target
return xyz_mobile
''').body
    if params(fn) != ['xyz_mobile', 'selection_mobile', 'selection_target', 'method'] or len(body) != len(want) \
            or any(ast.dump(a) != ast.dump(b) for a, b in zip(body, want)):
        raise Untranslatable('superpose_selection changed shape')
    g = find_func(tree, 'get_trans_vect')
    gb = strip_doc(g.body)
    if not (len(gb) == 1 and isinstance(gb[0], ast.Return) and params(g) == ['pts']):
        raise Untranslatable('get_trans_vect shape')
    tr = GeoTr({'pts': ('pts', 'pts')})
    t, ty = tr.expr(gb[0].value)
    if ty != 'vec3':
        raise Untranslatable('get_trans_vect does not return a 3-vector')
    out = header(region_info(lines, fn, SUP))
    out += f'Definition trans_vect_src {POLY} (pts : list (vec3 T)) : vec3 T :=\n  {t}.\n'
    tr = GeoTr({'X': ('X', 'pts'), 'v': ('v', 'vec3')})
    add = tr.expr(ast.parse('X + v').body[0].value)[0]
    sub = tr.expr(ast.parse('X - v').body[0].value)[0]
    orig = GeoTr().expr(ast.parse('np.array([0, 0, 0])').body[0].value)[0]
    out += '(* the selections are centred with their own translation vectors, the rotation is asked for the\n' \
           '   centred selections, the whole mobile set is moved by tr_mobile, rotated about the origin, moved by -tr_target *)\n'
    out += f'Definition sup_centre_src {POLY} (X : list (vec3 T)) : list (vec3 T) :=\n  let v := trans_vect_src N X in {add}.\n'
    out += f'Definition sup_apply_src {POLY} (xyz sel_m sel_t : list (vec3 T)) (rmat : mat3 T) : list (vec3 T) :=\n' \
           f'  let tr_m := trans_vect_src N sel_m in let tr_t := trans_vect_src N sel_t in\n' \
           f'  let X := xyz in\n  let X := (let v := tr_m in {add}) in\n' \
           f'  let X := rotate_apply_src N X rmat {orig} in\n' \
           f'  let v := tr_t in {sub}.\n'
    return out

# ----------------------------------------------------------------------------------------
# align.py
def r_rotation_angle(repo):
    tree, lines = load(repo, ALIGN)
    fn = find_func(tree, 'get_rotation_angle')
    body = strip_doc(fn.body)
    want = ast.parse('''
x, y, z = vmax
r = np.linalg.norm(vmax)
phi = np.arctan2(y, x)
theta = np.arccos(z/r)
return phi, theta
''').body
    if params(fn) != ['vmax'] or len(body) != 5:
        raise Untranslatable('get_rotation_angle shape')
    # names are free, structure is fixed
    s = body[0]
    if not (isinstance(s, ast.Assign) and isinstance(s.targets[0], ast.Tuple) and len(s.targets[0].elts) == 3
            and getattr(s.value, 'id', None) == 'vmax'):
        fail(s, 'expected x, y, z = vmax')
    comp = {e.id: c for e, c in zip(s.targets[0].elts, ('CX', 'CY', 'CZ'))}
    sa = simple_assign(body[1])
    if not (sa and is_call(sa[1], 'np.linalg.norm') and len(sa[1].args) == 1 and getattr(sa[1].args[0], 'id', None) == 'vmax'):
        fail(body[1], 'expected r = np.linalg.norm(vmax)')
    comp[sa[0]] = 'CNorm'
    def sym(n):
        if isinstance(n, ast.Name) and n.id in comp:
            return comp[n.id]
        if isinstance(n, ast.BinOp) and isinstance(n.op, ast.Div):
            return f'(CDiv {sym(n.left)} {sym(n.right)})'
        fail(n, 'component expression')
    ph = simple_assign(body[2])
    if not (ph and is_call(ph[1], 'np.arctan2') and len(ph[1].args) == 2):
        fail(body[2], 'expected phi = np.arctan2(., .)')
    th = simple_assign(body[3])
    if not (th and is_call(th[1], 'np.arccos') and len(th[1].args) == 1):
        fail(body[3], 'expected theta = np.arccos(.)')
    r = body[4]
    if not (isinstance(r, ast.Return) and isinstance(r.value, ast.Tuple)
            and [getattr(e, 'id', None) for e in r.value.elts] == [ph[0], th[0]]):
        fail(r, 'expected return phi, theta')
    out = header(region_info(lines, fn, ALIGN))
    out += '(* phi = arctan2(a, b), theta = arccos(c): the arguments, as expressions in the components of the vector *)\n'
    out += f'Definition angle_phi_src : compexpr * compexpr := ({sym(ph[1].args[0])}, {sym(ph[1].args[1])}).\n'
    out += f'Definition angle_theta_src : compexpr := {sym(th[1].args[0])}.\n'
    return out

def _angle_expr(n, names):
    """linear expression in phi / theta / np.pi  ->  (k quarter turns, negated?, which angle)"""
    from fractions import Fraction
    def lin(n):
        # returns dict {'phi': c, 'theta': c, 'pi': c}
        if isinstance(n, ast.Name) and n.id in names:
            return {names[n.id]: Fraction(1)}
        if isinstance(n, ast.Attribute) and dotted(n) == 'np.pi':
            return {'pi': Fraction(1)}
        if isinstance(n, ast.UnaryOp) and isinstance(n.op, ast.USub):
            return {k: -v for k, v in lin(n.operand).items()}
        if isinstance(n, ast.BinOp) and isinstance(n.op, (ast.Add, ast.Sub)):
            a, b = lin(n.left), lin(n.right)
            sg = 1 if isinstance(n.op, ast.Add) else -1
            out = dict(a)
            for k, v in b.items():
                out[k] = out.get(k, 0) + sg * v
            return out
        if isinstance(n, ast.BinOp) and isinstance(n.op, ast.Div) and isinstance(n.right, ast.Constant) \
                and isinstance(n.right.value, int) and n.right.value != 0:
            return {k: v / n.right.value for k, v in lin(n.left).items()}
        if isinstance(n, ast.BinOp) and isinstance(n.op, ast.Mult) and isinstance(n.left, ast.Constant) \
                and isinstance(n.left.value, int):
            return {k: v * n.left.value for k, v in lin(n.right).items()}
        fail(n, 'angle expression')
    d = {k: v for k, v in lin(n).items() if v != 0}
    ang = [k for k in d if k != 'pi']
    if len(ang) != 1 or d[ang[0]] not in (1, -1):
        fail(n, 'angle expression must contain exactly one of phi/theta with coefficient +1 or -1')
    q = d.get('pi', Fraction(0)) * 2
    if q.denominator != 1:
        fail(n, 'the constant part of an angle must be a multiple of pi/2')
    return int(q), d[ang[0]] == -1, {'phi': 'APhi', 'theta': 'ATheta'}[ang[0]]

def r_align_table(repo):
    tree, lines = load(repo, ALIGN)
    fn = find_func(tree, '_align_along_axis')
    if params(fn) != ['xyz', 'axis', 'phi', 'theta']:
        raise Untranslatable('_align_along_axis signature')
    body = strip_doc(fn.body)
    if not (len(body) == 2 and isinstance(body[0], ast.If) and isinstance(body[1], ast.Return)
            and getattr(body[1].value, 'id', None) == 'xyz'):
        raise Untranslatable('_align_along_axis shape')
    s = body[0]
    rows = []
    while True:
        if not (isinstance(s.test, ast.Compare) and len(s.test.ops) == 1 and isinstance(s.test.ops[0], ast.Eq)
                and getattr(s.test.left, 'id', None) == 'axis' and isinstance(s.test.comparators[0], ast.Constant)
                and isinstance(s.test.comparators[0].value, str)):
            fail(s, 'expected  axis == "<letter>"')
        steps = []
        for st in s.body:
            sa = simple_assign(st)
            if not (sa and sa[0] == 'xyz' and is_call(sa[1], 'rot_xyz_around_axis') and len(sa[1].args) == 3
                    and not sa[1].keywords and getattr(sa[1].args[0], 'id', None) == 'xyz'):
                fail(st, 'expected  xyz = rot_xyz_around_axis(xyz, <axis>, <angle>)')
            ax = sa[1].args[1]
            if not (is_call(ax, 'np.array') and len(ax.args) == 1):
                fail(ax, 'rotation axis must be a literal np.array([a, b, c])')
            v = literal(ax.args[0])
            if not (isinstance(v, list) and len(v) == 3 and all(isinstance(c, int) and not isinstance(c, bool) for c in v)):
                fail(ax, 'rotation axis must be three integer literals')
            k, neg, which = _angle_expr(sa[1].args[2], {'phi': 'phi', 'theta': 'theta'})
            steps.append(f'((({v[0]})%Z, ({v[1]})%Z, ({v[2]})%Z), AngE ({k}) {"true" if neg else "false"} {which})')
        rows.append(f'({coq_string(s.test.comparators[0].value)}, [' + '; '.join(steps) + '])')
        if len(s.orelse) == 1 and isinstance(s.orelse[0], ast.If):
            s = s.orelse[0]
            continue
        if not (len(s.orelse) == 1 and isinstance(s.orelse[0], ast.Raise) and is_call(s.orelse[0].exc, 'ValueError')):
            fail(s, 'expected a final  else: raise ValueError')
        break
    out = header(region_info(lines, fn, ALIGN))
    out += '(* per target axis: the successive calls rot_xyz_around_axis(xyz, axis, angle) [default centre],\n' \
           '   angle = k*(pi/2) + (-)alpha written AngE k negated alpha; an unknown letter raises ValueError *)\n'
    out += 'Definition align_table_src : list (string * list ((Z * Z * Z) * angexpr)) :=\n  [' + ';\n   '.join(rows) + '].\n'
    return out

def r_align_misc(repo):
    tree, lines = load(repo, ALIGN)
    out = ''
    # dict_plane in align_interface
    fn = find_func(tree, 'align_interface')
    dp = [s for s in ast.walk(fn) if isinstance(s, ast.Assign) and getattr(s.targets[0], 'id', None) == 'dict_plane']
    if len(dp) != 1:
        raise Untranslatable('dict_plane not found')
    d = literal(dp[0].value)
    if not (isinstance(d, dict) and all(isinstance(k, str) and isinstance(v, str) for k, v in d.items())):
        raise Untranslatable('dict_plane is not a dict str->str')
    uses = [s for s in ast.walk(fn) if is_call(s, 'align_pca_vect')]
    if not (len(uses) == 1 and ast.dump(uses[0].args[2]) == ast.dump(ast.parse('dict_plane[plane]').body[0].value)
            and getattr(uses[0].args[1], 'id', None) == 'vect'):
        raise Untranslatable('align_interface no longer calls align_pca_vect(sql, vect, dict_plane[plane])')
    out += header(region_info(lines, fn, ALIGN))
    out += 'Definition plane_axis_src : list (string * string) :=\n  [' + '; '.join(f'({coq_string(k)}, {coq_string(v)})' for k, v in d.items()) + '].\n'
    # which eigenvector
    for name, coq in (('get_max_pca_vect', 'pca_pick_max_src'), ('get_min_pca_vect', 'pca_pick_min_src')):
        g = find_func(tree, name)
        gb = strip_doc(g.body)
        ok = len(gb) == 2 and ast.dump(gb[0]) == ast.dump(ast.parse('u, v = pca(xyz)').body[0]) and isinstance(gb[1], ast.Return)
        if ok:
            r = gb[1].value
            ok = isinstance(r, ast.Subscript) and getattr(r.value, 'id', None) == 'v' and isinstance(r.slice, ast.Tuple) \
                and isinstance(r.slice.elts[0], ast.Slice) and r.slice.elts[0].lower is None and r.slice.elts[0].upper is None \
                and isinstance(r.slice.elts[1], ast.Call) and dotted(r.slice.elts[1].func) in ('np.argmax', 'np.argmin') \
                and getattr(r.slice.elts[1].args[0], 'id', None) == 'u'
        if not ok:
            raise Untranslatable(f'{name} is no longer  v[:, np.argXXX(u)]')
        out += f'Definition {coq} {POLY} (u : list T) : nat := {dotted(r.slice.elts[1].func).split(".")[1]} N u.\n'
    # pca: eigh of np.cov of the centred, transposed data
    g = find_func(tree, 'pca')
    want = ast.parse('scat = (mat-np.mean(mat.T, axis=1)).T\nu, v = np.linalg.eigh(np.cov(scat))\nreturn u, v').body
    gb = strip_doc(g.body)
    if len(gb) != 3 or any(ast.dump(a) != ast.dump(b) for a, b in zip(gb, want)):
        raise Untranslatable('pca changed shape')
    out += '(* pca(mat) = np.linalg.eigh(np.cov(centred mat, rows = coordinates))  [oracle on the sample covariance, ddof = 1] *)\n'
    out += 'Definition pca_is_eigh_of_sample_cov_src : bool := true.\n'
    # align / align_pca_vect: selection for the PCA, whole structure for the rotation
    fa = find_func(tree, 'align_pca_vect')
    want = ast.parse('''
phi, theta = get_rotation_angle(vect)
xyz = np.array(sql.get('x,y,z'))
xyz = _align_along_axis(xyz, axis, phi, theta)
sql.update('x,y,z', xyz)
return sql
''').body
    fb = strip_doc(fa.body)
    if len(fb) != 5 or any(ast.dump(a) != ast.dump(b) for a, b in zip(fb, want)):
        raise Untranslatable('align_pca_vect changed shape')
    out += '(* align_pca_vect: angles of the vector; ALL atoms are read, rotated by _align_along_axis, written back *)\n'
    out += 'Definition align_moves_all_atoms_src : bool := true.\n'
    return out

# ----------------------------------------------------------------------------------------
IMPORTS = 'From Verif Require Import Base Model_geom_num.\nOpen Scope string_scope.\n'
GROUPS_geom = {
    'Generated_geom.v': {
        'imports': IMPORTS,
        'regions': [('g_rodrigues', r_rodrigues), ('g_euler', r_euler), ('g_rotate', r_rotate), ('g_dbops', r_dbops),
                    ('g_rand', r_rand), ('g_kabsch', r_kabsch), ('g_quat', r_quat), ('g_dispatch', r_dispatch),
                    ('g_superpose_selection', r_superpose_selection), ('g_rotation_angle', r_rotation_angle),
                    ('g_align_table', r_align_table), ('g_align_misc', r_align_misc)],
    },
}

# regions.py collects GROUPS_<k> of every translator/regions_<k>.py

if __name__ == '__main__':
    import json
    import regions as _base
    here = os.path.dirname(os.path.abspath(__file__))
    repo = sys.argv[1] if len(sys.argv) > 1 and not sys.argv[1].startswith('--') else '/repo'
    upd = '--update-golden' in sys.argv
    coqdir = os.path.join(here, '..', 'coq')
    if upd:
        # (re)write the golden text of this cluster's regions only
        saved = dict(_base.GROUPS)
        _base.GROUPS.clear(); _base.GROUPS.update(GROUPS_geom)
        skel_path = os.path.join(coqdir, 'golden', 'skeletons.json')
        skel = open(skel_path).read() if os.path.exists(skel_path) else None
        st = _base.generate(repo, coqdir, os.path.join(coqdir, 'golden'), True)
        if skel is not None:
            open(skel_path, 'w').write(skel)
        _base.GROUPS.clear(); _base.GROUPS.update(saved)
    else:
        st = _base.generate(repo, coqdir, os.path.join(coqdir, 'golden'), False)
    print(json.dumps({k: v for k, v in st.items() if k.startswith('g_')}, indent=1))
