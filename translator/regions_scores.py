"""regions_scores.py — regenerated facts about the RMSD pipelines (C07/C09/C11)."""
import ast
from py2coq import *

SIM = 'pdb2sql/StructureSimilarity.py'

def _load(repo, rel):
    import regions
    return regions.load(repo, rel)

def header(info):
    import regions
    return regions.header(info)

def _sub(node, var):
    """line[i] -> ('index', i) ; line[a:b] -> ('slice', a, b); possibly wrapped in int()/float()/.strip()"""
    wrap = None
    n = node
    if isinstance(n, ast.Call) and isinstance(n.func, ast.Name) and n.func.id in ('int', 'float') and len(n.args) == 1:
        wrap, n = n.func.id, n.args[0]
    elif isinstance(n, ast.Call) and isinstance(n.func, ast.Attribute) and n.func.attr == 'strip' and not n.args:
        wrap, n = 'strip', n.func.value
    if isinstance(n, ast.Subscript) and isinstance(n.value, ast.Name) and n.value.id == var:
        sl = n.slice
        if isinstance(sl, ast.Constant) and isinstance(sl.value, int):
            return wrap, (sl.value, sl.value + 1)
        if isinstance(sl, ast.Slice) and sl.step is None and isinstance(sl.lower, ast.Constant) and isinstance(sl.upper, ast.Constant):
            return wrap, (sl.lower.value, sl.upper.value)
    return None

def r_rmsd_readers(repo):
    """the three fixed-column readers of the fast RMSD routines: which columns each field is read from"""
    tree, lines = _load(repo, SIM)
    cls = find_class(tree, 'StructureSimilarity')
    out = ''
    tables = []
    for fname in ('get_xyz_zone_backbone', 'get_data_zone_backbone', '_get_xyz'):
        fn = find_func(cls, fname)
        loops = [s for s in fn.body if isinstance(s, ast.For) and isinstance(s.target, ast.Name)]
        if len(loops) != 1:
            raise Untranslatable(f'{fname}: record loop not found')
        var = loops[0].target.id
        body = loops[0].body
        if not (len(body) == 1 and isinstance(body[0], ast.If) and isinstance(body[0].test, ast.Call)
                and isinstance(body[0].test.func, ast.Attribute) and body[0].test.func.attr == 'startswith'
                and isinstance(body[0].test.args[0], ast.Constant) and body[0].test.args[0].value == 'ATOM' and not body[0].orelse):
            raise Untranslatable(f"{fname}: the loop body is not `if line.startswith('ATOM'):`")
        fields = {}
        alt = None
        for s in body[0].body:
            if isinstance(s, ast.Assign) and len(s.targets) == 1 and isinstance(s.targets[0], ast.Name):
                r = _sub(s.value, var)
                if r is None:
                    fail(s, f'{fname}: field assignment')
                key = {'atname': 'name'}.get(s.targets[0].id, s.targets[0].id)
                fields[key] = r
            elif isinstance(s, ast.If):
                c = s.test
                if isinstance(c, ast.Compare) and isinstance(c.left, ast.Name) and c.left.id == 'chainID' and isinstance(c.ops[0], ast.Eq) \
                        and isinstance(c.comparators[0], ast.Constant) and c.comparators[0].value == ' ' and len(s.body) == 1 \
                        and isinstance(s.body[0], ast.Assign) and isinstance(s.body[0].targets[0], ast.Name) and s.body[0].targets[0].id == 'chainID':
                    r = _sub(s.body[0].value, var)
                    if r is None:
                        fail(s, f'{fname}: alternative chain column')
                    alt = r[1]
                # other conditionals (membership tests) belong to the hand-modelled control skeleton
            else:
                fail(s, f'{fname}: statement in the record loop')
        want = {'chainID': None, 'resSeq': 'int', 'name': 'strip'}
        if fname != 'get_data_zone_backbone':
            want.update({'x': 'float', 'y': 'float', 'z': 'float'})
        for k, w in want.items():
            if k not in fields or fields[k][0] != w:
                raise Untranslatable(f'{fname}: field {k} is not read as {w} of a constant slice')
        if alt is None:
            raise Untranslatable(f'{fname}: blank chain fallback not found')
        items = [f'({coq_string(k)}, ({fields[k][1][0]}%nat, {fields[k][1][1]}%nat))' for k in sorted(want)]
        items.append(f'("chainID_if_blank", ({alt[0]}%nat, {alt[1]}%nat))')
        tables.append(f'({coq_string(fname)}, [' + '; '.join(items) + '])')
        # default atom-name list of the zone readers
    out += header(region_info(lines, find_func(cls, '_get_xyz'), SIM))
    out += 'Definition rmsd_reader_cols_src : list (string * list (string * (nat * nat))) :=\n  [' + ';\n   '.join(tables) + '].\n'
    for fname in ('get_xyz_zone_backbone', 'get_data_zone_backbone'):
        fn = find_func(cls, fname)
        d = literal(fn.args.defaults[-1])
        if not (isinstance(d, list) and all(isinstance(x, str) for x in d)):
            raise Untranslatable(f'{fname}: default name list')
        out += f'Definition {fname}_names_src : list string := [' + '; '.join(coq_string(x) for x in d) + '].\n'
    fn = find_func(cls, 'compute_irmsd_fast')
    defaults = dict(zip([a.arg for a in fn.args.args][-len(fn.args.defaults):], [literal(d) for d in fn.args.defaults]))
    out += f'Definition irmsd_default_cutoff_src : Q := {coq_Q(defaults["cutoff"])}.\n'
    return out

GROUPS_scores = {
    'Generated_rmsd.v': {
        'imports': 'From Verif Require Import PyLib ModelTypes.\nOpen Scope string_scope.\n',
        'regions': [('rmsd_readers', r_rmsd_readers)],
    },
}
