"""Registered regions of the `contact` cluster (C05, C14, C08): same shape as regions.py.

Every recipe is expression-level (local names are irrelevant, operand order of a comparison may
be flipped) and fail-closed: an unexpected shape raises Untranslatable, the region falls back to
its golden text and the dependent checks escalate to the search tier."""
import ast
from py2coq import *

IFACE = 'pdb2sql/interface.py'
SIM = 'pdb2sql/StructureSimilarity.py'

def _load(repo, rel):
    import regions
    return regions.load(repo, rel)

def _header(info):
    return f'(* source: {info["file"]}:{info["lines"][0]}-{info["lines"][1]} sha1 {info["sha1"]} *)\n'

def _dump(n):
    return ast.dump(n, annotate_fields=False, include_attributes=False)

def _walk_type(node, ty):
    return [n for n in ast.walk(node) if isinstance(n, ty)]

def _kw(call, name, default=None):
    for k in call.keywords:
        if k.arg == name:
            return k.value
    return default

def _coq_bool(b):
    if not isinstance(b, bool):
        raise Untranslatable(f'not a bool literal: {b!r}')
    return 'true' if b else 'false'

def _defaults(fn):
    """python parameter name -> default literal (positional-or-keyword parameters only)"""
    args = fn.args.args
    ds = fn.args.defaults
    out = {}
    for a, d in zip(args[len(args) - len(ds):], ds):
        out[a.arg] = literal(d)
    return out

# ----------------------------------------------------------------------------------------
def _is_sqrt_sum_sq(n, axis_required):
    """np.sqrt(np.sum((A - B)**2[, 1]))  ->  True"""
    if not (isinstance(n, ast.Call) and dotted(n.func) == 'np.sqrt' and len(n.args) == 1 and not n.keywords):
        return False
    s = n.args[0]
    if not (isinstance(s, ast.Call) and dotted(s.func) == 'np.sum' and len(s.args) >= 1):
        return False
    axis = None
    if len(s.args) == 2:
        axis = s.args[1]
    elif _kw(s, 'axis') is not None:
        axis = _kw(s, 'axis')
    if axis_required:
        if not (isinstance(axis, ast.Constant) and axis.value in (1, -1)):
            return False
    elif axis is not None:
        return False
    p = s.args[0]
    if not (isinstance(p, ast.BinOp) and isinstance(p.op, ast.Pow) and isinstance(p.right, ast.Constant)
            and p.right.value == 2 and isinstance(p.left, ast.BinOp) and isinstance(p.left.op, ast.Sub)):
        return False
    return True

def _test_text(name, op, flipped):
    """emit the comparison `dist OP cutoff` on the squared distance.
       sqrt(d2) <= c  <->  0 <= c /\\ d2 <= c^2 ;  sqrt(d2) < c  <->  0 < c /\\ d2 < c^2   (d2 >= 0)"""
    if flipped:
        op = {ast.GtE: ast.LtE, ast.Gt: ast.Lt}.get(type(op))
        if op is None:
            raise Untranslatable('contact comparison operator')
        op = op()
    if isinstance(op, ast.LtE):
        return f'Definition {name} (d2 c : Q) : bool := (Qleb (0 # 1) c && Qleb d2 (Qsqr c)).\n'
    if isinstance(op, ast.Lt):
        return f'Definition {name} (d2 c : Q) : bool := (Qltb (0 # 1) c && Qltb d2 (Qsqr c)).\n'
    raise Untranslatable('contact comparison operator is neither <= nor <')

def r_contact_test(repo):
    tree, lines = _load(repo, IFACE)
    fn = find_func(find_class(tree, 'interface'), 'get_contact_atoms')
    cands = []
    for c in _walk_type(fn, ast.Compare):
        if len(c.ops) != 1:
            continue
        l, r = c.left, c.comparators[0]
        if _is_sqrt_sum_sq(l, True) and isinstance(r, ast.Name) and r.id == 'cutoff':
            cands.append((c, c.ops[0], False))
        elif _is_sqrt_sum_sq(r, True) and isinstance(l, ast.Name) and l.id == 'cutoff':
            cands.append((c, c.ops[0], True))
    if len(cands) != 1:
        raise Untranslatable(f'get_contact_atoms: expected exactly one distance test against cutoff, found {len(cands)}')
    c, op, flipped = cands[0]
    # it must be the argument of np.where(...)[0] bound to the contact list
    ok = False
    for a in _walk_type(fn, ast.Assign):
        v = a.value
        if isinstance(v, ast.Subscript) and isinstance(v.value, ast.Call) and dotted(v.value.func) == 'np.where' \
                and len(v.value.args) == 1 and v.value.args[0] is c \
                and isinstance(v.slice, ast.Constant) and v.slice.value == 0:
            ok = True
    if not ok:
        raise Untranslatable('get_contact_atoms: the distance test is not np.where(test)[0]')
    out = _header(region_info(lines, c, IFACE))
    out += '(* np.sqrt(np.sum((xyz2 - x0)**2, 1)) OP cutoff, expressed on the squared distance d2 *)\n'
    out += _test_text('contact_test_src', op, flipped)
    return out

# ----------------------------------------------------------------------------------------
def _first_char_tests(fn):
    """all comparisons  X[i][0] == 'c'  /  X[0] != 'c' : returns list of (node, char, negated)"""
    out = []
    for c in _walk_type(fn, ast.Compare):
        if len(c.ops) != 1 or not isinstance(c.ops[0], (ast.Eq, ast.NotEq)):
            continue
        l, r = c.left, c.comparators[0]
        if isinstance(r, ast.Subscript) and isinstance(l, ast.Constant):
            l, r = r, l
        if isinstance(l, ast.Subscript) and isinstance(l.slice, ast.Constant) and l.slice.value == 0 \
                and isinstance(r, ast.Constant) and isinstance(r.value, str):
            out.append((c, r.value, isinstance(c.ops[0], ast.NotEq)))
    return out

def _backbone_tests(fn):
    """membership tests `X in Y`: returns list of dotted names of Y"""
    out = []
    for c in _walk_type(fn, ast.Compare):
        if len(c.ops) == 1 and isinstance(c.ops[0], ast.In):
            try:
                out.append(dotted(c.comparators[0]))
            except Untranslatable:
                out.append('?')
    return out

def r_contact_filters(repo):
    tree, lines = _load(repo, IFACE)
    cls = find_class(tree, 'interface')
    fn = find_func(cls, 'get_contact_atoms')
    tests = _first_char_tests(fn)
    if len(tests) != 2:
        raise Untranslatable(f'get_contact_atoms: expected the hydrogen test on both sides (2), found {len(tests)}')
    chars = {t[1] for t in tests}
    if len(chars) != 1 or any(t[2] for t in tests):
        raise Untranslatable('get_contact_atoms: the two hydrogen tests differ')
    ch = chars.pop()
    if len(ch) != 1:
        raise Untranslatable('hydrogen test literal is not one character')
    # each test is guarded by `excludeH and ...`
    guarded = 0
    for b in _walk_type(fn, ast.BoolOp):
        if isinstance(b.op, ast.And) and len(b.values) == 2 and isinstance(b.values[0], ast.Name) \
                and b.values[0].id == 'excludeH' and any(b.values[1] is t[0] for t in tests):
            guarded += 1
    if guarded != 2:
        raise Untranslatable('get_contact_atoms: hydrogen tests are not both of the form `excludeH and name[0] == c`')
    # side 1: `if excludeH and ...: continue` ; side 2: `not (excludeH and ...)` inside the comprehension
    side1 = [s for s in _walk_type(fn, ast.If) if isinstance(s.test, ast.BoolOp) and any(s.test.values[-1] is t[0] for t in tests)
             and len(s.body) == 1 and isinstance(s.body[0], ast.Continue) and not s.orelse]
    side2 = [u for u in _walk_type(fn, ast.UnaryOp) if isinstance(u.op, ast.Not) and isinstance(u.operand, ast.BoolOp)
             and any(u.operand.values[-1] is t[0] for t in tests)]
    if len(side1) != 1 or len(side2) != 1:
        raise Untranslatable('get_contact_atoms: hydrogen exclusion is not `continue` on side 1 and `not (...)` on side 2')
    bb = _backbone_tests(fn)
    if bb != ['self.backbone_atoms', 'self.backbone_atoms']:
        raise Untranslatable(f'get_contact_atoms: backbone membership tests are {bb}')
    fn2 = find_func(cls, '_extend_contact_to_residue')
    bb2 = _backbone_tests(fn2)
    if bb2 != ['self.backbone_atoms']:
        raise Untranslatable(f'_extend_contact_to_residue: backbone membership tests are {bb2}')
    out = _header(region_info(lines, fn, IFACE))
    out += f'Definition contact_H_char_src : string := {coq_string(ch)}.\n'
    out += '(* both backbone tests of get_contact_atoms and the one of _extend_contact_to_residue read self.backbone_atoms\n'
    out += '   (= backbone_src of region const) *)\n'
    out += 'Definition contact_backbone_tests_src : nat := 3%nat.\n'
    return out

# ----------------------------------------------------------------------------------------
def r_contact_defaults(repo):
    tree, lines = _load(repo, IFACE)
    cls = find_class(tree, 'interface')
    fa = find_func(cls, 'get_contact_atoms')
    fr = find_func(cls, 'get_contact_residues')
    da, dr = _defaults(fa), _defaults(fr)
    flags_a = ['allchains', 'extend_to_residue', 'only_backbone_atoms', 'excludeH', 'return_contact_pairs']
    flags_r = ['allchains', 'excludeH', 'only_backbone_atoms', 'return_contact_pairs']
    for k in ['cutoff', 'chain1', 'chain2'] + flags_a:
        if k not in da:
            raise Untranslatable(f'get_contact_atoms: parameter {k} has no default')
    for k in ['cutoff', 'chain1', 'chain2'] + flags_r:
        if k not in dr:
            raise Untranslatable(f'get_contact_residues: parameter {k} has no default')
    out = _header(region_info(lines, fa, IFACE))
    out += f'Definition contact_cutoff_default_src : Q := {coq_Q(da["cutoff"])}.\n'
    out += f'Definition contact_chain1_default_src : string := {coq_string(da["chain1"])}.\n'
    out += f'Definition contact_chain2_default_src : string := {coq_string(da["chain2"])}.\n'
    out += 'Definition contact_flag_defaults_src : list (string * bool) :=\n  [' + \
        '; '.join(f'({coq_string(k)}, {_coq_bool(da[k])})' for k in flags_a) + '].\n'
    out += f'Definition residues_cutoff_default_src : Q := {coq_Q(dr["cutoff"])}.\n'
    out += f'Definition residues_chain1_default_src : string := {coq_string(dr["chain1"])}.\n'
    out += f'Definition residues_chain2_default_src : string := {coq_string(dr["chain2"])}.\n'
    out += 'Definition residues_flag_defaults_src : list (string * bool) :=\n  [' + \
        '; '.join(f'({coq_string(k)}, {_coq_bool(dr[k])})' for k in flags_r) + '].\n'
    return out

# ----------------------------------------------------------------------------------------
def _slice_of(n, var):
    """var[a:b] or var[a:b].strip() or int(var[a:b]) / float(var[a:b]) -> (a, b, wrapper)"""
    wrap = ''
    if isinstance(n, ast.Call) and isinstance(n.func, ast.Name) and n.func.id in ('int', 'float') and len(n.args) == 1:
        wrap = n.func.id
        n = n.args[0]
    elif isinstance(n, ast.Call) and isinstance(n.func, ast.Attribute) and n.func.attr == 'strip' and not n.args:
        wrap = 'strip'
        n = n.func.value
    if isinstance(n, ast.Subscript) and isinstance(n.value, ast.Name) and n.value.id == var and isinstance(n.slice, ast.Slice) \
            and n.slice.step is None and isinstance(n.slice.lower, ast.Constant) and isinstance(n.slice.upper, ast.Constant) \
            and isinstance(n.slice.lower.value, int) and isinstance(n.slice.upper.value, int) \
            and 0 <= n.slice.lower.value <= n.slice.upper.value:
        return n.slice.lower.value, n.slice.upper.value, wrap
    return None

def _index_of(n, var):
    if isinstance(n, ast.Subscript) and isinstance(n.value, ast.Name) and n.value.id == var \
            and isinstance(n.slice, ast.Constant) and isinstance(n.slice.value, int) and n.slice.value >= 0:
        return n.slice.value
    return None

def r_fnat_fast_reader(repo):
    tree, lines = _load(repo, SIM)
    fn = find_func(find_class(tree, 'StructureSimilarity'), 'compute_fnat_fast')
    loops = [s for s in fn.body if isinstance(s, ast.For) and isinstance(s.target, ast.Name)
             and isinstance(s.iter, ast.Name) and s.iter.id == 'data_decoy']
    if len(loops) != 1:
        raise Untranslatable('compute_fnat_fast: record loop over data_decoy not found')
    loop = loops[0]
    var = loop.target.id
    if not (len(loop.body) == 1 and isinstance(loop.body[0], ast.If) and not loop.body[0].orelse):
        raise Untranslatable('compute_fnat_fast: record loop body is not a single `if line.startswith(...)`')
    iff = loop.body[0]
    t = iff.test
    if not (isinstance(t, ast.Call) and isinstance(t.func, ast.Attribute) and t.func.attr == 'startswith'
            and isinstance(t.func.value, ast.Name) and t.func.value.id == var and len(t.args) == 1
            and isinstance(t.args[0], ast.Constant) and isinstance(t.args[0].value, str)):
        raise Untranslatable('compute_fnat_fast: record selection is not line.startswith(<literal>)')
    prefix = t.args[0].value
    got = {}
    alt = None
    key_ok = False
    h = None
    for s in iff.body:
        if isinstance(s, ast.Assign) and len(s.targets) == 1 and isinstance(s.targets[0], ast.Name):
            tn = s.targets[0].id
            ix = _index_of(s.value, var)
            sl = _slice_of(s.value, var)
            if ix is not None:
                got[tn] = ('index', ix)
            elif sl is not None:
                got[tn] = ('slice',) + sl
            elif isinstance(s.value, ast.Tuple):
                names = [e.id if isinstance(e, ast.Name) else None for e in s.value.elts]
                key_ok = (names == ['chainID', 'resSeq', 'resName'])
            else:
                fail(s, 'compute_fnat_fast: assignment in the record loop')
        elif isinstance(s, ast.If):
            c = s.test
            # if chainID == ' ': chainID = line[72]
            if isinstance(c, ast.Compare) and len(c.ops) == 1 and isinstance(c.ops[0], ast.Eq) \
                    and isinstance(c.left, ast.Name) and c.left.id == 'chainID' \
                    and isinstance(c.comparators[0], ast.Constant) and c.comparators[0].value == ' ' \
                    and len(s.body) == 1 and isinstance(s.body[0], ast.Assign) and not s.orelse \
                    and isinstance(s.body[0].targets[0], ast.Name) and s.body[0].targets[0].id == 'chainID' \
                    and _index_of(s.body[0].value, var) is not None:
                alt = _index_of(s.body[0].value, var)
            else:
                tests = _first_char_tests(s)
                if len(tests) == 1 and tests[0][0] is c and tests[0][2]:
                    h = tests[0][1]            # if name[0] != 'H': append
                elif isinstance(c, ast.Compare) and isinstance(c.ops[0], ast.NotIn):
                    pass                       # if key not in residue_xyz.keys(): create the entries
                else:
                    fail(s, 'compute_fnat_fast: conditional in the record loop')
        else:
            fail(s, 'compute_fnat_fast: statement in the record loop')
    want = {'chainID': 'index', 'resSeq': 'slice', 'resName': 'slice', 'name': 'slice', 'x': 'slice', 'y': 'slice', 'z': 'slice'}
    for k, kind in want.items():
        if k not in got or got[k][0] != kind:
            raise Untranslatable(f'compute_fnat_fast: field {k} is not read by a constant {kind}')
    wraps = {'resSeq': 'int', 'resName': 'strip', 'name': 'strip', 'x': 'float', 'y': 'float', 'z': 'float'}
    for k, w in wraps.items():
        if got[k][3] != w:
            raise Untranslatable(f'compute_fnat_fast: field {k} is converted by {got[k][3]!r}, expected {w!r}')
    if alt is None or not key_ok or h is None or len(h) != 1:
        raise Untranslatable('compute_fnat_fast: blank-chain fallback / residue key / hydrogen test not recognised')
    # the decision: dist_min <= cutoff with dist_min = np.min(np.array([np.sqrt(np.sum((..)-(..))**2) ...]))
    cands = []
    for c in _walk_type(fn, ast.Compare):
        if len(c.ops) == 1 and isinstance(c.ops[0], (ast.Lt, ast.LtE, ast.Gt, ast.GtE)):
            l, r = c.left, c.comparators[0]
            if isinstance(l, ast.Name) and l.id == 'dist_min' and isinstance(r, ast.Name) and r.id == 'cutoff':
                cands.append((c.ops[0], False))
            elif isinstance(r, ast.Name) and r.id == 'dist_min' and isinstance(l, ast.Name) and l.id == 'cutoff':
                cands.append((c.ops[0], True))
    if len(cands) != 1:
        raise Untranslatable('compute_fnat_fast: expected exactly one test of dist_min against cutoff')
    dm = [a for a in _walk_type(fn, ast.Assign) if isinstance(a.targets[0], ast.Name) and a.targets[0].id == 'dist_min']
    if len(dm) != 1 or not (isinstance(dm[0].value, ast.Call) and dotted(dm[0].value.func) == 'np.min'):
        raise Untranslatable('compute_fnat_fast: dist_min is not np.min(...)')
    sq = [c for c in _walk_type(dm[0].value, ast.Call) if _is_sqrt_sum_sq(c, False)]
    if len(sq) != 1:
        raise Untranslatable('compute_fnat_fast: dist_min is not a minimum of sqrt(sum((p1-p2)**2))')
    # return round(nCommon / nTotal, k)
    rets = [s for s in fn.body if isinstance(s, ast.Return)]
    want_ret = ast.parse('round(nCommon / nTotal, 0)').body[0].value
    if len(rets) != 1 or not (isinstance(rets[0].value, ast.Call) and len(rets[0].value.args) == 2
                              and _dump(rets[0].value.args[0]) == _dump(want_ret.args[0])
                              and isinstance(rets[0].value.func, ast.Name) and rets[0].value.func.id == 'round'
                              and isinstance(rets[0].value.args[1], ast.Constant) and isinstance(rets[0].value.args[1].value, int)):
        raise Untranslatable('compute_fnat_fast: return is not round(nCommon / nTotal, k)')
    digits = rets[0].value.args[1].value
    d = _defaults(fn)
    if 'cutoff' not in d:
        raise Untranslatable('compute_fnat_fast: cutoff has no default')
    pair = lambda k: f'({got[k][1]}%nat, {got[k][2]}%nat)'
    out = _header(region_info(lines, fn, SIM))
    out += f'Definition fast_prefix_src : string := {coq_string(prefix)}.\n'
    out += f'Definition fast_chain_col_src : nat := {got["chainID"][1]}%nat.\n'
    out += f'Definition fast_chain_alt_col_src : nat := {alt}%nat.\n'
    for k in ['resSeq', 'resName', 'name', 'x', 'y', 'z']:
        out += f'Definition fast_{k}_src : nat * nat := {pair(k)}.\n'
    out += f'Definition fast_H_char_src : string := {coq_string(h)}.\n'
    out += _test_text('fnat_fast_test_src', cands[0][0], cands[0][1])
    out += f'Definition fnat_fast_cutoff_default_src : Q := {coq_Q(d["cutoff"])}.\n'
    out += f'Definition fnat_fast_digits_src : nat := {digits}%nat.\n'
    return out

# ----------------------------------------------------------------------------------------
def _calls_to(fn, attr):
    return [c for c in _walk_type(fn, ast.Call) if isinstance(c.func, ast.Attribute) and c.func.attr == attr]

def _flag(call, name, default):
    v = _kw(call, name)
    if v is None:
        return default
    return literal(v)

def r_contact_callers(repo):
    tree, lines = _load(repo, SIM)
    cls = find_class(tree, 'StructureSimilarity')
    itree, _ = _load(repo, IFACE)
    icls = find_class(itree, 'interface')
    da = _defaults(find_func(icls, 'get_contact_atoms'))
    dr = _defaults(find_func(icls, 'get_contact_residues'))
    out = ''
    # compute_clashes
    fc = find_func(cls, 'compute_clashes')
    calls = _calls_to(fc, 'get_contact_atoms')
    if len(calls) != 1 or calls[0].args:
        raise Untranslatable('compute_clashes: expected one keyword-only call of get_contact_atoms')
    c = calls[0]
    for k in ('chain1', 'chain2'):
        v = _kw(c, k)
        if not (isinstance(v, ast.Name) and v.id == k):
            raise Untranslatable(f'compute_clashes: {k} is not passed through')
    if _flag(c, 'return_contact_pairs', da['return_contact_pairs']) is not True or _flag(c, 'allchains', da['allchains']) is not False:
        raise Untranslatable('compute_clashes: not a two-chain pair-map request')
    # nclash = sum of len(v)
    body_dump = _dump(ast.Module(body=[s for s in strip_doc(fc.body)], type_ignores=[]))
    loops = [s for s in fc.body if isinstance(s, ast.For)]
    ok = len(loops) == 1 and _dump(loops[0]) == _dump(ast.parse(
        'for v in atom_contact_pairs.values():\n    nclash += len(v)').body[0])
    if not ok:
        raise Untranslatable('compute_clashes: the count is not the sum of the partner-list lengths')
    out += _header(region_info(lines, fc, SIM))
    out += f'Definition clash_cutoff_src : Q := {coq_Q(_flag(c, "cutoff", da["cutoff"]))}.\n'
    out += f'Definition clash_excludeH_src : bool := {_coq_bool(_flag(c, "excludeH", da["excludeH"]))}.\n'
    out += f'Definition clash_only_backbone_src : bool := {_coq_bool(_flag(c, "only_backbone_atoms", da["only_backbone_atoms"]))}.\n'
    dc = _defaults(fc)
    out += f'Definition clash_chain1_default_src : string := {coq_string(dc["chain1"])}.\n'
    out += f'Definition clash_chain2_default_src : string := {coq_string(dc["chain2"])}.\n'
    # compute_residue_pairs_ref
    fp = find_func(cls, 'compute_residue_pairs_ref')
    calls = _calls_to(fp, 'get_contact_residues')
    if len(calls) != 1 or calls[0].args:
        raise Untranslatable('compute_residue_pairs_ref: expected one keyword-only call of get_contact_residues')
    c = calls[0]
    if _flag(c, 'return_contact_pairs', dr['return_contact_pairs']) is not True or _flag(c, 'allchains', dr['allchains']) is not False:
        raise Untranslatable('compute_residue_pairs_ref: not a two-chain pair-map request')
    v = _kw(c, 'cutoff')
    if not (isinstance(v, ast.Name) and v.id == 'cutoff'):
        raise Untranslatable('compute_residue_pairs_ref: cutoff is not passed through')
    for k, i in (('chain1', 0), ('chain2', 1)):
        v = _kw(c, k)
        if _dump(v) != _dump(ast.parse(f'chains[{i}]').body[0].value):
            raise Untranslatable(f'compute_residue_pairs_ref: {k} is not chains[{i}]')
    out += _header(region_info(lines, fp, SIM))
    out += f'Definition pairs_ref_excludeH_src : bool := {_coq_bool(_flag(c, "excludeH", dr["excludeH"]))}.\n'
    out += f'Definition pairs_ref_only_backbone_src : bool := {_coq_bool(_flag(c, "only_backbone_atoms", dr["only_backbone_atoms"]))}.\n'
    out += f'Definition pairs_ref_cutoff_default_src : Q := {coq_Q(_defaults(fp)["cutoff"])}.\n'
    # compute_fnat_pdb2sql
    fs = find_func(cls, 'compute_fnat_pdb2sql')
    calls = _calls_to(fs, 'get_contact_residues')
    if len(calls) != 2 or any(c.args for c in calls):
        raise Untranslatable('compute_fnat_pdb2sql: expected two keyword-only calls of get_contact_residues')
    exh, obb = set(), set()
    for c in calls:
        if _flag(c, 'return_contact_pairs', dr['return_contact_pairs']) is not True or _flag(c, 'allchains', dr['allchains']) is not False:
            raise Untranslatable('compute_fnat_pdb2sql: not a two-chain pair-map request')
        v = _kw(c, 'cutoff')
        if not (isinstance(v, ast.Name) and v.id == 'cutoff'):
            raise Untranslatable('compute_fnat_pdb2sql: cutoff is not passed through')
        for k, i in (('chain1', 0), ('chain2', 1)):
            if _dump(_kw(c, k)) != _dump(ast.parse(f'chains[{i}]').body[0].value):
                raise Untranslatable(f'compute_fnat_pdb2sql: {k} is not chains[{i}]')
        exh.add(_flag(c, 'excludeH', dr['excludeH']))
        obb.add(_flag(c, 'only_backbone_atoms', dr['only_backbone_atoms']))
    if len(exh) != 1 or len(obb) != 1:
        raise Untranslatable('compute_fnat_pdb2sql: decoy and reference are filtered differently')
    fixes = set()
    ctor = [c for c in _walk_type(fs, ast.Call) if isinstance(c.func, ast.Name) and c.func.id == 'interface']
    if len(ctor) != 2:
        raise Untranslatable('compute_fnat_pdb2sql: expected two interface(...) objects')
    for c in ctor:
        fixes.add(_flag(c, 'fix_chainID', False))
    if len(fixes) != 1:
        raise Untranslatable('compute_fnat_pdb2sql: fix_chainID differs between decoy and reference')
    rets = [s for s in fs.body if isinstance(s, ast.Return)]
    if len(rets) != 1 or not (isinstance(rets[0].value, ast.Call) and isinstance(rets[0].value.func, ast.Name)
                              and rets[0].value.func.id == 'round' and len(rets[0].value.args) == 2
                              and isinstance(rets[0].value.args[1], ast.Constant)):
        raise Untranslatable('compute_fnat_pdb2sql: return is not round(fnat, k)')
    out += _header(region_info(lines, fs, SIM))
    out += f'Definition fnat_sql_excludeH_src : bool := {_coq_bool(exh.pop())}.\n'
    out += f'Definition fnat_sql_only_backbone_src : bool := {_coq_bool(obb.pop())}.\n'
    out += f'Definition fnat_sql_fix_chainID_src : bool := {_coq_bool(fixes.pop())}.\n'
    out += f'Definition fnat_sql_cutoff_default_src : Q := {coq_Q(_defaults(fs)["cutoff"])}.\n'
    out += f'Definition fnat_sql_digits_src : nat := {int(rets[0].value.args[1].value)}%nat.\n'
    return out

# ----------------------------------------------------------------------------------------
GROUPS_contact = {
    'Generated_contact.v': {
        'imports': 'From Verif Require Import PyLib ModelTypes.\nOpen Scope string_scope.\n',
        'regions': [('contact_test', r_contact_test), ('contact_filters', r_contact_filters),
                    ('contact_defaults', r_contact_defaults), ('fnat_fast_reader', r_fnat_fast_reader),
                    ('contact_callers', r_contact_callers)],
    },
}
