"""regions_fs.py — translator regions of cluster fs (C20, C16).

Region `fs_callsites`: a static pass over the AST of every module of the package listing EVERY
file-system / process / database-connection call site (open with its mode, Path.open, os.remove,
os.replace, os.rename, os.system, os.popen, subprocess.*, sqlite3.connect, tempfile.*, os.fdopen,
pickle.dump, *.exportpdb, os.path.isfile/exists, shutil.*, os.mkdir..., urlopen, numpy/pandas
writers, and every call passing a sqlfile= argument) with the enclosing function and a symbolic path expression, emitted as a Gallina table
`callsites_src`.  Proofs_fs_sites.v proves `callsites_src = model_callsites` (the table the model's
scripts were written from): a new call site, a shell call coming back, a write mode in place of the
atomic helper, a fixed scratch-file name ... change the table and break that proof.

Expression level: line numbers are not part of the table (only the source order is); local variable
names are not part of the table either (a local is replaced by the expression it was assigned, or by
`_local_` when it has no single straight-line definition), so renaming a local or re-formatting
leaves the table unchanged.  Fail-closed: a call shape the pass cannot classify raises Untranslatable."""
import ast, os, sys
from py2coq import Untranslatable, coq_string

MODULES = ['pdb2sql/__init__.py', 'pdb2sql/pdb2sql_base.py', 'pdb2sql/pdb2sqlcore.py', 'pdb2sql/many2sql.py',
           'pdb2sql/interface.py', 'pdb2sql/transform.py', 'pdb2sql/superpose.py', 'pdb2sql/align.py',
           'pdb2sql/StructureSimilarity.py', 'pdb2sql/utils.py']

# dotted callee -> (kind, index of the path argument, index of a second path argument or None)
DOTTED = {
    'os.remove': ('SRemove', 0, None), 'os.unlink': ('SRemove', 0, None), 'os.rmdir': ('SRemove', 0, None),
    'os.removedirs': ('SRemove', 0, None), 'shutil.rmtree': ('SRemove', 0, None),
    'os.replace': ('SReplace', 0, 1), 'os.rename': ('SReplace', 0, 1), 'os.renames': ('SReplace', 0, 1),
    'shutil.move': ('SReplace', 0, 1), 'shutil.copy': ('SCopy', 0, 1), 'shutil.copyfile': ('SCopy', 0, 1),
    'shutil.copy2': ('SCopy', 0, 1), 'shutil.copytree': ('SCopy', 0, 1),
    'os.system': ('SShell', 0, None), 'os.popen': ('SShell', 0, None),
    'os.path.isfile': ('SIsfile', 0, None), 'os.path.exists': ('SExists', 0, None), 'os.path.isdir': ('SExists', 0, None),
    'os.mkdir': ('SMkdir', 0, None), 'os.makedirs': ('SMkdir', 0, None),
    'os.chdir': ('SChdir', 0, None), 'os.listdir': ('SListdir', 0, None),
    'sqlite3.connect': ('SConnect', 0, None),
    'tempfile.mkstemp': ('SMkstemp', None, None), 'tempfile.mkdtemp': ('SMkstemp', None, None),
    'tempfile.NamedTemporaryFile': ('SMkstemp', None, None), 'tempfile.TemporaryFile': ('SMkstemp', None, None),
    'tempfile.mktemp': ('SMkstemp', None, None), 'tempfile.TemporaryDirectory': ('SMkstemp', None, None),
    'pickle.dump': ('SPickleDump', 1, None), 'pickle.load': ('SPickleLoad', 0, None),
    'urllib.request.urlopen': ('SUrlopen', 0, None), 'urllib.request.urlretrieve': ('SUrlopen', 0, 1),
    'np.savetxt': ('SNumpyWrite', 0, None), 'np.save': ('SNumpyWrite', 0, None), 'np.savez': ('SNumpyWrite', 0, None),
    'np.loadtxt': ('SNumpyRead', 0, None), 'np.load': ('SNumpyRead', 0, None), 'np.genfromtxt': ('SNumpyRead', 0, None),
    'numpy.savetxt': ('SNumpyWrite', 0, None), 'numpy.save': ('SNumpyWrite', 0, None),
    'pd.read_csv': ('SNumpyRead', 0, None),
}
SHELL_PREFIX = ('sp.', 'subprocess.')
# method names that are file-system calls whatever the receiver
METHODS = {'exportpdb': ('SExport', 0), 'to_csv': ('SToCsv', 0), 'to_pickle': ('SToCsv', 0),
           'write_text': ('SPathWrite', None), 'write_bytes': ('SPathWrite', None), 'unlink': ('SRemove', None),
           'rename': ('SReplace', None), 'mkdir': ('SMkdir', None), 'touch': ('SPathWrite', None),
           'read_text': ('SPathRead', None), 'read_bytes': ('SPathRead', None),
           'is_file': ('SIsfile', None), 'exists': ('SExists', None)}
BUILTIN_DANGEROUS = {'exec', 'eval', 'compile', '__import__'}

def dotted(n):
    if isinstance(n, ast.Name):
        return n.id
    if isinstance(n, ast.Attribute):
        b = dotted(n.value)
        return None if b is None else b + '.' + n.attr
    return None

class FuncInfo:
    def __init__(self, node, qual):
        self.node, self.qual = node, qual
        self.params = set()
        self.assigned = {}          # local -> value expr (single plain assignment) or None (several / not plain)
        if node is not None:
            a = node.args
            for x in a.posonlyargs + a.args + a.kwonlyargs:
                self.params.add(x.arg)
            if a.vararg: self.params.add(a.vararg.arg)
            if a.kwarg: self.params.add(a.kwarg.arg)
            for sub in ast.walk(node):
                if isinstance(sub, (ast.FunctionDef, ast.AsyncFunctionDef, ast.Lambda)) and sub is not node:
                    continue
                targets = []
                if isinstance(sub, ast.Assign):
                    for t in sub.targets:
                        if isinstance(t, ast.Name):
                            targets.append((t.id, sub.value))
                        else:
                            for e in ast.walk(t):
                                if isinstance(e, ast.Name):
                                    targets.append((e.id, None))
                elif isinstance(sub, (ast.AugAssign, ast.AnnAssign)):
                    for e in ast.walk(sub.target):
                        if isinstance(e, ast.Name):
                            targets.append((e.id, None))
                elif isinstance(sub, (ast.For, ast.comprehension)):
                    for e in ast.walk(sub.target):
                        if isinstance(e, ast.Name):
                            targets.append((e.id, None))
                elif isinstance(sub, ast.With):
                    for it in sub.items:
                        if it.optional_vars is not None:
                            for e in ast.walk(it.optional_vars):
                                if isinstance(e, ast.Name):
                                    targets.append((e.id, None))
                for name, val in targets:
                    if name in self.assigned or name in self.params:
                        self.assigned[name] = None
                    else:
                        self.assigned[name] = val

def symbolic(expr, fi, depth=0):
    """source text of expr with locals replaced by their definitions (or _local_)"""
    if expr is None:
        return ''
    class Sub(ast.NodeTransformer):
        def visit_Name(self, n):
            if n.id in fi.params:
                return n
            if n.id in fi.assigned:
                v = fi.assigned[n.id]
                if v is None or depth > 4:
                    return ast.Name(id='_local_', ctx=ast.Load())
                return ast.parse(symbolic(v, fi, depth + 1), mode='eval').body
            return n          # module-level name / builtin / import
    import copy
    e = Sub().visit(copy.deepcopy(expr))
    ast.fix_missing_locations(e)
    return ast.unparse(e)

def const_str(n):
    return n.value if isinstance(n, ast.Constant) and isinstance(n.value, str) else None

def arg_of(call, idx, kw=None):
    if idx is not None and idx < len(call.args):
        a = call.args[idx]
        if isinstance(a, ast.Starred):
            raise Untranslatable(f'line {call.lineno}: starred argument in a file-system call')
        return a
    if kw:
        for k in call.keywords:
            if k.arg == kw:
                return k.value
    return None

def classify(call, fi):
    """-> (kind text, path text) or None"""
    f = call.func
    name = dotted(f)
    if isinstance(f, ast.Name):
        if f.id == 'open':
            if any(k.arg is None for k in call.keywords):
                raise Untranslatable(f'line {call.lineno}: open(**kwargs)')
            m = arg_of(call, 1, 'mode')
            mode = 'r' if m is None else const_str(m)
            if mode is None:
                raise Untranslatable(f'line {call.lineno}: open() with a computed mode')
            return f'SOpen {coq_string(mode)}', symbolic(arg_of(call, 0, 'file'), fi)
        if f.id in BUILTIN_DANGEROUS:
            return 'SShell', symbolic(arg_of(call, 0), fi)
        return None
    if name is not None:
        if name in DOTTED:
            kind, i1, i2 = DOTTED[name]
            if kind == 'SMkstemp':
                txt = ', '.join(f'{k.arg}={symbolic(k.value, fi)}' for k in call.keywords) or \
                      ', '.join(symbolic(a, fi) for a in call.args)
                return kind, txt
            p = symbolic(arg_of(call, i1), fi)
            if i2 is not None:
                p += ' -> ' + symbolic(arg_of(call, i2), fi)
            return kind, p
        if name.startswith(SHELL_PREFIX):
            return 'SShell', symbolic(arg_of(call, 0, 'args'), fi)
        if name == 'os.fdopen':
            m = arg_of(call, 1, 'mode')
            mode = 'r' if m is None else const_str(m)
            if mode is None:
                raise Untranslatable(f'line {call.lineno}: os.fdopen() with a computed mode')
            return f'SFdopen {coq_string(mode)}', symbolic(arg_of(call, 0), fi)
        if name.startswith('os.') and name.split('.')[1] in ('spawnl', 'spawnv', 'execv', 'execl', 'execvp', 'startfile', 'fork',
                                                              'truncate', 'link', 'symlink', 'chmod', 'chown', 'open', 'write'):
            return 'SShell' if name.split('.')[1] not in ('truncate', 'link', 'symlink', 'chmod', 'chown', 'open', 'write') else 'SPathWrite', \
                   symbolic(arg_of(call, 0), fi)
    if isinstance(f, ast.Attribute):
        if f.attr == 'open':
            # Path.open / io.open / gzip.open ...
            m = arg_of(call, 0, 'mode') if dotted(f.value) not in ('io', 'gzip', 'bz2', 'codecs') else arg_of(call, 1, 'mode')
            mode = 'r' if m is None else const_str(m)
            if mode is None:
                raise Untranslatable(f'line {call.lineno}: .open() with a computed mode')
            recv = symbolic(f.value, fi) if dotted(f.value) not in ('io', 'gzip', 'bz2', 'codecs') else symbolic(arg_of(call, 0), fi)
            return f'SOpen {coq_string(mode)}', recv
        if f.attr in METHODS:
            kind, idx = METHODS[f.attr]
            if kind in ('SIsfile', 'SExists', 'SRemove', 'SReplace', 'SMkdir', 'SPathWrite', 'SPathRead') and idx is None:
                # pathlib-style method: only when the receiver is not a str method look-alike
                if f.attr in ('rename', 'exists', 'mkdir', 'touch', 'unlink', 'is_file', 'write_text', 'write_bytes',
                              'read_text', 'read_bytes'):
                    return kind, symbolic(f.value, fi)
            a = arg_of(call, idx) if idx is not None else None
            if f.attr in ('to_csv', 'to_pickle') and a is None and not any(k.arg in ('path_or_buf', 'path') for k in call.keywords):
                return None                         # returns a string, writes nothing
            return kind, symbolic(a, fi)
    return None

def callsites(repo):
    out = []
    for rel in MODULES:
        p = os.path.join(repo, rel)
        if not os.path.exists(p):
            raise Untranslatable(f'module {rel} not found')
        tree = ast.parse(open(p).read())
        # modules of the package that are not in the list would escape the pass
        def visit(node, fi):
            for child in ast.iter_child_nodes(node):
                if isinstance(child, (ast.FunctionDef, ast.AsyncFunctionDef)):
                    q = (fi.qual + '.' if fi.qual not in ('', '<module>') else '') + child.name
                    visit(child, FuncInfo(child, q))
                elif isinstance(child, ast.ClassDef):
                    q = (fi.qual + '.' if fi.qual not in ('', '<module>') else '') + child.name
                    visit(child, FuncInfo(None, q))
                else:
                    if isinstance(child, ast.Call):
                        c = classify(child, fi)
                        if c is not None:
                            out.append((child.lineno, child.col_offset, os.path.basename(rel), fi.qual or '<module>', c[0], c[1]))
                        # a database object created on a file: any call passing sqlfile=...
                        for k in child.keywords:
                            if k.arg == 'sqlfile' and not (isinstance(k.value, ast.Constant) and k.value.value is None):
                                out.append((child.lineno, child.col_offset + 1, os.path.basename(rel), fi.qual or '<module>',
                                            'SSqlfileArg', symbolic(k.value, fi)))
                    visit(child, fi)
        visit(tree, FuncInfo(None, '<module>'))
    pkg = os.path.join(repo, 'pdb2sql')
    extra = sorted(f for f in os.listdir(pkg) if f.endswith('.py') and ('pdb2sql/' + f) not in MODULES and f != '__version__.py')
    if extra:
        raise Untranslatable(f'modules not covered by the call-site pass: {extra}')
    # source order inside a file; files in the order of MODULES
    order = {os.path.basename(m): i for i, m in enumerate(MODULES)}
    out.sort(key=lambda t: (order[t[2]], t[0], t[1]))
    return out

def r_fs_callsites(repo):
    sites = callsites(repo)
    import hashlib
    body = 'Definition callsites_src : list callsite :=\n  [' + ';\n   '.join(
        f'mkSite {coq_string(f)} {coq_string(q)} ({k}) {coq_string(p)}' for (_, _, f, q, k, p) in sites) + '].\n'
    sha = hashlib.sha1(body.encode()).hexdigest()
    return f'(* source: pdb2sql/*.py (static call-site pass over {len(MODULES)} modules) sha1 {sha} *)\n' + body

GROUPS_fs = {
    'Generated_fs.v': {
        'imports': 'From Verif Require Import PyLib ModelTypes Model_fs.\nOpen Scope string_scope.\n',
        'regions': [('fs_callsites', r_fs_callsites)],
    },
}

if __name__ == '__main__':
    repo = sys.argv[1] if len(sys.argv) > 1 else '/repo'
    print(r_fs_callsites(repo))
