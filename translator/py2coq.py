#!/usr/bin/env python3
"""py2coq — fail-closed translator from registered regions of /repo/pdb2sql/*.py to Gallina.

For every *region* (a function, or a group of statements inside one) a recipe checks the
statement/expression shapes it understands and emits Coq text.  Anything else raises
Untranslatable naming the region: never a silent skip.  The caller (harness/build.py)
then falls back to the committed golden text of that region and marks the tie for the
dependent properties as `correspondence-fallback` (DESIGN §3.1).

Two generic pieces:
  * FunTr: a typed translator for straight-line / if-cascade functions over
    Q (exact rationals of doubles), nat, bool and str, using continuation duplication
    (the statements after an `if` are translated once per branch), `raise` -> Err,
    reading an unbound local -> Err "UnboundLocalError".
  * NumTr: pure arithmetic expressions emitted in a ring-polymorphic style
    (inside `Module Gen (N : NUM)`), used for matrices over Q and over R.
"""
import ast, hashlib, json, os, sys, fractions

class Untranslatable(Exception):
    pass

def fail(node, msg):
    line = getattr(node, 'lineno', '?')
    raise Untranslatable(f'line {line}: {msg}: {ast.dump(node)[:200] if isinstance(node, ast.AST) else node}')

# ----------------------------------------------------------------------------------------
def coq_string(s):
    for ch in s:
        if not (32 <= ord(ch) < 127 or ch == '\n'):
            raise Untranslatable(f'non-printable character in string literal {s!r}')
    return '"' + s.replace('"', '""') + '"'

def q_of_float(x):
    fr = fractions.Fraction(x)        # exact value of the double
    return fr.numerator, fr.denominator

def coq_Q(x):
    if isinstance(x, bool):
        raise Untranslatable('bool used as number')
    if isinstance(x, int):
        return f'({x} # 1)' if x >= 0 else f'(({x}) # 1)'
    n, d = q_of_float(x)
    return f'({n} # {d})' if n >= 0 else f'(({n}) # {d})'

# ----------------------------------------------------------------------------------------
def find_class(tree, name):
    for n in tree.body:
        if isinstance(n, ast.ClassDef) and n.name == name:
            return n
    raise Untranslatable(f'class {name} not found')

def find_func(scope, name):
    body = scope.body
    for n in body:
        if isinstance(n, ast.FunctionDef) and n.name == name:
            return n
    raise Untranslatable(f'function {name} not found')

def strip_doc(body):
    if body and isinstance(body[0], ast.Expr) and isinstance(body[0].value, ast.Constant) \
            and isinstance(body[0].value.value, str):
        return body[1:]
    return body

def region_info(src_lines, node, relpath):
    a, b = node.lineno, node.end_lineno
    text = '\n'.join(src_lines[a - 1:b])
    return {'file': relpath, 'lines': [a, b], 'sha1': hashlib.sha1(text.encode()).hexdigest()}

def fingerprint(node):
    """normalised-AST hash of a hand-modelled function (docstrings dropped)."""
    class Strip(ast.NodeTransformer):
        def visit_FunctionDef(self, n):
            self.generic_visit(n)
            n.body = strip_doc(n.body) or [ast.Pass()]
            return n
    import copy
    n2 = Strip().visit(copy.deepcopy(node))
    return hashlib.sha1(ast.dump(n2, annotate_fields=False, include_attributes=False).encode()).hexdigest()

# ----------------------------------------------------------------------------------------
class FunTr:
    """Typed translation of a Python function body into a Gallina term of type [res T]."""

    def __init__(self, ret_type, helpers=None, subscript_names=None, ignore_calls=()):
        self.ret_type = ret_type
        self.helpers = helpers or {}          # python callee dotted name -> (coq name, [arg types], ret type, can_fail)
        self.subscript_names = subscript_names or {}   # ('data', 1) -> python-level variable name
        self.ignore_calls = set(ignore_calls)
        self.fresh = 0

    # ---- environment: python name -> (coq name, type) ---------------------------------
    def bind(self, env, name, ty):
        self.fresh += 1
        cn = f'{name}_{self.fresh}'
        env = dict(env)
        env[name] = (cn, ty)
        return env, cn

    # ---- expressions ----------------------------------------------------------------------
    def dotted(self, node):
        if isinstance(node, ast.Name):
            return node.id
        if isinstance(node, ast.Attribute):
            return self.dotted(node.value) + '.' + node.attr
        fail(node, 'not a dotted name')

    def expr(self, n, env):
        """returns (coq text, type)"""
        if isinstance(n, ast.Constant):
            v = n.value
            if isinstance(v, bool):
                return ('true' if v else 'false'), 'bool'
            if isinstance(v, int):
                return str(v), 'int'        # polymorphic literal: nat or Q by context
            if isinstance(v, float):
                return coq_Q(v), 'Q'
            if isinstance(v, str):
                return coq_string(v), 'str'
            fail(n, 'constant')
        if isinstance(n, ast.Name):
            if n.id not in env:
                raise KeyError(n.id)
            return env[n.id]
        if isinstance(n, ast.Subscript):
            # data[k] registered as a named field
            if isinstance(n.value, ast.Name) and isinstance(n.slice, ast.Constant) \
                    and (n.value.id, n.slice.value) in self.subscript_names:
                return self.expr(ast.Name(id=self.subscript_names[(n.value.id, n.slice.value)]), env)
            base, bty = self.expr(n.value, env)
            if bty != 'str':
                fail(n, 'subscript of non-string')
            sl = n.slice
            if isinstance(sl, ast.Constant) and isinstance(sl.value, int) and sl.value >= 0:
                return f'(char_at {sl.value} {base})', 'str'
            if isinstance(sl, ast.Slice) and sl.step is None:
                lo = self.const_nat(sl.lower, env) if sl.lower is not None else 0
                if sl.upper is None:
                    fail(n, 'open-ended slice')
                hi = self.const_nat(sl.upper, env)
                return f'(slice {lo} {hi} {base})', 'str'
            fail(n, 'subscript form')
        if isinstance(n, ast.UnaryOp):
            if isinstance(n.op, ast.Not):
                t, ty = self.expr(n.operand, env)
                return f'(negb {self.truth(t, ty, n)})', 'bool'
            if isinstance(n.op, ast.USub):
                t, ty = self.expr(n.operand, env)
                t = self.as_Q(t, ty, n)
                return f'(Qopp {t})', 'Q'
            fail(n, 'unary operator')
        if isinstance(n, ast.BinOp):
            l, lt = self.expr(n.left, env)
            r, rt = self.expr(n.right, env)
            if isinstance(n.op, ast.Pow):
                if not (isinstance(n.right, ast.Constant) and n.right.value == 2):
                    fail(n, 'power other than 2')
                return f'(Qsqr {self.as_Q(l, lt, n)})', 'Q'
            if isinstance(n.op, ast.Add) and lt == 'str' and rt == 'str':
                return f'({l} ++ {r})', 'str'
            if isinstance(n.op, ast.Mult) and lt == 'str' and rt in ('int', 'nat'):
                if not (isinstance(n.left, ast.Constant) and len(n.left.value) == 1):
                    fail(n, 'string repetition of a non-single character')
                return f'(repeat_str {l} {self.as_nat(r, rt, n)})', 'str'
            ops = {ast.Add: 'Qplus', ast.Sub: 'Qminus', ast.Mult: 'Qmult', ast.Div: 'Qdiv'}
            for k, v in ops.items():
                if isinstance(n.op, k):
                    return f'({v} {self.as_Q(l, lt, n)} {self.as_Q(r, rt, n)})', 'Q'
            fail(n, 'binary operator')
        if isinstance(n, ast.BoolOp):
            parts = [self.truth(*self.expr(v, env), n) for v in n.values]
            op = ' && ' if isinstance(n.op, ast.And) else ' || '
            return '(' + op.join(parts) + ')', 'bool'
        if isinstance(n, ast.Compare):
            terms = [n.left] + list(n.comparators)
            parts = []
            for a, op, b in zip(terms, n.ops, terms[1:]):
                parts.append(self.compare(a, op, b, env, n))
            return '(' + ' && '.join(parts) + ')', 'bool'
        if isinstance(n, ast.Call):
            return self.call(n, env)
        if isinstance(n, ast.IfExp):
            fail(n, 'conditional expression')
        fail(n, 'expression')

    def const_nat(self, n, env):
        if isinstance(n, ast.Constant) and isinstance(n.value, int) and n.value >= 0:
            return n.value
        # a local bound to a literal list element, e.g. segID_ind[0]
        if isinstance(n, ast.Subscript) and isinstance(n.value, ast.Name) and isinstance(n.slice, ast.Constant):
            key = ('#list', n.value.id)
            if key in env:
                return env[key][n.slice.value]
        fail(n, 'slice bound is not a constant')

    def truth(self, t, ty, n):
        if ty == 'bool':
            return t
        if ty == 'str':
            return f'(str_nonempty {t})'
        fail(n, f'truth value of {ty}')

    def as_Q(self, t, ty, n):
        if ty == 'Q':
            return t
        if ty == 'int':
            return coq_Q(int(t))
        fail(n, f'{ty} used as a number')

    def as_nat(self, t, ty, n):
        if ty == 'nat':
            return t
        if ty == 'int' and int(t) >= 0:
            return f'{t}%nat'
        fail(n, f'{ty} used as nat')

    def compare(self, a, op, b, env, n):
        at, aty = self.expr(a, env)
        if isinstance(op, (ast.In, ast.NotIn)):
            if isinstance(b, ast.Tuple):          # lname in (1, 4)
                alts = []
                for e in b.elts:
                    et, ety = self.expr(e, env)
                    alts.append(self.eq(at, aty, et, ety, n))
                r = '(' + ' || '.join(alts) + ')'
            else:
                bt, bty = self.expr(b, env)
                if aty == 'str' and bty == 'str':
                    r = f'(is_substring {at} {bt})'
                else:
                    fail(n, 'membership form')
            return r if isinstance(op, ast.In) else f'(negb {r})'
        bt, bty = self.expr(b, env)
        if isinstance(op, ast.Eq):
            return self.eq(at, aty, bt, bty, n)
        if isinstance(op, ast.NotEq):
            return f'(negb {self.eq(at, aty, bt, bty, n)})'
        if aty in ('nat',) or bty in ('nat',):
            x, y = self.as_nat(at, aty, n), self.as_nat(bt, bty, n)
            tbl = {ast.Lt: f'(Nat.ltb {x} {y})', ast.LtE: f'(Nat.leb {x} {y})',
                   ast.Gt: f'(Nat.ltb {y} {x})', ast.GtE: f'(Nat.leb {y} {x})'}
        else:
            x, y = self.as_Q(at, aty, n), self.as_Q(bt, bty, n)
            tbl = {ast.Lt: f'(Qltb {x} {y})', ast.LtE: f'(Qleb {x} {y})',
                   ast.Gt: f'(Qltb {y} {x})', ast.GtE: f'(Qleb {y} {x})'}
        for k, v in tbl.items():
            if isinstance(op, k):
                return v
        fail(n, 'comparison operator')

    def eq(self, at, aty, bt, bty, n):
        if aty == 'str' and bty == 'str':
            return f'(String.eqb {at} {bt})'
        if 'nat' in (aty, bty):
            return f'(Nat.eqb {self.as_nat(at, aty, n)} {self.as_nat(bt, bty, n)})'
        if aty in ('Q', 'int') and bty in ('Q', 'int'):
            return f'(Qeqb {self.as_Q(at, aty, n)} {self.as_Q(bt, bty, n)})'
        fail(n, f'equality between {aty} and {bty}')

    def call(self, n, env):
        f = n.func
        # '<spec>'.format(x)
        if isinstance(f, ast.Attribute) and f.attr == 'format' and isinstance(f.value, ast.Constant) \
                and isinstance(f.value.value, str):
            if len(n.args) != 1 or n.keywords:
                fail(n, 'format arity')
            spec = parse_format(f.value.value, n)
            t, ty = self.expr(n.args[0], env)
            return self.apply_format(spec, t, ty, n), 'str'
        # x.strip()
        if isinstance(f, ast.Attribute) and f.attr == 'strip' and not n.args:
            t, ty = self.expr(f.value, env)
            if ty != 'str':
                fail(n, 'strip of non-string')
            return f'(strip {t})', 'str'
        if isinstance(f, ast.Name) and f.id == 'len' and len(n.args) == 1:
            t, ty = self.expr(n.args[0], env)
            if ty != 'str':
                fail(n, 'len of non-string')
            return f'(String.length {t})', 'nat'
        if isinstance(f, ast.Name) and f.id == 'round' and len(n.args) == 2 \
                and isinstance(n.args[1], ast.Constant) and isinstance(n.args[1].value, int):
            t, ty = self.expr(n.args[0], env)
            return f'(round_dec {n.args[1].value} {self.as_Q(t, ty, n)})', 'Q'
        name = self.dotted(f)
        if name in self.helpers:
            cn, argtys, rty, _ = self.helpers[name]
            if len(n.args) != len(argtys) or n.keywords:
                fail(n, 'helper arity')
            args = []
            for a, want in zip(n.args, argtys):
                t, ty = self.expr(a, env)
                if want == 'Q':
                    t = self.as_Q(t, ty, n)
                elif ty != want:
                    fail(n, f'helper argument type {ty} != {want}')
                args.append(t)
            return '(' + ' '.join([cn] + args) + ')', rty
        fail(n, 'call')

    def apply_format(self, spec, t, ty, n):
        align, width, prec, kind = spec
        if kind == 'f':
            if align != '>' or prec is None:
                fail(n, 'float format other than {:>w.pf}')
            return f'(fmt_fixed {width} {prec} {self.as_Q(t, ty, n)})'
        if kind == '' and prec is None and ty == 'str':
            fn = {'>': 'rjust', '<': 'ljust', '^': 'center'}[align]
            return f'({fn} {width} {t})'
        fail(n, f'format spec on {ty}')

    # ---- statements -----------------------------------------------------------------------
    def block(self, stmts, env):
        """translate a statement list; the value is a Gallina term of type res T"""
        if not stmts:
            return '(Err "NoReturn")'
        s, rest = stmts[0], stmts[1:]
        if isinstance(s, ast.Expr):
            v = s.value
            if isinstance(v, ast.Constant) and isinstance(v.value, str):
                return self.block(rest, env)                     # docstring
            if isinstance(v, ast.Call) and self.dotted(v.func) in self.ignore_calls:
                return self.block(rest, env)                     # warnings.warn(...)
            fail(s, 'expression statement')
        if isinstance(s, ast.Assign):
            if len(s.targets) != 1:
                fail(s, 'multiple assignment targets')
            tgt = s.targets[0]
            if isinstance(tgt, ast.Name):
                # literal list of ints used only for slice bounds
                if isinstance(s.value, ast.List) and all(isinstance(e, ast.Constant) and isinstance(e.value, int) for e in s.value.elts):
                    env2 = dict(env)
                    env2[('#list', tgt.id)] = [e.value for e in s.value.elts]
                    return self.block(rest, env2)
                try:
                    t, ty = self.expr(s.value, env)
                except KeyError as e:
                    return '(Err "UnboundLocalError")'
                if ty == 'int':
                    t, ty = coq_Q(int(t)), 'Q'
                env2, cn = self.bind(env, tgt.id, ty)
                return f'(let {cn} := {t} in\n {self.block(rest, env2)})'
            if isinstance(tgt, ast.Tuple) and isinstance(s.value, ast.Tuple) and len(tgt.elts) == len(s.value.elts) \
                    and all(isinstance(e, ast.Name) for e in tgt.elts):
                out = []
                env2 = env
                vals = []
                for e in s.value.elts:
                    vals.append(self.expr(e, env))
                for e, (t, ty) in zip(tgt.elts, vals):
                    if ty == 'int':
                        t, ty = coq_Q(int(t)), 'Q'
                    env2, cn = self.bind(env2, e.id, ty)
                    out.append(f'let {cn} := {t} in')
                return '(' + '\n '.join(out) + '\n ' + self.block(rest, env2) + ')'
            fail(s, 'assignment target')
        if isinstance(s, ast.If):
            try:
                c = self.truth(*self.expr(s.test, env), s.test)
            except KeyError:
                return '(Err "UnboundLocalError")'
            a = self.block(list(s.body) + rest, env)
            b = self.block(list(s.orelse) + rest, env)
            return f'(if {c}\n then {a}\n else {b})'
        if isinstance(s, ast.Return):
            if s.value is None:
                fail(s, 'bare return')
            try:
                t, ty = self.expr(s.value, env)
            except KeyError:
                return '(Err "UnboundLocalError")'
            if self.ret_type == 'Q':
                t = self.as_Q(t, ty, s)
            elif ty != self.ret_type:
                fail(s, f'return type {ty} != {self.ret_type}')
            return f'(Ok {t})'
        if isinstance(s, ast.Raise):
            exc = s.exc
            if isinstance(exc, ast.Call):
                exc = exc.func
            if not isinstance(exc, ast.Name):
                fail(s, 'raise form')
            return f'(Err {coq_string(exc.id)})'
        if isinstance(s, ast.Pass):
            return self.block(rest, env)
        fail(s, 'statement')

    def function(self, fn, coqname, param_types, skip_params=()):
        """fn: ast.FunctionDef; param_types: ordered dict python param -> type"""
        params = [a.arg for a in fn.args.args if a.arg not in skip_params]
        env = {}
        binders = []
        for p, ty in param_types.items():
            env, cn = self.bind(env, p, ty)
            binders.append(f'({cn} : {COQTY[ty]})')
        declared = [p for p in params]
        # every real parameter must be typed (possibly via subscript_names) or defaulted
        body = self.block(strip_doc(fn.body), env)
        return f'Definition {coqname} {" ".join(binders)} : res {COQTY[self.ret_type]} :=\n {body}.\n'

COQTY = {'Q': 'Q', 'str': 'string', 'nat': 'nat', 'bool': 'bool'}

def parse_format(spec, node):
    """'{:>8.3f}' -> (align, width, prec, kind). Only one replacement field, nothing else."""
    if not (spec.startswith('{:') and spec.endswith('}')) or spec.count('{') != 1:
        fail(node, f'format string {spec!r}')
    s = spec[2:-1]
    align = '>'
    if s and s[0] in '<>^':
        align, s = s[0], s[1:]
    else:
        fail(node, f'format string without explicit alignment {spec!r}')
    kind = ''
    if s and s[-1] in 'fd':
        kind, s = s[-1], s[:-1]
    prec = None
    if '.' in s:
        s, p = s.split('.')
        prec = int(p)
    if not s.isdigit():
        fail(node, f'format width in {spec!r}')
    return align, int(s), prec, kind

# ----------------------------------------------------------------------------------------
class NumTr:
    """Arithmetic expressions in ring-polymorphic Gallina (inside Module Gen (N : NUM))."""
    def __init__(self, names=None, subs=None, calls=None):
        self.names = names or {}      # python name -> coq text
        self.subs = subs or {}        # ('R', (1, 2)) -> coq text
        self.calls = calls or {}      # 'np.trace' -> callable(args_nodes, self) -> text

    def lit(self, v):
        if isinstance(v, bool):
            raise Untranslatable('bool literal in arithmetic')
        if isinstance(v, int):
            return f'(N.ofZ ({v}))'
        n, d = q_of_float(v)
        return f'(N.div (N.ofZ ({n})) (N.ofZ ({d})))'

    def expr(self, n):
        if isinstance(n, ast.Constant) and isinstance(n.value, (int, float)):
            return self.lit(n.value)
        if isinstance(n, ast.Name):
            if n.id in self.names:
                return self.names[n.id]
            fail(n, 'unknown name')
        if isinstance(n, ast.UnaryOp) and isinstance(n.op, ast.USub):
            return f'(N.opp {self.expr(n.operand)})'
        if isinstance(n, ast.BinOp):
            if isinstance(n.op, ast.Pow):
                if isinstance(n.right, ast.Constant) and n.right.value == 2:
                    e = self.expr(n.left)
                    return f'(N.mul {e} {e})'
                fail(n, 'power other than 2')
            for k, v in {ast.Add: 'N.add', ast.Sub: 'N.sub', ast.Mult: 'N.mul', ast.Div: 'N.div'}.items():
                if isinstance(n.op, k):
                    return f'({v} {self.expr(n.left)} {self.expr(n.right)})'
            fail(n, 'operator')
        if isinstance(n, ast.Subscript) and isinstance(n.value, ast.Name):
            idx = n.slice
            if isinstance(idx, ast.Tuple) and all(isinstance(e, ast.Constant) for e in idx.elts):
                key = (n.value.id, tuple(e.value for e in idx.elts))
                if key in self.subs:
                    return self.subs[key]
            fail(n, 'subscript')
        if isinstance(n, ast.Call):
            name = dotted(n.func)
            if name in self.calls:
                return self.calls[name](n.args, self)
            fail(n, 'call')
        fail(n, 'arithmetic expression')

def dotted(node):
    if isinstance(node, ast.Name):
        return node.id
    if isinstance(node, ast.Attribute):
        return dotted(node.value) + '.' + node.attr
    fail(node, 'not a dotted name')

def literal(node):
    try:
        return ast.literal_eval(node)
    except Exception:
        fail(node, 'not a literal')
