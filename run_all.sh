#!/bin/bash
# run every claimed check (quick tier by default) on /repo as it is; used before committing evidence
cd "$(dirname "$0")"
tier=${1:-quick}
ids=$(/venv/bin/python -c "import json;print(' '.join(c['property_id'] for c in json.load(open('MANIFEST.json'))['checks']))" 2>/dev/null)
rc=0
for id in $ids; do
  out=$(./check $id --tier $tier 2>&1 | grep -v conda | grep -E "VIOLATION|KNOWN-FINDING|$id $tier")
  echo "$out"
  echo "$out" | grep -q VIOLATION && rc=1
done
exit $rc
