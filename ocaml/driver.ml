(* driver.ml — line protocol around the extracted model: one wire value per input line,
   one per output line.  No logic on data: only parsing/printing of the wire syntax
     value ::= #<hex integer, optional leading '-'> | "string with \\ \" \n escapes" | ( value* ) *)
open Model

let pos_of_bits (bits : bool list) : positive =
  (* bits MSB first, starting with a 1 *)
  match bits with
  | [] -> XH
  | _ :: rest -> List.fold_left (fun p b -> if b then XI p else XO p) XH rest

let z_of_hex (s : Stdlib.String.t) : z =
  let neg = String.length s > 0 && s.[0] = '-' in
  let s = if neg then String.sub s 1 (String.length s - 1) else s in
  let bits = ref [] in
  String.iter (fun c ->
    let d = match c with
      | '0'..'9' -> Char.code c - 48
      | 'a'..'f' -> Char.code c - 87
      | _ -> failwith "bad hex digit" in
    bits := !bits @ [d land 8 <> 0; d land 4 <> 0; d land 2 <> 0; d land 1 <> 0]) s;
  let rec drop = function false :: t -> drop t | l -> l in
  match drop !bits with
  | [] -> Z0
  | l -> let p = pos_of_bits l in if neg then Zneg p else Zpos p

let rec bits_of_pos (p : positive) : bool list = (* LSB first *)
  match p with XH -> [true] | XO q -> false :: bits_of_pos q | XI q -> true :: bits_of_pos q

let hex_of_pos p =
  let bits = bits_of_pos p in
  let rec chunks l = match l with
    | [] -> []
    | _ ->
      let take n l = let rec go n l acc = if n = 0 then (List.rev acc, l) else match l with [] -> (List.rev acc, []) | x :: t -> go (n-1) t (x :: acc) in go n l [] in
      let (c, rest) = take 4 l in
      let v = List.fold_left (fun (acc, w) b -> ((if b then acc + w else acc), w * 2)) (0, 1) c |> fst in
      v :: chunks rest in
  let ds = List.rev (chunks bits) in
  String.concat "" (List.map (Printf.sprintf "%x") ds)

let hex_of_z = function Z0 -> "0" | Zpos p -> hex_of_pos p | Zneg p -> "-" ^ hex_of_pos p

let ascii_of_char (c : char) : ascii =
  let n = Char.code c in
  Ascii (n land 1 <> 0, n land 2 <> 0, n land 4 <> 0, n land 8 <> 0,
         n land 16 <> 0, n land 32 <> 0, n land 64 <> 0, n land 128 <> 0)
let char_of_ascii (Ascii (a0,a1,a2,a3,a4,a5,a6,a7)) : char =
  let b x w = if x then w else 0 in
  Char.chr (b a0 1 + b a1 2 + b a2 4 + b a3 8 + b a4 16 + b a5 32 + b a6 64 + b a7 128)

let coq_string_of (s : Stdlib.String.t) : Model.string =
  let r = ref EmptyString in
  for i = Stdlib.String.length s - 1 downto 0 do r := String (ascii_of_char s.[i], !r) done; !r
let rec ocaml_string_of (s : Model.string) (b : Buffer.t) =
  match s with EmptyString -> () | String (c, t) -> Buffer.add_char b (char_of_ascii c); ocaml_string_of t b

(* parser *)
let parse (line : Stdlib.String.t) : v =
  let n = Stdlib.String.length line in
  let i = ref 0 in
  let rec skip () = if !i < n && line.[!i] = ' ' then (incr i; skip ()) in
  let rec value () : v =
    skip ();
    if !i >= n then failwith "eof";
    match line.[!i] with
    | '#' ->
      incr i; let st = !i in
      while !i < n && line.[!i] <> ' ' && line.[!i] <> ')' do incr i done;
      VZ (z_of_hex (Stdlib.String.sub line st (!i - st)))
    | '"' ->
      incr i; let b = Buffer.create 80 in
      while line.[!i] <> '"' do
        (if line.[!i] = '\\' then begin
           incr i;
           (match line.[!i] with 'n' -> Buffer.add_char b '\n' | c -> Buffer.add_char b c) end
         else Buffer.add_char b line.[!i]);
        incr i
      done;
      incr i; VS (coq_string_of (Buffer.contents b))
    | '(' ->
      incr i; let items = ref [] in
      skip ();
      while line.[!i] <> ')' do items := value () :: !items; skip () done;
      incr i; VL (List.rev !items)
    | c -> failwith (Printf.sprintf "bad char %c at %d" c !i)
  in value ()

let rec print (b : Buffer.t) (x : v) =
  match x with
  | VZ z -> Buffer.add_char b '#'; Buffer.add_string b (hex_of_z z)
  | VS s ->
    Buffer.add_char b '"';
    let t = Buffer.create 80 in ocaml_string_of s t;
    Stdlib.String.iter (fun c -> match c with
      | '\\' -> Buffer.add_string b "\\\\" | '"' -> Buffer.add_string b "\\\""
      | '\n' -> Buffer.add_string b "\\n" | c -> Buffer.add_char b c) (Buffer.contents t);
    Buffer.add_char b '"'
  | VL l ->
    Buffer.add_char b '(';
    List.iteri (fun k y -> if k > 0 then Buffer.add_char b ' '; print b y) l;
    Buffer.add_char b ')'

let () =
  try
    while true do
      let line = input_line stdin in
      let b = Buffer.create 256 in
      (try print b (run (parse line))
       with Stack_overflow -> Buffer.add_string b "(\"ERR\" \"driver-stack-overflow\")"
          | Failure m -> Buffer.add_string b ("(\"ERR\" \"driver-" ^ m ^ "\")"));
      print_endline (Buffer.contents b)
    done
  with End_of_file -> ()
