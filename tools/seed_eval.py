#!/venv/bin/python
"""seed_eval.py — confirm a seeded change and run the registered check against it.

  tools/seed_eval.py <prop> <dir> <k> [--name NAME] [--checks C01,C02]

<dir> holds change<k>.diff, demo<k>.py, change<k>.md produced by an independent sub-agent.
1. in a scratch worktree of /repo: demo exits 0 on the clean tree; with the patch the existing suite still
   passes (same count) and the demo exits 1;
2. the patch is applied to /repo, the check(s) run (quick tier), /repo is restored at once;
3. /verif/seeded/<id>/ gets patch.diff, demo.py, meta.json (what it breaks, what it needs, what was run, outcome)."""
import os, sys, json, subprocess, shutil, tempfile, re, argparse, time
VERIF = '/verif'
RUN = os.environ.get('SEED_RUN_VERIF', VERIF)     # a private copy of /verif in which the checks are run (parallel evaluation)
def sh(cmd, cwd=None, env=None, timeout=3600):
    p = subprocess.run(cmd, shell=True, cwd=cwd, env=env, stdout=subprocess.PIPE, stderr=subprocess.STDOUT, text=True, timeout=timeout)
    return p.returncode, p.stdout
ap = argparse.ArgumentParser()
ap.add_argument('prop'); ap.add_argument('dir'); ap.add_argument('k')
ap.add_argument('--name'); ap.add_argument('--checks'); ap.add_argument('--tier', default='quick')
a = ap.parse_args()
patch = os.path.join(a.dir, f'change{a.k}.diff'); demo = os.path.join(a.dir, f'demo{a.k}.py'); md = os.path.join(a.dir, f'change{a.k}.md')
sid = a.name or f'{a.prop}-{os.path.basename(os.path.dirname(os.path.abspath(a.dir)))[-3:]}{a.k}'
meta = {'id': sid, 'property': a.prop, 'source': 'independent sub-agent (given only the property text and a scratch worktree)',
        'description': open(md).read() if os.path.exists(md) else '', 'ran': []}
wt = tempfile.mkdtemp(prefix='seed_eval_', dir='/tmp'); os.rmdir(wt)
rc, out = sh(f'git -C /repo worktree add -q --detach {wt} HEAD'); assert rc == 0, out
try:
    scratch = tempfile.mkdtemp(prefix='seed_demo_', dir='/tmp')
    env = dict(os.environ, PYTHONPATH=wt, PYTHONHASHSEED='0')
    rc0, o0 = sh(f'/venv/bin/python {os.path.abspath(demo)} {wt}', cwd=scratch, env=env, timeout=900)
    meta['ran'].append({'what': 'demo on the unchanged tree', 'exit': rc0})
    rcA, oA = sh(f'git apply {os.path.abspath(patch)}', cwd=wt)
    meta['ran'].append({'what': 'git apply', 'exit': rcA, 'out': oA[-300:]})
    rcT, oT = sh('/venv/bin/python -m pytest -q -p no:cacheprovider --timeout=900 test -k "not fetch" 2>&1 | tail -3', cwd=wt, env=env, timeout=1800)
    m = re.search(r'(\d+) passed', oT); f = re.search(r'(\d+) failed', oT)
    meta['ran'].append({'what': 'existing suite with the change (fetch tests excluded)', 'passed': int(m.group(1)) if m else None,
                        'failed': int(f.group(1)) if f else 0, 'tail': oT[-200:]})
    rc1, o1 = sh(f'/venv/bin/python {os.path.abspath(demo)} {wt}', cwd=scratch, env=env, timeout=900)
    meta['ran'].append({'what': 'demo with the change', 'exit': rc1, 'out': o1[-400:]})
    shutil.rmtree(scratch, ignore_errors=True)
    for junk in ('.pytest_cache',):
        shutil.rmtree(os.path.join(wt, junk), ignore_errors=True)
finally:
    sh(f'git -C /repo worktree remove --force {wt}')
confirmed = (rc0 == 0 and rcA == 0 and (m and int(m.group(1)) >= 100) and not f and rc1 == 1)
meta['confirmed'] = bool(confirmed)
print(f'{sid}: demo clean={rc0} apply={rcA} suite={oT.strip().splitlines()[-1] if oT.strip() else ""} demo changed={rc1} -> confirmed={confirmed}')
results = {}
if confirmed:
    checks = (a.checks.split(',') if a.checks else [a.prop])
    # the check is run against a scratch worktree of /repo carrying the patch (VERIF_REPO), so that /repo itself
    # is never disturbed while other work reads it; --in-repo applies it to /repo itself and undoes it straight afterwards
    inrepo = os.environ.get('SEED_IN_REPO') == '1'
    if inrepo:
        target = '/repo'
        rc, out = sh(f'git -C /repo apply {os.path.abspath(patch)}'); assert rc == 0, out
    else:
        target = tempfile.mkdtemp(prefix='seed_repo_', dir='/tmp'); os.rmdir(target)
        rc, out = sh(f'git -C /repo worktree add -q --detach {target} HEAD'); assert rc == 0, out
        rc, out = sh(f'git apply {os.path.abspath(patch)}', cwd=target); assert rc == 0, out
    try:
        for c in checks:
            t = time.time()
            rc, out = sh(f'./check {c} --tier {a.tier}', cwd=RUN, timeout=7200, env=dict(os.environ, VERIF_REPO=target))
            lines = [l for l in out.split('\n') if l.startswith('VIOLATION') or l.startswith(c + ' ')]
            results[c] = {'exit': rc, 'lines': lines, 'wall_s': round(time.time() - t, 1), 'against': 'repo itself' if inrepo else 'scratch worktree of /repo with the patch (VERIF_REPO)'}
            print(f'  check {c}: exit {rc}: ' + ' | '.join(lines)[:300])
    finally:
        if inrepo:
            sh('git -C /repo checkout -- .')
        else:
            sh(f'git -C /repo worktree remove --force {target}')
        sh('/venv/bin/python translator/regions.py /repo', cwd=RUN)
    meta['checks'] = results
    meta['detected'] = any(r['exit'] == 1 for r in results.values())
    meta['detected_with_replay'] = any(r['exit'] == 1 and any('no-failing-input-found' not in l for l in r['lines'] if l.startswith('VIOLATION')) for r in results.values())
    d = os.path.join(VERIF, 'seeded', sid); os.makedirs(d, exist_ok=True)
    shutil.copy(patch, os.path.join(d, 'patch.diff')); shutil.copy(demo, os.path.join(d, 'demo.py'))
    json.dump(meta, open(os.path.join(d, 'meta.json'), 'w'), indent=1)
