#!/venv/bin/python
"""record the normalised-AST fingerprints of every hand-modelled function (run on the unchanged tree)"""
import sys, os, json, importlib, glob
sys.path.insert(0, '/verif')
from harness.core import *
allf = {}
for p in sorted(glob.glob('/verif/harness/props/C*.py')):
    mod = importlib.import_module('harness.props.' + os.path.basename(p)[:-3])
    allf.update(hand_fingerprints(getattr(mod, 'HAND_MODELLED', [])))
json.dump(allf, open('/verif/translator/fingerprints.json', 'w'), indent=1, sort_keys=True)
print(len(allf), 'fingerprints')
