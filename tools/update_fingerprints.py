#!/venv/bin/python
"""record the normalised-AST fingerprints of every hand-modelled function (run on the unchanged tree)"""
import sys, os, json, importlib, glob
sys.path.insert(0, os.path.dirname(os.path.dirname(os.path.abspath(__file__))))
from harness.core import *
allf = {}
for p in sorted(glob.glob(os.path.join(os.path.dirname(os.path.dirname(os.path.abspath(__file__))), 'harness/props/C*.py'))):
    mod = importlib.import_module('harness.props.' + os.path.basename(p)[:-3])
    allf.update(hand_fingerprints(getattr(mod, 'HAND_MODELLED', [])))
json.dump(allf, open(os.path.join(os.path.dirname(os.path.dirname(os.path.abspath(__file__))), 'translator/fingerprints.json'), 'w'), indent=1, sort_keys=True)
print(len(allf), 'fingerprints')
