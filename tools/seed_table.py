#!/usr/bin/env python3
"""print the catch table (markdown) from /verif/seeded/*/meta.json"""
import json, glob, os, re
rows = []
for p in sorted(glob.glob('/verif/seeded/*/meta.json')):
    m = json.load(open(p))
    desc = m.get('description', '').strip().split('\n')
    first = next((l.strip('# *').strip() for l in desc if l.strip()), '')
    first = re.sub(r'\s+', ' ', first)[:110]
    det = []
    for c, r in (m.get('checks') or {}).items():
        v = [l for l in r['lines'] if l.startswith('VIOLATION')]
        if r['exit'] == 1:
            det.append(f'{c}: ' + ('replay' if v and 'no-failing-input-found' not in v[0] else 'no-failing-input-found'))
        else:
            det.append(f'{c}: not detected')
    before = []
    for c, r in (m.get('checks_before') or {}).items():
        now = (m.get('checks') or {}).get(c)
        if r['exit'] != 1 and now and now['exit'] == 1:
            before.append(f'{c} missed it before it was strengthened')
        v = [l for l in r['lines'] if l.startswith('VIOLATION')]
        if r['exit'] == 1 and v and 'no-failing-input-found' in v[0] and now and not any('no-failing-input-found' in l for l in now['lines'] if l.startswith('VIOLATION')):
            before.append(f'{c} had no failing input before it was strengthened')
    out = '; '.join(det) if det else ('not confirmed' if not m.get('confirmed') else '-')
    if before:
        out += ' (' + '; '.join(before) + ')'
    rows.append((m['id'], m['property'], first, out))
print('| seeded change | property | what it is | outcome of the registered check(s) |')
print('|---|---|---|---|')
for r in rows:
    print('| ' + ' | '.join(r) + ' |')

# --update: rewrite the table between the markers of DESIGN.md
import sys
if '--update' in sys.argv:
    import io
    lines = ['| seeded change | property | what it is | outcome of the registered check(s) |', '|---|---|---|---|'] + ['| ' + ' | '.join(r) + ' |' for r in rows]
    p = '/verif/DESIGN.md'; s = open(p).read()
    i = s.index('<!-- seedtable:begin -->') + len('<!-- seedtable:begin -->\n'); j = s.index('<!-- seedtable:end -->')
    open(p, 'w').write(s[:i] + '\n'.join(lines) + '\n' + s[j:])
