#!/venv/bin/python
"""seed_recheck.py — re-run registered checks against a kept seeded change (after strengthening a check).

  tools/seed_recheck.py <seed-id> [--checks C05,C08] [--tier quick]

The patch of /verif/seeded/<seed-id>/ is applied to a scratch worktree of /repo (VERIF_REPO), the checks run against it,
the worktree is removed; meta.json keeps the earlier outcome under 'checks_before' and gets the new one under 'checks'."""
import os, sys, json, subprocess, tempfile, argparse, time
VERIF = '/verif'
RUN = os.environ.get('SEED_RUN_VERIF', VERIF)     # a private copy of /verif in which the checks are run (parallel evaluation)
def sh(cmd, cwd=None, env=None, timeout=7200):
    p = subprocess.run(cmd, shell=True, cwd=cwd, env=env, stdout=subprocess.PIPE, stderr=subprocess.STDOUT, text=True, timeout=timeout)
    return p.returncode, p.stdout
ap = argparse.ArgumentParser(); ap.add_argument('sid'); ap.add_argument('--checks'); ap.add_argument('--tier', default='quick')
a = ap.parse_args()
d = os.path.join(VERIF, 'seeded', a.sid); meta = json.load(open(os.path.join(d, 'meta.json')))
checks = a.checks.split(',') if a.checks else [meta['property']]
target = tempfile.mkdtemp(prefix='seed_repo_', dir='/tmp'); os.rmdir(target)
rc, out = sh(f'git -C /repo worktree add -q --detach {target} HEAD'); assert rc == 0, out
results = {}
try:
    rc, out = sh(f'git apply {os.path.join(d, "patch.diff")}', cwd=target); assert rc == 0, out
    for c in checks:
        t = time.time()
        rc, out = sh(f'./check {c} --tier {a.tier}', cwd=RUN, env=dict(os.environ, VERIF_REPO=target))
        lines = [l for l in out.split('\n') if l.startswith('VIOLATION') or l.startswith(c + ' ')]
        results[c] = {'exit': rc, 'lines': lines, 'wall_s': round(time.time() - t, 1), 'against': 'scratch worktree of /repo with the patch (VERIF_REPO)'}
        print(f'{a.sid} check {c}: exit {rc}: ' + ' | '.join(lines)[:300])
finally:
    sh(f'git -C /repo worktree remove --force {target}')
    sh('/venv/bin/python translator/regions.py /repo', cwd=RUN)
if 'checks' in meta and 'checks_before' not in meta:
    meta['checks_before'] = meta['checks']
meta['checks'] = dict(meta.get('checks', {}), **results)
meta['detected'] = any(r['exit'] == 1 for r in meta['checks'].values())
meta['detected_with_replay'] = any(r['exit'] == 1 and any('no-failing-input-found' not in l for l in r['lines'] if l.startswith('VIOLATION')) for r in meta['checks'].values())
json.dump(meta, open(os.path.join(d, 'meta.json'), 'w'), indent=1)
