#!/bin/bash
# setup.sh — build the framework from files on disk only (offline): regenerate the model text
# from /repo, full .vo build of the Coq development, extraction, OCaml driver.
set -e
cd "$(dirname "$0")"
export PYTHONHASHSEED=0
/venv/bin/python translator/regions.py "${VERIF_REPO:-/repo}" > /dev/null
cd coq
./mkproject.sh
timeout 3400 make -k -j"$(nproc)" 2>&1 | grep -v '^COQ\|^Closed under' | tail -40 || true
cd ../ocaml
if [ -f ../coq/model.ml ]; then
  cp ../coq/model.ml ../coq/model.mli .
  ocamlfind ocamlopt -O3 -w -a model.mli model.ml driver.ml -o driver
fi
cd ..
test -x ocaml/driver && echo "setup: ok"
