(* Proofs_fs_c16.v — C16: a computation changes only what its footprint allows, depends only on the
   files in its footprint, and computations with non-interfering footprints return their solo results
   under EVERY schedule (induction over schedules).  Then: the footprints of the library's scripts. *)
From Coq Require Import Lia.
From Verif Require Import PyLib ModelTypes Model_fs Spec_fs Proofs_fs_base.
Open Scope string_scope.
Open Scope list_scope.
Open Scope nat_scope.

(* ------------------------------------------------------------------ *)
(* 1. one action: frame and locality *)
Lemma fstep_frame a fs p : ~ In p (act_writes a) -> fst (fstep fs a) p = fs p.
Proof.
  intro H. destruct a; simpl in *; try reflexivity.
  - rewrite fs_set_neq; [reflexivity | intro E; apply H; left; now symmetry].
  - destruct (fs p0) as [[| |]|]; simpl; try reflexivity.
    rewrite fs_set_neq; [reflexivity | intro E; apply H; left; now symmetry].
  - destruct (fs p0) as [[| |]|]; reflexivity.
  - destruct (fs p0); simpl; [|reflexivity].
    rewrite fs_set_neq; [reflexivity | intro E; apply H; left; now symmetry].
  - destruct (fs src); simpl; [|reflexivity].
    rewrite fs_set_neq by (intro E; apply H; left; now symmetry).
    rewrite fs_set_neq by (intro E; apply H; right; left; now symmetry). reflexivity.
  - destruct (fs p0); simpl; [reflexivity|].
    rewrite fs_set_neq; [reflexivity | intro E; apply H; left; now symmetry].
Qed.

Definition touches (a : act) (p : path) : Prop := In p (act_reads a) \/ In p (act_writes a).

Lemma fstep_local a fs1 fs2 :
  (forall p, touches a p -> fs1 p = fs2 p) ->
  snd (fstep fs1 a) = snd (fstep fs2 a) /\
  (forall p, touches a p -> fst (fstep fs1 a) p = fst (fstep fs2 a) p).
Proof.
  intro H. unfold touches in *. destruct a; simpl in *; try (split; [reflexivity | intros q0 Hq0; apply H; exact Hq0]).
  - (* exists *) rewrite (H p) by (left; left; reflexivity). split; [reflexivity | intros q Hq; apply H; exact Hq].
  - (* opentrunc *) split; [reflexivity|]. intros q [[]|[<-|[]]]. now rewrite !fs_set_eq.
  - (* write *) rewrite (H p) by (left; left; reflexivity).
    destruct (fs2 p) as [[t| |]|]; simpl; (split; [reflexivity|]); try (intros q Hq; apply H; exact Hq).
    intros q [[<-|[]]|[<-|[]]]; now rewrite !fs_set_eq.
  - (* read *) rewrite (H p) by (left; left; reflexivity).
    destruct (fs2 p) as [[t| |]|]; simpl; (split; [reflexivity|]); intros q Hq; apply H; exact Hq.
  - (* remove *) rewrite (H p) by (left; left; reflexivity).
    destruct (fs2 p); simpl; (split; [reflexivity|]); try (intros q Hq; apply H; exact Hq).
    intros q [[<-|[]]|[<-|[]]]; now rewrite !fs_set_eq.
  - (* rename *) rewrite (H src) by (left; left; reflexivity).
    destruct (fs2 src); simpl; (split; [reflexivity|]); try (intros q Hq; apply H; exact Hq).
    intros q Hq.
    destruct (String.eqb_spec q src) as [->|Hs]; [now rewrite !fs_set_eq|].
    rewrite !(fs_set_neq _ src) by exact Hs.
    destruct (String.eqb_spec q dst) as [->|Hd]; [now rewrite !fs_set_eq|].
    rewrite !fs_set_neq by exact Hd. apply H. exact Hq.
  - (* mkstemp *) rewrite (H p) by (left; left; reflexivity).
    destruct (fs2 p); simpl; (split; [reflexivity|]); try (intros q Hq; apply H; exact Hq).
    intros q [[<-|[]]|[<-|[]]]; now rewrite !fs_set_eq.
Qed.

(* ------------------------------------------------------------------ *)
(* 2. the footprint discipline: every action of the program, whatever the answers, reads inside
   R ∪ W and writes inside W *)
Section Footprint.
Variables R W : path -> Prop.
Definition F (p : path) : Prop := R p \/ W p.

Definition act_ok (a : act) : Prop :=
  (forall p, In p (act_reads a) -> F p) /\ (forall p, In p (act_writes a) -> W p).

Inductive within {A} : prog A -> Prop :=
| within_ret a : within (Ret a)
| within_do a k : act_ok a -> (forall r, within (k r)) -> within (Do a k).

Lemma within_bindp {A B} (p : prog A) (f : A -> prog B) :
  within p -> (forall a, within (f a)) -> within (bindp p f).
Proof.
  intros Hp Hf. induction Hp as [a|a k Ha Hk IH]; simpl; [apply Hf|].
  constructor; [exact Ha | exact IH].
Qed.
Lemma within_bindr {A B} (p : prog (res A)) (f : A -> prog (res B)) :
  within p -> (forall a, within (f a)) -> within (bindr p f).
Proof.
  intros Hp Hf. unfold bindr. apply within_bindp; [exact Hp|]. intros [a|e]; [apply Hf | constructor].
Qed.

Lemma frun_n_S {A} : forall n fs (p : prog A),
  frun_n (S n) fs p =
  let '(fs1, p1) := frun_n n fs p in
  match p1 with
  | Ret _ => (fs1, p1)
  | Do a k => let '(fs2, r) := fstep fs1 a in (fs2, k r)
  end.
Proof.
  induction n as [|n IH]; intros fs p.
  - simpl. destruct p; [reflexivity|]. destruct (fstep fs a); reflexivity.
  - destruct p as [a|a k]; [reflexivity|].
    change (frun_n (S (S n)) fs (Do a k)) with (let '(fs', r) := fstep fs a in frun_n (S n) fs' (k r)).
    change (frun_n (S n) fs (Do a k)) with (let '(fs', r) := fstep fs a in frun_n n fs' (k r)).
    destruct (fstep fs a) as [fs' r]. apply IH.
Qed.

Lemma within_frun {A} : forall n fs (p : prog A), within p -> within (snd (frun_n n fs p)).
Proof.
  induction n as [|n IH]; intros fs p Hp; [exact Hp|].
  destruct Hp as [a|a k Ha Hk]; [constructor|].
  simpl. destruct (fstep fs a) as [fs' r]. apply IH. apply Hk.
Qed.

(* nothing outside W ever changes *)
Theorem within_frame {A} : forall n fs (p : prog A) q,
  within p -> ~ W q -> fst (frun_n n fs p) q = fs q.
Proof.
  induction n as [|n IH]; intros fs p q Hp Hq; [reflexivity|].
  destruct Hp as [a|a k [Hr Hw] Hk]; [reflexivity|].
  simpl. destruct (fstep fs a) as [fs' r] eqn:E. rewrite IH by (try apply Hk; exact Hq).
  change fs' with (fst (fs', r)). rewrite <- E. apply fstep_frame. intro Hin. apply Hq. now apply Hw.
Qed.

(* the run depends only on the files in the footprint *)
Theorem within_local {A} : forall n fs1 fs2 (p : prog A),
  within p -> (forall q, F q -> fs1 q = fs2 q) ->
  snd (frun_n n fs1 p) = snd (frun_n n fs2 p)
  /\ ftrace_n n fs1 p = ftrace_n n fs2 p
  /\ (forall q, F q -> fst (frun_n n fs1 p) q = fst (frun_n n fs2 p) q).
Proof.
  induction n as [|n IH]; intros fs1 fs2 p Hp Hag; [repeat split; try reflexivity; exact Hag|].
  destruct Hp as [a|a k [Hr Hw] Hk]; [repeat split; try reflexivity; exact Hag|].
  simpl.
  assert (Ht : forall q, touches a q -> fs1 q = fs2 q).
  { intros q [Hq|Hq]; apply Hag; [now apply Hr | right; now apply Hw]. }
  destruct (fstep_local a fs1 fs2 Ht) as [Hresp Hafter].
  destruct (fstep fs1 a) as [fs1' r1] eqn:E1. destruct (fstep fs2 a) as [fs2' r2] eqn:E2.
  simpl in Hresp, Hafter. subst r2.
  assert (Hag' : forall q, F q -> fs1' q = fs2' q).
  { intros q Hq. destruct (in_dec string_dec q (act_writes a)) as [Hi|Hn].
    - apply Hafter. right. exact Hi.
    - change fs1' with (fst (fs1', r1)). change fs2' with (fst (fs2', r1)).
      rewrite <- E1, <- E2. rewrite !fstep_frame by exact Hn. now apply Hag. }
  destruct (IH fs1' fs2' (k r1) (Hk r1) Hag') as [H1 [H2 H3]].
  repeat split; [exact H1 | now rewrite H2 | exact H3].
Qed.

End Footprint.

Lemma within_weaken {A} (R W R' W' : path -> Prop) (p : prog A) :
  (forall q, R q -> R' q) -> (forall q, W q -> W' q) -> within R W p -> within R' W' p.
Proof.
  intros HR HW Hp. induction Hp as [a|a k [Hr Hw] Hk IH]; constructor; [|exact IH].
  split; intros q Hq; [destruct (Hr q Hq); [left; now apply HR | right; now apply HW] | now apply HW, Hw].
Qed.

(* ------------------------------------------------------------------ *)
(* 3. noninterference: induction over schedules *)
Section Noninterference.
Context {A : Type}.
Variable fs0 : fsys.
Variable ts : list (prog A).
Variables Rf Wf : nat -> path -> Prop.
Hypothesis ts_within : forall i p, nth_error ts i = Some p -> within (Rf i) (Wf i) p.
(* what one task may write, no other task reads or writes *)
Hypothesis disjoint : forall i j q, i <> j -> Wf i q -> ~ (Rf j q \/ Wf j q).

(* task i is in the state of its solo run after some number of its own steps, and the shared
   file system looks, inside task i's footprint, exactly like the solo one *)
Definition solo_state (st : fsys * list (prog A)) (i : nat) (p : prog A) : Prop :=
  exists n, nth_error (snd st) i = Some (snd (frun_n n fs0 p))
            /\ (forall q, F (Rf i) (Wf i) q -> fst st q = fst (frun_n n fs0 p) q).
Definition sched_inv (st : fsys * list (prog A)) : Prop :=
  List.length (snd st) = List.length ts /\
  forall i p, nth_error ts i = Some p -> solo_state st i p.

Lemma replace_nth_length {B} : forall (l : list B) i x, List.length (replace_nth i x l) = List.length l.
Proof. induction l as [|z l IH]; intros [|i] x; simpl; try reflexivity. now rewrite IH. Qed.

Lemma nth_error_replace_eq {B} : forall (l : list B) i x y, nth_error l i = Some y -> nth_error (replace_nth i x l) i = Some x.
Proof. induction l as [|z l IH]; intros [|i] x y H; simpl in *; try discriminate; [reflexivity | eapply IH; exact H]. Qed.
Lemma nth_error_replace_neq {B} : forall (l : list B) i j x, i <> j -> nth_error (replace_nth i x l) j = nth_error l j.
Proof.
  induction l as [|z l IH]; intros [|i] [|j] x H; simpl; try reflexivity; try congruence.
  apply IH. congruence.
Qed.

Lemma sched_step_inv j st : sched_inv st -> sched_inv (sched_step j st).
Proof.
  intros [Hlen Hinv]. destruct st as [fs ts']. unfold sched_step.
  destruct (nth_error ts' j) as [[a|a k]|] eqn:Ej; try (split; [exact Hlen | exact Hinv]).
  destruct (fstep fs a) as [fs' r] eqn:Est.
  split; [simpl in *; now rewrite replace_nth_length|].
  intros i p Hi. destruct (Hinv i p Hi) as [n [Hn Hag]]. simpl in Hn, Hag.
  destruct (Nat.eq_dec i j) as [->|Hij].
  - (* the scheduled task itself: one more step of its solo run *)
    rewrite Ej in Hn. injection Hn as Hn.
    exists (S n). cbn [fst snd].
    rewrite (nth_error_replace_eq _ _ _ _ Ej).
    rewrite frun_n_S. destruct (frun_n n fs0 p) as [fsn pn] eqn:En. simpl in Hn, Hag. subst pn.
    pose proof (within_frun (Rf j) (Wf j) n fs0 p (ts_within j p Hi)) as Hw. rewrite En in Hw. simpl in Hw.
    inversion Hw as [|a' k' [Hr Hwr] Hk]; subst.
    assert (Ht : forall q, touches a q -> fs q = fsn q).
    { intros q [Hq|Hq]; apply Hag; [now apply Hr | right; now apply Hwr]. }
    destruct (fstep_local a fs fsn Ht) as [Hresp Hafter].
    rewrite Est in Hresp, Hafter. destruct (fstep fsn a) as [fsn' rn] eqn:Esn. simpl in Hresp, Hafter. subst rn.
    split; [reflexivity|]. simpl.
    intros q Hq. destruct (in_dec string_dec q (act_writes a)) as [Hin|Hnin].
    + apply Hafter. right. exact Hin.
    + change fs' with (fst (fs', r)). change fsn' with (fst (fsn', r)). rewrite <- Est, <- Esn.
      rewrite !fstep_frame by exact Hnin. now apply Hag.
  - (* another task: its own state is untouched, and the step wrote outside its footprint *)
    exists n. cbn [fst snd]. rewrite nth_error_replace_neq by congruence. split; [exact Hn|].
    intros q Hq. rewrite <- Hag by exact Hq.
    change fs' with (fst (fs', r)). rewrite <- Est. apply fstep_frame.
    intro Hin.
    (* a is an action of task j, so it writes inside Wf j *)
    destruct (nth_error ts j) as [pj|] eqn:Etj.
    + destruct (Hinv j pj Etj) as [m [Hm _]]. simpl in Hm. rewrite Ej in Hm. injection Hm as Hm.
      pose proof (within_frun (Rf j) (Wf j) m fs0 pj (ts_within j pj Etj)) as Hw. rewrite <- Hm in Hw.
      inversion Hw as [|a' k' [_ Hwr] _]; subst.
      exact (disjoint j i q (fun E => Hij (eq_sym E)) (Hwr q Hin) Hq).
    + exfalso. apply nth_error_None in Etj. simpl in Hlen.
      assert (nth_error ts' j <> None) by (rewrite Ej; discriminate).
      apply nth_error_Some in H. lia.
Qed.

Lemma sched_inv_init : sched_inv (fs0, ts).
Proof.
  split; [reflexivity|]. intros i p Hi. exists 0. split; [exact Hi | reflexivity].
Qed.

Lemma run_sched_inv : forall s st, sched_inv st -> sched_inv (run_sched s st).
Proof.
  induction s as [|j s IH]; intros st H; [exact H|]. simpl. apply IH. now apply sched_step_inv.
Qed.

(* For EVERY schedule: every task is in a state of its solo run, and sees inside its footprint the
   file system of that solo run. *)
Theorem noninterference_state : forall (s : list nat) i p,
  nth_error ts i = Some p -> solo_state (run_sched s (fs0, ts)) i p.
Proof. intros s i p Hi. exact (proj2 (run_sched_inv s _ sched_inv_init) i p Hi). Qed.

(* in particular: a task that has returned under the schedule returned exactly what its solo run returns *)
Definition solo_returns (p : prog A) (a : A) : Prop := exists n, snd (frun_n n fs0 p) = Ret a.

Theorem noninterference : forall (s : list nat) i p a,
  nth_error ts i = Some p ->
  nth_error (snd (run_sched s (fs0, ts))) i = Some (Ret a) ->
  solo_returns p a.
Proof.
  intros s i p a Hi Hr. destruct (noninterference_state s i p Hi) as [n [Hn _]].
  rewrite Hn in Hr. injection Hr as Hr. exists n. exact Hr.
Qed.

End Noninterference.

(* ------------------------------------------------------------------ *)
(* 4. the footprints of the library's scripts *)
Section Scripts.
Variables R W : path -> Prop.
Notation Fp := (F R W).

Ltac act_tac :=
  split; intros ?q Hq; simpl in Hq;
  repeat (destruct Hq as [<-|Hq]); try contradiction;
  try assumption; try (right; assumption); try (left; assumption).

Lemma within_read_pdb p : Fp p -> within R W (read_pdb p).
Proof.
  intro Hp. unfold read_pdb. constructor; [act_tac|]. intro r.
  destruct (resp_true r); [|constructor].
  constructor; [act_tac|]. intro r2. destruct (resp_true r2); [|constructor].
  constructor; [act_tac|]. intro r3. constructor.
Qed.
Lemma within_new_db p : Fp p -> within R W (new_db p).
Proof. intro Hp. unfold new_db. constructor; [act_tac|]. intros _. now apply within_read_pdb. Qed.
Lemma within_read_zone z : Fp z -> within R W (read_zone z).
Proof.
  intro Hz. unfold read_zone. constructor; [act_tac|]. intro r.
  destruct (resp_true r); [|constructor]. constructor; [act_tac|]. intro r2. constructor.
Qed.
Lemma within_write_lines p lines k : W p -> within R W k -> within R W (write_lines p lines k).
Proof.
  intros Hp Hk. induction lines as [|l ls IH]; simpl; [exact Hk|].
  constructor; [act_tac|]. intro r. destruct (resp_unit r); [exact IH | constructor].
Qed.
Lemma within_write_zone z tmps lines :
  W z -> (forall t, In t tmps -> W t) -> within R W (write_zone z tmps lines).
Proof.
  intros Hz. induction tmps as [|t ts IH]; intro Ht; simpl; [constructor|].
  assert (HWt : W t) by (apply Ht; left; reflexivity).
  constructor; [act_tac|]. intro r.
  assert (Hgo : within R W (write_lines t lines (Do (AClose t) (fun _ => Do (ARename t z) (fun r2 => Ret (resp_unit r2)))))).
  { apply within_write_lines; [exact HWt|]. constructor; [act_tac|]. intros _.
    constructor; [act_tac|]. intro r2. constructor. }
  destruct r; try exact Hgo. apply IH. intros t' Ht'. apply Ht. right. exact Ht'.
Qed.
Lemma within_exportpdb f lines : W f -> within R W (exportpdb f lines).
Proof.
  intro Hf. unfold exportpdb. constructor; [act_tac|]. intros _.
  apply within_write_lines; [exact Hf|]. constructor; [act_tac|]. intros _. constructor.
Qed.
Lemma within_acquire ref zone tmps lines :
  Fp ref ->
  (forall z, zone = Some z -> W z /\ (forall t, In t tmps -> W t)) ->
  within R W (acquire_zone ref zone tmps lines).
Proof.
  intros Href Hz. unfold acquire_zone. destruct zone as [z|].
  - destruct (Hz z eq_refl) as [HWz HWt].
    constructor; [act_tac|]. intro r. destruct (resp_true r).
    + apply within_bindr; [apply within_read_zone; right; exact HWz | intro; constructor].
    + apply within_bindr; [now apply within_new_db|]. intro t0.
      apply within_bindr; [now apply within_write_zone | intro; constructor].
  - apply within_bindr; [now apply within_new_db | intro; constructor].
Qed.
Lemma within_rd p acc k :
  within R W p -> (forall a, within R W (k a)) -> within R W (rd p acc k).
Proof. intros Hp Hk. unfold rd. apply within_bindr; [exact Hp | intro t; apply Hk]. Qed.
End Scripts.

Definition Rc (c : call) (p : path) : Prop := may_read c p.
Definition Wc (c : call) (p : path) : Prop := may_write c p.

Ltac in_inputs := unfold F, Rc, may_read, inputs_of; left; simpl; tauto.

(* every public routine stays inside  inputs ∪ requested outputs ∪ its transient files *)
Theorem script_within c : within (Rc c) (Wc c) (script c).
Proof.
  assert (HD : F (Rc c) (Wc c) (cl_decoy c)) by in_inputs.
  assert (HR : F (Rc c) (Wc c) (cl_ref c)) by in_inputs.
  unfold script, lrmsd_tail, irmsd_tail. destruct (cl_routine c) as [zone|zone|zone export|export| | | |export|export] eqn:Er.
  - (* lrmsd_fast *)
    apply within_bindr.
    + apply within_acquire; [exact HR|]. intros z ->.
      split; [left | intros t Ht; right]; unfold requested_outputs, transients; rewrite Er; simpl; auto.
    + intro za. repeat (apply within_rd; [first [now apply within_new_db | now apply within_read_pdb] | intro]). constructor.
  - (* irmsd_fast *)
    apply within_bindr.
    + apply within_acquire; [exact HR|]. intros z ->.
      split; [left | intros t Ht; right]; unfold requested_outputs, transients; rewrite Er; simpl; auto.
    + intro za. repeat (apply within_rd; [first [now apply within_new_db | now apply within_read_pdb] | intro]). constructor.
  - (* irmsd_sql *)
    apply within_rd; [now apply within_new_db | intro]. apply within_rd; [now apply within_new_db | intro].
    destruct zone as [z|].
    + assert (Hz : F (Rc c) (Wc c) z).
      { left. unfold Rc, may_read, inputs_of. rewrite Er. simpl. auto. }
      constructor; [split; intros q Hq; simpl in Hq; [destruct Hq as [<-|[]]; exact Hz | contradiction]|].
      intro r. destruct (resp_true r); [|constructor].
      apply within_rd; [now apply within_read_zone | intro].
      destruct export as [e|]; [|constructor].
      apply within_bindr; [apply within_exportpdb; left; unfold requested_outputs; rewrite Er; simpl; auto|]. intros _.
      apply within_bindr; [apply within_exportpdb; left; unfold requested_outputs; rewrite Er; simpl; auto|]. intros _. constructor.
    + destruct export as [e|]; [|constructor].
      apply within_bindr; [apply within_exportpdb; left; unfold requested_outputs; rewrite Er; simpl; auto|]. intros _.
      apply within_bindr; [apply within_exportpdb; left; unfold requested_outputs; rewrite Er; simpl; auto|]. intros _. constructor.
  - (* lrmsd_sql *)
    repeat (apply within_rd; [now apply within_new_db | intro]).
    destruct export as [e|]; [|constructor].
    apply within_bindr; [apply within_exportpdb; left; unfold requested_outputs; rewrite Er; simpl; auto|]. intros _.
    apply within_bindr; [apply within_exportpdb; left; unfold requested_outputs; rewrite Er; simpl; auto|]. intros _. constructor.
  - apply within_rd; [now apply within_new_db | intro]. apply within_rd; [now apply within_read_pdb | intro]. constructor.
  - repeat (apply within_rd; [now apply within_new_db | intro]). constructor.
  - apply within_rd; [now apply within_new_db | intro]. constructor.
  - (* superpose *)
    repeat (apply within_rd; [now apply within_new_db | intro]).
    destruct export; [|constructor].
    apply within_bindr; [apply within_exportpdb; left; unfold requested_outputs; rewrite Er; simpl; auto|]. intros _. constructor.
  - (* align *)
    apply within_rd; [now apply within_new_db | intro].
    destruct export; [|constructor].
    apply within_bindr; [apply within_exportpdb; left; unfold requested_outputs; rewrite Er; simpl; auto|]. intros _. constructor.
Qed.
