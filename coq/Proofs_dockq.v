From Coq Require Import Lqa Lia.
From Verif Require Import PyLib ModelTypes Generated_scores Model_scores Spec_scores.
Open Scope Q_scope.

(* ---------------- DockQ ---------------- *)
Lemma sq_nonneg (x : Q) : 0 <= x * x.
Proof. nra. Qed.

Lemma dockq_raw_is_formula f l i d1 d2 :
  dockq_raw_src f l i d1 d2 == dockq_formula f l i d1 d2.
Proof.
  unfold dockq_raw_src, scale_rms_src, dockq_formula, Qsqr.
  set (a := l / d1). set (b := i / d2).
  pose proof (sq_nonneg a). pose proof (sq_nonneg b).
  field. split; lra.
Qed.

Lemma inv_1px_range (x : Q) : 0 <= x -> 0 < 1 / (1 + x) /\ 1 / (1 + x) <= 1.
Proof.
  intro Hx. split.
  - apply Qlt_shift_div_l; lra.
  - apply Qle_shift_div_r; lra.
Qed.

Lemma dockq_formula_range f l i d1 d2 :
  0 <= f -> f <= 1 -> 0 <= dockq_formula f l i d1 d2 /\ dockq_formula f l i d1 d2 <= 1.
Proof.
  intros H0 H1. unfold dockq_formula.
  destruct (inv_1px_range _ (sq_nonneg (l / d1))) as [A1 A2].
  destruct (inv_1px_range _ (sq_nonneg (i / d2))) as [B1 B2].
  set (a := 1 / (1 + l / d1 * (l / d1))) in *. set (b := 1 / (1 + i / d2 * (i / d2))) in *.
  split.
  - apply Qle_shift_div_l; lra.
  - apply Qle_shift_div_r; lra.
Qed.

Lemma dockq_formula_perfect d1 d2 : dockq_formula 1 0 0 d1 d2 == 1.
Proof.
  unfold dockq_formula.
  setoid_replace (0 / d1) with 0 by (unfold Qdiv; ring).
  setoid_replace (0 / d2) with 0 by (unfold Qdiv; ring).
  reflexivity.
Qed.

Lemma inv_1px_antitone (x y : Q) : 0 <= x -> x <= y -> 1 / (1 + y) <= 1 / (1 + x).
Proof.
  intros Hx Hxy.
  apply Qle_shift_div_l; [lra|].
  setoid_replace (1 / (1 + y) * (1 + x)) with ((1 + x) / (1 + y)) by (field; lra).
  apply Qle_shift_div_r; lra.
Qed.

Lemma sq_div_monotone (a b d : Q) : 0 <= a -> a <= b -> (a / d) * (a / d) <= (b / d) * (b / d).
Proof.
  intros Ha Hab.
  setoid_replace (a / d * (a / d)) with ((a * a) * (/ d * / d)) by (unfold Qdiv; ring).
  setoid_replace (b / d * (b / d)) with ((b * b) * (/ d * / d)) by (unfold Qdiv; ring).
  assert (H1 : a * a <= b * b) by nra.
  apply Qmult_le_compat_r; [exact H1 | apply sq_nonneg].
Qed.

Lemma dockq_formula_monotone f l i f' l' i' d1 d2 :
  f <= f' -> 0 <= l' -> l' <= l -> 0 <= i' -> i' <= i ->
  dockq_formula f l i d1 d2 <= dockq_formula f' l' i' d1 d2.
Proof.
  intros Hf Hl0 Hl Hi0 Hi. unfold dockq_formula.
  pose proof (inv_1px_antitone _ _ (sq_nonneg (l' / d1)) (sq_div_monotone l' l d1 Hl0 Hl)).
  pose proof (inv_1px_antitone _ _ (sq_nonneg (i' / d2)) (sq_div_monotone i' i d2 Hi0 Hi)).
  set (a := 1 / (1 + l / d1 * (l / d1))) in *. set (b := 1 / (1 + i / d2 * (i / d2))) in *.
  set (a' := 1 / (1 + l' / d1 * (l' / d1))) in *. set (b' := 1 / (1 + i' / d2 * (i' / d2))) in *.
  unfold Qdiv. apply Qmult_le_compat_r; [lra | discriminate].
Qed.

(* ---------------- rounding to six decimals ---------------- *)
From Verif Require Import PyLibFacts.

Lemma round_dec_monotone_nonneg k q q' : 0 <= q -> q <= q' -> round_dec k q <= round_dec k q'.
Proof.
  intros H0 H.
  rewrite (round_dec_nonneg_val k q H0), (round_dec_nonneg_val k q') by lra.
  pose proof (pow10_pos k) as P.
  assert (P' : 0 < inject_Z (pow10 k)) by (rewrite Zlt_Qlt in P; exact P).
  unfold Qdiv. apply Qmult_le_compat_r.
  - rewrite <- Zle_Qle. apply rhe_monotone. apply Qmult_le_compat_r; lra.
  - apply Qlt_le_weak, Qinv_lt_0_compat, P'.
Qed.

Lemma round_dec_of_Z k (z : Z) : (0 <= z)%Z -> round_dec k (inject_Z z) == inject_Z z.
Proof.
  intro Hz.
  assert (H0 : 0 <= inject_Z z) by (rewrite Zle_Qle in Hz; exact Hz).
  rewrite (round_dec_nonneg_val k _ H0).
  rewrite <- inject_Z_mult, rhe_Z, inject_Z_mult.
  pose proof (pow10_pos k) as P.
  assert (P' : 0 < inject_Z (pow10 k)) by (rewrite Zlt_Qlt in P; exact P).
  field. lra.
Qed.

Lemma round_dec_comp_nonneg k q q' : 0 <= q -> q == q' -> round_dec k q == round_dec k q'.
Proof.
  intros H0 E.
  rewrite (round_dec_nonneg_val k q H0), (round_dec_nonneg_val k q') by lra.
  assert (E2 : q * inject_Z (pow10 k) == q' * inject_Z (pow10 k)) by (rewrite E; reflexivity).
  rewrite (rhe_comp _ _ E2). reflexivity.
Qed.

Lemma dockq_range f l i d1 d2 :
  0 <= f -> f <= 1 -> 0 <= dockq f l i d1 d2 /\ dockq f l i d1 d2 <= 1.
Proof.
  intros H0 H1. unfold dockq.
  destruct (dockq_formula_range f l i d1 d2 H0 H1) as [A B].
  rewrite <- dockq_raw_is_formula in A, B.
  split.
  - rewrite <- (round_dec_of_Z dockq_digits_src 0) by lia.
    apply round_dec_monotone_nonneg; [apply Qle_refl | exact A].
  - rewrite <- (round_dec_of_Z dockq_digits_src 1) by lia.
    apply round_dec_monotone_nonneg; [exact A | exact B].
Qed.

Lemma dockq_perfect d1 d2 : dockq 1 0 0 d1 d2 == 1.
Proof.
  unfold dockq.
  rewrite (round_dec_comp_nonneg _ _ 1).
  - apply (round_dec_of_Z dockq_digits_src 1). lia.
  - rewrite dockq_raw_is_formula, dockq_formula_perfect. lra.
  - rewrite dockq_raw_is_formula. apply dockq_formula_perfect.
Qed.

Lemma dockq_monotone f l i f' l' i' d1 d2 :
  0 <= f -> f <= f' -> f' <= 1 -> 0 <= l' -> l' <= l -> 0 <= i' -> i' <= i ->
  dockq f l i d1 d2 <= dockq f' l' i' d1 d2.
Proof.
  intros. unfold dockq. apply round_dec_monotone_nonneg.
  - rewrite dockq_raw_is_formula. apply dockq_formula_range; lra.
  - rewrite !dockq_raw_is_formula. apply dockq_formula_monotone; assumption.
Qed.
