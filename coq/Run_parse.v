(* Run_parse.v — wire entry points of the parse model/spec (C01) *)
From Verif Require Import PyLib ModelTypes Generated_parse Model_parse Spec_parse.
Open Scope string_scope.

Definition Vval (v : val) : V :=
  match v with
  | VInt z => VL [VS "I"; VZ z]
  | VReal q => VL [VS "R"; VZ (Qnum q); VZ (Zpos (Qden q))]
  | VText s => VL [VS "T"; VS s]
  | VBlob => VL [VS "B"]
  | VNull => VL [VS "N"]
  end.
Definition val_of_V (v : V) : val :=
  match v with
  | VL [VS tag; VZ z] => if tag =? "I" then VInt z else VNull
  | VL [VS tag; VZ n; VZ (Zpos d)] => if tag =? "R" then VReal (Qmake n d) else VNull
  | VL [VS tag; VS s] => if tag =? "T" then VText s else VNull
  | VL [VS tag] => if tag =? "B" then VBlob else VNull
  | _ => VNull
  end.
Definition Vrow (r : row) : V := VL (map Vval r).
Definition Vrows (rs : list row) : V := VL (map Vrow rs).

Definition form_of (s : string) : form :=
  if s =? "path" then FPath else if s =? "Path" then FPathObj else if s =? "str" then FStr
  else if s =? "bytes" then FBytes else if s =? "list_str" then FListStr
  else if s =? "list_bytes" then FListBytes else if s =? "ndarray_str" then FNdarrayStr else FNdarrayBytes.

Definition run_parse (cmd : string) (a : list V) : option V :=
  if cmd =? "parse.text" then          (* form, text *)
    Some (Vres (do r <- parse (InText (form_of (getS (nth 0 a (VZ 0)))) (getS (nth 1 a (VZ 0))));
                Ok (VL [Vrows (fst r); VZ (snd r)])))
  else if cmd =? "parse.lines" then    (* form, list of lines *)
    Some (Vres (do r <- parse (InLines (form_of (getS (nth 0 a (VZ 0)))) (map getS (getL (nth 1 a (VZ 0)))));
                Ok (VL [Vrows (fst r); VZ (snd r)])))
  else if cmd =? "spec.parse.table" then   (* list of lines *)
    Some (Vres (do rs <- spec_table (map getS (getL (nth 0 a (VZ 0)))); Ok (Vrows rs)))
  else if cmd =? "spec.parse.row" then
    Some (Vres (do r <- spec_row (getS (nth 0 a (VZ 0))); Ok (Vrow r)))
  else if cmd =? "parse.element" then
    Some (Vres (do s <- get_element_src (getS (nth 0 a (VZ 0))); Ok (VS s)))
  else None.
