(* Spec_fs.v — specifications of C20 and C16, written from the property statements.
   C20: the object is a plain list-of-records machine (what get('*') shows after every step); a
   "commit event" makes the current table the last-committed one; at a crash the file holds the
   last-committed table or, if nothing was committed yet, no atoms.
   C16: the requested outputs of a call; a computation's result is its solo result.
   Executable (bool) versions are used by the harness; the Prop versions are what the theorems state;
   Proofs_fs_spec.v proves them equivalent. *)
From Verif Require Import PyLib ModelTypes Model_fs.
Open Scope string_scope.
Open Scope list_scope.

(* ------------------------------------------------------------------ *)
(* C20: the abstract object                                             *)
Record sstate := mkS { s_tab : table;            (* the table the object holds *)
                       s_dirty : bool;           (* data modified since the last commit event *)
                       s_last : option table }.  (* the last-committed table, if any *)

(* does this modifier change data (and so open a transaction)?  update() that raises changes nothing *)
Definition modifies_data (m : modify) (t : table) : bool :=
  match m with
  | MUpdCol _ _ _ => true
  | MUpdate cols vals rowids => update_shape_ok cols vals && update_count_ok vals rowids t
  | MAddCol _ _ _ => false
  end.
(* commit events: an explicit commit; a schema change issued while no data modification is pending
   (SQLite autocommits a statement executed outside a transaction) *)
Definition spec_step (s : sstep) (st : sstate) : sstate :=
  let t' := apply_step s (s_tab st) in
  match s with
  | SCommit => mkS t' false (Some t')
  | SModify (MAddCol _ _ _) => if s_dirty st then mkS t' true (s_last st) else mkS t' false (Some t')
  | SModify m => mkS t' (s_dirty st || modifies_data m (s_tab st)) (s_last st)
  end.
(* after the creation: the atoms are inserted but not committed *)
Definition spec_created (sc : scenario) : sstate := mkS (table0 sc) true None.
Fixpoint spec_run (ss : list sstep) (st : sstate) : sstate :=
  match ss with [] => st | s :: ss' => spec_run ss' (spec_step s st) end.
(* state after the creation and the first j steps *)
Definition spec_after (sc : scenario) (j : nat) : sstate :=
  spec_run (firstn j (sc_steps sc)) (spec_created sc).
Definition final_table (sc : scenario) : table :=
  s_tab (spec_run (sc_steps sc) (spec_created sc)).

(* what a reader may find *)
Definition no_atoms (o : outcome) : Prop :=
  match o with
  | ONoFile | ONoTable => True
  | OTable t => t_rows t = []
  | ONotDb => False
  end.
Definition holds_committed (last : option table) (o : outcome) : Prop :=
  match last with
  | None => no_atoms o                      (* nothing committed yet: no atoms *)
  | Some t => o = OTable t                  (* exactly the complete last-committed table *)
  end.
(* [g]: index of the scenario step in progress when the process died: 0 = creation, 1..n = the
   n steps, n+1 = close, n+2 = the scenario ran to its end.  [o0]: what was at that name before. *)
Definition Allowed (o0 : outcome) (sc : scenario) (g : nat) (o : outcome) : Prop :=
  let n := List.length (sc_steps sc) in
  if Nat.eqb g 0 then o = o0 \/ no_atoms o
  else if Nat.leb g n then
    holds_committed (s_last (spec_after sc (g - 1))) o \/ holds_committed (s_last (spec_after sc g)) o
  else if Nat.eqb g (S n) then
    holds_committed (s_last (spec_after sc n)) o \/
    (if sc_keep sc then o = OTable (final_table sc) else o = ONoFile)
  else
    (if sc_keep sc then o = OTable (final_table sc) else o = ONoFile).
(* the property statement read literally: "either no atoms or the complete last-committed table" *)
Definition Allowed_literal (o0 : outcome) (sc : scenario) (g : nat) (o : outcome) : Prop :=
  Allowed o0 sc g o \/ (Nat.leb g (S (List.length (sc_steps sc))) = true /\ no_atoms o).

(* executable versions *)
Definition outcome_eqb (a b : outcome) : bool :=
  match a, b with
  | ONoFile, ONoFile | ONoTable, ONoTable | ONotDb, ONotDb => true
  | OTable t, OTable u => table_eqb t u
  | _, _ => false
  end.
Definition is_nil {A} (l : list A) : bool := match l with [] => true | _ => false end.
Definition no_atomsb (o : outcome) : bool :=
  match o with
  | ONoFile | ONoTable => true
  | OTable t => is_nil (t_rows t)
  | ONotDb => false
  end.
Definition holds_committedb (last : option table) (o : outcome) : bool :=
  match last with None => no_atomsb o | Some t => outcome_eqb o (OTable t) end.
Definition allowedb (o0 : outcome) (sc : scenario) (g : nat) (o : outcome) : bool :=
  let n := List.length (sc_steps sc) in
  if Nat.eqb g 0 then outcome_eqb o o0 || no_atomsb o
  else if Nat.leb g n then
    holds_committedb (s_last (spec_after sc (g - 1))) o || holds_committedb (s_last (spec_after sc g)) o
  else if Nat.eqb g (S n) then
    holds_committedb (s_last (spec_after sc n)) o ||
    (if sc_keep sc then outcome_eqb o (OTable (final_table sc)) else outcome_eqb o ONoFile)
  else
    (if sc_keep sc then outcome_eqb o (OTable (final_table sc)) else outcome_eqb o ONoFile).
Definition allowed_literalb (o0 : outcome) (sc : scenario) (g : nat) (o : outcome) : bool :=
  allowedb o0 sc g o || (Nat.leb g (S (List.length (sc_steps sc))) && no_atomsb o).

(* file names are data: the only paths a scenario may change *)
Definition c20_may_touch (sc : scenario) (p : path) : Prop := p = sc_name sc \/ p = jpath (sc_name sc).

(* ------------------------------------------------------------------ *)
(* C16 *)
(* a path the call may change: a requested output (or, transiently, one of its temporaries) *)
Definition may_write (c : call) (p : path) : Prop := In p (requested_outputs c) \/ In p (transients c).
Definition may_read (c : call) (p : path) : Prop := In p (inputs_of c).
Definition may_writeb (c : call) (p : path) : bool :=
  mem String.eqb p (requested_outputs c) || mem String.eqb p (transients c).

(* two file systems that agree where the call may look *)
Definition agree_on (F : path -> Prop) (fs1 fs2 : fsys) : Prop := forall p, F p -> fs1 p = fs2 p.
Definition footprint (c : call) (p : path) : Prop := may_read c p \/ may_write c p.
