From Coq Require Import Lqa Lia.
From Verif Require Import PyLib ModelTypes Generated_scores Model_scores Spec_scores Proofs_capri.
Open Scope Q_scope.

Lemma class_rank_le3 c : (class_rank c <= 3)%nat.
Proof. destruct c; cbn; lia. Qed.

Lemma is_class_unique c c' f l i : is_class c f l i -> is_class c' f l i -> c = c'.
Proof.
  intros [H1 H2] [H1' H2'].
  destruct (Nat.lt_trichotomy (class_rank c) (class_rank c')) as [H|[H|H]].
  - exfalso. apply (H2' c H H1).
  - destruct c, c'; cbn in H; try lia; reflexivity.
  - exfalso. apply (H2 c' H H1').
Qed.

Lemma level_monotone k f l i f' l' i' :
  f <= f' -> l' <= l -> i' <= i -> level k f l i -> level k f' l' i'.
Proof.
  intros Hf Hl Hi.
  destruct k as [|[|[|k]]]; cbn [level]; generalize t01 t03 t05; intros a b c; intro H; try exact I;
  (destruct H as [H0 [H1|H1]]; (split; [lra | first [left; lra | right; lra]])).
Qed.

Lemma capri_spec_monotone f l i f' l' i' :
  f <= f' -> l' <= l -> i' <= i ->
  (class_rank (capri_spec f l i) <= class_rank (capri_spec f' l' i'))%nat.
Proof.
  intros Hf Hl Hi.
  destruct (capri_spec_levels f l i) as [H1 _].
  destruct (capri_spec_levels f' l' i') as [_ H2].
  destruct (le_lt_dec (class_rank (capri_spec f l i)) (class_rank (capri_spec f' l' i'))) as [H|H]; [exact H|].
  exfalso. apply (H2 (class_rank (capri_spec f l i))).
  - split; [exact H | apply class_rank_le3].
  - apply (level_monotone _ f l i); assumption.
Qed.

Lemma class_name_inj c c' : class_name c = class_name c' -> c = c'.
Proof. destruct c, c'; cbn; intro H; try reflexivity; discriminate H. Qed.


Lemma Ok_inj {A} (a b : A) : Ok a = Ok b -> a = b.
Proof. intro H. inversion H. reflexivity. Qed.

Lemma capri_only_that_class f l i c c' :
  capri f l i = Ok (class_name c) -> is_class c' f l i -> c' = c.
Proof.
  intros H H'. rewrite capri_eq_spec in H. apply Ok_inj in H.
  apply class_name_inj in H. subst c.
  exact (is_class_unique _ _ _ _ _ H' (capri_spec_table f l i)).
Qed.

Lemma capri_monotone f l i f' l' i' c c' :
  f <= f' -> l' <= l -> i' <= i ->
  capri f l i = Ok (class_name c) -> capri f' l' i' = Ok (class_name c') ->
  (class_rank c <= class_rank c')%nat.
Proof.
  intros Hf Hl Hi H H'.
  rewrite capri_eq_spec in H, H'. apply Ok_inj in H. apply Ok_inj in H'.
  apply class_name_inj in H, H'. subst c c'.
  exact (capri_spec_monotone _ _ _ _ _ _ Hf Hl Hi).
Qed.
