(* Proofs_sql_src.v — the hand-written model is built from exactly the constants and leaf
   expressions that the translator reads from the source on every run (Generated_sql.v,
   Generated_parse.v).  A semantic change of those places in /repo changes the regenerated
   definitions and breaks these statements. *)
From Verif Require Import PyLib ModelTypes Generated_parse Generated_sql Model_sqlval Model_sql Spec_sql.
Open Scope string_scope.
Open Scope Z_scope.

(* get(): negation prefix, rowID key, the two shifts, the two limits, flattening *)
Theorem get_built_from_source :
  (forall k0, key_of k0 = if prefix neg_prefix_src k0
                          then (true, substring neg_prefix_cut_src (String.length k0) k0) else (false, k0)) /\
  String.length neg_prefix_src = neg_prefix_cut_src /\
  (forall z, rowid_shift (PInt z) = Ok (PInt (z + rowid_in_shift_src))) /\
  (forall z r, dec_at 0 (VInt z :: r) = VInt (z - rowid_out_shift_src) :: r) /\
  rowid_in_shift_src = rowid_out_shift_src /\            (* what goes in comes out: zero-based both ways *)
  rowid_key_src = "rowID" /\
  (forall k l rest acc, cond_loop ((k, CList l) :: rest) acc =
       let '(neg, k') := key_of k in
       if max_sql_values_src <? Z.of_nat (List.length l) then LChunk k' (chunks (Z.to_nat max_sql_values_src) l)
       else if String.eqb k' rowid_key_src then
              match mapM rowid_shift l with Ok l' => cond_loop rest ((k', neg, l') :: acc) | Err e => LErr e end
            else cond_loop rest ((k', neg, l) :: acc)) /\
  chunk_cmp_src = ">" /\ limit_cmp_src = ">" /\ sql_limit = sql_limit_src /\ max_sql_values = max_sql_values_src /\
  flatten_width_src = 1%nat.
Proof. repeat split; intros; try reflexivity; try (cbn [cond_loop]; destruct (key_of k); reflexivity). Qed.

(* update(), update_column(): the row address is position + 1, the same shift as in get() *)
Theorem update_built_from_source :
  update_shift_src = rowid_in_shift_src /\ update_column_shift_src = rowid_in_shift_src /\
  (forall v, index_val (PInt v) = Ok (v + update_column_shift_src)) /\
  (forall vs i, enum_idx vs i = match vs with [] => [] | v :: t => ([v], i + update_column_shift_src) :: enum_idx t (i + 1) end) /\
  update_where_src = " WHERE rowID=?" /\ update_head_src = "UPDATE {tablename} SET " /\
  update_column_query_src = "UPDATE {tablename} SET {cn}=? WHERE rowID=?" /\
  add_column_query_src = "ALTER TABLE %s ADD COLUMN '%s' %s DEFAULT %s" /\
  get_default_table_src = "ATOM" /\ update_default_table_src = "ATOM" /\
  update_column_default_table_src = "ATOM" /\ add_column_default_table_src = "ATOM".
Proof. repeat split; intros; try reflexivity; try (destruct vs; reflexivity). Qed.

(* the views are get()/update() on the attribute strings found in the source *)
Theorem views_built_from_source :
  (forall d tn kw, get_xyz_model d tn kw = get_top d xyz_columns_src tn kw) /\
  (forall d tn kw, spec_get_xyz d tn kw = spec_get d xyz_columns_src tn kw) /\
  (forall d v tn kw, update_xyz_top d v tn kw = update_top d update_xyz_columns_src v tn kw) /\
  (forall d v tn kw, spec_update_xyz d v tn kw = spec_update d update_xyz_columns_src v tn kw) /\
  residues_columns_src = "chainID,resName,resSeq" /\ chains_columns_src = "chainID" /\
  many_first_table_src = "ATOM" /\ many_table_prefix_src = "ATOM".
Proof. repeat split; reflexivity. Qed.
