(* Proofs_text.v — facts about the text primitives on printable ASCII *)
From Coq Require Import Lia ZifyBool.
From Verif Require Import PyLib ModelTypes Spec_parse.
Open Scope string_scope.

Definition printable_char (c : ascii) : bool :=
  let n := nat_of_ascii c in (Nat.leb 32 n && Nat.ltb n 127)%bool.
Fixpoint printableb (s : string) : bool :=
  match s with EmptyString => true | String c t => (printable_char c && printableb t)%bool end.
(* printable or newline: what a line of input may contain *)
Fixpoint linecharsb (s : string) : bool :=
  match s with
  | EmptyString => true
  | String c t => ((printable_char c || Ascii.eqb c nl) && linecharsb t)%bool
  end.

Lemma ascii_eqb_nat c d : Ascii.eqb c d = Nat.eqb (nat_of_ascii c) (nat_of_ascii d).
Proof.
  destruct (Ascii.eqb_spec c d) as [->|N].
  - symmetry. apply Nat.eqb_refl.
  - symmetry. apply Nat.eqb_neq. intro E. apply N.
    rewrite <- (ascii_nat_embedding c), <- (ascii_nat_embedding d), E. reflexivity.
Qed.

Lemma is_space_printable c : printable_char c = true -> is_space c = Ascii.eqb c " ".
Proof.
  unfold printable_char, is_space. rewrite (ascii_eqb_nat c " ").
  change (nat_of_ascii " ") with 32%nat. generalize (nat_of_ascii c). intros n H. lia.
Qed.

Lemma lstrip_ltrim s : printableb s = true -> lstrip s = ltrim s.
Proof.
  induction s as [|c t IH]; cbn; intro H; [reflexivity|].
  apply andb_prop in H. destruct H as [Hc Ht].
  rewrite (is_space_printable c Hc). destruct (Ascii.eqb c " "); [apply IH; exact Ht | reflexivity].
Qed.

Lemma printable_ltrim s : printableb s = true -> printableb (ltrim s) = true.
Proof.
  induction s as [|c t IH]; cbn; intro H; [reflexivity|].
  destruct (Ascii.eqb c " "); [|exact H].
  apply andb_prop in H. apply IH, H.
Qed.

Lemma printable_rev_str acc s :
  printableb acc = true -> printableb s = true -> printableb (rev_str acc s) = true.
Proof.
  revert acc. induction s as [|c t IH]; cbn; intros acc Ha H; [exact Ha|].
  apply andb_prop in H. destruct H as [Hc Ht].
  apply IH; [cbn; rewrite Hc, Ha; reflexivity | exact Ht].
Qed.

Lemma strip_trim s : printableb s = true -> strip s = trim s.
Proof.
  intro H. unfold strip, rstrip, trim.
  rewrite (lstrip_ltrim s H).
  rewrite (lstrip_ltrim (rev_str "" (ltrim s))); [reflexivity|].
  apply printable_rev_str; [reflexivity | apply printable_ltrim, H].
Qed.

Lemma printable_substring a n s : printableb s = true -> printableb (substring a n s) = true.
Proof.
  revert a n. induction s as [|c t IH]; intros a n H.
  - destruct a, n; reflexivity.
  - cbn in H. apply andb_prop in H. destruct H as [Hc Ht].
    destruct a as [|a]; cbn.
    + destruct n as [|n]; [reflexivity|]. cbn. rewrite Hc. apply IH, Ht.
    + apply IH, Ht.
Qed.

Lemma printable_repeat n : printableb (repeat_char " "%char n) = true.
Proof. induction n; cbn; [reflexivity | exact IHn]. Qed.

Lemma printable_append s t : printableb s = true -> printableb t = true -> printableb (s ++ t) = true.
Proof.
  induction s as [|c s IH]; cbn; intros Hs Ht; [exact Ht|].
  apply andb_prop in Hs. destruct Hs as [Hc Hs]. rewrite Hc. apply IH; assumption.
Qed.

Lemma printable_pad80 l : printableb l = true -> printableb (pad80 l) = true.
Proof. intro H. unfold pad80. apply printable_append; [exact H | apply printable_repeat]. Qed.

Lemma repeat_str_char n : repeat_str " " n = repeat_char " "%char n.
Proof. induction n; cbn; [reflexivity | rewrite IHn; reflexivity]. Qed.

Lemma length_repeat_char c n : length (repeat_char c n) = n.
Proof. induction n; cbn; [reflexivity | rewrite IHn; reflexivity]. Qed.

Lemma length_append s t : length (s ++ t) = (length s + length t)%nat.
Proof. induction s as [|c s IH]; cbn; [reflexivity | rewrite IH; reflexivity]. Qed.

Lemma length_pad80 l : (length l <= 80)%nat -> length (pad80 l) = 80%nat.
Proof. intro H. unfold pad80. rewrite length_append, length_repeat_char. lia. Qed.

(* one- and two-character substrings inside the string *)
Lemma substring_1 i s : (i < length s)%nat ->
  exists c, get i s = Some c /\ substring i 1 s = String c "".
Proof.
  revert i. induction s as [|c t IH]; cbn; intros i H; [lia|].
  destruct i as [|i]; cbn.
  - exists c. split; [reflexivity|]. destruct t; reflexivity.
  - apply IH. lia.
Qed.

Lemma substring_2 i s : (S i < length s)%nat ->
  exists c d, get i s = Some c /\ get (S i) s = Some d /\ substring i 2 s = String c (String d "").
Proof.
  revert i. induction s as [|c t IH]; cbn; intros i H; [lia|].
  destruct i as [|i].
  - destruct t as [|d t']; cbn in H; [lia|]. exists c, d. cbn. repeat split. destruct t'; reflexivity.
  - cbn. apply IH. lia.
Qed.

Lemma printable_get i s c : printableb s = true -> get i s = Some c -> printable_char c = true.
Proof.
  revert i. induction s as [|d t IH]; cbn; intros i H G; [discriminate G|].
  apply andb_prop in H. destruct H as [Hd Ht].
  destruct i as [|i]; [injection G as <-; exact Hd | apply (IH i Ht G)].
Qed.

Lemma strip_1 c : printable_char c = true ->
  strip (String c "") = if Ascii.eqb c " " then "" else String c "".
Proof.
  intro H. rewrite strip_trim by (cbn; rewrite H; reflexivity).
  unfold trim. cbn. destruct (Ascii.eqb c " ") eqn:E; cbn; [reflexivity|]. rewrite E. reflexivity.
Qed.

Lemma nat_of_ascii_neq c d : c <> d -> nat_of_ascii c <> nat_of_ascii d.
Proof.
  intros N E. apply N.
  rewrite <- (ascii_nat_embedding c), <- (ascii_nat_embedding d), E. reflexivity.
Qed.

Lemma ascii_dec_nat a b :
  (if ascii_dec a b then true else false) = Nat.eqb (nat_of_ascii a) (nat_of_ascii b).
Proof.
  destruct (ascii_dec a b) as [->|N].
  - symmetry. apply Nat.eqb_refl.
  - symmetry. apply Nat.eqb_neq. apply nat_of_ascii_neq, N.
Qed.

Lemma is_substring_digit c : is_substring (String c "") "0123456789" = is_digit c.
Proof.
  cbn [is_substring prefix]. rewrite !ascii_dec_nat. unfold is_digit.
  change (nat_of_ascii "0") with 48%nat. change (nat_of_ascii "1") with 49%nat.
  change (nat_of_ascii "2") with 50%nat. change (nat_of_ascii "3") with 51%nat.
  change (nat_of_ascii "4") with 52%nat. change (nat_of_ascii "5") with 53%nat.
  change (nat_of_ascii "6") with 54%nat. change (nat_of_ascii "7") with 55%nat.
  change (nat_of_ascii "8") with 56%nat. change (nat_of_ascii "9") with 57%nat.
  generalize (nat_of_ascii c). intro n. cbn [orb prefix]. lia.
Qed.
