(* Proofs_sql_table.v — C17: a query is answered from the addressed table only (after fix F12 the
   table name is threaded through every recursive call): the rows of the other tables of the
   database never influence the result. *)
From Coq Require Import Lia.
From Verif Require Import PyLib ModelTypes Generated_parse Model_sqlval Model_sql Spec_sql Proofs_sql_base.
Open Scope string_scope.

Theorem never_other_table : forall fuel d1 d2 columns tn kw,
  valid_colnames d1 = valid_colnames d2 -> nmodel d1 = nmodel d2 ->
  find_table tn (tables d1) = find_table tn (tables d2) ->
  get_model fuel d1 columns tn kw = get_model fuel d2 columns tn kw.
Proof.
  induction fuel as [|f IH]; intros d1 d2 columns tn kw Hv Hn Hf; [reflexivity|].
  cbn [get_model]. rewrite <- Hv, <- Hn, <- Hf.
  destruct (negb (table_name_ok tn)); [reflexivity|].
  destruct (valid_colnames d1) as [valid|e] eqn:Ev; [|reflexivity]. cbn [bind].
  assert (Hv' : valid_colnames d1 = valid_colnames d2) by (rewrite Ev; exact Hv).
  destruct (check_columns_get valid columns) as [u|e]; [|reflexivity]. cbn [bind].
  destruct (negb (has_key "model" kw) && Nat.ltb 0 (nmodel d1))%bool.
  - f_equal. apply mapM_ext. intro i. rewrite (IH d1 d2 _ _ _ Hv' Hn Hf). reflexivity.
  - destruct kw as [|c0 kw']; [reflexivity|].
    destruct (check_keys (find_table tn (tables d1)) (c0 :: kw')) as [u'|e]; [|reflexivity]. cbn [bind].
    destruct (find_table tn (tables d1)) as [t|] eqn:Et; [|reflexivity].
    assert (Hf' : find_table tn (tables d1) = find_table tn (tables d2)) by (rewrite Et; exact Hf).
    destruct (cond_loop (c0 :: kw') []) as [e|k cs|cs]; try reflexivity.
    f_equal. apply mapM_ext. intro c. exact (IH d1 d2 _ _ _ Hv' Hn Hf').
Qed.

(* the same for the specification: it only looks at the addressed table *)
Theorem spec_never_other_table d1 d2 columns tn kw :
  nmodel d1 = nmodel d2 -> find_table tn (tables d1) = find_table tn (tables d2) ->
  spec_get d1 columns tn kw = spec_get d2 columns tn kw.
Proof.
  intros Hn Hf. unfold spec_get, spec_conds. rewrite <- Hn, <- Hf. reflexivity.
Qed.
