
val negb : bool -> bool

type nat =
| O
| S of nat

val option_map : ('a1 -> 'a2) -> 'a1 option -> 'a2 option

type ('a, 'b) sum =
| Inl of 'a
| Inr of 'b

val fst : ('a1 * 'a2) -> 'a1

val snd : ('a1 * 'a2) -> 'a2

val length : 'a1 list -> nat

val app : 'a1 list -> 'a1 list -> 'a1 list

type comparison =
| Eq
| Lt
| Gt

val compOpp : comparison -> comparison

val add : nat -> nat -> nat

val mul : nat -> nat -> nat

val sub : nat -> nat -> nat

type positive =
| XI of positive
| XO of positive
| XH

type n =
| N0
| Npos of positive

type z =
| Z0
| Zpos of positive
| Zneg of positive

val bool_dec : bool -> bool -> bool

val eqb : bool -> bool -> bool

module Nat :
 sig
  val pred : nat -> nat

  val eqb : nat -> nat -> bool

  val leb : nat -> nat -> bool

  val ltb : nat -> nat -> bool

  val min : nat -> nat -> nat

  val divmod : nat -> nat -> nat -> nat -> nat * nat

  val div : nat -> nat -> nat
 end

module Pos :
 sig
  type mask =
  | IsNul
  | IsPos of positive
  | IsNeg
 end

module Coq_Pos :
 sig
  val succ : positive -> positive

  val add : positive -> positive -> positive

  val add_carry : positive -> positive -> positive

  val pred_double : positive -> positive

  type mask = Pos.mask =
  | IsNul
  | IsPos of positive
  | IsNeg

  val succ_double_mask : mask -> mask

  val double_mask : mask -> mask

  val double_pred_mask : positive -> mask

  val sub_mask : positive -> positive -> mask

  val sub_mask_carry : positive -> positive -> mask

  val sub : positive -> positive -> positive

  val mul : positive -> positive -> positive

  val iter : ('a1 -> 'a1) -> 'a1 -> positive -> 'a1

  val pow : positive -> positive -> positive

  val size_nat : positive -> nat

  val size : positive -> positive

  val compare_cont : comparison -> positive -> positive -> comparison

  val compare : positive -> positive -> comparison

  val eqb : positive -> positive -> bool

  val ggcdn : nat -> positive -> positive -> positive * (positive * positive)

  val ggcd : positive -> positive -> positive * (positive * positive)

  val iter_op : ('a1 -> 'a1 -> 'a1) -> positive -> 'a1 -> 'a1

  val to_nat : positive -> nat

  val of_succ_nat : nat -> positive
 end

module N :
 sig
  val add : n -> n -> n

  val mul : n -> n -> n

  val compare : n -> n -> comparison

  val to_nat : n -> nat

  val of_nat : nat -> n
 end

module Z :
 sig
  val double : z -> z

  val succ_double : z -> z

  val pred_double : z -> z

  val pos_sub : positive -> positive -> z

  val add : z -> z -> z

  val opp : z -> z

  val sub : z -> z -> z

  val mul : z -> z -> z

  val pow_pos : z -> positive -> z

  val pow : z -> z -> z

  val compare : z -> z -> comparison

  val sgn : z -> z

  val leb : z -> z -> bool

  val ltb : z -> z -> bool

  val eqb : z -> z -> bool

  val min : z -> z -> z

  val abs : z -> z

  val to_nat : z -> nat

  val of_nat : nat -> z

  val to_pos : z -> positive

  val pos_div_eucl : positive -> z -> z * z

  val div_eucl : z -> z -> z * z

  val div : z -> z -> z

  val modulo : z -> z -> z

  val even : z -> bool

  val log2 : z -> z

  val ggcd : z -> z -> z * (z * z)
 end

val zeq_bool : z -> z -> bool

val hd : 'a1 -> 'a1 list -> 'a1

val tl : 'a1 list -> 'a1 list

val nth : nat -> 'a1 list -> 'a1 -> 'a1

val nth_error : 'a1 list -> nat -> 'a1 option

val rev : 'a1 list -> 'a1 list

val concat : 'a1 list list -> 'a1 list

val map : ('a1 -> 'a2) -> 'a1 list -> 'a2 list

val flat_map : ('a1 -> 'a2 list) -> 'a1 list -> 'a2 list

val fold_left : ('a1 -> 'a2 -> 'a1) -> 'a2 list -> 'a1 -> 'a1

val fold_right : ('a2 -> 'a1 -> 'a1) -> 'a1 -> 'a2 list -> 'a1

val existsb : ('a1 -> bool) -> 'a1 list -> bool

val forallb : ('a1 -> bool) -> 'a1 list -> bool

val filter : ('a1 -> bool) -> 'a1 list -> 'a1 list

val find : ('a1 -> bool) -> 'a1 list -> 'a1 option

val combine : 'a1 list -> 'a2 list -> ('a1 * 'a2) list

val list_prod : 'a1 list -> 'a2 list -> ('a1 * 'a2) list

val firstn : nat -> 'a1 list -> 'a1 list

val skipn : nat -> 'a1 list -> 'a1 list

val seq : nat -> nat -> nat list

val repeat : 'a1 -> nat -> 'a1 list

type ascii =
| Ascii of bool * bool * bool * bool * bool * bool * bool * bool

val zero : ascii

val one : ascii

val shift : bool -> ascii -> ascii

val ascii_dec : ascii -> ascii -> bool

val eqb0 : ascii -> ascii -> bool

val ascii_of_pos : positive -> ascii

val ascii_of_N : n -> ascii

val ascii_of_nat : nat -> ascii

val n_of_digits : bool list -> n

val n_of_ascii : ascii -> n

val nat_of_ascii : ascii -> nat

val compare0 : ascii -> ascii -> comparison

type string =
| EmptyString
| String of ascii * string

val eqb1 : string -> string -> bool

val compare1 : string -> string -> comparison

val ltb0 : string -> string -> bool

val leb0 : string -> string -> bool

val append : string -> string -> string

val length0 : string -> nat

val get : nat -> string -> ascii option

val substring : nat -> nat -> string -> string

val prefix : string -> string -> bool

type q = { qnum : z; qden : positive }

val inject_Z : z -> q

val qcompare : q -> q -> comparison

val qeq_bool : q -> q -> bool

val qle_bool : q -> q -> bool

val qplus : q -> q -> q

val qmult : q -> q -> q

val qopp : q -> q

val qminus : q -> q -> q

val qinv : q -> q

val qdiv : q -> q -> q

val qred : q -> q

val qabs : q -> q

val qfloor : q -> z

type v =
| VZ of z
| VS of string
| VL of v list

val vB : bool -> v

val vQ : q -> v

val vErr : string -> v

val vOk : v -> v

val getZ : v -> z

val getS : v -> string

val getL : v -> v list

val getB : v -> bool

val getQ : v -> q

val nthV : nat -> v -> v

type 'a res =
| Ok of 'a
| Err of string

val bind : 'a1 res -> ('a1 -> 'a2 res) -> 'a2 res

val mapM : ('a1 -> 'a2 res) -> 'a1 list -> 'a2 list res

val vres : v res -> v

val qltb : q -> q -> bool

val qleb : q -> q -> bool

val qeqb : q -> q -> bool

val qsqr : q -> q

val sp : ascii

val nl : ascii

val is_space : ascii -> bool

val is_digit : ascii -> bool

val digit_val : ascii -> z

val lstrip : string -> string

val rev_str : string -> string -> string

val rstrip : string -> string

val strip : string -> string

val slice : nat -> nat -> string -> string

val char_at : nat -> string -> string

val repeat_char : ascii -> nat -> string

val ljust : nat -> string -> string

val rjust : nat -> string -> string

val center : nat -> string -> string

val startswith : string -> string -> bool

val str_nonempty : string -> bool

val is_substring : string -> string -> bool

val upto_nl : string -> string

val split_nl_aux : string -> string -> string list

val split_nl : string -> string list

val readlines_aux : string -> string -> string list

val readlines : string -> string list

val count_sub_aux : nat -> string -> string -> nat

val count_sub : string -> string -> nat

val digits_pos_aux : nat -> z -> string -> string

val digits : z -> string

val str_of_Z : z -> string

val all_digits : string -> bool

val digits_val : z -> string -> z

type 'a numparse =
| NumOk of 'a
| NumBad
| NumOutOfModel

val has_char : ascii -> string -> bool

val exotic_numeral : string -> bool

val split_sign : string -> bool * string

val parse_int : string -> z numparse

val split_dot : string -> string * string option

val qfloor' : q -> z

val round_half_even : q -> z

val qpow2 : z -> q

val b64 : q -> q

val pow10 : nat -> z

val parse_float : string -> q numparse

val pad_left_zeros : nat -> string -> string

val fmt_fixed_body : nat -> q -> string

val fmt_fixed : nat -> nat -> q -> string

val round_dec : nat -> q -> q

val mem : ('a1 -> 'a1 -> bool) -> 'a1 -> 'a1 list -> bool

val dedup_aux : ('a1 -> 'a1 -> bool) -> 'a1 list -> 'a1 list -> 'a1 list

val dedup_keep_first : ('a1 -> 'a1 -> bool) -> 'a1 list -> 'a1 list

val insert_sorted : ('a1 -> 'a1 -> bool) -> 'a1 -> 'a1 list -> 'a1 list

val sort_by : ('a1 -> 'a1 -> bool) -> 'a1 list -> 'a1 list

val seqZ : z -> nat -> z list

val repeat_str : string -> nat -> string

type blank_default =
| DConst of q
| DChainFromSegID
| DElementGuess

type align =
| ARight
| ALeft
| ACenter

type piece =
| PLit of string
| PField of nat * align * nat
| PFixed of nat * align * nat * nat
| PAtomName
| PXyz of nat

type val0 =
| VInt of z
| VReal of q
| VText of string
| VBlob
| VNull

type row = val0 list

type zpiece =
| ZLit of string
| ZChain
| ZNum

val capri_src : q -> q -> q -> string -> string res

val scale_rms_src : q -> q -> q

val dockq_raw_src : q -> q -> q -> q -> q -> q

val dockq_digits_src : nat

val dockq_d1_src : q

val dockq_d2_src : q

val capri : q -> q -> q -> string res

val dockq : q -> q -> q -> q -> q -> q

type capri_class =
| Incorrect
| Acceptable
| Medium
| High

val class_name : capri_class -> string

val t01 : q

val t03 : q

val t05 : q

val levelb : nat -> q -> q -> q -> bool

val capri_spec : q -> q -> q -> capri_class

val dockq_formula : q -> q -> q -> q -> q -> q

val col_src : (string * string) list

val delimiter_src : (string * (nat * nat)) list

val backbone_src : string list

val sql_limit_src : z

val max_sql_values_src : z

val atom_prefix_src : string

val endmdl_prefix_src : string

val int_tag_src : string

val real_tag_src : string

val blank_defaults_src : (string * blank_default) list

val linelength_src : string -> string res

val get_chainID_src : string -> string res

val get_element_src : string -> string res

type form =
| FPath
| FPathObj
| FStr
| FBytes
| FListStr
| FListBytes
| FNdarrayStr
| FNdarrayBytes

type input =
| InText of form * string
| InLines of form * string list

val lines_of : input -> string list res

val assoc : string -> (string * 'a1) list -> 'a1 option

val parse_field : string -> string -> string -> val0 option res

val parse_fields : string -> (string * string) list -> val0 list res

val parse_record : z -> string -> row res

val parse_lines : string list -> z -> (row list * z) res

val parse : input -> (row list * z) res

type ftype =
| TInt
| TReal
| TText

val wwpdb_cols : ((string * (nat * nat)) * ftype) list

val segid_cols : nat * nat

val pad80 : string -> string

val columns : nat -> nat -> string -> string

val column : nat -> string -> ascii

val ltrim : string -> string

val trim : string -> string

val spec_element : string -> string

val spec_field : string -> ((string * (nat * nat)) * ftype) -> val0 res

val spec_row : string -> row res

val is_ATOM : string -> bool

val spec_table : string list -> row list res

val vval : val0 -> v

val val_of_V : v -> val0

val vrow : row -> v

val vrows : row list -> v

val form_of : string -> form

val run_parse : string -> v list -> v option

val format_xyz_src : q -> string res

val format_atomname_src : string -> string -> string res

val export_layout_src : piece list

val justify : align -> nat -> string -> string

val render_plain : val0 -> string res

val num_of : val0 -> q res

val text_of : val0 -> string res

val render_piece : row -> piece -> string res

val render_pieces : row -> piece list -> string res

val line_of_row : row -> string res

val export : row list -> string list res

val clean : string -> bool

val fits_int : z -> z -> val0 -> bool

val fits_text : nat -> nat -> val0 -> bool

val real_of : val0 -> q option

val fits_real : q -> q -> val0 -> bool

val coord_lo : q

val coord_hi : q

val coord_in_range : val0 -> bool

val fits : row -> bool

val decimal_value : string -> (q * nat) option

val int_digits : q -> nat

val max_fit : q -> nat

val near_power_of_ten : q -> bool

val coord_ok : val0 -> string -> bool

val text_ok : val0 -> string -> bool

val int_ok : val0 -> string -> bool

val real2_ok : val0 -> string -> bool

val line_ok : row -> string -> bool

val val_eqb : val0 -> val0 -> bool

val slack : q -> q

val within : q -> val0 -> val0 -> bool

val coord_tol : val0 -> q

val approx_row : row -> row -> bool

val row_of_V : v -> row

val run_export : string -> v list -> v option

val val_eqb0 : val0 -> val0 -> bool

type table = row list

val key_of : nat list -> row -> val0 list

val keys_eqb : val0 list -> val0 list -> bool

val same_key : nat list -> row -> row -> bool

val join : nat list -> table list -> row list list

val project : nat list -> row -> row

val get_intersection : nat list -> nat list -> table list -> row list list

val std_cols : string list

val lower_char : ascii -> ascii

val lower : string -> string

val index_of :
  (string -> string -> bool) -> string -> string list -> nat -> nat option

val col_index_ci : string -> nat option

val find_key : nat list -> row -> table -> row option

val find_all : nat list -> row -> table list -> row list option

val spec_tuples : nat list -> table list -> row list list

val spec_intersection : nat list -> nat list -> table list -> row list list

val unique_keys : nat list -> table -> bool

val tables_of_V : v -> table list

val nats_of_V : v -> nat list

val vtables : row list list -> v

val run_many : string -> v list -> v option

val snapshot : row list -> row list res

val run_store : string -> v list -> v option

type vec = (q * q) * q

type mat = (vec * vec) * vec

val vadd : vec -> vec -> vec

val vsub : vec -> vec -> vec

val vdot : vec -> vec -> q

val mv : mat -> vec -> vec

val vscale : q -> vec -> vec

val vsum : vec list -> vec

val mean : vec list -> vec

val superpose_selection : mat -> vec list -> vec list -> vec list -> vec list

val centred : vec list -> vec list

val xyz_of : row -> vec

val pairs_of_tuples : row list list -> vec list * vec list

val paired_selections : row list -> row list -> (vec list * vec list) res

val set_xyz : row -> vec -> row

val superpose : mat -> row list -> row list -> row list -> row list res

val det : mat -> q

val shared_pairs : row list -> row list -> vec list * vec list

val close_to : q -> q -> q -> bool

val is_rotation_eps : q -> mat -> bool

val vec_of_V : v -> vec

val mat_of_V : v -> mat

val vvec : vec -> v

val rows_of_V : v -> row list

val run_superpose : string -> v list -> v option

type pv =
| PInt of z
| PFloat of q
| PStr of string
| PNone

type cval =
| CScalar of pv
| CList of pv list

type conds = (string * cval) list

val upper_ascii : ascii -> ascii

val str_upper : string -> string

val ci_eqb : string -> string -> bool

type aff =
| AInt
| AText
| ABlob
| AReal
| ANumeric

val affinity_of_decl : string -> aff

val aff_numeric : aff -> bool

val two53 : z

val int_in_range : z -> bool

val q_is_int : q -> bool

val q_to_int : q -> z

type numtext =
| NTNum of q
| NTText
| NTOut

val only_chars : string -> string -> bool

val sql_numeric_text : string -> numtext

val q_eq_canon : q -> q -> bool

val val_sql_eq : val0 -> val0 -> bool

val is_null : val0 -> bool

val out_of_model : 'a1 res

val real_val : q -> val0

val num_val_int_pref : q -> val0 res

val cmp_operand : aff -> pv -> val0 res

val store_val : aff -> pv -> val0 res

val default_store : aff -> pv -> val0 res

val in_true : val0 -> val0 list -> bool

val not_in_true : val0 -> val0 list -> bool

val cond_true : bool -> val0 -> val0 list -> bool

val is_alpha_ : ascii -> bool

val all_ident_chars : string -> bool

val ident_shape : string -> bool

val sql_keywords : string list

val is_keyword : string -> bool

val plain_ident : string -> bool

val rowid_aliases : string list

val is_rowid_alias : string -> bool

type table0 = { tcols : (string * string) list; trows : row list }

type db = { tables : (string * table0) list; nmodel : nat }

type pyv =
| PV of val0
| PL of pyv list

val find_ci : string -> (string * string) list -> nat -> nat option

val find_table : string -> (string * table0) list -> table0 option

val set_table :
  string -> table0 -> (string * table0) list -> (string * table0) list

type cref =
| CRowid
| CCol of nat

val cell : z -> row -> cref -> val0

val col_aff : table0 -> cref -> aff

type scond = (cref * bool) * val0 list

val row_ok : scond list -> z -> row -> bool

val select_from : z -> row list -> cref list -> scond list -> row list

val sql_select : table0 -> cref list -> scond list -> row list

val special_literals : string list

val resolve_name : table0 -> string -> cref option res

val split_comma_aux : string -> string -> string list

val split_comma : string -> string list

val mem_str : string -> string list -> bool

val index_of0 : string -> string list -> nat -> nat option

val has_key : string -> conds -> bool

val dict_set : string -> cval -> conds -> conds

val key_of0 : string -> bool * string

val chunks_aux : nat -> nat -> pv list -> pv list list

val chunks : nat -> pv list -> pv list list

val set_nth : nat -> 'a1 -> 'a1 list -> 'a1 list

val nodup_str : string list -> bool

val max_sql_values : z

val sql_limit : z

val valid_colnames : db -> string list res

val check_columns_get : string list -> string -> unit res

val sel_list : table0 -> string -> cref list res

val check_keys : table0 option -> conds -> unit res

val rowid_shift : pv -> pv res

type loop_res =
| LErr of string
| LChunk of string * pv list list
| LDone of ((string * bool) * pv list) list

val cond_loop : conds -> ((string * bool) * pv list) list -> loop_res

val total_vals : ((string * bool) * pv list) list -> z

val limit_error : conds -> string

val norm_cond : table0 -> ((string * bool) * pv list) -> scond res

val dec_at : nat -> row -> row

val post : string -> row list -> pyv list res

val table_name_ok : string -> bool

val get_model : nat -> db -> string -> string -> conds -> pyv list res

val get_fuel : conds -> nat

val get_top : db -> string -> string -> conds -> pyv list res

val store_cells : table0 -> nat list -> pv list -> row -> row res

val rid_index : z -> nat option

val exec_many :
  table0 -> nat list -> (pv list * z) list -> table0 * string option

val set_list : table0 -> string list -> nat list res

type uval =
| URow of pv list
| UStr of string
| UScalar of pv

val chars_of : string -> pv list

val uval_len : uval -> nat res

val uval_items : uval -> pv list res

type ures = db * string option

val int_of_val : pyv -> z res

val update_model : nat -> db -> string -> uval list -> string -> conds -> ures

val update_top : db -> string -> uval list -> string -> conds -> ures

val update_xyz_top : db -> uval list -> string -> conds -> ures

val index_val : pv -> z res

val zip_idx : pv list -> pv list -> (pv list * z) list res

val enum_idx : pv list -> z -> (pv list * z) list

val update_column_model :
  db -> string -> pv list -> pv list option -> string -> ures

val default_literal : pv -> pv res

val add_column_model : db -> string -> string -> pv -> string -> ures

val str_leb : string -> string -> bool

val text_of0 : pyv -> string res

val sorted_set : string list -> string list

val upper_letters : string list

val fix_fill : db -> string list -> string list -> pv list -> pv list res

val fix_chainID_model : db -> ures

val get_xyz_model : db -> string -> conds -> pyv list res

val val_py_eqb : val0 -> val0 -> bool

val pyv_eqb_row : val0 list -> val0 list -> bool

val row_of : pyv -> val0 list res

val get_residues_model : db -> string -> conds -> val0 list list res

val get_chains_model : db -> string -> conds -> string list res

val get_all_model : db -> string -> conds -> pyv list res

type op =
| OpUpdate of string * uval list * string * conds
| OpUpdateColumn of string * pv list * pv list option * string
| OpUpdateXyz of uval list * string * conds
| OpAddColumn of string * string * pv * string
| OpFixChainID

val model_step : db -> op -> ures

val unspecified : 'a1 res

val rejected : 'a1 res

val with_positions : 'a1 list -> (nat * 'a1) list

val spec_cell : nat -> row -> cref -> val0

val spec_cond_attr : table0 -> string -> cref option

val find_exact : string -> (string * string) list -> nat -> nat option

val spec_req_attr : table0 -> string -> cref option

val spec_attrs : table0 -> string -> cref list res

val spec_values : cval -> pv list

val is_pint : pv -> bool

val rowid_in_model : pv -> bool

val spec_cond : table0 -> (string * cval) -> scond res

val spec_names_ok : table0 -> conds -> bool

val spec_holds : nat -> row -> scond -> bool

val spec_matches : scond list -> (nat * row) -> bool

val spec_select : table0 -> scond list -> (nat * row) list

val spec_project : cref list -> (nat * row) -> val0 list

val spec_shape : cref list -> val0 list list -> pyv list

val spec_total : conds -> z

val spec_conds : db -> string -> conds -> (table0 * scond list) res

val spec_get : db -> string -> string -> conds -> pyv list res

val spec_positions : db -> string -> conds -> nat list res

val spec_get_xyz : db -> string -> conds -> pyv list res

val spec_get_residues : db -> string -> conds -> val0 list list res

val spec_get_chains : db -> string -> conds -> string list res

val spec_get_all : db -> string -> conds -> pyv list res

val write_cells : nat list -> val0 list -> row -> row

val index_of_nat : nat -> nat list -> nat -> nat option

val with_table : db -> string -> table0 -> db

val spec_write_cols : table0 -> string list -> nat list res

val uval_row : uval -> pv list option

val shape_ok : nat -> nat -> uval list -> bool

val spec_update : db -> string -> uval list -> string -> conds -> ures

val spec_update_xyz : db -> uval list -> string -> conds -> ures

val last_for : nat -> (z * val0) list -> val0 option -> val0 option

val spec_update_column :
  db -> string -> pv list -> pv list option -> string -> ures

val spec_add_column : db -> string -> string -> pv -> string -> ures

val spec_fix_chainID : db -> ures

val spec_step : db -> op -> ures

val long_list : cval -> bool

val f10_class : conds -> bool

val first_long : conds -> (string * pv list) option

val sep : ('a1 -> bool) -> ('a1 -> bool) -> 'a1 list -> bool

val any_of : ('a1 -> bool) list -> 'a1 -> bool

val seps : 'a1 list -> ('a1 -> bool) list -> bool

val f11_safe : nat -> db -> string -> conds -> bool

val f11_class : db -> string -> conds -> bool

val dec_val : v -> val0

val dec_pv : v -> pv

val dec_cval : v -> cval

val dec_kw : v -> conds

val dec_uval : v -> uval

val dec_index : v -> pv list option

val dec_table : v -> string * table0

val dec_db : v -> db

val enc_val : val0 -> v

val enc_pyv : pyv -> v

val enc_out : pyv list res -> v

val enc_table : (string * table0) -> v

val enc_db : db -> v

val enc_status : string option -> v

type engine = { e_get : (db -> string -> string -> conds -> pyv list res);
                e_xyz : (db -> string -> conds -> pyv list res);
                e_residues : (db -> string -> conds -> val0 list list res);
                e_chains : (db -> string -> conds -> string list res);
                e_get_all : (db -> string -> conds -> pyv list res);
                e_step : (db -> op -> ures); e_is_spec : bool }

val model_engine : engine

val spec_engine : engine

val a : nat -> v list -> v

val run_op : engine -> db -> v -> db * v

val run_ops : engine -> db -> v list -> v list

val run_sql : string -> v list -> v option

val contact_test_src : q -> q -> bool

val contact_H_char_src : string

val contact_cutoff_default_src : q

val contact_chain1_default_src : string

val contact_chain2_default_src : string

val contact_flag_defaults_src : (string * bool) list

val residues_cutoff_default_src : q

val residues_flag_defaults_src : (string * bool) list

val fast_prefix_src : string

val fast_chain_col_src : nat

val fast_chain_alt_col_src : nat

val fast_resSeq_src : nat * nat

val fast_resName_src : nat * nat

val fast_name_src : nat * nat

val fast_x_src : nat * nat

val fast_y_src : nat * nat

val fast_z_src : nat * nat

val fast_H_char_src : string

val fnat_fast_test_src : q -> q -> bool

val fnat_fast_cutoff_default_src : q

val fnat_fast_digits_src : nat

val clash_cutoff_src : q

val clash_excludeH_src : bool

val clash_only_backbone_src : bool

val clash_chain1_default_src : string

val clash_chain2_default_src : string

val pairs_ref_excludeH_src : bool

val pairs_ref_only_backbone_src : bool

val pairs_ref_cutoff_default_src : q

val fnat_sql_excludeH_src : bool

val fnat_sql_only_backbone_src : bool

val fnat_sql_fix_chainID_src : bool

val fnat_sql_cutoff_default_src : q

val fnat_sql_digits_src : nat

type atom = { idx : z; chain : string; resName : string; resSeq : z;
              name : string; ax : q; ay : q; az : q }

type structure = atom list

val is_nil : 'a1 list -> bool

val sorted_set_Z : z list -> z list

val sorted_set_str : string list -> string list

val dget : ('a1 -> 'a1 -> bool) -> 'a1 -> ('a1 * 'a2) list -> 'a2 option

val dupd :
  ('a1 -> 'a1 -> bool) -> 'a1 -> ('a2 option -> 'a2) -> ('a1 * 'a2) list ->
  ('a1 * 'a2) list

val dext :
  ('a1 -> 'a1 -> bool) -> 'a1 -> 'a2 list -> ('a1 * 'a2 list) list ->
  ('a1 * 'a2 list) list

val combinations2 : 'a1 list -> ('a1 * 'a1) list

type res3 = (string * z) * string

val res3_of : atom -> res3

val resk_of : atom -> (string * string) * z

val res3_eqb : res3 -> res3 -> bool

val resk_eqb : ((string * string) * z) -> ((string * string) * z) -> bool

val res3_leb : res3 -> res3 -> bool

val sorted_set_res3 : res3 list -> res3 list

val get_chains : structure -> string list

val chain_atoms : structure -> string -> atom list

val rows_by_idx : structure -> z list -> atom list

val residue_atoms : structure -> ((string * string) * z) -> atom list

val is_bb : string -> bool

val is_H : string -> bool

type cdict = (string * z list) list

type pmap = (z * z list) list

val keep2 : bool -> bool -> atom -> bool

val atom_step :
  (atom -> atom -> bool) -> bool -> bool -> string -> string -> atom list ->
  (cdict * pmap) -> atom -> cdict * pmap

val pair_step :
  (atom -> atom -> bool) -> bool -> bool -> structure -> (cdict * pmap) ->
  (string * string) -> cdict * pmap

val uniques : string list -> cdict -> cdict res

val extend_to_residue : bool -> structure -> z list -> z list

val extend_all : bool -> structure -> string list -> cdict -> cdict res

val get_contact_atoms :
  (atom -> atom -> bool) -> bool -> bool -> structure -> bool -> string ->
  string -> bool -> (cdict * pmap) res

val add_res : res3 list -> res3 -> res3 list

val respair_step :
  structure -> (res3 * res3 list) list res -> (z * z list) -> (res3 * res3
  list) list res

val get_contact_residue_pairs :
  (atom -> atom -> bool) -> bool -> bool -> structure -> bool -> string ->
  string -> (res3 * res3 list) list res

val get_contact_residues :
  (atom -> atom -> bool) -> bool -> bool -> structure -> bool -> string ->
  string -> (string * res3 list) list res

val qsub_x : q -> q -> q

val qadd_x : q -> q -> q

val dist2 : atom -> atom -> q

val closeQ : q -> atom -> atom -> bool

val close_fastQ : q -> atom -> atom -> bool

val compute_residue_pairs_ref : q -> structure -> (res3 * res3 list) list res

val slice2 : (nat * nat) -> string -> string

val py_int : string -> z res

val py_float : string -> q res

val fast_read_line : z -> string -> atom res

val fast_read_aux : z -> string list -> atom list res

val fast_read : string list -> atom list res

val fast_is_H : string -> bool

val residue_xyz : atom list -> (res3 * atom list) list

val fnat_count_B :
  q -> (res3 * atom list) list -> atom list -> (z * z) res -> res3 -> (z * z)
  res

val fnat_count_A :
  q -> (res3 * atom list) list -> (z * z) res -> (res3 * res3 list) ->
  (z * z) res

val py_ratio_round : nat -> z -> z -> q res

val compute_fnat_fast : q -> structure -> string list -> q res

val ascii_uppercase : string list

val index_of1 : string -> string list -> nat

val set_chain : atom -> string -> atom

val fix_chainID : structure -> structure res

val flat_pairs : (res3 * res3 list) list -> (res3 * res3) list

val respair_eqb : (res3 * res3) -> (res3 * res3) -> bool

val compute_fnat_pdb2sql : q -> structure -> structure -> q res

val compute_clashes : structure -> string -> string -> z res

val backbone_names : string list

val is_backbone : atom -> bool

val is_hydrogen : atom -> bool

val heavy : atom -> bool

val passes : bool -> bool -> atom -> bool

val sqdist_x : atom -> atom -> q

val withinb : q -> atom -> atom -> bool

val closerb : q -> atom -> atom -> bool

val same_residue : atom -> atom -> bool

val after : string -> string list -> string list

val inb : string -> string list -> bool

val contact_atomb :
  (atom -> atom -> bool) -> bool -> bool -> structure -> string list ->
  string -> atom -> bool

val spec_atoms :
  (atom -> atom -> bool) -> bool -> bool -> structure -> string list ->
  string -> z list

val spec_atoms_dict :
  (atom -> atom -> bool) -> bool -> bool -> structure -> string list ->
  (string * z list) list

val partnerb :
  (atom -> atom -> bool) -> bool -> bool -> string list -> atom -> atom ->
  bool

val partners :
  (atom -> atom -> bool) -> bool -> bool -> structure -> string list -> atom
  -> z list

val spec_pairs :
  (atom -> atom -> bool) -> bool -> bool -> structure -> string list ->
  (z * z list) list

val res_contactb : (atom -> atom -> bool) -> structure -> res3 -> res3 -> bool

val selected : structure -> z list -> atom list

val res3_le : res3 -> res3 -> bool

val distinct_sorted : res3 list -> res3 list

val project_atoms : structure -> z list -> res3 list

val project_dict :
  structure -> (string * z list) list -> (string * res3 list) list

val project_pairs : structure -> (z * z list) list -> (res3 * res3 list) list

val in_closureb : structure -> bool -> z list -> atom -> bool

val closure : structure -> bool -> z list -> z list

val closure_dict :
  structure -> bool -> (string * z list) list -> (string * z list) list

val distinct_chains : structure -> string list

val ref_contacts :
  (atom -> atom -> bool) -> structure -> string -> string -> (res3 * res3)
  list

val preserved :
  (atom -> atom -> bool) -> structure -> structure -> string -> string ->
  (res3 * res3) list

val fnat_spec : (atom -> atom -> bool) -> structure -> structure -> q option

val reported : q -> q

val clash_pairs : structure -> string -> string -> (atom * atom) list

val clash_spec : structure -> string -> string -> z

val arg : nat -> v list -> v

val atom_of_V : v -> atom

val struct_of_V : v -> structure

val v_of_Zs : z list -> v

val v_of_res3 : res3 -> v

val v_of_cdict : (string * z list) list -> v

val v_of_pmap : (z * z list) list -> v

val v_of_resdict : (string * res3 list) list -> v

val v_of_respairs : (res3 * res3 list) list -> v

val cdict_of_V : v -> (string * z list) list

val pmap_of_V : v -> (z * z list) list

val vresQ : q res -> v

val in_model : structure -> bool

val guard : structure list -> v -> v

val run_contact : string -> v list -> v option

type 't num = { nadd : ('t -> 't -> 't); nsub : ('t -> 't -> 't);
                nmul : ('t -> 't -> 't); ndiv : ('t -> 't -> 't);
                nopp : ('t -> 't); nofZ : (z -> 't); nltb : ('t -> 't -> bool) }

val numQ : q num

type 't vec3 = { vx : 't; vy : 't; vz : 't }

type 't mat3 = { m00 : 't; m01 : 't; m02 : 't; m10 : 't; m11 : 't; m12 : 
                 't; m20 : 't; m21 : 't; m22 : 't }

type 't vec4 = { w0 : 't; w1 : 't; w2 : 't; w3 : 't }

type 't mat4 = { f00 : 't; f01 : 't; f02 : 't; f03 : 't; f10 : 't; f11 : 
                 't; f12 : 't; f13 : 't; f20 : 't; f21 : 't; f22 : 't;
                 f23 : 't; f30 : 't; f31 : 't; f32 : 't; f33 : 't }

val n0 : 'a1 num -> 'a1

val n1 : 'a1 num -> 'a1

val nabs : 'a1 num -> 'a1 -> 'a1

val vadd0 : 'a1 num -> 'a1 vec3 -> 'a1 vec3 -> 'a1 vec3

val vsub0 : 'a1 num -> 'a1 vec3 -> 'a1 vec3 -> 'a1 vec3

val vopp : 'a1 num -> 'a1 vec3 -> 'a1 vec3

val vscale0 : 'a1 num -> 'a1 -> 'a1 vec3 -> 'a1 vec3

val vdivs : 'a1 num -> 'a1 vec3 -> 'a1 -> 'a1 vec3

val vzero : 'a1 num -> 'a1 vec3

val vabs : 'a1 num -> 'a1 vec3 -> 'a1 vec3

val dot : 'a1 num -> 'a1 vec3 -> 'a1 vec3 -> 'a1

val norm2 : 'a1 num -> 'a1 vec3 -> 'a1

val cross : 'a1 num -> 'a1 vec3 -> 'a1 vec3 -> 'a1 vec3

val triple : 'a1 num -> 'a1 vec3 -> 'a1 vec3 -> 'a1 vec3 -> 'a1

val vany_gt : 'a1 num -> 'a1 vec3 -> 'a1 -> bool

val meye : 'a1 num -> 'a1 mat3

val mzero : 'a1 num -> 'a1 mat3

val mtrans : 'a1 mat3 -> 'a1 mat3

val mrow0 : 'a1 mat3 -> 'a1 vec3

val mrow1 : 'a1 mat3 -> 'a1 vec3

val mrow2 : 'a1 mat3 -> 'a1 vec3

val mcol0 : 'a1 mat3 -> 'a1 vec3

val mcol1 : 'a1 mat3 -> 'a1 vec3

val mcol2 : 'a1 mat3 -> 'a1 vec3

val mcol : 'a1 mat3 -> nat -> 'a1 vec3

val mvmul : 'a1 num -> 'a1 mat3 -> 'a1 vec3 -> 'a1 vec3

val mmul : 'a1 num -> 'a1 mat3 -> 'a1 mat3 -> 'a1 mat3

val madd : 'a1 num -> 'a1 mat3 -> 'a1 mat3 -> 'a1 mat3

val mdivs : 'a1 num -> 'a1 mat3 -> 'a1 -> 'a1 mat3

val mscale : 'a1 num -> 'a1 -> 'a1 mat3 -> 'a1 mat3

val mtrace : 'a1 num -> 'a1 mat3 -> 'a1

val mdet : 'a1 num -> 'a1 mat3 -> 'a1

val mset : 'a1 mat3 -> nat -> nat -> 'a1 -> 'a1 mat3

val outer : 'a1 num -> 'a1 vec3 -> 'a1 vec3 -> 'a1 mat3

val vsum0 : 'a1 num -> 'a1 vec3 list -> 'a1 vec3

val nlen : 'a1 num -> 'a1 vec3 list -> 'a1

val mean0 : 'a1 num -> 'a1 vec3 list -> 'a1 vec3

val ptq : 'a1 num -> 'a1 vec3 list -> 'a1 vec3 list -> 'a1 mat3

val dot4 : 'a1 num -> 'a1 vec4 -> 'a1 vec4 -> 'a1

val m4row : 'a1 mat4 -> nat -> 'a1 vec4

val m4col : 'a1 mat4 -> nat -> 'a1 vec4

val m4vmul : 'a1 num -> 'a1 mat4 -> 'a1 vec4 -> 'a1 vec4

val quadform4 : 'a1 num -> 'a1 mat4 -> 'a1 vec4 -> 'a1

val argmax_aux : 'a1 num -> 'a1 -> nat -> nat -> 'a1 list -> nat

val argmax : 'a1 num -> 'a1 list -> nat

val argmin_aux : 'a1 num -> 'a1 -> nat -> nat -> 'a1 list -> nat

val argmin : 'a1 num -> 'a1 list -> nat

val quarter_turn : 'a1 num -> ('a1 * 'a1) -> 'a1 * 'a1

val ang_cs : 'a1 num -> z -> bool -> ('a1 * 'a1) -> 'a1 * 'a1

type angvar =
| APhi
| ATheta

type angexpr = { ae_k : z; ae_neg : bool; ae_var : angvar }

type kernel =
| KKabsch
| KQuaternion

val rodrigues_src : 'a1 num -> 'a1 -> 'a1 -> 'a1 -> 'a1 -> 'a1 -> 'a1 mat3

val euler_rx_src : 'a1 num -> 'a1 -> 'a1 -> 'a1 mat3

val euler_ry_src : 'a1 num -> 'a1 -> 'a1 -> 'a1 mat3

val euler_rz_src : 'a1 num -> 'a1 -> 'a1 -> 'a1 mat3

val euler_src : 'a1 num -> 'a1 -> 'a1 -> 'a1 -> 'a1 -> 'a1 -> 'a1 -> 'a1 mat3

val rotate_default_center_src : 'a1 num -> 'a1 vec3 list -> 'a1 vec3

val rotate_bad_center_exc_src : string

val rotate_apply_src :
  'a1 num -> 'a1 vec3 list -> 'a1 mat3 -> 'a1 vec3 -> 'a1 vec3 list

val translation_src : 'a1 num -> 'a1 vec3 list -> 'a1 vec3 -> 'a1 vec3 list

val rand_theta_src : 'a1 num -> 'a1 -> 'a1 -> 'a1 -> 'a1

val rand_cosphi_src : 'a1 num -> 'a1 -> 'a1 -> 'a1 -> 'a1

val rand_axis_src : 'a1 num -> 'a1 -> 'a1 -> 'a1 -> 'a1 -> 'a1 vec3

val rand_angle_src : 'a1 num -> 'a1 -> 'a1 -> 'a1

val centre_eps_src : 'a1 num -> 'a1

val kabsch_uncentred_src : 'a1 num -> 'a1 vec3 list -> 'a1 vec3 list -> bool

val kabsch_cov_src : 'a1 num -> 'a1 vec3 list -> 'a1 vec3 list -> 'a1 mat3

val kabsch_post_src : 'a1 num -> 'a1 mat3 -> 'a1 mat3 -> 'a1 mat3

val quat_centre_eps_src : 'a1 num -> 'a1

val quat_uncentred_src : 'a1 num -> 'a1 vec3 list -> 'a1 vec3 list -> bool

val quat_corr_src : 'a1 num -> 'a1 vec3 list -> 'a1 vec3 list -> 'a1 mat3

val quat_F_src : 'a1 num -> 'a1 mat3 -> 'a1 mat4

val quat_pick_src : 'a1 num -> 'a1 list -> nat

val quat_rot_src : 'a1 num -> 'a1 vec4 -> 'a1 mat3

val rotmat_dispatch_src : (string * kernel) list

val trans_vect_src : 'a1 num -> 'a1 vec3 list -> 'a1 vec3

val sup_centre_src : 'a1 num -> 'a1 vec3 list -> 'a1 vec3 list

val sup_apply_src :
  'a1 num -> 'a1 vec3 list -> 'a1 vec3 list -> 'a1 vec3 list -> 'a1 mat3 ->
  'a1 vec3 list

val align_table_src : (string * (((z * z) * z) * angexpr) list) list

val plane_axis_src : (string * string) list

val pca_pick_max_src : 'a1 num -> 'a1 list -> nat

val pca_pick_min_src : 'a1 num -> 'a1 list -> nat

val assoc_str : string -> (string * 'a1) list -> 'a1 option

val lower_ascii : ascii -> ascii

val lower0 : string -> string

val set_nth0 : nat -> 'a1 -> 'a1 list -> 'a1 list

val rotate :
  'a1 num -> 'a1 vec3 list -> 'a1 mat3 -> 'a1 vec3 option -> 'a1 vec3 list res

val rot_xyz_around_axis :
  'a1 num -> 'a1 vec3 list -> 'a1 vec3 -> 'a1 -> 'a1 -> 'a1 vec3 option ->
  'a1 vec3 list res

val rotation_euler :
  'a1 num -> 'a1 vec3 list -> 'a1 -> 'a1 -> 'a1 -> 'a1 -> 'a1 -> 'a1 -> 'a1
  vec3 option -> 'a1 vec3 list res

val translate : 'a1 num -> 'a1 vec3 list -> 'a1 vec3 -> 'a1 vec3 list res

val read_sel : 'a1 num -> ('a2 * 'a1 vec3) list -> nat list -> 'a1 vec3 list

val write_row :
  ('a2 * 'a1 vec3) list -> nat -> 'a1 vec3 -> ('a2 * 'a1 vec3) list

val write_sel :
  ('a2 * 'a1 vec3) list -> nat list -> 'a1 vec3 list -> ('a2 * 'a1 vec3) list

type 't op0 =
| OTranslate of 't vec3
| ORotAxis of 't vec3 * 't * 't
| ORotEuler of 't * 't * 't * 't * 't * 't
| ORotMat of 't mat3

val op_fun : 'a1 num -> 'a1 op0 -> 'a1 vec3 list -> 'a1 vec3 list res

val db_apply :
  'a1 num -> ('a2 * 'a1 vec3) list -> nat list -> 'a1 op0 -> ('a2 * 'a1 vec3)
  list res

val db_history :
  'a1 num -> ('a2 * 'a1 vec3) list -> (nat list * 'a1 op0) list -> string
  list * ('a2 * 'a1 vec3) list

val rand_axis_angle :
  'a1 num -> 'a1 -> 'a1 -> 'a1 -> 'a1 -> 'a1 -> 'a1 -> 'a1 -> 'a1 vec3 * 'a1

val kabsch :
  'a1 num -> ('a1 mat3 -> ('a1 mat3 * 'a1 vec3) * 'a1 mat3) -> 'a1 vec3 list
  -> 'a1 vec3 list -> 'a1 mat3 res

val quaternion :
  'a1 num -> ('a1 mat4 -> 'a1 list * 'a1 mat4) -> 'a1 vec3 list -> 'a1 vec3
  list -> 'a1 mat3 res

val get_rotation_matrix :
  'a1 num -> ('a1 mat3 -> ('a1 mat3 * 'a1 vec3) * 'a1 mat3) -> ('a1 mat4 ->
  'a1 list * 'a1 mat4) -> string -> 'a1 vec3 list -> 'a1 vec3 list -> 'a1
  mat3 res

val superpose_selection0 :
  'a1 num -> ('a1 vec3 list -> 'a1 vec3 list -> 'a1 mat3 res) -> 'a1 vec3
  list -> 'a1 vec3 list -> 'a1 vec3 list -> 'a1 vec3 list res

val scatter : 'a1 num -> 'a1 vec3 list -> 'a1 mat3

val sample_cov : 'a1 num -> 'a1 vec3 list -> 'a1 mat3

val step_cs : 'a1 num -> angexpr -> 'a1 -> 'a1 -> 'a1 -> 'a1 -> 'a1 * 'a1

val zvec : 'a1 num -> ((z * z) * z) -> 'a1 vec3

val align_steps :
  'a1 num -> (((z * z) * z) * angexpr) list -> 'a1 -> 'a1 -> 'a1 -> 'a1 ->
  'a1 vec3 list -> 'a1 vec3 list res

val align_along_axis :
  'a1 num -> 'a1 vec3 list -> string -> 'a1 -> 'a1 -> 'a1 -> 'a1 -> 'a1 vec3
  list res

val align_pca_vect :
  'a1 num -> ('a2 * 'a1 vec3) list -> string -> 'a1 -> 'a1 -> 'a1 -> 'a1 ->
  ('a2 * 'a1 vec3) list res

val pca_vect : 'a1 num -> bool -> 'a1 list -> 'a1 mat3 -> 'a1 vec3

val plane_axis : string -> string res

val spec_rot_point :
  'a1 num -> 'a1 vec3 -> 'a1 -> 'a1 -> 'a1 vec3 -> 'a1 vec3 -> 'a1 vec3

val spec_rot_x : 'a1 num -> 'a1 -> 'a1 -> 'a1 vec3 -> 'a1 vec3

val spec_rot_y : 'a1 num -> 'a1 -> 'a1 -> 'a1 vec3 -> 'a1 vec3

val spec_rot_z : 'a1 num -> 'a1 -> 'a1 -> 'a1 vec3 -> 'a1 vec3

val spec_euler_point :
  'a1 num -> 'a1 -> 'a1 -> 'a1 -> 'a1 -> 'a1 -> 'a1 -> 'a1 vec3 -> 'a1 vec3
  -> 'a1 vec3

val spec_mat_point : 'a1 num -> 'a1 mat3 -> 'a1 vec3 -> 'a1 vec3 -> 'a1 vec3

type 't sop =
| STranslate of 't vec3
| SRotAxis of 't vec3 * 't * 't
| SRotEuler of 't * 't * 't * 't * 't * 't
| SRotMat of 't mat3

val sop_point : 'a1 num -> 'a1 sop -> 'a1 vec3 -> 'a1 vec3 -> 'a1 vec3

val memb : nat -> nat list -> bool

val select_rows : nat -> nat list -> ('a2 * 'a1 vec3) list -> 'a1 vec3 list

val map_selected :
  ('a1 vec3 -> 'a1 vec3) -> nat -> nat list -> ('a2 * 'a1 vec3) list ->
  ('a2 * 'a1 vec3) list

val spec_db_apply :
  'a1 num -> ('a2 * 'a1 vec3) list -> nat list -> 'a1 sop -> ('a2 * 'a1 vec3)
  list

val spec_db_history :
  'a1 num -> ('a2 * 'a1 vec3) list -> (nat list * 'a1 sop) list -> ('a2 * 'a1
  vec3) list

val dist0 : 'a1 num -> 'a1 vec3 -> 'a1 vec3 -> 'a1

val resid : 'a1 num -> 'a1 mat3 -> 'a1 vec3 list -> 'a1 vec3 list -> 'a1

val rot_defect : 'a1 num -> 'a1 mat3 -> 'a1 list

val sumsq : 'a1 num -> 'a1 vec3 list -> 'a1

val horn : 'a1 num -> 'a1 mat3 -> 'a1 mat4

val row_zero : 'a1 num -> 'a1 list -> bool

val schur : 'a1 num -> 'a1 -> 'a1 list -> 'a1 list list -> 'a1 list list

val psd_check : 'a1 num -> nat -> 'a1 list list -> bool

val m4rows : 'a1 mat4 -> 'a1 list list

val m3rows : 'a1 mat3 -> 'a1 list list

val shift4 : 'a1 num -> 'a1 -> 'a1 mat4 -> 'a1 mat4

val shift3 : 'a1 num -> 'a1 -> 'a1 mat3 -> 'a1 mat3

val enclosure :
  'a1 num -> 'a1 vec3 list -> 'a1 vec3 list -> 'a1 vec4 -> 'a1 ->
  (bool * 'a1) * 'a1

val sph : 'a1 num -> 'a1 -> 'a1 -> 'a1 -> 'a1 -> 'a1 vec3

val unit_axis : 'a1 num -> string -> 'a1 vec3 option

val spec_cov : 'a1 num -> 'a1 vec3 list -> 'a1 mat3

val var_along : 'a1 num -> 'a1 vec3 list -> 'a1 vec3 -> 'a1

val principal_check :
  'a1 num -> 'a1 vec3 list -> 'a1 vec3 -> 'a1 -> bool * 'a1

val least_check : 'a1 num -> 'a1 vec3 list -> 'a1 vec3 -> 'a1 -> bool * 'a1

val arg0 : nat -> v list -> v

val gQ : nat -> v list -> q

val getV3 : v -> q vec3

val getM3 : v -> q mat3

val getV4 : v -> q vec4

val getM4 : v -> q mat4

val getPts : v -> q vec3 list

val getQs : v -> q list

val getCenter : v -> q vec3 option

val getSel : v -> nat list

val getTable : v -> (z * q vec3) list

val vV3 : q vec3 -> v

val vM3 : q mat3 -> v

val vPts : q vec3 list -> v

val vM4 : q mat4 -> v

val vTable : (z * q vec3) list -> v

val vresPts : q vec3 list res -> v

val vresM3 : q mat3 res -> v

val getOp : v -> q op0 option

val sop_of_op : q op0 -> q sop

val getHistory : v list -> (nat list * q op0) list option

val svd_const : q mat3 -> q mat3 -> q mat3 -> (q mat3 * q vec3) * q mat3

val eig_const : q list -> q mat4 -> q mat4 -> q list * q mat4

val run_geom : string -> v list -> v option

type path = string

type cell0 =
| CInt of z
| CReal of z * positive
| CText of string

type table1 = { t_cols : string list; t_rows : cell0 list list }

type dbimage = table1 option

type content =
| FText of string
| FDb of dbimage
| FJournal

type fsys = path -> content option

val fs_set : fsys -> path -> content option -> fsys

val jpath : path -> path

type conn = { c_path : path option; c_view : dbimage; c_intx : bool }

type conns = nat -> conn option

val conn_set : conns -> nat -> conn option -> conns

type world = { w_fs : fsys; w_conns : conns }

type stmt_kind =
| KSelect
| KDdl
| KDml

type act =
| AExists of path
| AOpenTrunc of path
| AWriteChunk of path * string
| AClose of path
| AReadAll of path
| ARemove of path
| ARename of path * path
| AMkTemp of path
| AConnect of nat * path option
| AExec of nat * stmt_kind * (dbimage -> dbimage)
| ACommit of nat
| ACloseConn of nat

type resp =
| RUnit
| RBool of bool
| RText of string
| RImg of dbimage
| RErr of string

val is_some : 'a1 option -> bool

val fstep : fsys -> act -> fsys * resp

val step : world -> act -> world * resp

val crash : world -> fsys

type outcome =
| ONoFile
| ONoTable
| OTable of table1
| ONotDb

val observe : fsys -> path -> outcome

val recover : fsys -> path -> fsys

type 'a prog =
| Ret of 'a
| Do of act * (resp -> 'a prog)

val bindp : 'a1 prog -> ('a1 -> 'a2 prog) -> 'a2 prog

val bindr : 'a1 res prog -> ('a1 -> 'a2 res prog) -> 'a2 res prog

val seq_acts : act list -> unit prog

val resp_true : resp -> bool

val resp_text : resp -> string res

val resp_unit : resp -> unit res

val run_n : nat -> world -> 'a1 prog -> world * 'a1 prog

val trace_n : nat -> world -> 'a1 prog -> (act * resp) list

val frun_n : nat -> fsys -> 'a1 prog -> fsys * 'a1 prog

val ftrace_n : nat -> fsys -> 'a1 prog -> (act * resp) list

val result_of : 'a1 prog -> 'a1 option

val replace_nth : nat -> 'a1 -> 'a1 list -> 'a1 list

val sched_step : nat -> (fsys * 'a1 prog list) -> fsys * 'a1 prog list

val run_sched : nat list -> (fsys * 'a1 prog list) -> fsys * 'a1 prog list

val sched_trace : nat list -> (fsys * 'a1 prog list) -> (nat * act) list

val cell_eqb : cell0 -> cell0 -> bool

val list_eqb : ('a1 -> 'a1 -> bool) -> 'a1 list -> 'a1 list -> bool

val table_eqb : table1 -> table1 -> bool

val index_of2 : string -> string list -> nat option

val set_nth1 : nat -> 'a1 -> 'a1 list -> 'a1 list

val upd_cell : table1 -> z -> string -> cell0 -> table1

val upd_cells : table1 -> z -> string list -> cell0 list -> table1

val on_table : (table1 -> table1) -> dbimage -> dbimage

val atom_cols : string list

val ddl_create : dbimage -> dbimage

val dml_insert : cell0 list list -> dbimage -> dbimage

val upd_column : string -> cell0 list -> z list option -> table1 -> table1

val selected_rows : z list option -> table1 -> z list

val update_shape_ok : string list -> cell0 list list -> bool

val update_count_ok : cell0 list list -> z list option -> table1 -> bool

val upd_rows :
  string list -> cell0 list list -> z list option -> table1 -> table1

val add_col : string -> cell0 -> table1 -> table1

val ascii_leb : ascii -> ascii -> bool

val string_leb : string -> string -> bool

val chain_col : nat

val cell_text : cell0 -> string

val chains_of : cell0 list list -> string list

val uppercase_letter : nat -> string

val fix_chain_rows : cell0 list list -> cell0 list list

type modify =
| MUpdCol of string * cell0 list * z list option
| MUpdate of string list * cell0 list list * z list option
| MAddCol of string * string * cell0

type sstep =
| SModify of modify
| SCommit

type scenario = { sc_name : path; sc_pdb : path option;
                  sc_rows : cell0 list list; sc_fix : bool;
                  sc_steps : sstep list; sc_keep : bool }

val sel : nat -> act

val sels : nat -> nat -> act list

val created_rows : scenario -> cell0 list list

val acts_create : scenario -> act list

val acts_modify : modify -> table1 -> act list

val apply_modify : modify -> table1 -> table1

val apply_step : sstep -> table1 -> table1

val acts_step : sstep -> table1 -> act list

val acts_close : scenario -> act list

val groups_steps : sstep list -> table1 -> act list list

val table2 : scenario -> table1

val c20_tail_groups : scenario -> act list list

val c20_prelude : bool -> scenario -> act list

val c20_groups : bool -> scenario -> act list list

val c20_flat : bool -> scenario -> act list

val c20_script : scenario -> unit prog

val group_of : act list list -> nat -> nat

val world0 : fsys -> world

val concat_str : string list -> string

val read_pdb : path -> string res prog

val new_db : path -> string res prog

val write_lines : path -> string list -> unit res prog -> unit res prog

val write_zone : path -> path list -> string list -> unit res prog

val write_zone_in_place : path -> string list -> unit res prog

val read_zone : path -> string res prog

val acquire_zone :
  path -> path option -> path list -> string list -> (string * string list)
  res prog

val acquire_zone_in_place :
  path -> path -> string list -> (string * string list) res prog

val exportpdb : path -> string list -> unit res prog

val basename_aux : string -> string -> string

val basename : string -> string

val lstrip_chars : string -> string -> string

val rstrip_chars : string -> string -> string

val superposed_name : path -> path -> path

val aligned_name : path -> path

type routine =
| RLrmsdFast of path option
| RIrmsdFast of path option
| RIrmsdSql of path option * path option
| RLrmsdSql of path option
| RFnatFast
| RFnatSql
| RContacts
| RSuperpose of bool
| RAlign of bool

type call = { cl_decoy : path; cl_ref : path; cl_routine : routine;
              cl_tmps : path list; cl_zone_lines : string list;
              cl_out1 : string list; cl_out2 : string list }

type obs = string list * string list

val rd : string res prog -> obs -> (obs -> obs res prog) -> obs res prog

val lrmsd_tail : path -> path -> (string * string list) -> obs res prog

val irmsd_tail : path -> path -> (string * string list) -> obs res prog

val script : call -> obs res prog

val script_in_place : call -> obs res prog

val requested_outputs : call -> path list

val inputs_of : call -> path list

val transients : call -> path list

val fuel : call -> nat

type sstate = { s_tab : table1; s_dirty : bool; s_last : table1 option }

val modifies_data : modify -> table1 -> bool

val spec_step0 : sstep -> sstate -> sstate

val spec_created : scenario -> sstate

val spec_run : sstep list -> sstate -> sstate

val spec_after : scenario -> nat -> sstate

val final_table : scenario -> table1

val outcome_eqb : outcome -> outcome -> bool

val is_nil0 : 'a1 list -> bool

val no_atomsb : outcome -> bool

val holds_committedb : table1 option -> outcome -> bool

val allowedb : outcome -> scenario -> nat -> outcome -> bool

val allowed_literalb : outcome -> scenario -> nat -> outcome -> bool

val d_opt : (v -> 'a1) -> v -> 'a1 option

val d_cell : v -> cell0

val d_row : v -> cell0 list

val d_rows : v -> cell0 list list

val d_strs : v -> string list

val d_zs : v -> z list

val d_step : v -> sstep

val d_scenario : v -> scenario

val d_table : v -> v -> table1

val d_outcome : v -> outcome

val d_fs : v -> fsys

val d_routine : v -> routine

val d_call : v -> call

val e_cell : cell0 -> v

val e_outcome : outcome -> v

val e_kind : stmt_kind -> string

val e_act : act -> v

val e_content : content option -> v

val e_res_strs : obs res -> v

val c20_run : scenario -> fsys -> path list -> v

val c16_run : call -> fsys -> path list -> v

val c16_sched : call list -> fsys -> nat list -> path list -> v

val basis_of : obs res prog -> string list res option

val basis_eqb : string list res option -> string list res option -> bool

val c16_sched_same : bool -> call list -> fsys -> nat list -> v

val run_fs : string -> v list -> v option

val zone_format_src : zpiece list

val render_zone : zpiece list -> string -> z -> string

val zone_line : string -> z -> string

val write_zone0 : (string * z) list -> string

val ws_split_aux : string -> string -> string list

val ws_split : string -> string list

val split_on_aux : ascii -> string -> string -> string list

val split_on : ascii -> string -> string list

val py_int0 : string -> z res

val read_zone_line : (string * z) option -> string -> (string * z) res

val read_zone_lines :
  (string * z) option -> string list -> (string * z) list res

val group_add :
  string -> z -> (string * z list) list -> (string * z list) list

val group : (string * z) list -> (string * z list) list

val read_zone0 : string -> (string * z list) list res

type zone = (string * z) list

type resdata = (string * z list) list

val cz_eqb : (string * z) -> (string * z) -> bool

val cz_leb : (string * z) -> (string * z) -> bool

val sorted_set_cz : (string * z) list -> zone

val backbone4 : string list

val pos_of : atom -> vec

val compute_izone : q -> structure -> zone res

val compute_lzone : structure -> zone res

val resdata_of : zone -> resdata

val in_resdata : resdata -> string -> z list option

type key3 = (string * z) * string

val key3_of : atom -> key3

val key3_eqb : key3 -> key3 -> bool

val in_zone_atoms : string list -> resdata -> structure -> atom list

val not_in_zone_atoms : string list -> resdata -> structure -> atom list

val get_xyz_by_keys : structure -> key3 list -> vec list

val inter_keys : key3 list -> key3 list -> key3 list

val resk_list :
  string list option -> structure -> ((string * string) * z) list

val names_of_res :
  string list option -> structure -> ((string * string) * z) -> string list

val list_eqb0 : ('a1 -> 'a1 -> bool) -> 'a1 list -> 'a1 list -> bool

val check_residues :
  bool -> string list option -> structure -> structure -> bool res

val sqdev : vec -> vec -> q

val msd : vec list -> vec list -> q res

val irmsd_fast :
  mat -> zone -> bool -> bool -> structure -> structure -> q res

val lrmsd_fast :
  mat -> zone -> bool -> bool -> string list -> structure -> structure -> q
  res

type key4 = ((string * z) * string) * string

val key4_of : atom -> key4

val key4_eqb : key4 -> key4 -> bool

val first_with_key4 : key4 -> structure -> atom option

val izone_rows_computed : q -> structure -> atom list res

val izone_rows_from_zone : zone -> structure -> atom list

val irmsd_sql : mat -> atom list -> structure -> structure -> q res

val key3_first : key3 -> structure -> atom option

val identical_atoms :
  structure -> structure -> string -> string list -> vec list * vec list

val lrmsd_sql : mat -> bool -> string list -> structure -> structure -> q res

val is_backbone0 : atom -> bool

val same_residue0 : atom -> atom -> bool

val interface_atom : q -> structure -> atom -> bool

val izone_spec : q -> structure -> zone

val in_zone : zone -> atom -> bool

val same_atom : atom -> atom -> bool

val identity_pairs :
  (atom -> bool) -> structure -> structure -> (vec * vec) list

val irmsd_pairs_spec : zone -> structure -> structure -> (vec * vec) list

val long_chain_spec : structure -> (string * string) option

val lrmsd_pairs_spec :
  string list -> structure -> structure -> ((vec * vec) list * (vec * vec)
  list) option

val unique_key3 : structure -> bool

val consistent_resnames : structure -> structure -> bool

val reported_ok : z -> q -> q -> bool

val vzone : zone -> v

val zone_of_V : v -> zone

val vpairs : (vec * vec) list -> v

val strs_of_V : v -> string list

val vresZone : zone res -> v

val run_rmsd : string -> v list -> v option

val vresS : string res -> v

val run_scores : string -> v list -> v option

val run : v -> v
