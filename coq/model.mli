
val negb : bool -> bool

type nat =
| O
| S of nat

type ('a, 'b) sum =
| Inl of 'a
| Inr of 'b

val fst : ('a1 * 'a2) -> 'a1

val snd : ('a1 * 'a2) -> 'a2

val length : 'a1 list -> nat

val app : 'a1 list -> 'a1 list -> 'a1 list

type comparison =
| Eq
| Lt
| Gt

val compOpp : comparison -> comparison

val add : nat -> nat -> nat

val sub : nat -> nat -> nat

type positive =
| XI of positive
| XO of positive
| XH

type n =
| N0
| Npos of positive

type z =
| Z0
| Zpos of positive
| Zneg of positive

val bool_dec : bool -> bool -> bool

val eqb : bool -> bool -> bool

module Nat :
 sig
  val pred : nat -> nat

  val eqb : nat -> nat -> bool

  val leb : nat -> nat -> bool

  val ltb : nat -> nat -> bool

  val min : nat -> nat -> nat

  val divmod : nat -> nat -> nat -> nat -> nat * nat

  val div : nat -> nat -> nat
 end

module Pos :
 sig
  type mask =
  | IsNul
  | IsPos of positive
  | IsNeg
 end

module Coq_Pos :
 sig
  val succ : positive -> positive

  val add : positive -> positive -> positive

  val add_carry : positive -> positive -> positive

  val pred_double : positive -> positive

  type mask = Pos.mask =
  | IsNul
  | IsPos of positive
  | IsNeg

  val succ_double_mask : mask -> mask

  val double_mask : mask -> mask

  val double_pred_mask : positive -> mask

  val sub_mask : positive -> positive -> mask

  val sub_mask_carry : positive -> positive -> mask

  val sub : positive -> positive -> positive

  val mul : positive -> positive -> positive

  val iter : ('a1 -> 'a1) -> 'a1 -> positive -> 'a1

  val pow : positive -> positive -> positive

  val size_nat : positive -> nat

  val size : positive -> positive

  val compare_cont : comparison -> positive -> positive -> comparison

  val compare : positive -> positive -> comparison

  val eqb : positive -> positive -> bool

  val ggcdn : nat -> positive -> positive -> positive * (positive * positive)

  val ggcd : positive -> positive -> positive * (positive * positive)

  val iter_op : ('a1 -> 'a1 -> 'a1) -> positive -> 'a1 -> 'a1

  val to_nat : positive -> nat

  val of_succ_nat : nat -> positive
 end

module N :
 sig
  val add : n -> n -> n

  val mul : n -> n -> n

  val to_nat : n -> nat

  val of_nat : nat -> n
 end

module Z :
 sig
  val double : z -> z

  val succ_double : z -> z

  val pred_double : z -> z

  val pos_sub : positive -> positive -> z

  val add : z -> z -> z

  val opp : z -> z

  val sub : z -> z -> z

  val mul : z -> z -> z

  val pow_pos : z -> positive -> z

  val pow : z -> z -> z

  val compare : z -> z -> comparison

  val sgn : z -> z

  val leb : z -> z -> bool

  val ltb : z -> z -> bool

  val eqb : z -> z -> bool

  val abs : z -> z

  val to_nat : z -> nat

  val of_nat : nat -> z

  val to_pos : z -> positive

  val pos_div_eucl : positive -> z -> z * z

  val div_eucl : z -> z -> z * z

  val div : z -> z -> z

  val modulo : z -> z -> z

  val even : z -> bool

  val log2 : z -> z

  val ggcd : z -> z -> z * (z * z)
 end

val zeq_bool : z -> z -> bool

val nth : nat -> 'a1 list -> 'a1 -> 'a1

val map : ('a1 -> 'a2) -> 'a1 list -> 'a2 list

val flat_map : ('a1 -> 'a2 list) -> 'a1 list -> 'a2 list

val fold_right : ('a2 -> 'a1 -> 'a1) -> 'a1 -> 'a2 list -> 'a1

val existsb : ('a1 -> bool) -> 'a1 list -> bool

val forallb : ('a1 -> bool) -> 'a1 list -> bool

val filter : ('a1 -> bool) -> 'a1 list -> 'a1 list

val find : ('a1 -> bool) -> 'a1 list -> 'a1 option

val combine : 'a1 list -> 'a2 list -> ('a1 * 'a2) list

val seq : nat -> nat -> nat list

type ascii =
| Ascii of bool * bool * bool * bool * bool * bool * bool * bool

val zero : ascii

val one : ascii

val shift : bool -> ascii -> ascii

val ascii_dec : ascii -> ascii -> bool

val eqb0 : ascii -> ascii -> bool

val ascii_of_pos : positive -> ascii

val ascii_of_N : n -> ascii

val ascii_of_nat : nat -> ascii

val n_of_digits : bool list -> n

val n_of_ascii : ascii -> n

val nat_of_ascii : ascii -> nat

type string =
| EmptyString
| String of ascii * string

val eqb1 : string -> string -> bool

val append : string -> string -> string

val length0 : string -> nat

val get : nat -> string -> ascii option

val substring : nat -> nat -> string -> string

val prefix : string -> string -> bool

type q = { qnum : z; qden : positive }

val inject_Z : z -> q

val qcompare : q -> q -> comparison

val qeq_bool : q -> q -> bool

val qle_bool : q -> q -> bool

val qplus : q -> q -> q

val qmult : q -> q -> q

val qopp : q -> q

val qminus : q -> q -> q

val qinv : q -> q

val qdiv : q -> q -> q

val qred : q -> q

val qabs : q -> q

val qfloor : q -> z

type v =
| VZ of z
| VS of string
| VL of v list

val vB : bool -> v

val vQ : q -> v

val vErr : string -> v

val vOk : v -> v

val getZ : v -> z

val getS : v -> string

val getL : v -> v list

val getQ : v -> q

type 'a res =
| Ok of 'a
| Err of string

val bind : 'a1 res -> ('a1 -> 'a2 res) -> 'a2 res

val mapM : ('a1 -> 'a2 res) -> 'a1 list -> 'a2 list res

val vres : v res -> v

val qltb : q -> q -> bool

val qleb : q -> q -> bool

val qeqb : q -> q -> bool

val qsqr : q -> q

val sp : ascii

val nl : ascii

val is_space : ascii -> bool

val is_digit : ascii -> bool

val digit_val : ascii -> z

val lstrip : string -> string

val rev_str : string -> string -> string

val rstrip : string -> string

val strip : string -> string

val slice : nat -> nat -> string -> string

val char_at : nat -> string -> string

val repeat_char : ascii -> nat -> string

val ljust : nat -> string -> string

val rjust : nat -> string -> string

val center : nat -> string -> string

val startswith : string -> string -> bool

val str_nonempty : string -> bool

val is_substring : string -> string -> bool

val upto_nl : string -> string

val split_nl_aux : string -> string -> string list

val split_nl : string -> string list

val readlines_aux : string -> string -> string list

val readlines : string -> string list

val count_sub_aux : nat -> string -> string -> nat

val count_sub : string -> string -> nat

val digits_pos_aux : nat -> z -> string -> string

val digits : z -> string

val str_of_Z : z -> string

val all_digits : string -> bool

val digits_val : z -> string -> z

type 'a numparse =
| NumOk of 'a
| NumBad
| NumOutOfModel

val has_char : ascii -> string -> bool

val exotic_numeral : string -> bool

val split_sign : string -> bool * string

val parse_int : string -> z numparse

val split_dot : string -> string * string option

val qfloor' : q -> z

val round_half_even : q -> z

val qpow2 : z -> q

val b64 : q -> q

val pow10 : nat -> z

val parse_float : string -> q numparse

val pad_left_zeros : nat -> string -> string

val fmt_fixed_body : nat -> q -> string

val fmt_fixed : nat -> nat -> q -> string

val round_dec : nat -> q -> q

val repeat_str : string -> nat -> string

type blank_default =
| DConst of q
| DChainFromSegID
| DElementGuess

type align =
| ARight
| ALeft
| ACenter

type piece =
| PLit of string
| PField of nat * align * nat
| PFixed of nat * align * nat * nat
| PAtomName
| PXyz of nat

type val0 =
| VInt of z
| VReal of q
| VText of string
| VBlob
| VNull

type row = val0 list

val capri_src : q -> q -> q -> string -> string res

val scale_rms_src : q -> q -> q

val dockq_raw_src : q -> q -> q -> q -> q -> q

val dockq_digits_src : nat

val dockq_d1_src : q

val dockq_d2_src : q

val capri : q -> q -> q -> string res

val dockq : q -> q -> q -> q -> q -> q

type capri_class =
| Incorrect
| Acceptable
| Medium
| High

val class_name : capri_class -> string

val t01 : q

val t03 : q

val t05 : q

val levelb : nat -> q -> q -> q -> bool

val capri_spec : q -> q -> q -> capri_class

val dockq_formula : q -> q -> q -> q -> q -> q

val col_src : (string * string) list

val delimiter_src : (string * (nat * nat)) list

val atom_prefix_src : string

val endmdl_prefix_src : string

val int_tag_src : string

val real_tag_src : string

val blank_defaults_src : (string * blank_default) list

val linelength_src : string -> string res

val get_chainID_src : string -> string res

val get_element_src : string -> string res

type form =
| FPath
| FPathObj
| FStr
| FBytes
| FListStr
| FListBytes
| FNdarrayStr
| FNdarrayBytes

type input =
| InText of form * string
| InLines of form * string list

val lines_of : input -> string list res

val assoc : string -> (string * 'a1) list -> 'a1 option

val parse_field : string -> string -> string -> val0 option res

val parse_fields : string -> (string * string) list -> val0 list res

val parse_record : z -> string -> row res

val parse_lines : string list -> z -> (row list * z) res

val parse : input -> (row list * z) res

type ftype =
| TInt
| TReal
| TText

val wwpdb_cols : ((string * (nat * nat)) * ftype) list

val segid_cols : nat * nat

val pad80 : string -> string

val columns : nat -> nat -> string -> string

val column : nat -> string -> ascii

val ltrim : string -> string

val trim : string -> string

val spec_element : string -> string

val spec_field : string -> ((string * (nat * nat)) * ftype) -> val0 res

val spec_row : string -> row res

val is_ATOM : string -> bool

val spec_table : string list -> row list res

val vval : val0 -> v

val val_of_V : v -> val0

val vrow : row -> v

val vrows : row list -> v

val form_of : string -> form

val run_parse : string -> v list -> v option

val format_xyz_src : q -> string res

val format_atomname_src : string -> string -> string res

val export_layout_src : piece list

val justify : align -> nat -> string -> string

val render_plain : val0 -> string res

val num_of : val0 -> q res

val text_of : val0 -> string res

val render_piece : row -> piece -> string res

val render_pieces : row -> piece list -> string res

val line_of_row : row -> string res

val export : row list -> string list res

val clean : string -> bool

val fits_int : z -> z -> val0 -> bool

val fits_text : nat -> nat -> val0 -> bool

val real_of : val0 -> q option

val fits_real : q -> q -> val0 -> bool

val coord_lo : q

val coord_hi : q

val coord_in_range : val0 -> bool

val fits : row -> bool

val decimal_value : string -> (q * nat) option

val int_digits : q -> nat

val max_fit : q -> nat

val near_power_of_ten : q -> bool

val coord_ok : val0 -> string -> bool

val text_ok : val0 -> string -> bool

val int_ok : val0 -> string -> bool

val real2_ok : val0 -> string -> bool

val line_ok : row -> string -> bool

val val_eqb : val0 -> val0 -> bool

val slack : q -> q

val within : q -> val0 -> val0 -> bool

val coord_tol : val0 -> q

val approx_row : row -> row -> bool

val row_of_V : v -> row

val run_export : string -> v list -> v option

val val_eqb0 : val0 -> val0 -> bool

type table = row list

val key_of : nat list -> row -> val0 list

val keys_eqb : val0 list -> val0 list -> bool

val same_key : nat list -> row -> row -> bool

val join : nat list -> table list -> row list list

val project : nat list -> row -> row

val get_intersection : nat list -> nat list -> table list -> row list list

val std_cols : string list

val lower_char : ascii -> ascii

val lower : string -> string

val index_of :
  (string -> string -> bool) -> string -> string list -> nat -> nat option

val col_index_ci : string -> nat option

val find_key : nat list -> row -> table -> row option

val find_all : nat list -> row -> table list -> row list option

val spec_tuples : nat list -> table list -> row list list

val spec_intersection : nat list -> nat list -> table list -> row list list

val unique_keys : nat list -> table -> bool

val tables_of_V : v -> table list

val nats_of_V : v -> nat list

val vtables : row list list -> v

val run_many : string -> v list -> v option

val snapshot : row list -> row list res

val run_store : string -> v list -> v option

type vec = (q * q) * q

type mat = (vec * vec) * vec

val vadd : vec -> vec -> vec

val vsub : vec -> vec -> vec

val vdot : vec -> vec -> q

val mv : mat -> vec -> vec

val vscale : q -> vec -> vec

val vsum : vec list -> vec

val mean : vec list -> vec

val superpose_selection : mat -> vec list -> vec list -> vec list -> vec list

val xyz_of : row -> vec

val pairs_of_tuples : row list list -> vec list * vec list

val paired_selections : row list -> row list -> (vec list * vec list) res

val set_xyz : row -> vec -> row

val superpose : mat -> row list -> row list -> row list -> row list res

val det : mat -> q

val shared_pairs : row list -> row list -> vec list * vec list

val close_to : q -> q -> q -> bool

val is_rotation_eps : q -> mat -> bool

val vec_of_V : v -> vec

val mat_of_V : v -> mat

val vvec : vec -> v

val rows_of_V : v -> row list

val run_superpose : string -> v list -> v option

val vresS : string res -> v

val run_scores : string -> v list -> v option

val run : v -> v
