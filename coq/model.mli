
type nat =
| O
| S of nat

val snd : ('a1 * 'a2) -> 'a2

type comparison =
| Eq
| Lt
| Gt

val compOpp : comparison -> comparison

val add : nat -> nat -> nat

type positive =
| XI of positive
| XO of positive
| XH

type z =
| Z0
| Zpos of positive
| Zneg of positive

val eqb : bool -> bool -> bool

module Pos :
 sig
  type mask =
  | IsNul
  | IsPos of positive
  | IsNeg
 end

module Coq_Pos :
 sig
  val succ : positive -> positive

  val add : positive -> positive -> positive

  val add_carry : positive -> positive -> positive

  val pred_double : positive -> positive

  type mask = Pos.mask =
  | IsNul
  | IsPos of positive
  | IsNeg

  val succ_double_mask : mask -> mask

  val double_mask : mask -> mask

  val double_pred_mask : positive -> mask

  val sub_mask : positive -> positive -> mask

  val sub_mask_carry : positive -> positive -> mask

  val sub : positive -> positive -> positive

  val mul : positive -> positive -> positive

  val iter : ('a1 -> 'a1) -> 'a1 -> positive -> 'a1

  val pow : positive -> positive -> positive

  val size_nat : positive -> nat

  val size : positive -> positive

  val compare_cont : comparison -> positive -> positive -> comparison

  val compare : positive -> positive -> comparison

  val ggcdn : nat -> positive -> positive -> positive * (positive * positive)

  val ggcd : positive -> positive -> positive * (positive * positive)

  val of_succ_nat : nat -> positive
 end

module Z :
 sig
  val double : z -> z

  val succ_double : z -> z

  val pred_double : z -> z

  val pos_sub : positive -> positive -> z

  val add : z -> z -> z

  val opp : z -> z

  val sub : z -> z -> z

  val mul : z -> z -> z

  val pow_pos : z -> positive -> z

  val pow : z -> z -> z

  val compare : z -> z -> comparison

  val sgn : z -> z

  val leb : z -> z -> bool

  val ltb : z -> z -> bool

  val abs : z -> z

  val of_nat : nat -> z

  val to_pos : z -> positive

  val pos_div_eucl : positive -> z -> z * z

  val div_eucl : z -> z -> z * z

  val div : z -> z -> z

  val even : z -> bool

  val log2 : z -> z

  val ggcd : z -> z -> z * (z * z)
 end

val zeq_bool : z -> z -> bool

val nth : nat -> 'a1 list -> 'a1 -> 'a1

type ascii =
| Ascii of bool * bool * bool * bool * bool * bool * bool * bool

val eqb0 : ascii -> ascii -> bool

type string =
| EmptyString
| String of ascii * string

val eqb1 : string -> string -> bool

type q = { qnum : z; qden : positive }

val inject_Z : z -> q

val qcompare : q -> q -> comparison

val qeq_bool : q -> q -> bool

val qle_bool : q -> q -> bool

val qplus : q -> q -> q

val qmult : q -> q -> q

val qopp : q -> q

val qminus : q -> q -> q

val qinv : q -> q

val qdiv : q -> q -> q

val qred : q -> q

val qabs : q -> q

type v =
| VZ of z
| VS of string
| VL of v list

val vQ : q -> v

val vErr : string -> v

val vOk : v -> v

val getS : v -> string

val getQ : v -> q

type 'a res =
| Ok of 'a
| Err of string

val qltb : q -> q -> bool

val qleb : q -> q -> bool

val qsqr : q -> q

val qfloor' : q -> z

val round_half_even : q -> z

val qpow2 : z -> q

val b64 : q -> q

val pow10 : nat -> z

val round_dec : nat -> q -> q

val capri_src : q -> q -> q -> string -> string res

val scale_rms_src : q -> q -> q

val dockq_raw_src : q -> q -> q -> q -> q -> q

val dockq_digits_src : nat

val dockq_d1_src : q

val dockq_d2_src : q

val capri : q -> q -> q -> string res

val dockq : q -> q -> q -> q -> q -> q

type capri_class =
| Incorrect
| Acceptable
| Medium
| High

val class_name : capri_class -> string

val t01 : q

val t03 : q

val t05 : q

val levelb : nat -> q -> q -> q -> bool

val capri_spec : q -> q -> q -> capri_class

val dockq_formula : q -> q -> q -> q -> q -> q

val vresS : string res -> v

val run_scores : string -> v list -> v option

val run : v -> v
