(* Model_sqlval.v — value layer of the mini-SQL semantics (DESIGN §4.3): Python-side values,
   SQLite column affinity from the declared type, affinity applied on store and to the operands
   of IN comparisons, equality.  Shared by the model (Model_sql.v) and the specification
   (Spec_sql.v): it is the *assumed* behaviour of SQLite, validated on every run because every
   correspondence case goes through the real SQLite.  Definitions only. *)
From Verif Require Import PyLib ModelTypes.
Open Scope string_scope.
Open Scope Z_scope.

(* ------------------------------------------------------------------ *)
(* Python values that reach sqlite3 as bound parameters (after F1 every numeric carrier —
   list / float64 / float32 / int64 ndarray / NumPy scalar — arrives as a Python number) *)
Inductive pv := PInt (z : Z) | PFloat (q : Q) | PStr (s : string) | PNone.

(* value of a keyword condition: only [list] is a list (Appendix A) *)
Inductive cval := CScalar (v : pv) | CList (l : list pv).
Definition conds := list (string * cval).      (* kwargs, insertion order, keys unique *)

(* ------------------------------------------------------------------ *)
(* case folding (ASCII) *)
Definition upper_ascii (c : ascii) : ascii :=
  let n := nat_of_ascii c in
  if (Nat.leb 97 n && Nat.leb n 122)%bool then ascii_of_nat (n - 32) else c.
Fixpoint str_upper (s : string) : string :=
  match s with EmptyString => EmptyString | String c t => String (upper_ascii c) (str_upper t) end.
Definition ci_eqb (a b : string) : bool := String.eqb (str_upper a) (str_upper b).

(* ------------------------------------------------------------------ *)
(* column affinity from the declared type: SQLite's substring rules, in order *)
Inductive aff := AInt | AText | ABlob | AReal | ANumeric.
Definition affinity_of_decl (ty : string) : aff :=
  let u := str_upper ty in
  if is_substring "INT" u then AInt
  else if (is_substring "CHAR" u || is_substring "CLOB" u || is_substring "TEXT" u)%bool then AText
  else if (is_substring "BLOB" u || String.eqb u "")%bool then ABlob
  else if (is_substring "REAL" u || is_substring "FLOA" u || is_substring "DOUB" u)%bool then AReal
  else ANumeric.
Definition aff_numeric (a : aff) : bool :=
  match a with AInt | AReal | ANumeric => true | _ => false end.

(* ------------------------------------------------------------------ *)
(* numbers *)
Definition two53 : Z := 9007199254740992.
Definition int_in_range (z : Z) : bool := Z.abs z <? two53.
Definition Q_is_int (q : Q) : bool := Pos.eqb (Qden (Qred q)) 1.
Definition Q_to_int (q : Q) : Z := Qnum (Qred q).

(* Does a text look like a number to SQLite (whole string, blanks allowed around)?
   Modelled: [sign] digits [. digits] with at most 15 digits.  Exponent forms and longer
   digit strings are outside the model. *)
Inductive numtext := NTNum (q : Q) | NTText | NTOut.
Fixpoint only_chars (allowed s : string) : bool :=
  match s with EmptyString => true | String c t => (has_char c allowed && only_chars allowed t)%bool end.
Definition sql_numeric_text (s0 : string) : numtext :=
  let s := strip s0 in
  let '(neg, body) := split_sign s in
  let '(ip, fp) := split_dot body in
  let fpart := match fp with Some f => f | None => "" end in
  if (all_digits ip && all_digits fpart && (str_nonempty ip || str_nonempty fpart))%bool
  then
    if Nat.leb (String.length ip + String.length fpart) 15
    then let n := digits_val 0 (ip ++ fpart) in
         let q := Qred (Qmake n (Z.to_pos (pow10 (String.length fpart)))) in
         NTNum (b64 (if neg then Qred (- q) else q))
    else NTOut
  else if (only_chars "0123456789.eE+-" s && (has_char "e"%char s || has_char "E"%char s))%bool then NTOut
  else NTText.

(* ------------------------------------------------------------------ *)
(* equality of two SQLite values as used by [=] / [IN] once affinities have been applied:
   numbers compare by value across INTEGER/REAL, texts by BINARY collation, NULL and
   values of different storage classes never compare equal *)
(* REAL values are kept in lowest terms everywhere (decoding, [real_val]); on such values
   numeric equality is equality of numerator and denominator *)
Definition q_eq_canon (x y : Q) : bool := (Z.eqb (Qnum x) (Qnum y) && Pos.eqb (Qden x) (Qden y))%bool.
Definition val_sql_eq (a b : val) : bool :=
  match a, b with
  | VText s, VText t => String.eqb s t
  | VInt x, VInt y => Z.eqb x y
  | VReal x, VReal y => q_eq_canon x y
  | VInt z, VReal q | VReal q, VInt z => q_eq_canon (inject_Z z) q
  | _, _ => false
  end.
Definition is_null (v : val) : bool := match v with VNull => true | _ => false end.

Definition out_of_model {A} : res A := Err "OutOfModel".

(* canonical numeric value: integral rationals are INTEGER where SQLite makes them so *)
Definition real_val (q : Q) : val := VReal (Qred q).
Definition num_val_int_pref (q : Q) : res val :=
  if Q_is_int q then (if int_in_range (Q_to_int q) then Ok (VInt (Q_to_int q)) else out_of_model)
  else Ok (real_val q).

(* A bound parameter (no affinity) compared with a column of affinity [a]:
   numeric affinity on the column converts well-formed numeric text; TEXT affinity renders
   numbers as text; BLOB/none converts nothing. *)
Definition cmp_operand (a : aff) (v : pv) : res val :=
  match v with
  | PNone => Ok VNull
  | PInt z =>
    if int_in_range z then
      match a with AText => Ok (VText (str_of_Z z)) | _ => Ok (VInt z) end
    else out_of_model
  | PFloat q =>
    match a with AText => out_of_model (* %!.15g rendering not modelled *) | _ => Ok (real_val q) end
  | PStr s =>
    if aff_numeric a then
      match sql_numeric_text s with
      | NTNum q => Ok (real_val q)
      | NTText => Ok (VText s)
      | NTOut => out_of_model
      end
    else Ok (VText s)
  end.

(* A value stored into a column of affinity [a] (INSERT / UPDATE / DEFAULT) *)
Definition store_val (a : aff) (v : pv) : res val :=
  match v with
  | PNone => Ok VNull
  | PInt z =>
    if int_in_range z then
      match a with
      | AText => Ok (VText (str_of_Z z))
      | AReal => Ok (real_val (inject_Z z))
      | _ => Ok (VInt z)
      end
    else out_of_model
  | PFloat q =>
    match a with
    | AText => out_of_model
    | AInt | ANumeric => num_val_int_pref q
    | AReal | ABlob => Ok (real_val q)
    end
  | PStr s =>
    match a with
    | AText | ABlob => Ok (VText s)
    | AInt | ANumeric =>
      match sql_numeric_text s with
      | NTNum q => num_val_int_pref q
      | NTText => Ok (VText s)
      | NTOut => out_of_model
      end
    | AReal =>
      match sql_numeric_text s with
      | NTNum q => Ok (real_val q)
      | NTText => Ok (VText s)
      | NTOut => out_of_model
      end
    end
  end.

(* the DEFAULT literal of ALTER TABLE ADD COLUMN: a numeric literal in a column without
   affinity is given NUMERIC affinity (sqlite3ValueFromExpr), everything else as on store *)
Definition default_store (a : aff) (v : pv) : res val :=
  match a, v with
  | ABlob, PInt _ | ABlob, PFloat _ => store_val ANumeric v
  | _, _ => store_val a v
  end.

(* x IN (v1..vn) is TRUE  /  x NOT IN (v1..vn) is TRUE   (SQL three-valued logic; a WHERE
   clause keeps a row only when the condition is TRUE) *)
Definition in_true (x : val) (vs : list val) : bool := existsb (val_sql_eq x) vs.
Definition not_in_true (x : val) (vs : list val) : bool :=
  match vs with
  | [] => true
  | _ => (negb (is_null x) && negb (existsb is_null vs) && negb (existsb (val_sql_eq x) vs))%bool
  end.
Definition cond_true (neg : bool) (x : val) (vs : list val) : bool :=
  if neg then not_in_true x vs else in_true x vs.

(* ------------------------------------------------------------------ *)
(* identifiers that can be pasted unquoted into SQL text *)
Definition is_alpha_ (c : ascii) : bool :=
  let n := nat_of_ascii c in
  ((Nat.leb 65 n && Nat.leb n 90) || (Nat.leb 97 n && Nat.leb n 122) || Nat.eqb n 95)%bool.
Fixpoint all_ident_chars (s : string) : bool :=
  match s with EmptyString => true | String c t => ((is_alpha_ c || is_digit c) && all_ident_chars t)%bool end.
Definition ident_shape (s : string) : bool :=
  match s with EmptyString => false | String c t => (is_alpha_ c && all_ident_chars t)%bool end.
Definition sql_keywords : list string :=
  ["ABORT";"ACTION";"ADD";"AFTER";"ALL";"ALTER";"ALWAYS";"ANALYZE";"AND";"AS";"ASC";"ATTACH";
   "AUTOINCREMENT";"BEFORE";"BEGIN";"BETWEEN";"BY";"CASCADE";"CASE";"CAST";"CHECK";"COLLATE";
   "COLUMN";"COMMIT";"CONFLICT";"CONSTRAINT";"CREATE";"CROSS";"CURRENT";"CURRENT_DATE";
   "CURRENT_TIME";"CURRENT_TIMESTAMP";"DATABASE";"DEFAULT";"DEFERRABLE";"DEFERRED";"DELETE";
   "DESC";"DETACH";"DISTINCT";"DO";"DROP";"EACH";"ELSE";"END";"ESCAPE";"EXCEPT";"EXCLUDE";
   "EXCLUSIVE";"EXISTS";"EXPLAIN";"FAIL";"FALSE";"FILTER";"FIRST";"FOLLOWING";"FOR";"FOREIGN";
   "FROM";"FULL";"GENERATED";"GLOB";"GROUP";"GROUPS";"HAVING";"IF";"IGNORE";"IMMEDIATE";"IN";
   "INDEX";"INDEXED";"INITIALLY";"INNER";"INSERT";"INSTEAD";"INTERSECT";"INTO";"IS";"ISNULL";
   "JOIN";"KEY";"LAST";"LEFT";"LIKE";"LIMIT";"MATCH";"MATERIALIZED";"NATURAL";"NO";"NOT";
   "NOTHING";"NOTNULL";"NULL";"NULLS";"OF";"OFFSET";"ON";"OR";"ORDER";"OTHERS";"OUTER";"OVER";
   "PARTITION";"PLAN";"PRAGMA";"PRECEDING";"PRIMARY";"QUERY";"RAISE";"RANGE";"RECURSIVE";
   "REFERENCES";"REGEXP";"REINDEX";"RELEASE";"RENAME";"REPLACE";"RESTRICT";"RETURNING";"RIGHT";
   "ROLLBACK";"ROW";"ROWS";"SAVEPOINT";"SELECT";"SET";"TABLE";"TEMP";"TEMPORARY";"THEN";"TIES";
   "TO";"TRANSACTION";"TRIGGER";"TRUE";"UNBOUNDED";"UNION";"UNIQUE";"UPDATE";"USING";"VACUUM";
   "VALUES";"VIEW";"VIRTUAL";"WHEN";"WHERE";"WINDOW";"WITH";"WITHOUT"].
Definition is_keyword (s : string) : bool := existsb (String.eqb (str_upper s)) sql_keywords.
Definition plain_ident (s : string) : bool := (ident_shape s && negb (is_keyword s))%bool.
Definition rowid_aliases : list string := ["ROWID"; "OID"; "_ROWID_"].
Definition is_rowid_alias (s : string) : bool := existsb (String.eqb (str_upper s)) rowid_aliases.
