(* Proofs_sql_upd2.v — C04: update() / update_xyz() refine the list-of-records specification. *)
From Coq Require Import Lia.
From Verif Require Import PyLib ModelTypes Generated_parse Model_sqlval Model_sql Spec_sql
  Proofs_sql_base Proofs_sql_get Proofs_sql_upd.
Open Scope string_scope.

(* ------------------------------------------------------------------ *)
(* 'x' without a comma is the one-element attribute list *)
Lemma rev_str_rev_str s : forall cur acc, rev_str acc (rev_str cur s) = rev_str (s ++ acc) cur.
Proof. induction s as [|c t IH]; intros cur acc; [reflexivity|]. cbn. rewrite IH. reflexivity. Qed.
Lemma str_app_nil s : s ++ "" = s.
Proof. induction s as [|c t IH]; [reflexivity|]. cbn. rewrite IH. reflexivity. Qed.
Lemma split_comma_aux_nocomma s : forall cur,
  has_char ","%char s = false -> split_comma_aux cur s = [rev_str "" (rev_str cur s)].
Proof.
  induction s as [|c t IH]; intros cur H; [reflexivity|].
  cbn [has_char] in H. apply Bool.orb_false_iff in H. destruct H as [Hc Ht].
  cbn [split_comma_aux rev_str].
  destruct (Ascii.eqb_spec c ","%char) as [->|N]; [rewrite Ascii.eqb_refl in Hc; discriminate|].
  apply IH; exact Ht.
Qed.
Lemma split_comma_nocomma s : has_char ","%char s = false -> split_comma s = [s].
Proof.
  intro H. unfold split_comma. rewrite (split_comma_aux_nocomma s "" H).
  rewrite rev_str_rev_str. cbn. rewrite str_app_nil. reflexivity.
Qed.
Lemma update_cols columns :
  (if has_char ","%char columns then split_comma columns else [columns]) = split_comma columns.
Proof. destruct (has_char ","%char columns) eqn:E; [reflexivity|]. symmetry; apply split_comma_nocomma; exact E. Qed.

(* ------------------------------------------------------------------ *)
(* the inner get('rowID', ...) returns the selected positions *)
Lemma spec_get_rowID d tn kw ps :
  spec_positions d tn kw = Ok ps ->
  spec_get d "rowID" tn kw = Ok (map (fun p => PV (VInt (Z.of_nat p))) ps).
Proof.
  unfold spec_positions, spec_get. intro H.
  apply bind_Ok_inv in H; destruct H as (tc & Htc & H).
  destruct (spec_conds_inv _ _ _ _ Htc) as (Htn & t & cs & -> & Ht & _ & _ & _).
  rewrite Htn, Ht. cbn [negb].
  change (spec_attrs t "rowID") with (Ok (A:=list cref) [CRowid]). cbn [bind].
  rewrite Htc. cbn [bind].
  destruct (Z.ltb sql_limit_src (spec_total kw)); [discriminate|].
  apply res_Ok_inj in H. subst ps. cbn [fst snd spec_shape]. f_equal.
  rewrite !map_map. reflexivity.
Qed.

Lemma map_snd_combine {A B} (a : list A) (b : list B) :
  List.length a = List.length b -> map snd (combine a b) = b.
Proof.
  revert b; induction a as [|x s IH]; destruct b as [|y t]; cbn; intro H; try discriminate; [reflexivity|].
  f_equal. apply IH. lia.
Qed.

Lemma write_cols_valid d t cols cis :
  same_colnames d t = true -> forall valid, valid_colnames d = Ok valid ->
  spec_write_cols t cols = Ok cis -> forallb (fun i => mem_str i valid) cols = true.
Proof.
  intros Hs valid Hv H. unfold same_colnames in Hs. unfold valid_colnames in Hv.
  destruct (tables d) as [|[n0 t0] rest]; [discriminate|].
  apply list_beq_str_eq in Hs. apply res_Ok_inj in Hv. subst valid. rewrite Hs.
  unfold spec_write_cols in H. destruct (nodup_str cols); [|discriminate]. cbn [negb] in H.
  apply mapM_Ok_Forall2 in H. apply forallb_forall. intros c Hc.
  assert (X : exists i, find_exact c (tcols t) 0 = Some i).
  { clear - H Hc. induction H; [destruct Hc|]. destruct Hc as [->|Hc]; [|auto].
    destruct (String.eqb c "rowID"); [discriminate|].
    destruct (find_exact c (tcols t) 0); [eauto|discriminate]. }
  destruct X as (i & X). apply mem_str_In. right. eapply find_exact_In; eauto.
Qed.

Lemma set_list_spec t cols cis : wf_table t = true ->
  spec_write_cols t cols = Ok cis -> set_list t cols = Ok cis.
Proof.
  intros Hwf H. destruct (wf_split t Hwf) as [Hw Hnd].
  unfold spec_write_cols in H. unfold set_list.
  destruct (nodup_str cols); [|discriminate]. cbn [negb] in H |- *.
  eapply mapM_transfer; [|exact H]. intros c i _ Hc. cbv beta in Hc |- *.
  destruct (String.eqb c "rowID"); [discriminate|].
  destruct (find_exact c (tcols t) 0) as [j|] eqn:F; [|discriminate]. apply res_Ok_inj in Hc; subst j.
  pose proof (find_ci_ident c (tcols t) 0 i Hw F) as Hid.
  destruct (String.eqb c "*") eqn:E.
  { apply String.eqb_eq in E. subst c. cbn in Hid. discriminate. }
  unfold resolve_name. rewrite Hid. cbn [negb].
  rewrite (find_exact_ci c (tcols t) 0 i Hnd F). reflexivity.
Qed.

Lemma write_cols_length t cols cis : spec_write_cols t cols = Ok cis -> List.length cis = List.length cols.
Proof.
  unfold spec_write_cols. destruct (nodup_str cols); [|discriminate]. cbn [negb]. apply mapM_length.
Qed.

Lemma shape_items ncol nsel values :
  shape_ok ncol nsel values = true ->
  List.length values = nsel /\
  exists items, mapM uval_items values = Ok items /\
                Forall2 (fun u it => uval_row u = Some it /\ List.length it = ncol) values items.
Proof.
  unfold shape_ok. intro H. apply andb_prop in H. destruct H as [Hl Hf]. apply Nat.eqb_eq in Hl.
  split; [exact Hl|]. clear Hl.
  induction values as [|u vs IH].
  - exists []. split; [reflexivity|constructor].
  - cbn [forallb] in Hf. apply andb_prop in Hf. destruct Hf as [Hu Hvs].
    destruct (IH Hvs) as (items & Hi & Fi).
    destruct (uval_row u) as [l|] eqn:E; [|discriminate]. apply Nat.eqb_eq in Hu.
    exists (l :: items). split.
    + cbn [mapM]. destruct u; cbn in E |- *; try discriminate; inversion E; subst; rewrite Hi; reflexivity.
    + constructor; auto.
Qed.

Theorem update_refines d columns values tn kw d' t :
  find_table tn (tables d) = Some t ->
  wf_table t = true -> same_colnames d t = true ->
  keys_plain kw = true -> short_lists kw = true ->
  spec_update d columns values tn kw = (d', None) ->
  update_top d columns values tn kw = (d', None).
Proof.
  intros Ht Hwf Hsame Hkeys Hshort Hspec.
  unfold spec_update in Hspec.
  destruct (table_name_ok tn) eqn:Htn; [|discriminate]. cbn [negb] in Hspec.
  destruct values as [|v0 vs]; [discriminate|]. set (values := v0 :: vs) in *.
  rewrite Ht in Hspec.
  destruct (spec_write_cols t (split_comma columns)) as [cis|e] eqn:Hcis; [|inversion Hspec].
  destruct (spec_positions d tn kw) as [ps|e] eqn:Hps; [|inversion Hspec].
  destruct (shape_ok (List.length cis) (List.length ps) values) eqn:Hshape; [|inversion Hspec].
  cbn [negb] in Hspec.
  destruct (mapM _ values) as [xss|e] eqn:Hxss in Hspec; [|inversion Hspec].
  inversion Hspec as [Hd']. clear Hspec.
  (* facts *)
  assert (Hnm : nmodel d = 0%nat).
  { unfold spec_positions in Hps. apply bind_Ok_inv in Hps. destruct Hps as (tc & Htc & _).
    destruct (spec_conds_inv _ _ _ _ Htc) as (_ & ? & ? & _ & _ & _ & X & _). exact X. }
  assert (Hv : exists valid, valid_colnames d = Ok valid).
  { unfold valid_colnames. unfold same_colnames in Hsame. destruct (tables d) as [|[n0 t0] r]; [discriminate|eauto]. }
  destruct Hv as (valid & Hv).
  destruct (shape_items _ _ _ Hshape) as (Hlen & items & Hitems & Fitems).
  pose proof (write_cols_length _ _ _ Hcis) as Lcis.
  (* the model *)
  unfold update_top. cbn [update_model]. rewrite Htn. cbn [negb]. rewrite Hv.
  rewrite (write_cols_valid d t _ cis Hsame valid Hv Hcis). cbn [negb]. rewrite Bool.andb_false_r.
  rewrite Hnm. rewrite Bool.andb_false_r.
  rewrite update_cols.
  fold values.
  assert (Hv0 : uval_len v0 = Ok (List.length cis)).
  { inversion Fitems as [|u it us its [Hu Hl] _]; subst.
    destruct v0 as [l|s|x]; cbn [uval_row] in Hu; [| |discriminate]; inversion Hu; subst it; cbn [uval_len]; f_equal.
    - exact Hl.
    - rewrite <- Hl. clear. induction s as [|c s IH]; [reflexivity|]. cbn. f_equal. exact IH. }
  unfold values at 1. rewrite Hv0. rewrite <- Lcis, Nat.eqb_refl. cbn [negb].
  change (get_model (get_fuel kw) d "rowID" tn kw) with (get_top d "rowID" tn kw).
  rewrite (get_exact d "rowID" tn kw _ t Ht Hwf Hsame eq_refl Hkeys Hshort (spec_get_rowID d tn kw ps Hps)).
  rewrite map_length. rewrite Hlen, Nat.eqb_refl. cbn [negb].
  rewrite Hitems.
  assert (Hrids : mapM int_of_val (map (fun p => PV (VInt (Z.of_nat p))) ps) = Ok (map Z.of_nat ps)).
  { clear. induction ps as [|p t IH]; [reflexivity|]. cbn [map mapM int_of_val bind]. rewrite IH. reflexivity. }
  rewrite Hrids. rewrite Ht.
  rewrite (set_list_spec t _ cis Hwf Hcis).
  rewrite map_map.
  change (map (fun x : nat => (Z.of_nat x + 1)%Z) ps) with (rids_of ps).
  (* executemany *)
  assert (Hli : List.length items = List.length ps).
  { rewrite (mapM_length _ _ _ Hitems). exact Hlen. }
  assert (Hdo : data_ok t cis (combine items (rids_of ps)) xss).
  { unfold data_ok. apply mapM_Ok_Forall2 in Hxss.
    assert (Lr : List.length (rids_of ps) = List.length items) by (unfold rids_of; rewrite map_length; lia).
    clear - Fitems Hxss Lr. revert xss Hxss Lr. generalize (rids_of ps) as rids.
    induction Fitems as [|u it us its [Hu Hl] _ IH]; intros rids xss Hxss Lr.
    - inversion Hxss; subst. constructor.
    - inversion Hxss as [|u' xs us' xss' Hx Hrest]; subst.
      destruct rids as [|rid rids']; [discriminate|]. cbn [combine]. constructor.
      + cbn [fst]. split; [exact Hl|]. rewrite Hu in Hx. exact Hx.
      + apply IH; [exact Hrest | cbn in Lr; lia]. }
  destruct t as [cols rows]. cbn [tcols trows] in *.
  pose proof (exec_many_rowwise (mkTable cols rows) cis _ xss rows Hdo) as EX. cbn [tcols] in EX.
  rewrite EX. f_equal. unfold with_table. f_equal. f_equal. f_equal.
  rewrite map_snd_combine by (unfold rids_of; rewrite map_length; lia).
  unfold with_positions.
  transitivity (map_pos (fun q r => match index_of_nat q ps 0 with
                                    | Some i => write_cells cis (nth i xss []) r
                                    | None => r end) 0 rows);
    [| symmetry; exact (map_pos_with_positions
                          (fun q r => match index_of_nat q ps 0 with
                                      | Some i => write_cells cis (nth i xss []) r
                                      | None => r end) rows 0)].
  apply map_pos_ext. intros q r _.
  rewrite (row_fold_update cis ps xss 0 q r).
  - destruct (index_of_nat q ps 0); [rewrite Nat.sub_0_r|]; reflexivity.
  - unfold spec_positions in Hps. apply bind_Ok_inv in Hps. destruct Hps as (tc & _ & Hps).
    destruct (Z.ltb _ _); [discriminate|]. apply res_Ok_inj in Hps. subst ps.
    unfold spec_select, with_positions. apply filter_positions_nodup.
  - rewrite (mapM_length _ _ _ Hxss). exact Hlen.
  - symmetry; exact Hnm.
Qed.

Corollary update_xyz_refines d xyz tn kw d' t :
  find_table tn (tables d) = Some t ->
  wf_table t = true -> same_colnames d t = true ->
  keys_plain kw = true -> short_lists kw = true ->
  spec_update_xyz d xyz tn kw = (d', None) ->
  update_xyz_top d xyz tn kw = (d', None).
Proof. intros. unfold update_xyz_top. eapply update_refines; eassumption. Qed.
