(* Run_export.v — wire entry points of the export model/spec (C02) *)
From Verif Require Import PyLib ModelTypes Generated_export Model_export Spec_parse Spec_export Run_parse.
Open Scope string_scope.

Definition row_of_V (v : V) : row := map val_of_V (getL v).

Definition run_export (cmd : string) (a : list V) : option V :=
  if cmd =? "export.line" then           (* row -> line *)
    Some (Vres (do s <- line_of_row (row_of_V (nth 0 a (VZ 0))); Ok (VS s)))
  else if cmd =? "export.xyz" then
    Some (Vres (do s <- format_xyz_src (getQ (nth 0 a (VZ 0))); Ok (VS s)))
  else if cmd =? "export.atomname" then
    Some (Vres (do s <- format_atomname_src (getS (nth 0 a (VZ 0))) (getS (nth 1 a (VZ 0))); Ok (VS s)))
  else if cmd =? "spec.export.fits" then
    Some (VB (fits (row_of_V (nth 0 a (VZ 0)))))
  else if cmd =? "spec.export.line_ok" then    (* row, line *)
    Some (VB (line_ok (row_of_V (nth 0 a (VZ 0))) (getS (nth 1 a (VZ 0)))))
  else if cmd =? "spec.export.coord_ok" then   (* value (Q), 8-column field *)
    Some (VB (coord_ok (VReal (getQ (nth 0 a (VZ 0)))) (getS (nth 1 a (VZ 0)))))
  else if cmd =? "spec.export.coord_in_range" then
    Some (VB (coord_in_range (VReal (getQ (nth 0 a (VZ 0))))))
  else if cmd =? "spec.export.approx_row" then
    Some (VB (approx_row (row_of_V (nth 0 a (VZ 0))) (row_of_V (nth 1 a (VZ 0)))))
  else None.
