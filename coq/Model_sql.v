(* Model_sql.v — executable model of the table layer of pdb2sql (C03, C04, C17):
   tables / databases, the mini-SQL fragment the library emits, and the Python layer
   (get, update, update_column, update_xyz, add_column, _fix_chainID, the views, get_all)
   written to mirror the code's structure.  Hand-modelled, tied by correspondence; the limits
   950 / 999 come from the regenerated constants.  No proofs here. *)
From Verif Require Import PyLib ModelTypes Generated_parse Model_sqlval.
Open Scope string_scope.
Open Scope Z_scope.

(* ------------------------------------------------------------------ *)
(* tables and databases: declared columns (name, declared type), rows in rowid order
   (rowid = position + 1); tables in creation order (sqlite_master order) *)
Record table := mkTable { tcols : list (string * string); trows : list row }.
Record db := mkDb { tables : list (string * table); nmodel : nat }.

(* what get() returns: nested Python lists of SQLite values *)
Inductive pyv := PV (v : val) | PL (l : list pyv).

Fixpoint find_ci (name : string) (cols : list (string * string)) (i : nat) : option nat :=
  match cols with
  | [] => None
  | (c, _) :: t => if ci_eqb name c then Some i else find_ci name t (S i)
  end.
Fixpoint find_table (name : string) (ts : list (string * table)) : option table :=
  match ts with
  | [] => None
  | (n, t) :: r => if ci_eqb name n then Some t else find_table name r
  end.
Fixpoint set_table (name : string) (t' : table) (ts : list (string * table)) : list (string * table) :=
  match ts with
  | [] => []
  | (n, t) :: r => if ci_eqb name n then (n, t') :: r else (n, t) :: set_table name t' r
  end.

(* ------------------------------------------------------------------ *)
(* mini-SQL: column references, SELECT ... WHERE k [NOT] IN (...) AND ... *)
Inductive cref := CRowid | CCol (i : nat).
Definition cell (rid : Z) (r : row) (c : cref) : val :=
  match c with CRowid => VInt rid | CCol i => nth i r VNull end.
Definition col_aff (t : table) (c : cref) : aff :=
  match c with
  | CRowid => AInt
  | CCol i => affinity_of_decl (snd (nth i (tcols t) ("", "")))
  end.
Definition scond : Type := cref * bool * list val.       (* column, NOT?, operands *)
Definition row_ok (cs : list scond) (rid : Z) (r : row) : bool :=
  forallb (fun c : scond => let '(cr, neg, vs) := c in cond_true neg (cell rid r cr) vs) cs.
Fixpoint select_from (rid : Z) (rows : list row) (sel : list cref) (cs : list scond) : list row :=
  match rows with
  | [] => []
  | r :: t => (if row_ok cs rid r then [map (cell rid r) sel] else []) ++ select_from (rid + 1) t sel cs
  end.
Definition sql_select (t : table) (sel : list cref) (cs : list scond) : list row :=
  select_from 1 (trows t) sel cs.

(* a name written in SQL text, resolved against a table (column names are case-insensitive;
   rowid / oid / _rowid_ name the rowid when no column has that name) *)
Definition special_literals : list string :=
  ["NULL"; "TRUE"; "FALSE"; "CURRENT_DATE"; "CURRENT_TIME"; "CURRENT_TIMESTAMP"].
Definition resolve_name (t : table) (k : string) : res (option cref) :=
  if negb (ident_shape k) then out_of_model else
  match find_ci k (tcols t) 0 with
  | Some i => Ok (Some (CCol i))
  | None => if is_rowid_alias k then Ok (Some CRowid)
            else if existsb (String.eqb (str_upper k)) special_literals then out_of_model
            else Ok None
  end.

(* ------------------------------------------------------------------ *)
(* Python helpers *)
Fixpoint split_comma_aux (cur : string) (s : string) : list string :=
  match s with
  | EmptyString => [rev_str "" cur]
  | String c t => if Ascii.eqb c ","%char then rev_str "" cur :: split_comma_aux "" t
                  else split_comma_aux (String c cur) t
  end.
Definition split_comma (s : string) : list string := split_comma_aux "" s.
Definition mem_str (x : string) (l : list string) : bool := existsb (String.eqb x) l.
Fixpoint index_of (x : string) (l : list string) (i : nat) : option nat :=
  match l with [] => None | y :: t => if String.eqb x y then Some i else index_of x t (S i) end.
Fixpoint has_key (k : string) (d : conds) : bool :=
  match d with [] => false | (k', _) :: t => (String.eqb k' k || has_key k t)%bool end.
(* d[k] = v : in place when the key exists, appended otherwise *)
Fixpoint dict_set (k : string) (v : cval) (d : conds) : conds :=
  match d with
  | [] => [(k, v)]
  | (k', v') :: t => if String.eqb k' k then (k, v) :: t else (k', v') :: dict_set k v t
  end.
Definition key_of (k0 : string) : bool * string :=
  if prefix "no_" k0 then (true, substring 3 (String.length k0) k0) else (false, k0).
Fixpoint chunks_aux (fuel n : nat) (l : list pv) : list (list pv) :=
  match fuel with
  | O => []
  | S f => match l with [] => [] | _ => firstn n l :: chunks_aux f n (skipn n l) end
  end.
Definition chunks (n : nat) (l : list pv) : list (list pv) := chunks_aux (List.length l) n l.
Fixpoint set_nth {A} (i : nat) (x : A) (l : list A) : list A :=
  match l, i with
  | [], _ => []
  | _ :: t, O => x :: t
  | y :: t, S j => y :: set_nth j x t
  end.
Fixpoint map_nth {A} (i : nat) (f : A -> A) (l : list A) : list A :=
  match l, i with
  | [], _ => []
  | y :: t, O => f y :: t
  | y :: t, S j => y :: map_nth j f t
  end.
Fixpoint nodup_str (l : list string) : bool :=
  match l with [] => true | x :: t => (negb (existsb (ci_eqb x) t) && nodup_str t)%bool end.

Definition max_sql_values : Z := max_sql_values_src.
Definition sql_limit : Z := sql_limit_src.

(* ------------------------------------------------------------------ *)
(* get  (pdb2sqlcore.py:404-587) *)

(* pdb2sqlcore.py:331-345 get_colnames: 'rowID' + the columns of the FIRST table *)
Definition valid_colnames (d : db) : res (list string) :=
  match tables d with
  | [] => out_of_model
  | (_, t) :: _ => Ok ("rowID" :: map fst (tcols t))
  end.

(* pdb2sqlcore.py:434-439 *)
Definition check_columns_get (valid : list string) (columns : string) : res unit :=
  if String.eqb columns "*" then Ok tt
  else if forallb (fun i => mem_str (strip i) valid) (split_comma columns) then Ok tt
  else Err "ValueError".

(* the select list of 'SELECT {columns} FROM {tablename}' *)
Definition sel_list (t : table) (columns : string) : res (list cref) :=
  if String.eqb columns "*" then Ok (map CCol (seq 0 (List.length (tcols t))))
  else mapM (fun p => do oc <- resolve_name t (strip p);
                      match oc with Some c => Ok c | None => Err "sqlite3.Error" end)
            (split_comma columns).

(* pdb2sqlcore.py:468-480 : SELECT EXISTS(SELECT k FROM tablename), any failure -> ValueError *)
Fixpoint check_keys (ot : option table) (kw : conds) : res unit :=
  match kw with
  | [] => Ok tt
  | (k0, _) :: rest =>
    let '(_, k) := key_of k0 in
    match ot with
    | None => Err "ValueError"
    | Some t =>
      do oc <- resolve_name t k;
      match oc with None => Err "ValueError" | Some _ => check_keys ot rest end
    end
  end.

(* pdb2sqlcore.py:525-535 : int(v + 1) on rowID values *)
Definition rowid_shift (v : pv) : res pv :=
  match v with
  | PInt z => Ok (PInt (z + 1))
  | PFloat _ => out_of_model
  | PStr _ => Err "TypeError"
  | PNone => Err "TypeError"
  end.

(* pdb2sqlcore.py:489-539 : the loop over kwargs *)
Inductive loop_res :=
| LErr (e : string)
| LChunk (k : string) (cs : list (list pv))               (* first list longer than 950 *)
| LDone (cs : list (string * bool * list pv)).
Fixpoint cond_loop (kw : conds) (acc : list (string * bool * list pv)) : loop_res :=
  match kw with
  | [] => LDone (rev acc)
  | (k0, v) :: rest =>
    let '(neg, k) := key_of k0 in
    match v with
    | CList l =>
      if max_sql_values <? Z.of_nat (List.length l) then LChunk k (chunks (Z.to_nat max_sql_values) l)
      else if String.eqb k "rowID" then
        match mapM rowid_shift l with
        | Ok l' => cond_loop rest ((k, neg, l') :: acc)
        | Err e => LErr e
        end
      else cond_loop rest ((k, neg, l) :: acc)
    | CScalar x =>
      if String.eqb k "rowID" then
        match rowid_shift x with
        | Ok x' => cond_loop rest ((k, neg, [x']) :: acc)
        | Err e => LErr e
        end
      else cond_loop rest ((k, neg, [x]) :: acc)
    end
  end.

Definition total_vals (cs : list (string * bool * list pv)) : Z :=
  fold_right (fun c n => Z.of_nat (List.length (snd c)) + n) 0 cs.

(* pdb2sqlcore.py:556-565 : the report printed before the error calls len() on every value *)
Fixpoint limit_error (kw : conds) : string :=
  match kw with
  | [] => "ValueError"
  | (_, CScalar (PStr _)) :: t => limit_error t
  | (_, CScalar _) :: _ => "TypeError"
  | (_, CList _) :: t => limit_error t
  end.

Definition norm_cond (t : table) (c : string * bool * list pv) : res scond :=
  let '(k, neg, vs) := c in
  do oc <- resolve_name t k;
  match oc with
  | None => Err "sqlite3.Error"
  | Some cr => do vs' <- mapM (cmp_operand (col_aff t cr)) vs; Ok (cr, neg, vs')
  end.

Fixpoint dec_at (i : nat) (r : row) : row :=
  match r, i with
  | [], _ => []
  | v :: t, O => (match v with VInt z => VInt (z - 1) | o => o end) :: t
  | v :: t, S j => v :: dec_at j t
  end.
(* pdb2sqlcore.py:570-587 *)
Definition post (columns : string) (data : list row) : res (list pyv) :=
  match data with
  | [] => Ok []
  | r0 :: _ =>
    do data1 <- (if is_substring "rowID" columns then
                   match index_of "rowID" (map strip (split_comma columns)) 0 with
                   | Some i => Ok (map (dec_at i) data)
                   | None => Err "ValueError"
                   end
                 else Ok data);
    Ok (if Nat.eqb (List.length r0) 1 then map (fun r => PV (hd VNull r)) data1
        else map (fun r => PL (map PV r)) data1)
  end.

Definition table_name_ok (n : string) : bool := plain_ident n.

Fixpoint get_model (fuel : nat) (d : db) (columns tablename : string) (kw : conds) : res (list pyv) :=
  match fuel with
  | O => Err "RecursionError"
  | S f =>
    if negb (table_name_ok tablename) then out_of_model else
    do valid <- valid_colnames d;
    do _ <- check_columns_get valid columns;
    (* 444-449 *)
    if (negb (has_key "model" kw) && Nat.ltb 0 (nmodel d))%bool then
      do l <- mapM (fun i => do o <- get_model f d columns tablename
                                       (dict_set "model" (CScalar (PInt (Z.of_nat i))) kw);
                             Ok (PL o))
                   (seq 0 (nmodel d));
      Ok l
    else
    let ot := find_table tablename (tables d) in
    match kw with
    | [] =>
      (* 452-455 *)
      match ot with
      | None => Err "sqlite3.Error"
      | Some t => do sel <- sel_list t columns; post columns (sql_select t sel [])
      end
    | _ =>
      do _ <- check_keys ot kw;
      match ot with
      | None => Err "ValueError"
      | Some t =>
        match cond_loop kw [] with
        | LErr e => Err e
        | LChunk k cs =>
          (* 509-521 : the stripped key is set, the result of the pieces is concatenated *)
          do parts <- mapM (fun c => get_model f d columns tablename (dict_set k (CList c) kw)) cs;
          Ok (List.concat parts)
        | LDone cs =>
          if sql_limit <? total_vals cs then Err (limit_error kw)
          else
            do scs <- mapM (norm_cond t) cs;
            do sel <- sel_list t columns;
            post columns (sql_select t sel scs)
        end
      end
    end
  end.

(* enough for every terminating call: one level per long list, one for the models *)
Definition get_fuel (kw : conds) : nat := (List.length kw + 3)%nat.
Definition get_top (d : db) (columns tablename : string) (kw : conds) : res (list pyv) :=
  get_model (get_fuel kw) d columns tablename kw.

(* ------------------------------------------------------------------ *)
(* UPDATE t SET c1=?,.. WHERE rowID=? , one parameter row after the other (executemany) *)
Fixpoint store_cells (t : table) (cis : list nat) (vals : list pv) (r : row) : res row :=
  match cis, vals with
  | ci :: cis', v :: vals' =>
    do x <- store_val (col_aff t (CCol ci)) v;
    store_cells t cis' vals' (set_nth ci x r)
  | _, _ => Ok r
  end.
Definition rid_index (rid : Z) : option nat := if 0 <? rid then Some (Z.to_nat (rid - 1)) else None.
(* state after the rows processed so far, and how the run ended *)
Fixpoint exec_many (t : table) (cis : list nat) (data : list (list pv * Z)) : table * option string :=
  match data with
  | [] => (t, None)
  | (vals, rid) :: rest =>
    if negb (Nat.eqb (List.length vals) (List.length cis)) then (t, Some "sqlite3.Error")
    else
      match rid_index rid with
      | None => exec_many t cis rest
      | Some i =>
        match nth_error (trows t) i with
        | None => exec_many t cis rest
        | Some r =>
          match store_cells t cis vals r with
          | Err e => (t, Some e)
          | Ok r' => exec_many (mkTable (tcols t) (set_nth i r' (trows t))) cis rest
          end
        end
      end
  end.

(* the SET list: plain column names of the addressed table; rowID itself is outside the model *)
Definition set_list (t : table) (cols : list string) : res (list nat) :=
  if negb (nodup_str cols) then out_of_model else
  mapM (fun c => if String.eqb c "*" then Err "sqlite3.Error" else
                 do oc <- resolve_name t c;
                 match oc with
                 | Some (CCol i) => Ok i
                 | Some CRowid => out_of_model
                 | None => Err "sqlite3.Error"
                 end) cols.

(* one element of the `values` argument of update(): a row (list / ndarray row), a string
   (len() and iteration work character-wise), or a bare number *)
Inductive uval := URow (l : list pv) | UStr (s : string) | UScalar (v : pv).
Fixpoint chars_of (s : string) : list pv :=
  match s with EmptyString => [] | String c t => PStr (String c EmptyString) :: chars_of t end.
Definition uval_len (u : uval) : res nat :=
  match u with URow l => Ok (List.length l) | UStr s => Ok (String.length s) | UScalar _ => Err "TypeError" end.
Definition uval_items (u : uval) : res (list pv) :=
  match u with URow l => Ok l | UStr s => Ok (chars_of s) | UScalar _ => Err "TypeError" end.

Definition ures : Type := db * option string.       (* state afterwards, exception raised *)

Definition int_of_val (v : pyv) : res Z :=
  match v with PV (VInt z) => Ok z | _ => out_of_model end.

(* pdb2sqlcore.py:589-669 *)
Fixpoint update_model (fuel : nat) (d : db) (columns : string) (values : list uval)
         (tablename : string) (kw : conds) : ures :=
  match fuel with
  | O => (d, Some "RecursionError")
  | S f =>
    if negb (table_name_ok tablename) then (d, Some "OutOfModel") else
    match valid_colnames d with Err e => (d, Some e) | Ok valid =>
    (* 612-617 : no strip here *)
    if (negb (String.eqb columns "*") && negb (forallb (fun i => mem_str i valid) (split_comma columns)))%bool
    then (d, Some "ValueError") else
    (* 622-627 *)
    if (negb (has_key "model" kw) && Nat.ltb 0 (nmodel d))%bool then
      fold_left (fun (st : ures) i =>
                   match st with
                   | (d1, Some e) => (d1, Some e)
                   | (d1, None) => update_model f d1 columns values tablename
                                      (dict_set "model" (CScalar (PInt (Z.of_nat i))) kw)
                   end)
                (seq 0 (nmodel d)) (d, None)
    else
    (* 630-634 *)
    let cols := if has_char ","%char columns then split_comma columns else [columns] in
    (* 637-643 *)
    match values with
    | [] => (d, Some "IndexError")
    | v0 :: _ =>
      match uval_len v0 with Err e => (d, Some e) | Ok ncol =>
      if negb (Nat.eqb (List.length cols) ncol) then (d, Some "ValueError") else
      (* 646-651 *)
      match get_model (get_fuel kw) d "rowID" tablename kw with
      | Err e => (d, Some e)
      | Ok rowID =>
        if negb (Nat.eqb (List.length rowID) (List.length values)) then (d, Some "ValueError") else
        (* 659-667 : data rows are built before the statement runs *)
        match mapM uval_items values, mapM int_of_val rowID with
        | Err e, _ => (d, Some e)
        | _, Err e => (d, Some e)
        | Ok items, Ok rids =>
          match find_table tablename (tables d) with
          | None => (d, Some "sqlite3.Error")
          | Some t =>
            match set_list t cols with
            | Err e => (d, Some e)
            | Ok cis =>
              let '(t', e) := exec_many t cis (combine items (map (fun z => z + 1) rids)) in
              (mkDb (set_table tablename t' (tables d)) (nmodel d), e)
            end
          end
        end
      end
      end
    end
    end
  end.
Definition update_top (d : db) (columns : string) (values : list uval) (tablename : string) (kw : conds) : ures :=
  update_model 2 d columns values tablename kw.

(* pdb2sql_base.py:124-126 *)
Definition update_xyz_top (d : db) (xyz : list uval) (tablename : string) (kw : conds) : ures :=
  update_top d "x,y,z" xyz tablename kw.

(* pdb2sqlcore.py:671-693 *)
Definition index_val (v : pv) : res Z :=
  match v with PInt z => Ok (z + 1) | _ => out_of_model end.
Fixpoint zip_idx (values : list pv) (index : list pv) : res (list (list pv * Z)) :=
  match values, index with
  | v :: vs, i :: is_ => do z <- index_val i; do r <- zip_idx vs is_; Ok (([v], z) :: r)
  | _, _ => Ok []
  end.
Fixpoint enum_idx (values : list pv) (i : Z) : list (list pv * Z) :=
  match values with [] => [] | v :: vs => ([v], i + 1) :: enum_idx vs (i + 1) end.
Definition update_column_model (d : db) (colname : string) (values : list pv)
           (index : option (list pv)) (tablename : string) : ures :=
  if negb (table_name_ok tablename) then (d, Some "OutOfModel") else
  match (match index with None => Ok (enum_idx values 0) | Some ix => zip_idx values ix end) with
  | Err e => (d, Some e)
  | Ok data =>
    match find_table tablename (tables d) with
    | None => (d, Some "sqlite3.Error")
    | Some t =>
      match set_list t [colname] with
      | Err e => (d, Some e)
      | Ok cis =>
        let '(t', e) := exec_many t cis data in
        (mkDb (set_table tablename t' (tables d)) (nmodel d), e)
      end
    end
  end.

(* pdb2sqlcore.py:695-710 : ALTER TABLE t ADD COLUMN 'c' type DEFAULT str(value) *)
Definition default_literal (v : pv) : res pv :=
  match v with
  | PNone => Ok (PStr "None")                       (* str(None), read as an identifier *)
  | PInt z => Ok (PInt z)
  | PFloat q => Ok (PFloat q)
  | PStr s => if plain_ident s then Ok (PStr s)
              else if (str_nonempty s && all_digits s && Nat.leb (String.length s) 15)%bool
                   then Ok (PInt (digits_val 0 s))
              else out_of_model
  end.
Definition add_column_model (d : db) (colname coltype : string) (value : pv) (tablename : string) : ures :=
  if negb (table_name_ok tablename && plain_ident colname && negb (is_rowid_alias colname)
           && (String.eqb coltype "" || plain_ident coltype))%bool then (d, Some "OutOfModel") else
  match find_table tablename (tables d) with
  | None => (d, Some "sqlite3.Error")
  | Some t =>
    match find_ci colname (tcols t) 0 with
    | Some _ => (d, Some "sqlite3.Error")           (* duplicate column name *)
    | None =>
      match (do lit <- default_literal value;
             (* a string default keeps its text whatever the affinity unless it is numeric text:
                identifiers are never numeric, so only numbers are converted *)
             default_store (affinity_of_decl coltype) lit) with
      | Err e => (d, Some e)
      | Ok x =>
        let t' := mkTable (tcols t ++ [(colname, coltype)])%list (map (fun r : row => (r ++ [x])%list) (trows t)) in
        (mkDb (set_table tablename t' (tables d)) (nmodel d), None)
      end
    end
  end.

(* ------------------------------------------------------------------ *)
(* ordering of Python str (code points) *)
Fixpoint str_leb (a b : string) : bool :=
  match a, b with
  | EmptyString, _ => true
  | String _ _, EmptyString => false
  | String x s, String y t =>
    if Nat.ltb (nat_of_ascii x) (nat_of_ascii y) then true
    else if Nat.ltb (nat_of_ascii y) (nat_of_ascii x) then false
    else str_leb s t
  end.
Definition text_of (v : pyv) : res string :=
  match v with PV (VText s) => Ok s | _ => out_of_model end.
Definition sorted_set (l : list string) : list string :=
  sort_by str_leb (dedup_keep_first String.eqb l).

(* pdb2sqlcore.py:303-327 *)
Definition upper_letters : list string :=
  ["A";"B";"C";"D";"E";"F";"G";"H";"I";"J";"K";"L";"M";"N";"O";"P";"Q";"R";"S";"T";"U";"V";"W";"X";"Y";"Z"].
Fixpoint fix_fill (d : db) (chains : list string) (letters : list string) (newID : list pv) : res (list pv) :=
  match chains, letters with
  | c :: cs, l :: ls =>
    do index <- get_top d "rowID" "ATOM" [("chainID", CScalar (PStr c))];
    do idx <- mapM int_of_val index;
    fix_fill d cs ls (fold_left (fun acc z => set_nth (Z.to_nat z) (PStr l) acc) idx newID)
  | _, _ => Ok newID
  end.
Definition fix_chainID_model (d : db) : ures :=
  if Nat.ltb 0 (nmodel d) then (d, Some "OutOfModel") else
  match (do ch <- get_top d "chainID" "ATOM" []; mapM text_of ch) with
  | Err e => (d, Some e)
  | Ok chainID =>
    let natom := List.length chainID in
    let chains := sorted_set chainID in
    if Nat.ltb 26 (List.length chains) then (d, Some "SystemExit") else
    match fix_fill d chains upper_letters (repeat (PStr "") natom) with
    | Err e => (d, Some e)
    | Ok newID => update_column_model d "chainID" newID None "ATOM"
    end
  end.

(* ------------------------------------------------------------------ *)
(* views (pdb2sql_base.py:91-119) and get_all (many2sql.py:117-131) *)
Definition get_xyz_model (d : db) (tablename : string) (kw : conds) : res (list pyv) :=
  get_top d "x,y,z" tablename kw.

Definition val_py_eqb (a b : val) : bool :=          (* Python == on the values read back *)
  match a, b with
  | VNull, VNull => true
  | _, _ => val_sql_eq a b
  end.
Fixpoint pyv_eqb_row (a b : list val) : bool :=
  match a, b with
  | [], [] => true
  | x :: s, y :: t => (val_py_eqb x y && pyv_eqb_row s t)%bool
  | _, _ => false
  end.
Definition row_of (v : pyv) : res (list val) :=
  match v with
  | PL l => mapM (fun x => match x with PV y => Ok y | _ => out_of_model end) l
  | _ => out_of_model
  end.
Definition get_residues_model (d : db) (tablename : string) (kw : conds) : res (list (list val)) :=
  if Nat.ltb 0 (nmodel d) then out_of_model else
  do res <- get_top d "chainID,resName,resSeq" tablename kw;
  do rows <- mapM row_of res;
  Ok (dedup_keep_first pyv_eqb_row rows).
Definition get_chains_model (d : db) (tablename : string) (kw : conds) : res (list string) :=
  if Nat.ltb 0 (nmodel d) then out_of_model else
  do ch <- get_top d "chainID" tablename kw;
  do names <- mapM text_of ch;
  Ok (sorted_set names).

Definition get_all_model (d : db) (columns : string) (kw : conds) : res (list pyv) :=
  mapM (fun nt : string * table => do o <- get_top d columns (fst nt) kw; Ok (PL o)) (tables d).

(* ------------------------------------------------------------------ *)
(* operations of a history *)
Inductive op :=
| OpUpdate (columns : string) (values : list uval) (tablename : string) (kw : conds)
| OpUpdateColumn (colname : string) (values : list pv) (index : option (list pv)) (tablename : string)
| OpUpdateXyz (xyz : list uval) (tablename : string) (kw : conds)
| OpAddColumn (colname coltype : string) (value : pv) (tablename : string)
| OpFixChainID.
Definition model_step (d : db) (o : op) : ures :=
  match o with
  | OpUpdate c v t kw => update_top d c v t kw
  | OpUpdateColumn c v ix t => update_column_model d c v ix t
  | OpUpdateXyz v t kw => update_xyz_top d v t kw
  | OpAddColumn c ty v t => add_column_model d c ty v t
  | OpFixChainID => fix_chainID_model d
  end.
