(* Proofs_sql_chunk3.v — C17, error side: when the pieces of the conditions together exceed 999
   values the model raises the documented ValueError (outside F10, and outside F21: no numeric /
   None scalar among the conditions), for every list length. *)
From Coq Require Import Lia.
From Verif Require Import PyLib ModelTypes Generated_parse Model_sqlval Model_sql Spec_sql
  Proofs_sql_base Proofs_sql_get Proofs_sql_chunk Proofs_sql_chunk2.
Open Scope string_scope.
Open Scope list_scope.

Lemma limit_error_app a b :
  limit_error (a ++ b) = if String.eqb (limit_error a) "ValueError" then limit_error b else limit_error a.
Proof.
  induction a as [|[k v] t IH]; cbn [app limit_error]; [reflexivity|].
  destruct v as [x|l]; [destruct x|]; try reflexivity; exact IH.
Qed.
Lemma limit_error_replace kw1 kw2 k l c :
  limit_error (kw1 ++ (k, CList c) :: kw2) = limit_error (kw1 ++ (k, CList l) :: kw2).
Proof. rewrite !limit_error_app. reflexivity. Qed.

Section TooMany.
Variables (d : db) (columns tn : string) (t : table) (sel : list cref).
Hypothesis Ht : find_table tn (tables d) = Some t.
Hypothesis Hwf : wf_table t = true.
Hypothesis Hsame : same_colnames d t = true.
Hypothesis Hsel : spec_attrs t columns = Ok sel.

Lemma get_too_many : forall n kw f,
  (nlong kw <= n)%nat -> (n <= f)%nat ->
  keys_plain kw = true -> nodup_keys kw = true -> f10_class kw = false ->
  (exists cs, spec_conds d tn kw = Ok (t, cs)) ->
  Z.ltb sql_limit_src (spec_total kw) = true -> limit_error kw = "ValueError" ->
  get_model (S f) d columns tn kw = Err "ValueError".
Proof.
  induction n as [|n' IH]; intros kw f Hnl Hnf Hkeys Hnd Hf10 (cs & Htc) Hlim Hle;
    destruct (spec_conds_inv _ _ _ _ Htc) as (Htn & t' & cs' & E & Ht' & Hnames & Hnm & Hcs);
    inversion E; subst t' cs'; clear E Ht';
    destruct (first_long kw) as [[k l]|] eqn:FL.
  2,4: (* no long list: the loop completes and the limit check fires *)
    pose proof (no_first_long_short kw FL Hf10) as Hshort;
    cbn [get_model]; rewrite Htn; cbn [negb];
    (assert (Hv : exists valid, valid_colnames d = Ok valid)
      by (unfold valid_colnames; unfold same_colnames in Hsame; destruct (tables d) as [|[n0 t0] r]; [discriminate|eauto]));
    destruct Hv as (valid & Hv); rewrite Hv; cbn [bind];
    rewrite (check_columns_ok d t columns sel valid Hsame Hv Hsel); cbn [bind];
    rewrite Hnm; rewrite Bool.andb_false_r; rewrite Ht;
    (destruct kw as [|c0 kwr] eqn:Ekw0; [cbn in Hlim; discriminate|]); rewrite <- Ekw0 in *; clear Ekw0 c0 kwr;
    rewrite (check_keys_ok t kw Hwf Hkeys Hnames); cbn [bind];
    rewrite (cond_loop_done kw [] Hshort (rowid_vals_int_of_spec t kw cs Hcs)); cbn [rev app];
    rewrite (total_vals_items kw Hshort); unfold sql_limit; rewrite Hlim; rewrite Hle; reflexivity.
  1,2: destruct (first_long_split kw k l FL Hnd) as (kw1 & kw2 & Ekw & Hs1 & Hkpos & Hlong & Hh1).
  - exfalso. rewrite Ekw in Hnl. rewrite nlong_app in Hnl. cbn [nlong] in Hnl. rewrite Hlong in Hnl. lia.
  - (* a long list: the first piece already fails *)
    assert (Hlen : (n950 < List.length l)%nat).
    { cbn [long_list] in Hlong. apply Z.ltb_lt in Hlong. unfold n950, max_sql_values_src in *. lia. }
    destruct (chunks_first n950 l Hlen) as (rest & Hch).
    set (c1 := firstn n950 l) in *.
    set (kwc := kw1 ++ (k, CList c1) :: kw2).
    assert (Hdict : dict_set k (CList c1) kw = kwc) by (rewrite Ekw; apply dict_set_split; exact Hh1).
    rewrite Ekw in Hcs. apply mapM_app in Hcs. destruct Hcs as (cs1 & cs0 & Hcs1 & Hcs0 & ->).
    cbn [mapM] in Hcs0. apply bind_Ok_inv in Hcs0. destruct Hcs0 as (s & Hs & Hcs0).
    apply bind_Ok_inv in Hcs0. destruct Hcs0 as (cs2 & Hcs2 & Hcs0). apply res_Ok_inj in Hcs0. subst cs0.
    rewrite <- (firstn_skipn n950 l) in Hs. fold c1 in Hs.
    apply spec_cond_app in Hs. destruct Hs as (va & vb & Ha & _ & _).
    assert (Hc1 : List.length c1 = n950) by (unfold c1; rewrite firstn_length; lia).
    cbn [get_model]. rewrite Htn. cbn [negb].
    assert (Hv : exists valid, valid_colnames d = Ok valid).
    { unfold valid_colnames. unfold same_colnames in Hsame. destruct (tables d) as [|[n0 t0] r]; [discriminate|eauto]. }
    destruct Hv as (valid & Hv). rewrite Hv. cbn [bind].
    rewrite (check_columns_ok d t columns sel valid Hsame Hv Hsel). cbn [bind].
    rewrite Hnm. rewrite Bool.andb_false_r. rewrite Ht.
    destruct kw as [|c0 kwr] eqn:Ekw0; [destruct kw1; discriminate|]. rewrite <- Ekw0 in *. clear Ekw0 c0 kwr.
    rewrite (check_keys_ok t kw Hwf Hkeys Hnames). cbn [bind].
    rewrite Ekw at 1.
    rewrite (cond_loop_chunk kw1 k l kw2 [] Hs1 (rowid_vals_int_of_spec t kw1 cs1 Hcs1) Hkpos Hlong).
    destruct f as [|f']; [lia|].
    assert (Hrec : get_model (S f') d columns tn kwc = Err "ValueError").
    { apply (IH kwc f').
      - rewrite Ekw in Hnl. unfold kwc. rewrite nlong_app in *. cbn [nlong] in *. rewrite Hlong in Hnl.
        assert (long_list (CList c1) = false) as ->.
        { cbn [long_list]. apply Z.ltb_ge. rewrite Hc1. unfold n950, max_sql_values_src. lia. }
        lia.
      - lia.
      - unfold kwc. rewrite <- (keys_plain_replace kw1 kw2 k (CList l)). rewrite <- Ekw. exact Hkeys.
      - unfold kwc. rewrite <- (nodup_keys_replace kw1 kw2 k (CList l)). rewrite <- Ekw. exact Hnd.
      - rewrite Ekw in Hf10. unfold kwc. rewrite f10_class_app in *. unfold f10_class at 2. unfold f10_class at 2 in Hf10.
        cbn [existsb fst snd] in *. rewrite Hkpos in *. cbn [andb] in *. exact Hf10.
      - exists (cs1 ++ (fst s, va) :: cs2). unfold spec_conds. rewrite Htn, Ht. cbn [negb].
        assert (spec_names_ok t kwc = true) as ->.
        { unfold kwc. rewrite Ekw in Hnames. rewrite spec_names_ok_app in *. exact Hnames. }
        cbn [negb]. rewrite Hnm. cbn.
        unfold kwc. rewrite (mapM_app_ok _ _ _ cs1 ((fst s, va) :: cs2) Hcs1); [reflexivity|].
        cbn [mapM]. rewrite Ha. cbn [bind]. rewrite Hcs2. reflexivity.
      - rewrite Ekw in Hlim. unfold kwc. apply Z.ltb_lt. apply Z.ltb_lt in Hlim.
        rewrite spec_total_app in *. unfold spec_total at 2. unfold spec_total at 2 in Hlim.
        cbn [fold_right snd spec_values] in *. fold (spec_total kw2) in *.
        rewrite Hc1. unfold n950, max_sql_values_src in *. lia.
      - unfold kwc. rewrite (limit_error_replace kw1 kw2 k l c1). rewrite <- Ekw. exact Hle. }
    rewrite Hch. cbn [mapM]. rewrite Hdict. rewrite Hrec. reflexivity.
Qed.
End TooMany.

(* C17, error side, every list length *)
Theorem outside_findings_err d columns tn kw t :
  find_table tn (tables d) = Some t ->
  wf_table t = true -> same_colnames d t = true ->
  keys_plain kw = true -> nodup_keys kw = true -> f10_class kw = false ->
  limit_error kw = "ValueError" ->                       (* exclusion of finding F21 *)
  (exists sel, spec_attrs t columns = Ok sel) -> (exists cs, spec_conds d tn kw = Ok (t, cs)) ->
  Z.ltb sql_limit_src (spec_total kw) = true ->
  spec_get d columns tn kw = Err "ValueError" /\ get_top d columns tn kw = Err "ValueError".
Proof.
  intros Ht Hwf Hs Hk Hnd H10 Hle (sel & Hsel) (cs & Hcs) Hlim. split.
  - unfold spec_get. destruct (spec_conds_inv _ _ _ _ Hcs) as (Htn & _). rewrite Htn, Ht. cbn [negb].
    rewrite Hsel. cbn [bind]. rewrite Hcs. cbn [bind]. rewrite Hlim. reflexivity.
  - unfold get_top, get_fuel. replace (List.length kw + 3)%nat with (S (List.length kw + 2)) by lia.
    eapply (get_too_many d columns tn t sel Ht Hwf Hs Hsel (List.length kw)); eauto.
    + apply nlong_le_length.
    + lia.
Qed.

