(* Proofs_sql_get2.v — C03: consequences of get_exact: a scalar acts as a one-element list,
   rowID is the zero-based position, unknown names are rejected. *)
From Coq Require Import Lia.
From Verif Require Import PyLib ModelTypes Generated_parse Model_sqlval Model_sql Spec_sql Proofs_sql_base Proofs_sql_get.
Open Scope string_scope.

(* ------------------------------------------------------------------ *)
(* scalar = one-element list *)
Definition as_lists (kw : conds) : conds := map (fun c : string * cval => (fst c, CList (spec_values (snd c)))) kw.

Lemma spec_get_as_lists d columns tablename kw :
  spec_get d columns tablename (as_lists kw) = spec_get d columns tablename kw.
Proof.
  unfold spec_get, spec_conds.
  assert (N : forall t, spec_names_ok t (as_lists kw) = spec_names_ok t kw).
  { intro t. unfold spec_names_ok, as_lists. rewrite forallb_map. reflexivity. }
  assert (M : forall t, mapM (spec_cond t) (as_lists kw) = mapM (spec_cond t) kw).
  { intro t. unfold as_lists. rewrite mapM_map. apply mapM_ext. intros [k v]. reflexivity. }
  assert (T : spec_total (as_lists kw) = spec_total kw).
  { clear N M. unfold spec_total, as_lists. induction kw as [|c r IH]; [reflexivity|]. cbn [map fold_right]. rewrite IH. reflexivity. }
  rewrite T.
  destruct (table_name_ok tablename); [|reflexivity]. cbn [negb].
  destruct (find_table tablename (tables d)) as [t|]; [|reflexivity].
  rewrite N, M. reflexivity.
Qed.

Lemma keys_plain_as_lists kw : keys_plain (as_lists kw) = keys_plain kw.
Proof. unfold keys_plain, as_lists. rewrite forallb_map. reflexivity. Qed.
Lemma short_lists_as_lists kw : short_lists kw = true -> short_lists (as_lists kw) = true.
Proof.
  unfold short_lists, as_lists. rewrite forallb_map. intro H.
  apply forallb_forall. intros [k v] Hin. cbn [snd fst].
  rewrite forallb_forall in H. specialize (H _ Hin). cbn [snd] in H.
  destruct v; [reflexivity|exact H].
Qed.

Theorem scalar_is_singleton d columns tablename kw out t :
  find_table tablename (tables d) = Some t ->
  wf_table t = true -> same_colnames d t = true ->
  cols_rowid_ok columns = true -> keys_plain kw = true -> short_lists kw = true ->
  spec_get d columns tablename kw = Ok out ->
  get_top d columns tablename kw = Ok out /\ get_top d columns tablename (as_lists kw) = Ok out.
Proof.
  intros Ht Hwf Hs Hc Hk Hsh Hspec. split.
  - eapply get_exact; eassumption.
  - eapply get_exact; try eassumption.
    + rewrite keys_plain_as_lists; exact Hk.
    + apply short_lists_as_lists; exact Hsh.
    + rewrite spec_get_as_lists; exact Hspec.
Qed.

(* ------------------------------------------------------------------ *)
(* unknown names are rejected *)
Definition rejection (e : string) : Prop := e = "ValueError" \/ e = "sqlite3.Error" \/ e = "OutOfModel".

Lemma check_keys_rejects t kw : wf_table t = true -> keys_plain kw = true ->
  spec_names_ok t kw = false -> exists e, check_keys (Some t) kw = Err e /\ rejection e.
Proof.
  intros Hwf. destruct (wf_split t Hwf) as [Hw Hnd].
  induction kw as [|[k0 v] rest IH]; intros Hk Hn; [discriminate|].
  unfold keys_plain in Hk. cbn [forallb fst] in Hk. apply andb_prop in Hk; destruct Hk as [Hk Hks].
  unfold spec_names_ok in Hn. cbn [forallb fst] in Hn.
  cbn [check_keys]. rewrite (key_of_snd k0).
  destruct (spec_cond_attr t (snd (key_of k0))) as [cr|] eqn:E.
  - rewrite (key_resolve t k0 cr Hwf Hk E). cbn [bind]. apply IH; [exact Hks|exact Hn].
  - unfold resolve_name. pose proof Hk as Hk'. unfold key_plain in Hk'.
    apply andb_prop in Hk'; destruct Hk' as [Hid Hal]. rewrite Hid. cbn [negb].
    unfold spec_cond_attr in E.
    destruct (ci_eqb (snd (key_of k0)) "rowID") eqn:C; [discriminate|].
    destruct (find_ci (snd (key_of k0)) (tcols t) 0); [discriminate|].
    destruct (is_rowid_alias (snd (key_of k0))) eqn:A.
    + cbn in Hal. apply String.eqb_eq in Hal. rewrite Hal in C. discriminate.
    + destruct (existsb _ special_literals).
      * cbn. eexists; split; [reflexivity|]. unfold rejection; auto.
      * cbn. eexists; split; [reflexivity|]. unfold rejection; auto.
Qed.

Lemma check_columns_rejects d t columns valid :
  same_colnames d t = true -> valid_colnames d = Ok valid ->
  spec_attrs t columns = Err "Rejected" -> check_columns_get valid columns = Err "ValueError".
Proof.
  intros Hs Hv H. unfold same_colnames in Hs. unfold valid_colnames in Hv.
  destruct (tables d) as [|[n0 t0] rest]; [discriminate|].
  apply list_beq_str_eq in Hs. apply res_Ok_inj in Hv. subst valid. rewrite Hs.
  unfold check_columns_get. unfold spec_attrs in H.
  destruct (String.eqb columns "*"); [discriminate|].
  assert (X : forallb (fun i => mem_str (strip i) ("rowID" :: map fst (tcols t))) (split_comma columns) = false).
  { induction (split_comma columns) as [|p ps IH]; [discriminate|].
    cbn [mapM] in H. cbn [forallb].
    destruct (spec_req_attr t (strip p)) as [c|] eqn:F.
    - cbn [bind] in H. rewrite IH; [apply Bool.andb_false_r|].
      destruct (mapM _ ps); [discriminate|]. exact H.
    - assert (Y : mem_str (strip p) ("rowID" :: map fst (tcols t)) = false).
      { destruct (mem_str (strip p) ("rowID" :: map fst (tcols t))) eqn:Y; [|reflexivity].
        apply mem_str_In in Y. unfold spec_req_attr in F. destruct Y as [Y|Y].
        - rewrite <- Y in F. cbn in F. discriminate.
        - destruct (String.eqb (strip p) "rowID"); [discriminate|].
          exfalso. clear - Y F. revert F. generalize 0%nat.
          induction (tcols t) as [|[c ty] l IH]; [destruct Y|]. intro n. cbn [find_exact].
          destruct (String.eqb (strip p) c) eqn:G; [discriminate|].
          destruct Y as [Y|Y]; [cbn in Y; subst c; rewrite String.eqb_refl in G; discriminate|].
          apply IH; exact Y. }
      rewrite Y. reflexivity. }
  rewrite X. reflexivity.
Qed.

Theorem unknown_rejected d columns tablename kw :
  tables d <> [] -> nmodel d = 0%nat ->
  (forall t, find_table tablename (tables d) = Some t -> wf_table t = true /\ same_colnames d t = true) ->
  keys_plain kw = true ->
  spec_get d columns tablename kw = Err "Rejected" ->
  forall f, exists e, get_model (S f) d columns tablename kw = Err e /\ rejection e.
Proof.
  intros Hne Hnm Hall Hkeys Hspec f.
  unfold spec_get in Hspec.
  destruct (table_name_ok tablename) eqn:Htn; [|discriminate]. cbn [negb] in Hspec.
  cbn [get_model]. rewrite Htn. cbn [negb].
  assert (Hv : exists valid, valid_colnames d = Ok valid).
  { unfold valid_colnames. destruct (tables d) as [|[n0 t0] r]; [congruence|eauto]. }
  destruct Hv as (valid & Hv). rewrite Hv. cbn [bind].
  rewrite Hnm. 
  destruct (find_table tablename (tables d)) as [t|] eqn:Ht.
  - destruct (Hall t eq_refl) as [Hwf Hsame].
    destruct (spec_attrs t columns) as [sel|e] eqn:Hsel.
    + cbn [bind] in Hspec.
      rewrite (check_columns_ok d t columns sel valid Hsame Hv Hsel). cbn [bind].
      rewrite Bool.andb_false_r.
      unfold spec_conds in Hspec. rewrite Htn, Ht in Hspec. cbn [negb] in Hspec.
      destruct (spec_names_ok t kw) eqn:Hn.
      * cbn [negb] in Hspec. rewrite Hnm in Hspec. cbn in Hspec.
        destruct (mapM (spec_cond t) kw) as [cs|e] eqn:Hcs.
        -- cbn in Hspec. destruct (Z.ltb sql_limit_src (spec_total kw)); discriminate.
        -- cbn in Hspec. exfalso. (* a condition itself is never "Rejected" once the names are known *)
           clear - Hn Hcs Hspec. inversion Hspec; subst e.
           revert Hn Hcs. unfold spec_names_ok. induction kw as [|c r IH]; [discriminate|].
           cbn [forallb mapM]. intros Hn Hcs. apply andb_prop in Hn. destruct Hn as [Hc Hr].
           destruct (spec_cond t c) as [s|e] eqn:E.
           ++ cbn [bind] in Hcs. destruct (mapM (spec_cond t) r) eqn:M; [discriminate|].
              cbn in Hcs. apply IH; [exact Hr|]. exact Hcs.
           ++ cbn in Hcs. inversion Hcs; subst e. unfold spec_cond in E.
              rewrite (key_of_snd (fst c)) in E.
              destruct (spec_cond_attr t (snd (key_of (fst c)))) as [cr|]; [|discriminate].
              destruct cr; cbv beta iota in E; unfold unspecified, out_of_model in E.
              ** destruct (negb (forallb is_pint _)); [discriminate|].
                 destruct (negb (forallb rowid_in_model _)); [discriminate|].
                 destruct (mapM (cmp_operand _) _) eqn:Q; [cbn in E; discriminate|]. cbn in E. inversion E; subst.
                 clear - Q. induction (spec_values (snd c)) as [|v l IHl]; [discriminate|].
                 cbn [mapM] in Q. destruct v; cbn in Q.
                 --- destruct (int_in_range z); cbn in Q; [|discriminate].
                     destruct (mapM _ l); [discriminate|]. apply IHl. cbn in Q. exact Q.
                 --- destruct (mapM _ l); [discriminate|]. apply IHl. cbn in Q. exact Q.
                 --- destruct (sql_numeric_text s); cbn in Q; try discriminate;
                     (destruct (mapM _ l); [discriminate|]; apply IHl; cbn in Q; exact Q).
                 --- destruct (mapM _ l); [discriminate|]. apply IHl. cbn in Q. exact Q.
              ** destruct (mapM (cmp_operand _) _) eqn:Q; [cbn in E; discriminate|]. cbn in E. inversion E; subst.
                 clear - Q. set (a := col_aff t (CCol i)) in *. clearbody a.
                 induction (spec_values (snd c)) as [|v l IHl]; [discriminate|].
                 cbn [mapM] in Q. destruct v; cbn in Q.
                 --- destruct (int_in_range z); cbn in Q; [|discriminate].
                     destruct a; cbn in Q; (destruct (mapM _ l); [discriminate|]; apply IHl; cbn in Q; exact Q).
                 --- destruct a; cbn in Q; try discriminate; (destruct (mapM _ l); [discriminate|]; apply IHl; cbn in Q; exact Q).
                 --- destruct (aff_numeric a); [destruct (sql_numeric_text s)|]; cbn in Q; try discriminate;
                     (destruct (mapM _ l); [discriminate|]; apply IHl; cbn in Q; exact Q).
                 --- destruct (mapM _ l); [discriminate|]. apply IHl. cbn in Q. exact Q.
      * destruct kw as [|c0 kw']; [discriminate|].
        destruct (check_keys_rejects t (c0 :: kw') Hwf Hkeys Hn) as (e & He & Re).
        rewrite He. cbn [bind]. eauto.
    + cbn [bind] in Hspec. inversion Hspec; subst e.
      rewrite (check_columns_rejects d t columns valid Hsame Hv Hsel). cbn [bind].
      eexists; split; [reflexivity|]. unfold rejection; auto.
  - (* unknown table *)
    destruct (check_columns_get valid columns) as [[]|e] eqn:Hc.
    + cbn [bind]. rewrite Bool.andb_false_r.
      destruct kw as [|[k0 v] kw'].
      * eexists; split; [reflexivity|]. unfold rejection; auto.
      * cbn [check_keys]. rewrite (key_of_snd k0). cbn [bind].
        eexists; split; [reflexivity|]. unfold rejection; auto.
    + cbn [bind]. unfold check_columns_get in Hc.
      destruct (String.eqb columns "*"); [discriminate|].
      destruct (forallb _ _); [discriminate|]. inversion Hc; subst.
      eexists; split; [reflexivity|]. unfold rejection; auto.
Qed.
