(* Proofs_superpose.v — C13 *)
From Coq Require Import Lia Lqa.
From Verif Require Import PyLib ModelTypes Model_many Model_store Model_superpose Spec_superpose.
Open Scope Q_scope.

Definition veq (a b : vec) : Prop :=
  let '(a1, a2, a3) := a in let '(b1, b2, b3) := b in a1 == b1 /\ a2 == b2 /\ a3 == b3.

Ltac dvec v := let a := fresh "x" in let b := fresh "y" in let c := fresh "z" in destruct v as [[a b] c].
Ltac dmat m := let r1 := fresh "r" in let r2 := fresh "r" in let r3 := fresh "r" in
  destruct m as [[r1 r2] r3]; dvec r1; dvec r2; dvec r3.

(* one and the same rigid motion x |-> R x + t for every atom, t = mean(target sel) - R mean(mobile sel) *)
Theorem superpose_is_one_affine_map rmat pm pt xyz :
  let t := vsub (mean pt) (mv rmat (mean pm)) in
  Forall2 veq (superpose_selection rmat pm pt xyz) (map (fun x => vadd (mv rmat x) t) xyz).
Proof.
  intro t. unfold superpose_selection. subst t.
  set (cm := mean pm). set (ct := mean pt).
  induction xyz as [|x xs IH]; cbn [map]; constructor; [|exact IH].
  dmat rmat. dvec x. dvec cm. dvec ct. cbn -[Qred Qplus Qmult Qminus Qopp Qdiv Qinv]. rewrite ?Qred_correct. repeat split; ring.
Qed.

(* exact orthogonality: columns orthonormal (M^T M = I) *)
Definition orthogonal (m : mat) : Prop :=
  let '((a, b, c), (d, e, f), (g, h, i)) := m in
  a*a + d*d + g*g == 1 /\ b*b + e*e + h*h == 1 /\ c*c + f*f + i*i == 1 /\
  a*b + d*e + g*h == 0 /\ a*c + d*f + g*i == 0 /\ b*c + e*f + h*i == 0.

Lemma orthogonal_preserves_norm m v : orthogonal m -> norm2 (mv m v) == norm2 v.
Proof.
  dmat m. dvec v. cbn -[Qred Qplus Qmult Qminus Qopp Qdiv Qinv]. rewrite ?Qred_correct. intros [H1 [H2 [H3 [H4 [H5 H6]]]]].
  setoid_replace ((x * x2 + y * y2 + z * z2) * (x * x2 + y * y2 + z * z2) +
   (x0 * x2 + y0 * y2 + z0 * z2) * (x0 * x2 + y0 * y2 + z0 * z2) +
   (x1 * x2 + y1 * y2 + z1 * z2) * (x1 * x2 + y1 * y2 + z1 * z2))
  with ((x*x + x0*x0 + x1*x1) * (x2*x2) + (y*y + y0*y0 + y1*y1) * (y2*y2) + (z*z + z0*z0 + z1*z1) * (z2*z2)
        + 2 * (x*y + x0*y0 + x1*y1) * (x2*y2) + 2 * (x*z + x0*z0 + x1*z1) * (x2*z2) + 2 * (y*z + y0*z0 + y1*z1) * (y2*z2)) by ring.
  rewrite H1, H2, H3, H4, H5, H6. ring.
Qed.

Lemma mv_sub m a b : veq (mv m (vsub a b)) (vsub (mv m a) (mv m b)).
Proof. dmat m. dvec a. dvec b. cbn -[Qred Qplus Qmult Qminus Qopp Qdiv Qinv]. rewrite ?Qred_correct. repeat split; ring. Qed.

Lemma norm2_veq a b : veq a b -> norm2 a == norm2 b.
Proof. dvec a. dvec b. cbn -[Qred Qplus Qmult Qminus Qopp Qdiv Qinv]. rewrite ?Qred_correct. intros [H1 [H2 H3]]. rewrite H1, H2, H3. reflexivity. Qed.

(* all distances within the moved structure are preserved *)
Theorem superpose_preserves_distances rmat pm pt a b :
  orthogonal rmat ->
  let f := fun x => vadd (mv rmat (vsub x (mean pm))) (mean pt) in
  norm2 (vsub (f a) (f b)) == norm2 (vsub a b).
Proof.
  intros Ho f. subst f. cbv beta.
  rewrite <- (orthogonal_preserves_norm rmat (vsub a b) Ho).
  apply norm2_veq.
  set (cm := mean pm). set (ct := mean pt).
  dmat rmat. dvec a. dvec b. dvec cm. dvec ct. cbn -[Qred Qplus Qmult Qminus Qopp Qdiv Qinv]. rewrite ?Qred_correct. repeat split; ring.
Qed.

(* the deviation left on the paired atoms is the kernel's residual on the centred sets *)
Theorem resid_after_superposition rmat pm pt :
  resid (superpose_selection rmat pm pt pm) pt == resid (map (mv rmat) (centred pm)) (centred pt).
Proof.
  unfold superpose_selection, centred, resid.
  set (cm := mean pm). set (ct := mean pt). clearbody cm ct.
  revert pt. induction pm as [|p ps IH]; intro pt; [reflexivity|].
  destruct pt as [|q qs]; [reflexivity|].
  cbn [map combine fold_right fst snd]. rewrite (IH qs).
  apply Qplus_comp; [|reflexivity].
  apply norm2_veq. dmat rmat. dvec p. dvec q. dvec cm. dvec ct. cbn -[Qred Qplus Qmult Qminus Qopp Qdiv Qinv]. rewrite ?Qred_correct. repeat split; ring.
Qed.

(* frame: nothing but x, y, z of the mobile structure is written; count and order unchanged *)
Lemma nth_map_combine_seq (g : nat * val -> val) : forall l k i,
  nth i (map g (combine (seq k (List.length l)) l)) VNull =
  if Nat.ltb i (List.length l) then g ((k + i)%nat, nth i l VNull) else VNull.
Proof.
  induction l as [|c t IH]; intros k i; cbn [List.length seq combine map].
  - destruct i; reflexivity.
  - destruct i as [|i]; cbn [nth].
    + replace (k + 0)%nat with k by lia. reflexivity.
    + rewrite IH. replace (S k + i)%nat with (k + S i)%nat by lia.
      change (Nat.ltb (S i) (S (List.length t))) with (Nat.ltb i (List.length t)). reflexivity.
Qed.

Lemma set_xyz_other r v i : i <> 7%nat -> i <> 8%nat -> i <> 9%nat -> nth i (set_xyz r v) VNull = nth i r VNull.
Proof.
  intros H7 H8 H9. unfold set_xyz. destruct v as [[x y] z].
  rewrite nth_map_combine_seq. cbn [fst snd Nat.add].
  destruct (Nat.ltb i (List.length r)) eqn:E.
  - do 10 (destruct i as [|i]; try reflexivity; try congruence).
  - apply Nat.ltb_ge in E. symmetry. apply nth_overflow. exact E.
Qed.

Theorem superpose_frame rmat mobile sm st new :
  superpose rmat mobile sm st = Ok new ->
  List.length new = List.length mobile /\
  forall k i, i <> 7%nat -> i <> 8%nat -> i <> 9%nat ->
    nth i (nth k new []) VNull = nth i (nth k mobile []) VNull.
Proof.
  unfold superpose. destruct (paired_selections sm st) as [[pm pt]|e]; cbn [bind fst snd]; intro H; [|discriminate H].
  injection H as <-.
  set (nw := superpose_selection rmat pm pt (map xyz_of mobile)).
  assert (Hl : List.length nw = List.length mobile) by (unfold nw, superpose_selection; rewrite !map_length; reflexivity).
  clearbody nw. split.
  - rewrite map_length, combine_length, Hl. apply Nat.min_id.
  - intros k i H7 H8 H9. revert nw Hl k. induction mobile as [|r t IH]; intros nw Hl k; [destruct k; reflexivity|].
    destruct nw as [|v vs]; [discriminate Hl|]. cbn [combine map].
    destruct k as [|k]; cbn [nth fst snd]; [apply set_xyz_other; assumption|].
    apply IH. cbn in Hl. lia.
Qed.

(* pairing: through the identity-keyed intersection whenever the selection sizes differ ... *)
Theorem paired_by_identity_when_sizes_differ sm st :
  List.length sm <> List.length st ->
  paired_selections sm st = (do a <- snapshot sm; do b <- snapshot st; Ok (shared_pairs a b)).
Proof.
  intro H. unfold paired_selections, shared_pairs.
  destruct (Nat.eqb (List.length sm) (List.length st)) eqn:E; [apply Nat.eqb_eq in E; contradiction | reflexivity].
Qed.

(* ... but by POSITION when they merely have the same size (known finding F7) *)
Theorem positional_pairing_refuted : exists sm st,
  List.length sm = List.length st /\ paired_selections sm st <> Ok (shared_pairs sm st).
Proof.
  set (ca := [VInt 1; VText "CA"; VText ""; VText "ALA"; VText "A"; VInt 1; VText ""; VReal 1; VReal 0; VReal 0]).
  set (cb := [VInt 2; VText "CB"; VText ""; VText "ALA"; VText "A"; VInt 1; VText ""; VReal 0; VReal 1; VReal 0]).
  exists [ca; cb], [cb; ca]. split; [reflexivity|]. vm_compute. intro H. discriminate H.
Qed.
