(* Proofs_superpose_opt.v — C13: the motion applied by superpose is optimal among ALL rigid motions on the
   paired atoms as soon as the kernel's rotation is optimal among rotations on the centred sets (C06) *)
From Coq Require Import Lia Lqa.
From Verif Require Import PyLib ModelTypes Model_many Model_superpose Spec_superpose Proofs_superpose Proofs_rigid_rmsd.
Open Scope Q_scope.

Definition sumsq (A : list vec) : Q := fold_right Qplus 0 (map norm2 A).

Lemma norm2_vadd a d : norm2 (vadd a d) == norm2 a + 2 * vdot a d + norm2 d.
Proof. dv a. dv d. unfold norm2. cbn -[Qred Qplus Qmult Qminus Qopp Qdiv Qinv]. rewrite ?Qred_correct. ring. Qed.

Lemma vdot_vadd_l a b d : vdot (vadd a b) d == vdot a d + vdot b d.
Proof. dv a. dv b. dv d. cbn -[Qred Qplus Qmult Qminus Qopp Qdiv Qinv]. rewrite ?Qred_correct. ring. Qed.
Lemma vdot_zero_l d : vdot (0, 0, 0) d == 0.
Proof. dv d. cbn -[Qred Qplus Qmult Qminus Qopp Qdiv Qinv]. rewrite ?Qred_correct. ring. Qed.
Lemma vdot_veq_l a a' d : veq a a' -> vdot a d == vdot a' d.
Proof. dv a. dv a'. dv d. cbn -[Qred Qplus Qmult Qminus Qopp Qdiv Qinv]. intros [A [B C]]. rewrite ?Qred_correct, A, B, C. reflexivity. Qed.

(* sum of |a_i + d|^2 = sum |a_i|^2 + 2 (sum a_i).d + n |d|^2 *)
Lemma sumsq_shift A d :
  sumsq (map (fun a => vadd a d) A) == sumsq A + 2 * vdot (vsum A) d + inject_Z (Z.of_nat (List.length A)) * norm2 d.
Proof.
  unfold sumsq. induction A as [|a t IH].
  - cbn [map fold_right List.length vsum]. rewrite vdot_zero_l. cbn. ring.
  - cbn [map fold_right List.length vsum]. fold (vsum t). rewrite IH, norm2_vadd, vdot_vadd_l.
    rewrite Nat2Z.inj_succ. unfold Z.succ. rewrite inject_Z_plus. ring.
Qed.

Lemma sumsq_veq A B : Forall2 veq A B -> sumsq A == sumsq B.
Proof.
  unfold sumsq. induction 1 as [|a b l l' Hab _ IH]; [reflexivity|]. cbn [map fold_right].
  rewrite IH, (norm2_veq _ _ Hab). reflexivity.
Qed.

Section Decomposition.
Variables (r : mat) (t : vec).

(* deviations of the paired atoms, as a list over the zipped pairs *)
Definition dev (f : vec -> vec) (L : list (vec * vec)) : list vec := map (fun pq => vsub (f (fst pq)) (snd pq)) L.
Lemma resid_dev f P Qs : resid (map f P) Qs = sumsq (dev f (combine P Qs)).
Proof.
  unfold resid, sumsq, dev. revert Qs. induction P as [|p ps IH]; intro Qs; [reflexivity|].
  destruct Qs as [|q qs]; [reflexivity|]. cbn [map combine fold_right fst snd]. rewrite IH. reflexivity.
Qed.

Variables (cp cq : vec).
Let d : vec := vsub (affine r t cp) cq.
Definition cdev (L : list (vec * vec)) : list vec :=
  map (fun pq => vsub (mv r (vsub (fst pq) cp)) (vsub (snd pq) cq)) L.

Lemma dev_is_cdev_shifted L : Forall2 veq (dev (affine r t) L) (map (fun a => vadd a d) (cdev L)).
Proof.
  unfold dev, cdev, d. rewrite map_map. induction L as [|[p q] l IH]; cbn [map fst snd]; constructor; [|exact IH].
  unfold affine. dm r. dv t. dv p. dv q. dv cp. dv cq. vring.
Qed.

Lemma vsum_cdev L :
  veq (vsum (cdev L))
      (vsub (mv r (vsub (vsum (map fst L)) (vscale (inject_Z (Z.of_nat (List.length L))) cp)))
            (vsub (vsum (map snd L)) (vscale (inject_Z (Z.of_nat (List.length L))) cq))).
Proof.
  unfold cdev. induction L as [|[p q] l IH].
  - dm r. dv cp. dv cq. vring.
  - cbn [map vsum fold_right List.length fst snd].
    fold (vsum (map (fun pq => vsub (mv r (vsub (fst pq) cp)) (vsub (snd pq) cq)) l)).
    fold (vsum (map fst l)). fold (vsum (map snd l)).
    eapply veq_trans; [apply vadd_veq; [apply veq_refl | exact IH]|].
    rewrite Nat2Z.inj_succ. unfold Z.succ. rewrite inject_Z_plus.
    set (n := inject_Z (Z.of_nat (List.length l))). set (sp := vsum (map fst l)). set (sq := vsum (map snd l)).
    dm r. dv p. dv q. dv cp. dv cq. dv sp. dv sq. vring.
Qed.
End Decomposition.

Lemma combine_fst {A B} (l : list A) (l' : list B) : List.length l = List.length l' -> map fst (combine l l') = l.
Proof. revert l'. induction l as [|x t IH]; destruct l' as [|y t']; cbn; intro H; try discriminate; [reflexivity|]. rewrite IH by lia. reflexivity. Qed.
Lemma combine_snd {A B} (l : list A) (l' : list B) : List.length l = List.length l' -> map snd (combine l l') = l'.
Proof. revert l'. induction l as [|x t IH]; destruct l' as [|y t']; cbn; intro H; try discriminate; [reflexivity|]. rewrite IH by lia. reflexivity. Qed.

Lemma n_mean P : P <> [] -> veq (vscale (inject_Z (Z.of_nat (List.length P))) (mean P)) (vsum P).
Proof.
  intro Hne. unfold mean.
  assert (Hn : ~ inject_Z (Z.of_nat (List.length P)) == 0).
  { destruct P as [|p ps]; [contradiction|]. cbn [List.length]. rewrite Nat2Z.inj_succ.
    intro E. assert (inject_Z 0 < inject_Z (Z.succ (Z.of_nat (List.length ps)))) by (rewrite <- Zlt_Qlt; lia).
    change (inject_Z 0) with 0 in H. lra. }
  set (n := inject_Z (Z.of_nat (List.length P))) in *. set (s := vsum P). dv s.
  cbn -[Qred Qplus Qmult Qminus Qopp Qdiv Qinv]. rewrite ?Qred_correct. repeat split; field; exact Hn.
Qed.

Lemma resid_cdev_gen r cp cq P Qs : List.length P = List.length Qs ->
  resid (map (mv r) (map (fun p => vsub p cp) P)) (map (fun q => vsub q cq) Qs) == sumsq (cdev r cp cq (combine P Qs)).
Proof.
  unfold resid, sumsq, cdev. revert Qs. induction P as [|p ps IH]; intros Qs Hlen; destruct Qs as [|q qs]; try discriminate; [reflexivity|].
  cbn [map combine fold_right fst snd]. cbn in Hlen. rewrite (IH qs ltac:(lia)). reflexivity.
Qed.
Lemma resid_centred_cdev r P Qs : List.length P = List.length Qs ->
  resid (map (mv r) (centred P)) (centred Qs) == sumsq (cdev r (mean P) (mean Qs) (combine P Qs)).
Proof. intro H. unfold centred. apply resid_cdev_gen. exact H. Qed.

(* centroid decomposition of the residual of ANY affine map x |-> r x + t on paired atoms *)
Theorem residual_decomposition r t P Qs : P <> [] -> List.length P = List.length Qs ->
  resid (map (affine r t) P) Qs
  == resid (map (mv r) (centred P)) (centred Qs)
     + inject_Z (Z.of_nat (List.length P)) * norm2 (vsub (affine r t (mean P)) (mean Qs)).
Proof.
  intros Hne Hlen. set (cp := mean P). set (cq := mean Qs). set (L := combine P Qs).
  assert (HL : List.length L = List.length P) by (unfold L; rewrite combine_length; lia).
  rewrite (resid_dev (affine r t) P Qs). fold L.
  rewrite (sumsq_veq _ _ (dev_is_cdev_shifted r t cp cq L)), sumsq_shift.
  pose proof (resid_centred_cdev r P Qs Hlen) as Ec. fold cp in Ec. fold cq in Ec. fold L in Ec.
  rewrite Ec. replace (List.length (cdev r cp cq L)) with (List.length P) by (unfold cdev; rewrite map_length; symmetry; exact HL).
  assert (Z0 : vdot (vsum (cdev r cp cq L)) (vsub (affine r t cp) cq) == 0).
  { rewrite (vdot_veq_l _ _ _ (vsum_cdev r t cp cq L)). rewrite HL.
    unfold L. rewrite (combine_fst P Qs Hlen), (combine_snd P Qs Hlen).
    assert (Hq : Qs <> []) by (destruct Qs; [destruct P; [contradiction|discriminate] | discriminate]).
    pose proof (n_mean P Hne) as NP. pose proof (n_mean Qs Hq) as NQ. fold cp in NP. fold cq in NQ. rewrite <- Hlen in NQ.
    set (n := inject_Z (Z.of_nat (List.length P))) in *.
    set (u := vscale n cp) in *. set (v := vscale n cq) in *. set (sp := vsum P) in *. set (sq := vsum Qs) in *.
    set (w := vsub (affine r t cp) cq).
    clearbody u v sp sq w n. dm r. dv u. dv v. dv sp. dv sq. dv w.
    cbn -[Qred Qplus Qmult Qminus Qopp Qdiv Qinv] in *. rewrite ?Qred_correct.
    destruct NP as [A1 [A2 A3]]. destruct NQ as [B1 [B2 B3]]. rewrite A1, A2, A3, B1, B2, B3. ring. }
  rewrite Z0. ring.
Qed.

Lemma norm2_nonneg v : 0 <= norm2 v.
Proof.
  destruct v as [[a b] c]. unfold norm2. cbn -[Qred Qplus Qmult Qminus Qopp Qdiv Qinv]. rewrite ?Qred_correct.
  assert (S : forall q : Q, 0 <= q * q).
  { intro q. destruct (Qlt_le_dec q 0) as [Hn|Hp]; [|apply Qmult_le_0_compat; exact Hp].
    setoid_replace (q * q) with ((- q) * (- q)) by ring. apply Qmult_le_0_compat; lra. }
  pose proof (S a) as S1. pose proof (S b) as S2. pose proof (S c) as S3. lra.
Qed.

(* for a given rotation no translation does better than the one matching the centroids *)
Corollary translation_bound r t P Qs : P <> [] -> List.length P = List.length Qs ->
  resid (map (mv r) (centred P)) (centred Qs) <= resid (map (affine r t) P) Qs.
Proof.
  intros Hne Hlen. rewrite (residual_decomposition r t P Qs Hne Hlen).
  assert (0 <= inject_Z (Z.of_nat (List.length P)) * norm2 (vsub (affine r t (mean P)) (mean Qs))).
  { apply Qmult_le_0_compat; [|apply norm2_nonneg]. change 0 with (inject_Z 0). rewrite <- Zle_Qle. lia. }
  lra.
Qed.

(* superpose's motion is optimal among ALL rigid motions x |-> r' x + t' on the paired atoms as soon as
   the kernel's rotation is optimal among rotations on the centred sets (which is property C06) *)
Theorem superpose_optimal_over_rigid_motions rmat P Qs : P <> [] -> List.length P = List.length Qs ->
  (forall r', orthogonal r' ->
     resid (map (mv rmat) (centred P)) (centred Qs) <= resid (map (mv r') (centred P)) (centred Qs)) ->
  forall r' t', orthogonal r' ->
    resid (superpose_selection rmat P Qs P) Qs <= resid (map (affine r' t') P) Qs.
Proof.
  intros Hne Hlen Hopt r' t' Hr'. rewrite resid_after_superposition.
  eapply Qle_trans; [apply Hopt; exact Hr'|]. apply translation_bound; assumption.
Qed.

Lemma resid_nonneg A B : 0 <= resid A B.
Proof.
  unfold resid. induction (combine A B) as [|p l IH]; cbn [map fold_right]; [lra|].
  pose proof (norm2_nonneg (vsub (fst p) (snd p))). lra.
Qed.

(* non-vacuity: the optimality hypothesis is met, e.g. by the identity on a structure compared with itself *)
Definition ident : mat := ((1, 0, 0), (0, 1, 0), (0, 0, 1)).
Example optimality_hypothesis_satisfiable :
  let P := [(1, 0, 0); (0, 2, 0); (0, 0, 3); (1, 1, 1)] in
  P <> [] /\ List.length P = List.length P /\ orthogonal ident /\
  forall r', orthogonal r' -> resid (map (mv ident) (centred P)) (centred P) <= resid (map (mv r') (centred P)) (centred P).
Proof.
  cbv zeta. split; [discriminate|]. split; [reflexivity|]. split.
  - unfold orthogonal, ident. vm_compute. repeat split; reflexivity.
  - intros r' _. assert (E : resid (map (mv ident) (centred [(1, 0, 0); (0, 2, 0); (0, 0, 3); (1, 1, 1)])) (centred [(1, 0, 0); (0, 2, 0); (0, 0, 3); (1, 1, 1)]) == 0) by (vm_compute; reflexivity).
    rewrite E. apply resid_nonneg.
Qed.
