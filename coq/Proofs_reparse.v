(* Proofs_reparse.v — C02/C01: float() of a fixed-point field written by '{:w.pf}' reads back exactly the
   printed decimal (rounded once to binary64): the text the exporter writes denotes, for the parser, the value
   the formatter rounded to *)
From Coq Require Import Lia ZifyBool.
From Coq Require Import Lqa.
From Verif Require Import PyLib PyLibFacts ModelTypes Generated_export Model_export Spec_parse Spec_export Proofs_text Proofs_digits Proofs_numtext Proofs_export.
Open Scope Z_scope.

Lemma all_digits_app s t : all_digits (s ++ t) = (all_digits s && all_digits t)%bool.
Proof. induction s as [|c s IH]; cbn; [reflexivity | rewrite IH, andb_assoc; reflexivity]. Qed.
Lemma all_digits_zeros k : all_digits (repeat_char "0"%char k) = true.
Proof. induction k as [|k IH]; cbn; [reflexivity | exact IH]. Qed.
Lemma digits_val_zeros k a : a = 0 -> digits_val a (repeat_char "0"%char k) = 0.
Proof. intros ->. induction k as [|k IH]; cbn; [reflexivity | exact IH]. Qed.

(* reading an all-digit string after an accumulator *)
Lemma digits_val_shift s : forall a, digits_val a s = a * 10 ^ Z.of_nat (String.length s) + digits_val 0 s.
Proof.
  induction s as [|c t IH]; intro a; cbn [digits_val String.length]; [change (10 ^ Z.of_nat 0) with 1; lia|].
  rewrite (IH (a * 10 + digit_val c)), (IH (0 * 10 + digit_val c)).
  rewrite Nat2Z.inj_succ, Z.pow_succ_r by lia. lia.
Qed.

Lemma split_dot_digits a : all_digits a = true -> split_dot a = (a, None).
Proof.
  induction a as [|c t IH]; cbn; intro H; [reflexivity|]. apply andb_prop in H. destruct H as [D A].
  assert (Ascii.eqb c "."%char = false).
  { destruct (Ascii.eqb_spec c "."%char) as [->|]; [discriminate D | reflexivity]. }
  rewrite H, (IH A). reflexivity.
Qed.
Lemma split_dot_app a t : all_digits a = true -> split_dot (a ++ String "."%char t) = (a, Some t).
Proof.
  induction a as [|c u IH]; cbn; intro H; [reflexivity|]. apply andb_prop in H. destruct H as [D A].
  assert (Ascii.eqb c "."%char = false).
  { destruct (Ascii.eqb_spec c "."%char) as [->|]; [discriminate D | reflexivity]. }
  rewrite H, (IH A). reflexivity.
Qed.

Lemma lstrip_spaces k s : nospace s = true -> lstrip (repeat_char sp k ++ s) = s.
Proof. intro H. induction k as [|k IH]; cbn; [apply lstrip_nospace; exact H | exact IH]. Qed.
Lemma strip_rjust w s : nospace s = true -> strip (rjust w s) = s.
Proof.
  intro H. unfold strip, rjust. rewrite (lstrip_spaces _ s H). unfold rstrip.
  rewrite lstrip_nospace by (rewrite nospace_rev; exact H). apply rev_str_involutive.
Qed.

(* digits of the fraction part, zero-padded to p places, read back as the fraction part *)
Lemma pad_frac p f : 0 <= f < pow10 p -> (1 <= p)%nat ->
  all_digits (pad_left_zeros p (digits f)) = true /\ String.length (pad_left_zeros p (digits f)) = p
  /\ digits_val 0 (pad_left_zeros p (digits f)) = f.
Proof.
  intros Hf Hp. destruct (digits_spec f ltac:(lia)) as [A [V _]].
  pose proof (digits_length_le f p Hp Hf) as L.
  split; [|split].
  - unfold pad_left_zeros. rewrite all_digits_app, all_digits_zeros, A. reflexivity.
  - rewrite pad_left_zeros_length. lia.
  - unfold pad_left_zeros. rewrite digits_val_app, (digits_val_zeros _ 0 eq_refl). exact V.
Qed.

Open Scope Q_scope.

(* what the parser makes of a fixed-point field *)
Definition printed_value (p : nat) (q : Q) : Q :=
  let v := Qred (Qmake (round_half_even (Qabs q * inject_Z (pow10 p))) (Z.to_pos (pow10 p))) in
  if Qltb q 0 then Qred (- v) else v.

Lemma body_shape p q :
  let n := round_half_even (Qabs q * inject_Z (pow10 p)) in
  exists ipart fpart dot,
     fmt_fixed_body p q = ((if Qltb q 0 then "-" else "") ++ ipart ++ dot)%string
     /\ all_digits ipart = true /\ str_nonempty ipart = true
     /\ (forall c r, ipart = String c r -> c <> "-"%char /\ c <> "+"%char)
     /\ split_dot (ipart ++ dot) = (ipart, fpart)
     /\ all_digits (match fpart with Some f => f | None => "" end) = true
     /\ String.length (match fpart with Some f => f | None => "" end) = p
     /\ digits_val 0 (ipart ++ match fpart with Some f => f | None => "" end) = n
     /\ nospace (ipart ++ dot) = true.
Proof.
  intro n.
  assert (Hn : (0 <= n)%Z).
  { apply rhe_nonneg. apply Qmult_le_0_compat; [apply Qabs_nonneg|].
    pose proof (pow10_pos p) as P. rewrite Zlt_Qlt in P. apply Qlt_le_weak. exact P. }
  pose proof (pow10_pos p) as Pp.
  pose proof (Z.div_mod n (pow10 p) ltac:(lia)) as DM.
  pose proof (Z.mod_pos_bound n (pow10 p) Pp) as MB.
  assert (Hip : (0 <= n / pow10 p)%Z) by (apply Z.div_pos; lia).
  destruct (digits_spec (n / pow10 p) Hip) as [Ai [Vi [Li [_ Fi]]]].
  unfold fmt_fixed_body. fold n. destruct p as [|p'].
  - exists (digits (n / pow10 0)), None, ""%string.
    assert (E0 : forall s : string, (s ++ "")%string = s) by (intro s; induction s as [|c s IH]; cbn; [reflexivity | rewrite IH; reflexivity]).
    rewrite !E0. split; [reflexivity|]. split; [exact Ai|]. split; [destruct (digits (n / pow10 0)); [cbn in Li; lia | reflexivity]|].
    split; [exact Fi|]. split; [apply split_dot_digits, Ai|]. split; [reflexivity|]. split; [reflexivity|].
    split; [rewrite Vi; change (pow10 0) with 1%Z; apply Z.div_1_r | apply all_digits_nospace, Ai].
  - set (P := S p') in *.
    destruct (pad_frac P (n mod pow10 P) MB ltac:(lia)) as [Af [Lf Vf]].
    exists (digits (n / pow10 P)), (Some (pad_left_zeros P (digits (n mod pow10 P)))),
           ("." ++ pad_left_zeros P (digits (n mod pow10 P)))%string.
    split; [reflexivity|]. split; [exact Ai|]. split; [destruct (digits (n / pow10 P)); [cbn in Li; lia | reflexivity]|].
    split; [exact Fi|]. split; [apply (split_dot_app _ _ Ai)|]. split; [exact Af|]. split; [exact Lf|].
    split.
    + rewrite digits_val_app, digits_val_shift, Lf, Vi, Vf. unfold pow10 in *. lia.
    + rewrite nospace_app, (all_digits_nospace _ Ai). cbn [append nospace]. rewrite (all_digits_nospace _ Af). reflexivity.
Qed.

Lemma fmt_fixed_body_nospace p q : nospace (fmt_fixed_body p q) = true /\ str_nonempty (fmt_fixed_body p q) = true.
Proof.
  destruct (body_shape p q) as [ipart [fpart [dot [EB [_ [NEi [_ [_ [_ [_ [_ NS]]]]]]]]]]].
  rewrite EB. split.
  - rewrite nospace_app, NS. destruct (Qltb q 0); reflexivity.
  - destruct (Qltb q 0); [reflexivity|]. destruct ipart; [discriminate NEi | reflexivity].
Qed.

(* any text whose strip() is the formatted number reads back as the printed decimal *)
Theorem parse_float_printed t p q : strip t = fmt_fixed_body p q -> parse_float t = NumOk (b64 (printed_value p q)).
Proof.
  intro St. unfold printed_value.
  destruct (body_shape p q) as [ipart [fpart [dot [EB [Ai' [NEi [Fi' [SD [Af [Lf [V NS]]]]]]]]]]].
  unfold parse_float. rewrite St, EB.
  destruct (Qltb q 0) eqn:Neg.
  - cbn [append split_sign]. rewrite SD, Ai', Af, NEi. cbn [andb orb]. rewrite V, Lf. reflexivity.
  - cbn [append].
    assert (SS : split_sign (ipart ++ dot) = (false, (ipart ++ dot)%string)).
    { destruct ipart as [|c r]; [discriminate NEi|]. destruct (Fi' c r eq_refl) as [N1 N2]. cbn [append split_sign].
      destruct c as [[] [] [] [] [] [] [] []]; try reflexivity; exfalso; first [apply N1; reflexivity | apply N2; reflexivity]. }
    rewrite SS, SD, Ai', Af, NEi. cbn [andb orb]. rewrite V, Lf. reflexivity.
Qed.

Theorem parse_float_fmt_fixed w p q : parse_float (fmt_fixed w p q) = NumOk (b64 (printed_value p q)).
Proof. apply parse_float_printed. unfold fmt_fixed. apply strip_rjust, fmt_fixed_body_nospace. Qed.

Lemma strip_fmt_fixed w p q : strip (fmt_fixed w p q) = fmt_fixed_body p q.
Proof. unfold fmt_fixed. apply strip_rjust, fmt_fixed_body_nospace. Qed.

(* the printed decimal is the value rounded at the printed precision *)
Lemma printed_value_error p q : Qabs (printed_value p q - q) <= (1#2) / inject_Z (pow10 p).
Proof.
  unfold printed_value. pose proof (pow10_pos p) as P.
  set (n := round_half_even (Qabs q * inject_Z (pow10 p))).
  assert (Ev : Qred (n # Z.to_pos (pow10 p)) == inject_Z n / inject_Z (pow10 p)).
  { rewrite Qred_correct. unfold Qdiv, Qeq, Qinv, inject_Z, Qmult. cbn.
    destruct (pow10 p) as [|pp|pp] eqn:E; try lia. cbn. lia. }
  pose proof (printed_within_half_unit p q) as H. unfold printed_abs in H. fold n in H.
  destruct (Qltb q 0) eqn:Neg.
  - apply Qltb_spec in Neg. rewrite Qred_correct, Ev. rewrite (Qabs_neg q) in H by lra.
    setoid_replace (- (inject_Z n / inject_Z (pow10 p)) - q) with (- (inject_Z n / inject_Z (pow10 p) - - q)) by ring.
    rewrite Qabs_opp. exact H.
  - assert (0 <= q). { destruct (Qlt_le_dec q 0) as [L|L]; [|exact L]. apply Qltb_spec in L. congruence. }
    rewrite Ev. rewrite (Qabs_pos q) in H by assumption. exact H.
Qed.
