(* Proofs_rmsd_opt.v — C07: the value the pipelines report is the minimum over ALL rigid motions of the mean squared
   deviation of the paired atoms, as soon as the kernel's rotation is optimal among rotations on the centred sets (C06) *)
From Coq Require Import Lia Lqa.
From Verif Require Import PyLib ModelTypes Model_many Model_superpose Spec_superpose Proofs_superpose Proofs_rigid_rmsd
  Proofs_superpose_opt Model_rmsd Proofs_rmsd.
Open Scope Q_scope.

Theorem value_minimal_over_rigid_motions rmat xd xr m :
  (forall r', orthogonal r' ->
     resid (map (mv rmat) (centred xd)) (centred xr) <= resid (map (mv r') (centred xd)) (centred xr)) ->
  msd (superpose_selection rmat xd xr xd) xr = Ok m ->
  forall r' t' m', orthogonal r' -> msd (map (affine r' t') xd) xr = Ok m' -> m <= m'.
Proof.
  intros Hopt Hm r' t' m' Hr' Hm'.
  assert (Hlen : List.length xd = List.length xr /\ xd <> []).
  { unfold msd in Hm'. rewrite map_length in Hm'. destruct (Nat.eqb (List.length xd) (List.length xr)) eqn:E; cbn [negb] in Hm'; [|discriminate Hm'].
    apply Nat.eqb_eq in E. split; [exact E|]. destruct xd; [discriminate Hm' | discriminate]. }
  destruct Hlen as [Hlen Hne].
  rewrite (msd_is_resid _ _ _ Hm), (msd_is_resid _ _ _ Hm').
  unfold superpose_selection at 2. rewrite !map_length.
  assert (Hn : 0 < inject_Z (Z.of_nat (List.length xd))).
  { destruct xd; [contradiction|]. cbn [List.length]. change 0 with (inject_Z 0). rewrite <- Zlt_Qlt. lia. }
  apply Qmult_le_compat_r; [|apply Qlt_le_weak, Qinv_lt_0_compat, Hn].
  apply (superpose_optimal_over_rigid_motions rmat xd xr Hne Hlen Hopt r' t' Hr').
Qed.
