(* Spec_scores.v — the published CAPRI criteria and the DockQ formula, written from the
   property statement / the CAPRI papers, not from the code. *)
From Verif Require Import PyLib.
Open Scope Q_scope.

Inductive capri_class := Incorrect | Acceptable | Medium | High.
Definition class_name (c : capri_class) : string :=
  match c with Incorrect => "incorrect" | Acceptable => "acceptable" | Medium => "medium" | High => "high" end.
Definition class_rank (c : capri_class) : nat :=
  match c with Incorrect => 0 | Acceptable => 1 | Medium => 2 | High => 3 end.

(* The Fnat thresholds are the binary64 numbers nearest to 0.1, 0.3, 0.5 — the values a
   Python float comparison sees.  L-RMSD / i-RMSD thresholds 1,2,4,5,10 are exact. *)
Definition t01 : Q := b64 (1 # 10).
Definition t03 : Q := b64 (3 # 10).
Definition t05 : Q := b64 (5 # 10).

(* The table of the property statement, clause by clause. *)
Definition cond (c : capri_class) (f l i : Q) : Prop :=
  match c with
  | Incorrect  => f < t01 \/ (l > 10 /\ i > 4)
  | Acceptable => (t01 <= f /\ f < t03 /\ (l <= 10 \/ i <= 4)) \/ (f >= t03 /\ l > 5 /\ i > 2)
  | Medium     => (t03 <= f /\ f < t05 /\ (l <= 5 \/ i <= 2)) \/ (f >= t05 /\ l > 1 /\ i > 1)
  | High       => f >= t05 /\ (l <= 1 \/ i <= 1)
  end.
(* "The protocol ... should start with those defining incorrect predictions": the class is
   the first clause, in the order incorrect, acceptable, medium, high, that holds. *)
Definition is_class (c : capri_class) (f l i : Q) : Prop :=
  cond c f l i /\
  forall c', (class_rank c' < class_rank c)%nat -> ~ cond c' f l i.

(* Independent reading as nested quality levels (Lensink et al.): level k requires
   Fnat >= f_k and (L <= L_k or i <= i_k); the class is the highest level reached. *)
Definition level (k : nat) (f l i : Q) : Prop :=
  match k with
  | 0%nat => True
  | 1%nat => f >= t01 /\ (l <= 10 \/ i <= 4)
  | 2%nat => f >= t03 /\ (l <= 5 \/ i <= 2)
  | _ => f >= t05 /\ (l <= 1 \/ i <= 1)
  end.
Definition is_class_levels (c : capri_class) (f l i : Q) : Prop :=
  level (class_rank c) f l i /\ forall k, (class_rank c < k <= 3)%nat -> ~ level k f l i.

(* executable version of the level reading *)
Definition class_of_rank (k : nat) : capri_class :=
  match k with 0%nat => Incorrect | 1%nat => Acceptable | 2%nat => Medium | _ => High end.

Definition levelb (k : nat) (f l i : Q) : bool :=
  match k with
  | 0%nat => true
  | 1%nat => Qleb t01 f && (Qleb l 10 || Qleb i 4)
  | 2%nat => Qleb t03 f && (Qleb l 5 || Qleb i 2)
  | _ => Qleb t05 f && (Qleb l 1 || Qleb i 1)
  end.
Definition capri_spec (f l i : Q) : capri_class :=
  if levelb 3 f l i then High else if levelb 2 f l i then Medium
  else if levelb 1 f l i then Acceptable else Incorrect.


(* DockQ, as a real-number formula *)
Definition dockq_formula (f l i d1 d2 : Q) : Q :=
  (f + 1 / (1 + (l / d1) * (l / d1)) + 1 / (1 + (i / d2) * (i / d2))) / 3.
