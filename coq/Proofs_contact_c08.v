(* Proofs_contact_c08.v — clash count and both Fnat routes against Spec_contact (C08). *)
From Coq Require Import Lia Lqa Sorted Permutation.
From Verif Require Import PyLib PyLibFacts Generated_parse Generated_contact Model_contact Spec_contact
  Proofs_contact_lists Proofs_contact_spec Proofs_contact_c05 Proofs_contact_c14 Proofs_dockq.
Open Scope Z_scope.
Open Scope list_scope.

(* with the flags compute_clashes / the Fnat routes pass (excludeH=True, only_backbone=False) the filter is "heavy" *)
Lemma passes_heavy a : passes false true a = heavy a.
Proof. unfold passes, heavy. reflexivity. Qed.

(* ------------------------------------------------------------------ *)
(* generic counting lemmas                                             *)
Lemma sum_lengths {A} (pm : list (A * list Z)) n0 :
  fold_left (fun n kv => n + Z.of_nat (List.length (snd kv))) pm n0 = n0 + Z.of_nat (List.length (flat_map snd pm)).
Proof.
  revert n0; induction pm as [|kv t IH]; intro n0; simpl; [lia|].
  rewrite IH, app_length. lia.
Qed.
Lemma length_flat_map_ext {A B C} (f : A -> list B) (g : A -> list C) l :
  (forall a, In a l -> List.length (f a) = List.length (g a)) ->
  List.length (flat_map f l) = List.length (flat_map g l).
Proof.
  induction l as [|x t IH]; simpl; intro H; [reflexivity|].
  rewrite !app_length, (H x (or_introl eq_refl)), IH; [reflexivity|]. intros a Ha; apply H; right; exact Ha.
Qed.
Lemma filter_map_pair {A B} (p : A * B -> bool) (a : A) l2 :
  filter p (map (fun y => (a, y)) l2) = map (pair a) (filter (fun b => p (a, b)) l2).
Proof. induction l2 as [|b u IHu]; simpl; [reflexivity|]. destruct (p (a, b)); simpl; rewrite IHu; reflexivity. Qed.
Lemma filter_list_prod {A B} (p : A * B -> bool) l1 l2 :
  filter p (list_prod l1 l2) = flat_map (fun a => map (pair a) (filter (fun b => p (a, b)) l2)) l1.
Proof.
  induction l1 as [|a t IH]; simpl; [reflexivity|].
  rewrite filter_app, IH, filter_map_pair. reflexivity.
Qed.
Lemma single_entries_values (c : atom -> bool) (F : atom -> list Z) l :
  flat_map snd (flat_map (fun a => if c a then match F a with [] => [] | v => [(idx a, v)] end else []) l) =
  flat_map (fun a => if c a then F a else []) l.
Proof.
  induction l as [|a t IH]; simpl; [reflexivity|].
  rewrite flat_map_app, IH. f_equal.
  destruct (c a); [|reflexivity]. destruct (F a); simpl; [reflexivity | rewrite app_nil_r; reflexivity].
Qed.
Lemma spec_pairs_values near obb exh s cs :
  flat_map snd (spec_pairs near obb exh s cs) =
  flat_map (fun a => if (inb (chain a) cs && passes obb exh a)%bool then partners near obb exh s cs a else []) s.
Proof. unfold spec_pairs. apply (single_entries_values (fun a => (inb (chain a) cs && passes obb exh a)%bool)). Qed.

(* ------------------------------------------------------------------ *)
(* C08: clash count                                                    *)
(* F18 exclusion: no inter-chain pair of non-hydrogen atoms at exactly 3 Angstrom *)
Definition no_pair_at_exactly_3 (s : structure) (c1 c2 : string) : Prop :=
  forall a b, In a s -> In b s -> chain a = c1 -> chain b = c2 -> heavy a = true -> heavy b = true ->
              ~ (sqdist a b == 9)%Q.

Lemma clash_constants : clash_cutoff_src = 3%Q /\ clash_excludeH_src = true /\ clash_only_backbone_src = false.
Proof. repeat split. Qed.

Lemma close3_closer a b : ~ (sqdist a b == 9)%Q -> closeQ 3 a b = closerb 3 a b.
Proof.
  intro N. apply bool_eq_iff. rewrite closeQ_within, closerb_closer. unfold within, closer.
  assert ((3 * 3 == 9)%Q) by reflexivity.
  split; intros [A B]; split; lra.
Qed.

Lemma clashes_exact s c1 c2 :
  wf s -> c1 <> c2 -> present s c1 -> present s c2 -> no_pair_at_exactly_3 s c1 c2 ->
  compute_clashes s c1 c2 = Ok (clash_spec s c1 c2).
Proof.
  intros W N H1 H2 NE. unfold compute_clashes.
  change clash_cutoff_src with 3%Q. change clash_only_backbone_src with false. change clash_excludeH_src with true.
  rewrite (two_chain_exact (closeQ 3) false true s c1 c2 (closeQ_sym 3) W N H1 H2). cbn [bind snd].
  f_equal. rewrite sum_lengths. cbn [Z.add]. unfold clash_spec. f_equal.
  rewrite spec_pairs_values. unfold clash_pairs. rewrite filter_list_prod, flat_map_filter.
  apply length_flat_map_ext. intros a Ha. rewrite passes_heavy.
  unfold inb. cbn [existsb]. destruct (String.eqb (chain a) c1) eqn:E1.
  - apply String.eqb_eq in E1. cbn [orb]. unfold partners. rewrite !map_length.
    destruct (heavy a) eqn:Hv; cbn [andb].
    + rewrite ?map_length, ?filter_filter. f_equal. apply filter_ext_in'. intros b Hb.
      unfold partnerb. cbn [after]. rewrite (proj2 (String.eqb_eq (chain a) c1) E1). rewrite passes_heavy.
      unfold inb. cbn [existsb fst snd]. rewrite Bool.orb_false_r.
      rewrite Hv. destruct (String.eqb (chain b) c2) eqn:E2; [|reflexivity]. cbn [andb].
      destruct (heavy b) eqn:Hb'; [|reflexivity]. cbn [andb].
      apply close3_closer. apply NE; try assumption. apply String.eqb_eq; exact E2.
    + rewrite ?map_length. rewrite filter_all_false; [reflexivity|]. intros b _. cbn [fst snd]. rewrite Hv. reflexivity.
  - cbn [orb]. destruct ((String.eqb (chain a) c2 || false) && heavy a)%bool; [|reflexivity].
    unfold partners. rewrite filter_all_false; [reflexivity|]. intros b _. unfold partnerb. cbn [after]. rewrite E1.
    destruct (String.eqb (chain a) c2); reflexivity.
Qed.

(* the statement at full strength ("closer than 3 A") is false of the code: known finding F18 *)
Definition f18_s : structure :=
  [ mkAtom 0 "A" "ALA" 1 "CA" 0 0 0; mkAtom 1 "B" "GLY" 1 "N" 3 0 0; mkAtom 2 "B" "GLY" 1 "O" 0 (23 # 8) 0 ].
Lemma clashes_refuted :
  exists s c1 c2, wf s /\ c1 <> c2 /\ present s c1 /\ present s c2 /\
                  compute_clashes s c1 c2 = Ok 2 /\ clash_spec s c1 c2 = 1.
Proof.
  exists f18_s, "A"%string, "B"%string.
  split; [unfold wf; simpl; repeat (apply SSorted_cons || apply SSorted_nil || apply Forall_cons || apply Forall_nil || reflexivity)|].
  split; [intro H; inversion H|]. split; [unfold present; simpl; auto|]. split; [unfold present; simpl; auto|].
  split; vm_compute; reflexivity.
Qed.

(* ================================================================== *)
(* Fnat                                                                 *)
Lemma distinct_chains_get_chains s : distinct_chains s = get_chains s.
Proof. reflexivity. Qed.

Lemma Permutation_filter' {A} (f : A -> bool) l l' : Permutation l l' -> Permutation (filter f l) (filter f l').
Proof.
  induction 1 as [|x l l' _ IH|x y l|l l' l'' _ IH1 _ IH2]; simpl.
  - constructor.
  - destruct (f x); [apply perm_skip|]; exact IH.
  - destruct (f x), (f y); try apply Permutation_refl. apply perm_swap.
  - eapply Permutation_trans; eassumption.
Qed.

(* pairs (key, member) of a dictionary with distinct keys and duplicate-free values *)
Lemma flat_pairs_In d rA rB : NoDup (map fst d) ->
  (In (rA, rB) (flat_pairs d) <-> In rB (dlook res3_eqb rA d)).
Proof.
  intro ND. unfold flat_pairs. rewrite in_flat_map. split.
  - intros [[k l] [Hkl H]]. simpl in H. apply in_map_iff in H. destruct H as [x [E Hx]]. inversion E; subst.
    unfold dlook. rewrite (In_dget res3_eqb res3_eqb_ok rA d l ND Hkl). exact Hx.
  - intro H. unfold dlook in H. destruct (dget res3_eqb rA d) as [l|] eqn:G; [|destruct H].
    exists (rA, l). split; [apply (dget_Some_In res3_eqb res3_eqb_ok); exact G|]. simpl. apply in_map. exact H.
Qed.
Lemma NoDup_app_disjoint {A} (l1 l2 : list A) :
  NoDup l1 -> NoDup l2 -> (forall x, In x l1 -> ~ In x l2) -> NoDup (l1 ++ l2).
Proof.
  induction l1 as [|p m IH]; simpl; intros N1 N2 D; [exact N2|].
  inversion N1; subst. constructor.
  - rewrite in_app_iff. intros [F|F]; [contradiction | exact (D p (or_introl eq_refl) F)].
  - apply IH; [assumption | assumption | intros q Hq; apply D; right; exact Hq].
Qed.
Lemma flat_pairs_NoDup (d : list (res3 * list res3)) :
  NoDup (map fst d) -> (forall k l, In (k, l) d -> NoDup l) -> NoDup (flat_pairs d).
Proof.
  unfold flat_pairs. induction d as [|[k l] t IH]; simpl; intros ND NV; [constructor|].
  inversion ND as [|? ? Hn ND']; subst.
  apply NoDup_app_disjoint.
  - apply FinFun.Injective_map_NoDup; [intros x y E; inversion E; reflexivity | apply (NV k l); left; reflexivity].
  - apply IH; [exact ND' | intros k' l' H; apply (NV k' l'); right; exact H].
  - intros p Hp F. apply in_map_iff in Hp. destruct Hp as [x [E _]]. subst p.
    apply in_flat_map in F. destruct F as [[k' l'] [Hin F]]. simpl in F. apply in_map_iff in F. destruct F as [y [E _]].
    inversion E; subst. apply Hn. apply (in_map fst) in Hin. exact Hin.
Qed.

Lemma ref_contacts_In ref c1 c2 near rA rB :
  In (rA, rB) (ref_contacts near ref c1 c2) <->
  exists a b, In a ref /\ In b ref /\ chain a = c1 /\ chain b = c2 /\ heavy a = true /\ heavy b = true /\
              near a b = true /\ res3_of a = rA /\ res3_of b = rB.
Proof.
  unfold ref_contacts. rewrite (dedup_In respair_eqb respair_eqb_ok), in_flat_map. split.
  - intros [a [Ha H]]. destruct (String.eqb (chain a) c1 && heavy a)%bool eqn:E; [|destruct H].
    apply Bool.andb_true_iff in E. destruct E as [E1 E2]. apply String.eqb_eq in E1.
    apply in_map_iff in H. destruct H as [b [Eb Hb]]. apply filter_In in Hb. destruct Hb as [Hb C].
    rewrite !Bool.andb_true_iff, String.eqb_eq in C. inversion Eb; subst. exists a, b. tauto.
  - intros [a [b [Ha [Hb [C1 [C2 [Va [Vb [Nr [Ea Eb]]]]]]]]]]. exists a. split; [exact Ha|].
    rewrite (proj2 (String.eqb_eq _ _) C1), Va. cbn [andb]. apply in_map_iff. exists b. split; [congruence|].
    apply filter_In. split; [exact Hb|]. rewrite !Bool.andb_true_iff, String.eqb_eq. tauto.
Qed.


Section RefPairs.
  Variable cutoff : Q.
  Variable ref : structure.
  Variables (c1 c2 : string).
  Hypothesis W : wf ref.
  Hypothesis HC : get_chains ref = [c1; c2].

  Lemma ref_chains_facts : c1 <> c2 /\ present ref c1 /\ present ref c2.
  Proof.
    pose proof (get_chains_NoDup ref) as ND. rewrite HC in ND. inversion ND as [|? ? Hn _]; subst.
    split; [intros ->; apply Hn; left; reflexivity|].
    split; apply get_chains_In; rewrite HC; simpl; auto.
  Qed.

  (* compute_residue_pairs_ref's answer lists exactly the reference contacts of the specification *)
  Lemma ref_pairs_exact :
    exists rp, get_contact_residue_pairs (closeQ cutoff) false true ref false c1 c2 = Ok rp /\
               NoDup (flat_pairs rp) /\
               Permutation (flat_pairs rp) (ref_contacts (withinb cutoff) ref c1 c2).
  Proof.
    destruct ref_chains_facts as [N [P1 P2]].
    pose proof (two_chain_exact (closeQ cutoff) false true ref c1 c2 (closeQ_sym cutoff) W N P1 P2) as E.
    destruct (pair_projection (closeQ cutoff) false true ref false c1 c2 _ _ W E) as [rp [Erp [NDk [NV [L K]]]]].
    exists rp. split; [exact Erp|].
    assert (NDf : NoDup (flat_pairs rp)) by (apply flat_pairs_NoDup; assumption).
    split; [exact NDf|].
    apply NoDup_Permutation; [exact NDf | apply (dedup_NoDup respair_eqb respair_eqb_ok)|].
    intros [rA rB]. rewrite (flat_pairs_In rp rA rB NDk), L, (ref_contacts_In ref c1 c2).
    assert (ND12 : NoDup [c1; c2]) by (constructor; [intros [F|[]]; apply N; symmetry; exact F | constructor; [intros [] | constructor]]).
    rewrite <- (two_chain_pm (closeQ cutoff) false true ref c1 c2 W N).
    destruct (final_inv (closeQ cutoff) false true ref [c1; c2]) as [NDpm _].
    set (pm := snd (final_state (closeQ cutoff) false true ref [c1; c2])) in *.
    unfold pair_projects. split.
    - intros [i [l [j [a [b [Hil [Hj [Ha [Hb [Ei [Ej [Ea Eb]]]]]]]]]]]].
      assert (Hd : In (idx b) (dlook Z.eqb (idx a) pm)).
      { unfold dlook. rewrite Ei, (In_dget Z.eqb Zeqb_ok i pm l NDpm Hil), Ej. exact Hj. }
      apply (pm_pairs_iff (closeQ cutoff) false true ref [c1; c2] a b W ND12 Ha Hb) in Hd.
      destruct Hd as [_ [_ [Hca [Hcb [Oa [Ob Cl]]]]]]. rewrite passes_heavy in Oa, Ob.
      rewrite closeQ_withinb in Cl.
      assert (chain a = c1 /\ chain b = c2).
      { simpl in Hca, Hcb. destruct (String.eqb (chain a) c1) eqn:E1.
        - apply String.eqb_eq in E1. destruct Hcb as [F|[]]. split; [exact E1 | symmetry; exact F].
        - destruct (String.eqb (chain a) c2); destruct Hcb. }
      exists a, b. tauto.
    - intros [a [b [Ha [Hb [C1 [C2 [Va [Vb [Nr [Ea Eb]]]]]]]]]].
      assert (Hd : In (idx b) (dlook Z.eqb (idx a) pm)).
      { apply (pm_pairs_iff (closeQ cutoff) false true ref [c1; c2] a b W ND12 Ha Hb).
        unfold contact_pair. rewrite !passes_heavy, closeQ_withinb, C1, C2. simpl. rewrite String.eqb_refl. simpl. tauto. }
      unfold dlook in Hd. destruct (dget Z.eqb (idx a) pm) as [l|] eqn:G; [|destruct Hd].
      exists (idx a), l, (idx b), a, b. split; [apply (dget_Some_In Z.eqb Zeqb_ok); exact G | tauto].
  Qed.
End RefPairs.

(* ------------------------------------------------------------------ *)
(* the fast route: residue_xyz and the counting loop                   *)
Definition sel (r : res3) (a : atom) : bool := (res3_eqb (res3_of a) r && heavy a)%bool.
Definition rx_of (d : list atom) (r : res3) : option (list atom) :=
  if existsb (fun a => res3_eqb (res3_of a) r) d then Some (filter (sel r) d) else None.

Lemma residue_xyz_fold d : forall pre acc,
  (forall r, dget res3_eqb r acc = rx_of pre r) ->
  forall r, dget res3_eqb r (fold_left (fun acc a =>
      dupd res3_eqb (res3_of a)
        (fun o => (match o with Some v => v | None => [] end) ++ (if fast_is_H (name a) then [] else [a])) acc) d acc)
    = rx_of (pre ++ d) r.
Proof.
  induction d as [|a t IH]; intros pre acc Inv r; cbn [fold_left].
  - rewrite app_nil_r. apply Inv.
  - change (pre ++ a :: t) with (pre ++ [a] ++ t). rewrite app_assoc. apply IH. clear r. intro r.
    rewrite (dget_dupd res3_eqb res3_eqb_ok). unfold rx_of. rewrite existsb_app, filter_app. cbn [existsb filter].
    rewrite Bool.orb_false_r. rewrite (eqb_ok_sym _ res3_eqb_ok r (res3_of a)).
    destruct (res3_eqb (res3_of a) r) eqn:E.
    + apply res3_eqb_ok in E. subst r. rewrite Bool.orb_true_r. f_equal. rewrite Inv. unfold rx_of.
      assert (T : (if fast_is_H (name a) then [] else [a]) = (if sel (res3_of a) a then [a] else [])).
      { unfold sel, heavy. rewrite (eqb_ok_refl _ res3_eqb_ok), <- fast_is_H_spec. destruct (fast_is_H (name a)); reflexivity. }
      rewrite T. f_equal.
      destruct (existsb (fun a0 => res3_eqb (res3_of a0) (res3_of a)) pre) eqn:Ex; [reflexivity|].
      symmetry. apply filter_all_false. intros x Hx. unfold sel.
      destruct (res3_eqb (res3_of x) (res3_of a)) eqn:Ex'; [|reflexivity].
      exfalso. assert (existsb (fun a0 => res3_eqb (res3_of a0) (res3_of a)) pre = true) by (apply existsb_exists; exists x; split; assumption).
      congruence.
    + rewrite Bool.orb_false_r. rewrite Inv. unfold rx_of.
      assert (T : sel r a = false) by (unfold sel; rewrite E; reflexivity). rewrite T, app_nil_r. reflexivity.
Qed.
Lemma residue_xyz_get d r : dget res3_eqb r (residue_xyz d) = rx_of d r.
Proof. unfold residue_xyz. apply (residue_xyz_fold d [] []). intro r'. reflexivity. Qed.

(* a contact between two residues of d, as the counting loop decides it *)
Definition hit (cutoff : Q) (d : list atom) (p : res3 * res3) : bool :=
  match rx_of d (fst p), rx_of d (snd p) with
  | Some xa, Some xb => existsb (fun p1 => existsb (fun p2 => close_fastQ cutoff p1 p2) xb) xa
  | _, _ => false
  end.

Lemma hit_res_contact cutoff d rA rB : hit cutoff d (rA, rB) = res_contactb (withinb cutoff) d rA rB.
Proof.
  apply bool_eq_iff. unfold hit, res_contactb, rx_of. cbn [fst snd]. rewrite existsb_exists. split.
  - destruct (existsb (fun a => res3_eqb (res3_of a) rA) d); [|discriminate].
    destruct (existsb (fun a => res3_eqb (res3_of a) rB) d); [|discriminate].
    rewrite existsb_exists. intros [a [Ha H]]. apply existsb_exists in H. destruct H as [b [Hb C]].
    apply filter_In in Ha, Hb. destruct Ha as [Ha Sa], Hb as [Hb Sb]. unfold sel in Sa, Sb.
    apply Bool.andb_true_iff in Sa, Sb. exists a. split; [exact Ha|].
    rewrite !Bool.andb_true_iff. split; [exact Sa|]. apply existsb_exists. exists b. split; [exact Hb|].
    rewrite !Bool.andb_true_iff. split; [exact Sb|]. rewrite <- close_fastQ_withinb. exact C.
  - intros [a [Ha H]]. rewrite !Bool.andb_true_iff in H. destruct H as [[Ea Va] H].
    apply existsb_exists in H. destruct H as [b [Hb H]]. rewrite !Bool.andb_true_iff in H. destruct H as [[Eb Vb] C].
    assert (XA : existsb (fun a => res3_eqb (res3_of a) rA) d = true) by (apply existsb_exists; exists a; split; assumption).
    assert (XB : existsb (fun a => res3_eqb (res3_of a) rB) d = true) by (apply existsb_exists; exists b; split; assumption).
    rewrite XA, XB. apply existsb_exists. exists a. split; [apply filter_In; split; [exact Ha | unfold sel; rewrite Ea, Va; reflexivity]|].
    apply existsb_exists. exists b. split; [apply filter_In; split; [exact Hb | unfold sel; rewrite Eb, Vb; reflexivity]|].
    rewrite close_fastQ_withinb. exact C.
Qed.

(* every residue that occurs in d has at least one non-hydrogen atom (otherwise np.min raises ValueError) *)
Definition every_residue_has_heavy (d : list atom) : Prop :=
  forall a, In a d -> exists a', In a' d /\ res3_of a' = res3_of a /\ heavy a' = true.

Lemma rx_nonempty d r v : every_residue_has_heavy d -> rx_of d r = Some v -> v <> [].
Proof.
  intros H. unfold rx_of. destruct (existsb (fun a => res3_eqb (res3_of a) r) d) eqn:Ex; [|discriminate].
  intro E; inversion E; subst. apply existsb_exists in Ex. destruct Ex as [a [Ha Er]]. apply res3_eqb_ok in Er.
  destruct (H a Ha) as [a' [Ha' [E' V]]]. apply not_nil_ex. exists a'. apply filter_In. split; [exact Ha'|].
  unfold sel. rewrite E', Er, (eqb_ok_refl _ res3_eqb_ok), V. reflexivity.
Qed.

Section FastCount.
  Variable cutoff : Q.
  Variable d : list atom.
  Hypothesis HV : every_residue_has_heavy d.
  Let rx := residue_xyz d.

  Lemma count_B rA xyzA lB nC nT : rx_of d rA = Some xyzA ->
    fold_left (fnat_count_B cutoff rx xyzA) lB (Ok (nC, nT)) =
    Ok (nC + Z.of_nat (List.length (filter (fun rB => hit cutoff d (rA, rB)) lB)), nT + Z.of_nat (List.length lB)).
  Proof.
    intro GA. revert nC nT; induction lB as [|rB t IH]; intros nC nT; cbn [fold_left filter List.length].
    - f_equal. f_equal; lia.
    - unfold fnat_count_B at 2. cbn [bind]. unfold rx. rewrite residue_xyz_get.
      unfold hit at 1. cbn [fst snd]. rewrite GA.
      destruct (rx_of d rB) as [xyzB|] eqn:GB.
      + pose proof (rx_nonempty d rA xyzA HV GA) as NA. pose proof (rx_nonempty d rB xyzB HV GB) as NB.
        apply is_nil_false in NA, NB. rewrite NA, NB. cbn [orb].
        destruct (existsb (fun p1 => existsb (fun p2 => close_fastQ cutoff p1 p2) xyzB) xyzA).
        * rewrite IH. cbn [List.length]. f_equal. f_equal; lia.
        * rewrite IH. f_equal. f_equal; lia.
      + rewrite IH. f_equal. f_equal; lia.
  Qed.

  Lemma count_A pairs nC nT :
    fold_left (fnat_count_A cutoff rx) pairs (Ok (nC, nT)) =
    Ok (nC + Z.of_nat (List.length (filter (hit cutoff d) (flat_pairs pairs))),
        nT + Z.of_nat (List.length (flat_pairs pairs))).
  Proof.
    revert nC nT; induction pairs as [|[rA lB] t IH]; intros nC nT; cbn [fold_left].
    - simpl. f_equal. f_equal; lia.
    - unfold fnat_count_A at 2. cbn [bind]. unfold rx. rewrite residue_xyz_get.
      unfold flat_pairs. cbn [flat_map fst snd]. fold (flat_pairs t). rewrite filter_app, !app_length, map_length.
      destruct (rx_of d rA) as [xyzA|] eqn:GA.
      + fold rx. rewrite (count_B rA xyzA lB nC nT GA). rewrite IH.
        rewrite filter_map_pair, map_length. f_equal. f_equal; lia.
      + cbn [fst snd]. rewrite IH.
        assert (Z0 : filter (hit cutoff d) (map (pair rA) lB) = []).
        { apply filter_all_false. intros p Hp. apply in_map_iff in Hp. destruct Hp as [rB [E _]]. subst p.
          unfold hit. cbn [fst snd]. rewrite GA. reflexivity. }
        rewrite Z0. cbn [List.length]. f_equal. f_equal; lia.
  Qed.
End FastCount.

(* ------------------------------------------------------------------ *)
(* round(n / m, 6): the binary64 quotient and its decimal rounding      *)
Open Scope Q_scope.
Lemma Qpow2_pos e : 0 < Qpow2 e.
Proof.
  destruct e as [|p|p]; [reflexivity | |reflexivity].
  unfold Qpow2, Qlt, inject_Z, Qnum, Qden. assert (0 < 2 ^ Z.pos p)%Z by (apply Z.pow_pos_nonneg; lia). lia.
Qed.
Lemma Qpow2_inv e : Qpow2 (- e) * Qpow2 e == 1.
Proof.
  destruct e as [|p|p]; [reflexivity | |].
  - unfold Qpow2, Z.opp, Qeq, Qmult, inject_Z, Qnum, Qden. rewrite Pos2Z.inj_mul, Pos2Z.inj_pow. ring.
  - unfold Qpow2, Z.opp, Qeq, Qmult, inject_Z, Qnum, Qden. rewrite Pos2Z.inj_mul, Pos2Z.inj_pow. ring.
Qed.
Lemma rhe_nonneg q : 0 <= q -> (0 <= round_half_even q)%Z.
Proof. intro H. rewrite <- (rhe_Z 0). apply rhe_monotone. exact H. Qed.
Lemma rhe_half : round_half_even (1 # 2) = 0%Z.
Proof. reflexivity. Qed.

Lemma scaled_round_le_1 (a : Q) (e : Z) : 0 <= a -> a <= 1 ->
  0 <= inject_Z (round_half_even (a * Qpow2 (- e))) * Qpow2 e <= 1.
Proof.
  intros A0 A1. pose proof (Qpow2_pos e) as Pe. pose proof (Qpow2_pos (- e)) as Pn.
  assert (M0 : (0 <= round_half_even (a * Qpow2 (- e)))%Z) by (apply rhe_nonneg; nra).
  split.
  - assert (M0q : inject_Z 0 <= inject_Z (round_half_even (a * Qpow2 (- e)))) by (rewrite <- Zle_Qle; exact M0).
    change (inject_Z 0) with 0 in M0q. nra.
  - destruct e as [|p|p].
    + simpl in *. rewrite Qmult_1_r.
      assert (round_half_even (a * 1) <= round_half_even (inject_Z 1))%Z by (apply rhe_monotone; change (inject_Z 1) with 1; lra).
      rewrite rhe_Z in H. rewrite Zle_Qle in H. change (inject_Z 1) with 1 in H. lra.
    + (* e > 0: a * 2^-e <= 1/2, rounds to 0 *)
      assert (H : (round_half_even (a * Qpow2 (- Zpos p)) <= round_half_even (1 # 2))%Z).
      { apply rhe_monotone. simpl.
        assert ((1 # 2 ^ p) <= 1 # 2).
        { unfold Qle; simpl. rewrite Pos2Z.inj_pow. assert (2 ^ 1 <= 2 ^ Zpos p)%Z by (apply Z.pow_le_mono_r; lia). lia. }
        assert (0 < 1 # 2 ^ p) by reflexivity. nra. }
      rewrite rhe_half in H. assert (E : round_half_even (a * Qpow2 (- Zpos p)) = 0%Z) by lia.
      rewrite E. change (inject_Z 0) with 0. lra.
    + (* e < 0: 2^-e is an integer *)
      assert (H : (round_half_even (a * Qpow2 (- Zneg p)) <= round_half_even (Qpow2 (- Zneg p)))%Z).
      { apply rhe_monotone. nra. }
      assert (I : Qpow2 (- Zneg p) = inject_Z (2 ^ Zpos p)) by reflexivity.
      rewrite I in H at 2. rewrite rhe_Z in H. rewrite Zle_Qle in H. rewrite <- I in H.
      pose proof (Qpow2_inv (Zneg p)) as Inv. nra.
Qed.

Lemma Qabs_nonneg_eq q : 0 <= q -> Qabs q = q.
Proof.
  destruct q as [n d]. unfold Qle, Qabs; simpl. intro H. f_equal. apply Z.abs_eq. lia.
Qed.
Lemma b64_unit q : 0 <= q -> q <= 1 -> 0 <= b64 q <= 1.
Proof.
  intros H0 H1. unfold b64. destruct (Qeq_bool q 0); [split; [apply Qle_refl | discriminate]|].
  rewrite (Qabs_nonneg_eq q H0).
  set (e0 := (Z.log2 (Qnum q) - Z.log2 (Zpos (Qden q)) - 52)%Z).
  set (e := if Qle_bool (inject_Z (2 ^ 52)) (q * Qpow2 (- e0)) then e0 else (e0 - 1)%Z).
  rewrite (proj2 (Qle_bool_iff 0 q) H0). rewrite Qred_correct.
  apply scaled_round_le_1; assumption.
Qed.

Lemma b64_same p : b64 (Zpos p # p) = 1.
Proof.
  unfold b64. assert (E0 : Qeq_bool (Zpos p # p) 0 = false) by reflexivity. rewrite E0.
  assert (P : 0 <= Zpos p # p) by (unfold Qle; simpl; lia).
  rewrite (Qabs_nonneg_eq _ P). cbn [Qnum Qden].
  replace (Z.log2 (Zpos p) - Z.log2 (Zpos p) - 52)%Z with (-52)%Z by lia.
  assert (One : Zpos p # p == 1) by (unfold Qeq; simpl; lia).
  assert (S : (Zpos p # p) * Qpow2 (- -52) == inject_Z (2 ^ 52)) by (rewrite One; reflexivity).
  assert (C : Qle_bool (inject_Z (2 ^ 52)) ((Zpos p # p) * Qpow2 (- -52)) = true) by (apply Qle_bool_iff; rewrite S; apply Qle_refl).
  rewrite C. rewrite (rhe_comp _ _ S), rhe_Z. rewrite (proj2 (Qle_bool_iff 0 _) P).
  reflexivity.
Qed.

Lemma reported_unit q : 0 <= q -> q <= 1 -> 0 <= reported q <= 1.
Proof.
  intros H0 H1. destruct (b64_unit q H0 H1) as [B0 B1]. unfold reported. split.
  - rewrite <- (round_dec_of_Z 6 0) by lia. apply round_dec_monotone_nonneg; [apply Qle_refl | exact B0].
  - rewrite <- (round_dec_of_Z 6 1) by lia. apply round_dec_monotone_nonneg; assumption.
Qed.
Lemma ratio_unit (n : Z) (p : positive) : (0 <= n <= Zpos p)%Z -> 0 <= n # p <= 1.
Proof. intros [A B]. unfold Qle; simpl. lia. Qed.
Close Scope Q_scope.

(* ------------------------------------------------------------------ *)
(* both routes = specification                                          *)
Lemma hit_pred cutoff d (p : res3 * res3) : hit cutoff d p = res_contactb (withinb cutoff) d (fst p) (snd p).
Proof. destruct p as [rA rB]. apply hit_res_contact. Qed.

Lemma spec_value near ref dec c1 c2 :
  distinct_chains ref = [c1; c2] ->
  fnat_spec near ref dec =
  match Z.of_nat (List.length (ref_contacts near ref c1 c2)) with
  | Zpos p => Some (Qmake (Z.of_nat (List.length (preserved near ref dec c1 c2))) p)
  | _ => None
  end.
Proof. intro H. unfold fnat_spec. rewrite H. reflexivity. Qed.

Definition fnat_outcome (r : res Q) (spec : option Q) : Prop :=
  match spec with
  | Some q => r = Ok (reported q)
  | None => r = Err "ZeroDivisionError"
  end.

Lemma ratio_outcome digits n m near ref dec c1 c2 :
  digits = 6%nat ->
  distinct_chains ref = [c1; c2] ->
  n = Z.of_nat (List.length (preserved near ref dec c1 c2)) ->
  m = Z.of_nat (List.length (ref_contacts near ref c1 c2)) ->
  fnat_outcome (py_ratio_round digits n m) (fnat_spec near ref dec).
Proof.
  intros -> HC -> ->. rewrite (spec_value near ref dec c1 c2 HC). unfold fnat_outcome, py_ratio_round.
  destruct (Z.of_nat (List.length (ref_contacts near ref c1 c2))); reflexivity.
Qed.

Lemma fnat_fast_exact cutoff ref lines d c1 c2 :
  wf ref -> get_chains ref = [c1; c2] -> fast_read lines = Ok d -> every_residue_has_heavy d ->
  fnat_outcome (compute_fnat_fast cutoff ref lines) (fnat_spec (withinb cutoff) ref d).
Proof.
  intros W HC FR HV. unfold compute_fnat_fast, compute_residue_pairs_ref. rewrite HC.
  change pairs_ref_only_backbone_src with false. change pairs_ref_excludeH_src with true.
  destruct (ref_pairs_exact cutoff ref c1 c2 W HC) as [rp [E [ND Pm]]].
  rewrite E, FR. cbn [bind]. rewrite (count_A cutoff d HV rp 0 0). cbn [bind fst snd Z.add].
  apply (ratio_outcome _ _ _ (withinb cutoff) ref d c1 c2); [reflexivity | exact HC | |].
  - f_equal. unfold preserved.
    rewrite (Permutation_length (Permutation_filter' (hit cutoff d) _ _ Pm)). f_equal.
    apply filter_ext. intro p. apply hit_pred.
  - f_equal. apply Permutation_length. exact Pm.
Qed.

(* _fix_chainID leaves a complex whose chains are already A, B unchanged *)
Lemma set_chain_same a : set_chain a (chain a) = a.
Proof. destruct a; reflexivity. Qed.
Lemma fix_chainID_AB s : get_chains s = ["A"; "B"]%string -> fix_chainID s = Ok s.
Proof.
  intro H. unfold fix_chainID. rewrite H. cbn [List.length Nat.ltb Nat.leb]. f_equal.
  rewrite <- (map_id s) at 2. apply map_ext_in. intros a Ha.
  assert (Hc : In (chain a) (get_chains s)) by (apply get_chains_In; apply in_map; exact Ha).
  rewrite H in Hc. destruct Hc as [Hc|[Hc|[]]]; rewrite <- Hc at 1; simpl; rewrite Hc; apply set_chain_same.
Qed.

Lemma ref_contact_in_decoy near ref dec c1 c2 p :
  In p (ref_contacts near ref c1 c2) ->
  (In p (ref_contacts near dec c1 c2) <-> res_contactb near dec (fst p) (snd p) = true).
Proof.
  destruct p as [rA rB]. intro Hp. cbn [fst snd].
  apply (ref_contacts_In ref c1 c2 near rA rB) in Hp.
  destruct Hp as [a0 [b0 [_ [_ [C1 [C2 [_ [_ [_ [EA EB]]]]]]]]]].
  rewrite (ref_contacts_In dec c1 c2 near rA rB). unfold res_contactb. rewrite existsb_exists. split.
  - intros [a [b [Ha [Hb [Ca [Cb [Va [Vb [Nr [Ea Eb]]]]]]]]]]. exists a. split; [exact Ha|].
    rewrite !Bool.andb_true_iff. split; [split; [apply res3_eqb_ok; exact Ea | exact Va]|].
    apply existsb_exists. exists b. split; [exact Hb|]. rewrite !Bool.andb_true_iff.
    split; [split; [apply res3_eqb_ok; exact Eb | exact Vb] | exact Nr].
  - intros [a [Ha H]]. rewrite !Bool.andb_true_iff in H. destruct H as [[Ea Va] H].
    apply existsb_exists in H. destruct H as [b [Hb H]]. rewrite !Bool.andb_true_iff in H. destruct H as [[Eb Vb] Nr].
    apply res3_eqb_ok in Ea, Eb. exists a, b.
    assert (chain a = c1) by (rewrite <- EA in Ea; unfold res3_of in Ea; inversion Ea; congruence).
    assert (chain b = c2) by (rewrite <- EB in Eb; unfold res3_of in Eb; inversion Eb; congruence).
    tauto.
Qed.

Lemma fnat_sql_exact_AB cutoff ref dec :
  wf ref -> wf dec -> get_chains ref = ["A"; "B"]%string -> get_chains dec = ["A"; "B"]%string ->
  fnat_outcome (compute_fnat_pdb2sql cutoff dec ref) (fnat_spec (withinb cutoff) ref dec).
Proof.
  intros Wr Wd Hr Hd. unfold compute_fnat_pdb2sql.
  change fnat_sql_fix_chainID_src with true. cbv iota.
  rewrite (fix_chainID_AB dec Hd), (fix_chainID_AB ref Hr). cbn [bind]. rewrite Hr.
  change fnat_sql_only_backbone_src with false. change fnat_sql_excludeH_src with true.
  destruct (ref_pairs_exact cutoff dec "A" "B" Wd Hd) as [pd [Ed [NDd Pd]]].
  destruct (ref_pairs_exact cutoff ref "A" "B" Wr Hr) as [pr [Er [NDr Pr]]].
  rewrite Ed, Er. cbn [bind].
  apply (ratio_outcome _ _ _ (withinb cutoff) ref dec "A" "B"); [reflexivity | exact Hr | |].
  - f_equal. rewrite (dedup_id respair_eqb respair_eqb_ok _ NDr). unfold preserved.
    rewrite (Permutation_length (Permutation_filter' _ _ _ Pr)). f_equal.
    apply filter_ext_in'. intros p Hp. apply bool_eq_iff.
    rewrite (mem_In respair_eqb respair_eqb_ok).
    rewrite <- (ref_contact_in_decoy (withinb cutoff) ref dec "A" "B" p Hp).
    split; intro H; [apply (Permutation_in _ Pd); exact H | apply (Permutation_in _ (Permutation_sym Pd)); exact H].
  - f_equal. apply Permutation_length. exact Pr.
Qed.

(* ------------------------------------------------------------------ *)
(* range and the identical decoy                                        *)
Lemma filter_length_le' {A} (f : A -> bool) l : (List.length (filter f l) <= List.length l)%nat.
Proof. induction l as [|x t IH]; simpl; [lia|]. destruct (f x); simpl; lia. Qed.

Lemma fnat_spec_unit near ref dec q : fnat_spec near ref dec = Some q -> (0 <= q <= 1)%Q.
Proof.
  unfold fnat_spec. destruct (distinct_chains ref) as [|c1 [|c2 [|? ?]]]; try discriminate.
  destruct (Z.of_nat (List.length (ref_contacts near ref c1 c2))) eqn:E; try discriminate.
  intro H; inversion H; subst. apply ratio_unit. split; [lia|]. rewrite <- E.
  apply Nat2Z.inj_le. unfold preserved. apply filter_length_le'.
Qed.
Lemma fnat_outcome_unit r near ref dec q :
  fnat_outcome r (fnat_spec near ref dec) -> r = Ok q -> (0 <= q <= 1)%Q.
Proof.
  unfold fnat_outcome. destruct (fnat_spec near ref dec) as [q0|] eqn:S; intros H E; rewrite H in E; [|discriminate].
  inversion E; subst. apply reported_unit; apply (fnat_spec_unit near ref dec q0 S).
Qed.

Lemma fnat_spec_identical near s q : fnat_spec near s s = Some q -> reported q = 1%Q.
Proof.
  unfold fnat_spec. destruct (distinct_chains s) as [|c1 [|c2 [|? ?]]]; try discriminate.
  assert (P : preserved near s s c1 c2 = ref_contacts near s c1 c2).
  { unfold preserved. rewrite (filter_ext_in' _ (fun _ => true)).
    - induction (ref_contacts near s c1 c2) as [|x t IH]; simpl; [reflexivity | rewrite IH; reflexivity].
    - intros p Hp. apply (ref_contact_in_decoy near s s c1 c2 p Hp). exact Hp. }
  rewrite P. destruct (Z.of_nat (List.length (ref_contacts near s c1 c2))) eqn:E; try discriminate.
  intro H; inversion H; subst. unfold reported. rewrite b64_same. reflexivity.
Qed.
Lemma fnat_outcome_identical r near s :
  fnat_outcome r (fnat_spec near s s) -> fnat_spec near s s <> None -> r = Ok 1%Q.
Proof.
  unfold fnat_outcome. destruct (fnat_spec near s s) as [q|] eqn:S; intros H N; [|congruence].
  rewrite H, (fnat_spec_identical near s q S). reflexivity.
Qed.

(* the fast reader's columns are the wwPDB columns the main parser uses (Generated_parse.delimiter_src) *)
Definition delim (k : string) : option (nat * nat) :=
  (fix go (l : list (string * (nat * nat))) := match l with [] => None | (k', v) :: t => if String.eqb k k' then Some v else go t end) delimiter_src.
Lemma fast_reader_columns :
  delim "resSeq" = Some fast_resSeq_src /\ delim "resName" = Some fast_resName_src /\ delim "name" = Some fast_name_src /\
  delim "x" = Some fast_x_src /\ delim "y" = Some fast_y_src /\ delim "z" = Some fast_z_src /\
  delim "chainID" = Some (fast_chain_col_src, S fast_chain_col_src) /\
  fast_prefix_src = atom_prefix_src /\ fast_H_char_src = contact_H_char_src /\
  (fast_chain_alt_col_src = 72)%nat.
Proof. repeat split. Qed.
