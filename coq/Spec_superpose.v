(* Spec_superpose.v — C13: one rigid motion of the whole structure, optimal on the shared selection *)
From Verif Require Import PyLib ModelTypes Model_many Model_superpose.
Open Scope Q_scope.

Definition mT (m : mat) : mat :=
  let '((a, b, c), (d, e, f), (g, h, i)) := m in ((a, d, g), (b, e, h), (c, f, i)).
Definition det (m : mat) : Q :=
  let '((a, b, c), (d, e, f), (g, h, i)) := m in a * (e * i - f * h) - b * (d * i - f * g) + c * (d * h - e * g).
Definition norm2 (v : vec) : Q := vdot v v.
(* sum of squared deviations between paired points *)
Definition resid (a b : list vec) : Q := fold_right Qplus 0 (map (fun p => norm2 (vsub (fst p) (snd p))) (combine a b)).

(* identity-paired selected atoms the two structures share (chain, resSeq, resName, name) *)
Definition shared_pairs (sel_mobile sel_target : list row) : list vec * list vec :=
  pairs_of_tuples (join [1; 3; 5; 4]%nat [sel_mobile; sel_target]).

(* "within eps" on the entries of M^T M - I and det M - 1 *)
Definition close_to (eps a b : Q) : bool := Qleb (Qabs (a - b)) eps.
Definition is_rotation_eps (eps : Q) (m : mat) : bool :=
  let '(r1, r2, r3) := m in
  close_to eps (vdot r1 r1) 1 && close_to eps (vdot r2 r2) 1 && close_to eps (vdot r3 r3) 1
  && close_to eps (vdot r1 r2) 0 && close_to eps (vdot r1 r3) 0 && close_to eps (vdot r2 r3) 0
  && close_to eps (det m) 1.
