(* Proofs_fs_zone.v — C16, shared zone-file cache: a rely/guarantee theorem over ALL schedules, its
   instance for the zone protocol (isfile? -> read : compute, mkstemp, write, os.replace), and the
   refutation of the in-place writer. *)
From Coq Require Import Lia.
From Verif Require Import PyLib ModelTypes Model_fs Spec_fs Proofs_fs_base Proofs_fs_c16.
Open Scope string_scope.
Open Scope list_scope.
Open Scope nat_scope.

(* ------------------------------------------------------------------ *)
(* 1. rely / guarantee over schedules *)
Section RG.
Variables rely guar : nat -> fsys -> fsys -> Prop.
Hypothesis rely_refl : forall i fs, rely i fs fs.
Hypothesis rely_trans : forall i a b c, rely i a b -> rely i b c -> rely i a c.
Hypothesis guar_rely : forall i j a b, i <> j -> guar i a b -> rely j a b.

(* task i, from fs, whatever the environment does within rely i before each of its actions, only
   makes steps within guar i, and can only return a value satisfying Q *)
Inductive safe {B} (Q : fsys -> B -> Prop) (i : nat) : fsys -> prog B -> Prop :=
| safe_ret fs b : Q fs b -> safe Q i fs (Ret b)
| safe_do fs a k :
    (forall fs1, rely i fs fs1 -> guar i fs1 (fst (fstep fs1 a))) ->
    (forall fs1, rely i fs fs1 -> safe Q i (fst (fstep fs1 a)) (k (snd (fstep fs1 a)))) ->
    safe Q i fs (Do a k).

Lemma safe_rely {B} (Q : fsys -> B -> Prop) i fs fs' p :
  (forall a f f', Q f a -> rely i f f' -> Q f' a) ->
  safe Q i fs p -> rely i fs fs' -> safe Q i fs' p.
Proof.
  intros HQ Hs Hr. destruct Hs as [fs b Hb|fs a k Hg Hk].
  - constructor. eapply HQ; eassumption.
  - constructor; intros fs1 H1; [apply Hg | apply Hk]; eapply rely_trans; eassumption.
Qed.

Lemma safe_bindp {B C} (Q : fsys -> C -> Prop) i fs (p : prog B) (f : B -> prog C) :
  safe (fun fs' b => safe Q i fs' (f b)) i fs p -> safe Q i fs (bindp p f).
Proof.
  intro H. induction H as [fs b Hb|fs a k Hg Hk IH]; simpl; [exact Hb|].
  constructor; intros fs1 H1; [now apply Hg | now apply IH].
Qed.

Lemma safe_weaken {B} (Q Q' : fsys -> B -> Prop) i fs p :
  (forall f b, Q f b -> Q' f b) -> safe Q i fs p -> safe Q' i fs p.
Proof.
  intros HQ H. induction H as [fs b Hb|fs a k Hg Hk IH]; constructor; [now apply HQ | exact Hg | exact IH].
Qed.

Context {A : Type}.
Variable Qf : nat -> A -> Prop.
Notation safeF i := (safe (fun _ a => Qf i a) i).

Definition all_safe (st : fsys * list (prog A)) : Prop :=
  forall i p, nth_error (snd st) i = Some p -> safeF i (fst st) p.

Lemma sched_step_safe j st : all_safe st -> all_safe (sched_step j st).
Proof.
  intro H. destruct st as [fs ts]. unfold sched_step.
  destruct (nth_error ts j) as [[b|a k]|] eqn:Ej; try exact H.
  destruct (fstep fs a) as [fs' r] eqn:Est.
  pose proof (H j _ Ej) as Hj. simpl in Hj.
  inversion Hj as [|fs0 a0 k0 Hg0 Hk]; subst.
  pose proof (Hg0 fs (rely_refl j fs)) as Hg. pose proof (Hk fs (rely_refl j fs)) as Hs.
  rewrite Est in Hg, Hs. simpl in Hg, Hs.
  intros i p Hi. simpl in Hi. simpl fst.
  destruct (Nat.eq_dec i j) as [->|Hij].
  - rewrite (nth_error_replace_eq _ _ _ _ Ej) in Hi. injection Hi as <-. exact Hs.
  - rewrite nth_error_replace_neq in Hi by congruence.
    eapply safe_rely; [intros; assumption | exact (H i p Hi) |].
    apply (guar_rely j i); [congruence | exact Hg].
Qed.

Theorem rg_schedules : forall s st, all_safe st -> all_safe (run_sched s st).
Proof.
  induction s as [|j s IH]; intros st H; [exact H|]. simpl. apply IH. now apply sched_step_safe.
Qed.

Corollary rg_results : forall s st i a,
  all_safe st -> nth_error (snd (run_sched s st)) i = Some (Ret a) -> Qf i a.
Proof.
  intros s st i a H Hr. pose proof (rg_schedules s st H i _ Hr) as Hs. now inversion Hs.
Qed.
End RG.

(* ------------------------------------------------------------------ *)
(* 2. the zone protocol *)
Section Zone.
Variable Z : path.                      (* the shared zone file *)
Variable lines : list string.           (* the zone every task computes (same reference) *)
Let zt := concat_str lines.
Variables ref tmp : nat -> path.        (* per task: its reference file, its first temp-name candidate *)
Variable rest : nat -> list path.       (* further candidates (never needed: the first is fresh) *)
Variable rtext : nat -> string.         (* content of the reference files *)
Hypothesis tmp_inj : forall i j, i <> j -> tmp i <> tmp j.
Hypothesis tmp_Z : forall i, tmp i <> Z.
Hypothesis tmp_ref : forall i j, tmp i <> ref j.
Hypothesis ref_Z : forall i, ref i <> Z.

Definition Iz (fs : fsys) : Prop := fs Z = None \/ fs Z = Some (FText zt).
Definition rely (i : nat) (fs fs' : fsys) : Prop :=
  fs' (tmp i) = fs (tmp i) /\ fs' (ref i) = fs (ref i) /\ (Iz fs -> Iz fs') /\
  (fs Z = Some (FText zt) -> fs' Z = Some (FText zt)).
Definition guar (i : nat) (fs fs' : fsys) : Prop :=
  (forall q, q <> tmp i -> q <> Z -> fs' q = fs q) /\ (fs' Z = fs Z \/ fs' Z = Some (FText zt)).

Lemma rely_refl i fs : rely i fs fs.
Proof. repeat split; auto. Qed.
Lemma rely_trans i a b c : rely i a b -> rely i b c -> rely i a c.
Proof.
  intros [A1 [A2 [A3 A4]]] [B1 [B2 [B3 B4]]]. repeat split; try congruence; auto.
Qed.
Lemma guar_rely i j a b : i <> j -> guar i a b -> rely j a b.
Proof.
  intros Hij [G1 G2]. repeat split.
  - apply G1; [apply tmp_inj; congruence | apply tmp_Z].
  - apply G1; [intro E; symmetry in E; exact (tmp_ref i j E) | apply ref_Z].
  - intros [H|H]; destruct G2 as [G|G]; unfold Iz; rewrite G; auto.
  - intro H. destruct G2 as [G|G]; rewrite G; auto.
Qed.
Lemma guar_id i fs : guar i fs fs.
Proof. split; auto. Qed.

(* what task i knows about the file system, stable under rely i *)
Definition K (i : nat) (X : option content) (zk : bool) (fs : fsys) : Prop :=
  fs (tmp i) = X /\ fs (ref i) = Some (FText (rtext i)) /\ Iz fs /\ (zk = true -> fs Z = Some (FText zt)).
Lemma K_rely i X zk fs fs' : K i X zk fs -> rely i fs fs' -> K i X zk fs'.
Proof.
  intros [K1 [K2 [K3 K4]]] [R1 [R2 [R3 R4]]]. repeat split; try congruence; auto.
Qed.

Notation safe' := (safe rely guar).

Lemma append_assoc (a b c : string) : (a +s+ b) +s+ c = a +s+ (b +s+ c).
Proof. induction a; simpl; [reflexivity | now rewrite IHa]. Qed.
Lemma append_empty_r (a : string) : a +s+ "" = a.
Proof. induction a; simpl; [reflexivity | now rewrite IHa]. Qed.

Lemma safe_read_pdb (Post : fsys -> res string -> Prop) i X zk fs :
  K i X zk fs ->
  (forall fs', K i X zk fs' -> Post fs' (Ok (rtext i))) ->
  safe' Post i fs (read_pdb (ref i)).
Proof.
  intros HK HP. unfold read_pdb.
  constructor; intros fs1 H1; pose proof (K_rely _ _ _ _ _ HK H1) as K1; [apply guar_id|].
  destruct K1 as [_ [K12 _]]. simpl. rewrite K12. simpl.
  pose proof (K_rely _ _ _ _ _ HK H1) as K1.
  constructor; intros fs2 H2; pose proof (K_rely _ _ _ _ _ K1 H2) as K2; [apply guar_id|].
  destruct K2 as [_ [K22 _]]. simpl. rewrite K22. simpl.
  pose proof (K_rely _ _ _ _ _ K1 H2) as K2.
  constructor; intros fs3 H3; pose proof (K_rely _ _ _ _ _ K2 H3) as K3.
  - simpl. destruct (fs3 (ref i)) as [[| |]|]; apply guar_id.
  - destruct K3 as [_ [K32 _]]. simpl. rewrite K32. simpl. constructor. apply HP. exact (K_rely _ _ _ _ _ K2 H3).
Qed.

Lemma safe_new_db (Post : fsys -> res string -> Prop) i X zk fs :
  K i X zk fs ->
  (forall fs', K i X zk fs' -> Post fs' (Ok (rtext i))) ->
  safe' Post i fs (new_db (ref i)).
Proof.
  intros HK HP. unfold new_db.
  constructor; intros fs1 H1; pose proof (K_rely _ _ _ _ _ HK H1) as K1; [apply guar_id|].
  simpl. eapply safe_read_pdb; [exact K1 | exact HP].
Qed.

Lemma safe_read_zone (Post : fsys -> res string -> Prop) i X fs :
  K i X true fs ->
  (forall fs', K i X true fs' -> Post fs' (Ok zt)) ->
  safe' Post i fs (read_zone Z).
Proof.
  intros HK HP. unfold read_zone.
  constructor; intros fs1 H1; pose proof (K_rely _ _ _ _ _ HK H1) as K1; [apply guar_id|].
  destruct K1 as [_ [_ [_ K14]]]. simpl. rewrite (K14 eq_refl). simpl.
  pose proof (K_rely _ _ _ _ _ HK H1) as K1.
  constructor; intros fs2 H2; pose proof (K_rely _ _ _ _ _ K1 H2) as K2.
  - simpl. destruct (fs2 Z) as [[| |]|]; apply guar_id.
  - destruct K2 as [_ [_ [_ K24]]]. simpl. rewrite (K24 eq_refl). simpl. constructor.
    apply HP. exact (K_rely _ _ _ _ _ K1 H2).
Qed.

Lemma guar_tmp i fs c : guar i fs (fs_set fs (tmp i) c).
Proof.
  split; [intros q Hq _; now apply fs_set_neq | left; apply fs_set_neq; intro E; symmetry in E; exact (tmp_Z i E)].
Qed.
Lemma K_set_tmp i X c zk fs : K i X zk fs -> K i c zk (fs_set fs (tmp i) c).
Proof.
  intros [K1 [K2 [K3 K4]]]. repeat split.
  - apply fs_set_eq.
  - rewrite fs_set_neq; [exact K2 | intro E; symmetry in E; exact (tmp_ref i i E)].
  - unfold Iz in *. rewrite fs_set_neq by (intro E; symmetry in E; exact (tmp_Z i E)). exact K3.
  - intro H. rewrite fs_set_neq by (intro E; symmetry in E; exact (tmp_Z i E)). now apply K4.
Qed.

Lemma safe_write_lines (Post : fsys -> res unit -> Prop) i zk kont : forall ls pre fs,
  K i (Some (FText pre)) zk fs ->
  (forall fs', K i (Some (FText (pre +s+ concat_str ls))) zk fs' -> safe' Post i fs' kont) ->
  safe' Post i fs (write_lines (tmp i) ls kont).
Proof.
  induction ls as [|l ls IH]; intros pre fs HK HP.
  - simpl. apply HP. simpl. now rewrite append_empty_r.
  - simpl write_lines.
    constructor; intros fs1 H1; pose proof (K_rely _ _ _ _ _ HK H1) as K1;
      pose proof K1 as [K11 _]; simpl; rewrite K11; simpl; [apply guar_tmp|].
    apply (IH (pre +s+ l)); [eapply K_set_tmp; exact K1|].
    intros fs' HK'. apply HP. simpl concat_str. now rewrite <- append_assoc.
Qed.

Lemma safe_write_zone (Post : fsys -> res unit -> Prop) i fs :
  K i None false fs ->
  (forall fs', Post fs' (Ok tt)) ->
  safe' Post i fs (write_zone Z (tmp i :: rest i) lines).
Proof.
  intros HK HP. simpl write_zone.
  constructor; intros fs1 H1; pose proof (K_rely _ _ _ _ _ HK H1) as K1;
    pose proof K1 as [K11 _]; simpl; rewrite K11; simpl; [apply guar_tmp|].
  apply (safe_write_lines Post i false _ lines ""); [eapply K_set_tmp; exact K1|].
  intros fs2 K2. simpl append in K2. fold zt in K2.
  constructor; intros fs3 H3; pose proof (K_rely _ _ _ _ _ K2 H3) as K3; [apply guar_id|].
  simpl.
  constructor; intros fs4 H4; pose proof (K_rely _ _ _ _ _ K3 H4) as K4;
    pose proof K4 as [K41 _]; simpl; rewrite K41; simpl.
  - split.
    + intros q Hq HqZ. rewrite fs_set_neq by exact Hq. now apply fs_set_neq.
    + right. rewrite fs_set_neq by (intro E; symmetry in E; exact (tmp_Z i E)). apply fs_set_eq.
  - constructor. apply HP.
Qed.

Definition zone_task (i : nat) : prog (res (string * list string)) :=
  acquire_zone (ref i) (Some Z) (tmp i :: rest i) lines.
Definition Qz (i : nat) (a : res (string * list string)) : Prop := exists rs, a = Ok (zt, rs).

Lemma zone_task_safe i fs :
  K i None false fs -> safe' (fun _ a => Qz i a) i fs (zone_task i).
Proof.
  intro HK. unfold zone_task, acquire_zone.
  constructor; intros fs1 H1; pose proof (K_rely _ _ _ _ _ HK H1) as K1; [apply guar_id|].
  simpl. destruct K1 as [K11 [K12 [[K13|K13] K14]]]; rewrite K13; simpl.
  - (* absent: compute, publish atomically *)
    unfold bindr. apply safe_bindp. apply (safe_new_db _ i None false).
    + repeat split; auto. left. exact K13.
    + intros fs2 K2. apply safe_bindp. apply safe_write_zone; [exact K2|].
      intros fs3. constructor. exists [rtext i]. reflexivity.
  - (* present: it is the canonical zone, and stays so *)
    unfold bindr. apply safe_bindp. apply (safe_read_zone _ i None).
    + repeat split; auto. right. exact K13.
    + intros fs2 K2. constructor. exists [zt]. reflexivity.
Qed.

(* For EVERY number of tasks and EVERY schedule: every task that has returned obtained exactly the
   canonical zone text, and none failed. *)
Theorem shared_zone_cache : forall (n : nat) (fs0 : fsys) (s : list nat) i a,
  Iz fs0 ->
  (forall j, j < n -> fs0 (tmp j) = None /\ fs0 (ref j) = Some (FText (rtext j))) ->
  nth_error (snd (run_sched s (fs0, map zone_task (seq 0 n)))) i = Some (Ret a) ->
  exists rs, a = Ok (zt, rs).
Proof.
  intros n fs0 s i a HI Hinit Hr.
  apply (rg_results rely guar rely_refl rely_trans guar_rely Qz s (fs0, map zone_task (seq 0 n)) i a); [|exact Hr].
  intros j p Hj. simpl in Hj. simpl fst.
  destruct (nth_error (seq 0 n) j) as [m|] eqn:Em.
  - rewrite (map_nth_error zone_task _ _ Em) in Hj. injection Hj as <-.
    assert (m = j /\ j < n) as [-> Hlt].
    { assert (Hjn : j < List.length (seq 0 n)) by (apply nth_error_Some; rewrite Em; discriminate).
      rewrite seq_length in Hjn. split; [|exact Hjn].
      pose proof (nth_error_nth _ _ 0 Em) as E. rewrite seq_nth in E by exact Hjn. simpl in E. congruence. }
    apply zone_task_safe. destruct (Hinit j Hlt) as [H1 H2]. repeat split; auto. discriminate.
  - exfalso. apply nth_error_None in Em. assert (nth_error (map zone_task (seq 0 n)) j <> None) by (rewrite Hj; discriminate).
    apply nth_error_Some in H. rewrite map_length in H. lia.
Qed.
End Zone.
