(* Proofs_geom_alg.v — matrix algebra over R for the geometry cluster: tactics that expose the
   polynomial content of the ring-polymorphic definitions at NumR, and the standard facts about
   3x3 products, transposes, determinants, traces and orthogonal matrices. *)
From Coq Require Import Reals Lra Psatz Nsatz.
From Verif Require Import Base Model_geom_num Generated_geom Model_geom Spec_geom Spec_geom_R.
Open Scope R_scope.

(* unfold the library at NumR down to Rplus / Rmult / IZR *)
Ltac gunf :=
  cbv [NumR nadd nsub nmul ndiv nopp nofZ n0 n1 nabs
       vadd vsub vopp vscale vdivs vzero vabs dot norm2 cross triple
       meye mzero mtrans mrow0 mrow1 mrow2 mcol0 mcol1 mcol2 mcol mvmul mmul madd mdivs mscale mtrace mdet mset mget outer
       vx vy vz m00 m01 m02 m10 m11 m12 m20 m21 m22 w0 w1 w2 w3
       f00 f01 f02 f03 f10 f11 f12 f13 f20 f21 f22 f23 f30 f31 f32 f33
       dot4 m4row m4col m4vmul quadform4
       dist2 rot_about mdiag sph unit3 unit4 unit_cs orthogonal symmetric3
       rodrigues_src euler_rx_src euler_ry_src euler_rz_src euler_src quat_F_src quat_rot_src
       spec_rot_point spec_rot_x spec_rot_y spec_rot_z spec_euler_point spec_mat_point horn].
Ltac gunf_in H :=
  cbv [NumR nadd nsub nmul ndiv nopp nofZ n0 n1 nabs
       vadd vsub vopp vscale vdivs vzero vabs dot norm2 cross triple
       meye mzero mtrans mrow0 mrow1 mrow2 mcol0 mcol1 mcol2 mcol mvmul mmul madd mdivs mscale mtrace mdet mset mget outer
       vx vy vz m00 m01 m02 m10 m11 m12 m20 m21 m22 w0 w1 w2 w3
       f00 f01 f02 f03 f10 f11 f12 f13 f20 f21 f22 f23 f30 f31 f32 f33
       dot4 m4row m4col m4vmul quadform4
       dist2 rot_about mdiag sph unit3 unit4 unit_cs orthogonal symmetric3
       rodrigues_src euler_rx_src euler_ry_src euler_rz_src euler_src quat_F_src quat_rot_src
       spec_rot_point spec_rot_x spec_rot_y spec_rot_z spec_euler_point spec_mat_point horn] in H.
Ltac gdestr :=
  repeat match goal with
         | v : vec3 R |- _ => destruct v
         | M : mat3 R |- _ => destruct M
         | q : vec4 R |- _ => destruct q
         | F : mat4 R |- _ => destruct F
         end.
Lemma M3_ext (a b c d e f g h i a' b' c' d' e' f' g' h' i' : R) :
  a = a' -> b = b' -> c = c' -> d = d' -> e = e' -> f = f' -> g = g' -> h = h' -> i = i' ->
  M3 a b c d e f g h i = M3 a' b' c' d' e' f' g' h' i'.
Proof. intros; subst; reflexivity. Qed.
Lemma V3_ext (a b c a' b' c' : R) : a = a' -> b = b' -> c = c' -> V3 a b c = V3 a' b' c'.
Proof. intros; subst; reflexivity. Qed.
Lemma V4_ext (a b c d a' b' c' d' : R) : a = a' -> b = b' -> c = c' -> d = d' -> V4 a b c d = V4 a' b' c' d'.
Proof. intros; subst; reflexivity. Qed.
(* componentwise goals *)
Ltac gext := first [apply M3_ext | apply V3_ext | apply V4_ext | idtac].
(* equality of vectors / matrices, componentwise by ring *)
Ltac gring := intros; gdestr; gunf; gext; ring.

Lemma M3_inj (a b c d e f g h i a' b' c' d' e' f' g' h' i' : R) :
  M3 a b c d e f g h i = M3 a' b' c' d' e' f' g' h' i' ->
  a = a' /\ b = b' /\ c = c' /\ d = d' /\ e = e' /\ f = f' /\ g = g' /\ h = h' /\ i = i'.
Proof. intros H. injection H. intros. repeat split; assumption. Qed.
Lemma V3_inj (a b c a' b' c' : R) : V3 a b c = V3 a' b' c' -> a = a' /\ b = b' /\ c = c'.
Proof. intros H. injection H. intros. repeat split; assumption. Qed.

(* ---- products, transposes ---- *)
Lemma mmul_assoc A B C : mmul Nr (mmul Nr A B) C = mmul Nr A (mmul Nr B C).
Proof. gring. Qed.
Lemma mmul_eye_l A : mmul Nr (meye Nr) A = A.
Proof. gring. Qed.
Lemma mmul_eye_r A : mmul Nr A (meye Nr) = A.
Proof. gring. Qed.
Lemma mtrans_mmul A B : mtrans (mmul Nr A B) = mmul Nr (mtrans B) (mtrans A).
Proof. gring. Qed.
Lemma mtrans_invol (A : mat3 R) : mtrans (mtrans A) = A.
Proof. destruct A; reflexivity. Qed.
Lemma mtrans_eye : mtrans (meye Nr) = meye Nr.
Proof. reflexivity. Qed.
Lemma mvmul_mmul A B v : mvmul Nr (mmul Nr A B) v = mvmul Nr A (mvmul Nr B v).
Proof. gring. Qed.
Lemma mvmul_eye v : mvmul Nr (meye Nr) v = v.
Proof. gring. Qed.
Lemma mdet_mmul A B : mdet Nr (mmul Nr A B) = mdet Nr A * mdet Nr B.
Proof. gring. Qed.
Lemma mdet_trans A : mdet Nr (mtrans A) = mdet Nr A.
Proof. gring. Qed.
Lemma mdet_eye : mdet Nr (meye Nr) = 1.
Proof. gunf. ring. Qed.
Lemma mtrace_mmul_comm A B : mtrace Nr (mmul Nr A B) = mtrace Nr (mmul Nr B A).
Proof. gring. Qed.
Lemma mtrace_trans A : mtrace Nr (mtrans A) = mtrace Nr A.
Proof. gring. Qed.
Lemma dot_mvmul_trans A v w : dot Nr (mvmul Nr A v) w = dot Nr v (mvmul Nr (mtrans A) w).
Proof. gring. Qed.
Lemma dot_comm v w : dot Nr v w = dot Nr w v.
Proof. gring. Qed.
Lemma mvmul_vsub A v w : mvmul Nr A (vsub Nr v w) = vsub Nr (mvmul Nr A v) (mvmul Nr A w).
Proof. gring. Qed.
Lemma mvmul_vadd A v w : mvmul Nr A (vadd Nr v w) = vadd Nr (mvmul Nr A v) (mvmul Nr A w).
Proof. gring. Qed.
Lemma triple_mvmul A a b c : triple Nr (mvmul Nr A a) (mvmul Nr A b) (mvmul Nr A c) = mdet Nr A * triple Nr a b c.
Proof. gring. Qed.

(* ---- orthogonal matrices ---- *)
Lemma orth_dot M v w : orthogonal M -> dot Nr (mvmul Nr M v) (mvmul Nr M w) = dot Nr v w.
Proof.
  intros H. rewrite dot_mvmul_trans, <- mvmul_mmul. unfold orthogonal in H. rewrite H, mvmul_eye. reflexivity.
Qed.
Lemma orth_norm2 M v : orthogonal M -> norm2 Nr (mvmul Nr M v) = norm2 Nr v.
Proof. intros H. unfold norm2. apply orth_dot, H. Qed.
Lemma orth_det_sq M : orthogonal M -> mdet Nr M * mdet Nr M = 1.
Proof.
  intros H. unfold orthogonal in H. rewrite <- (mdet_trans M) at 1. rewrite <- mdet_mmul, H. apply mdet_eye.
Qed.
Lemma orth_det_cases M : orthogonal M -> mdet Nr M = 1 \/ mdet Nr M = -1.
Proof.
  intros H. pose proof (orth_det_sq M H) as Hd.
  assert (Hf : (mdet Nr M - 1) * (mdet Nr M + 1) = 0) by (ring_simplify; lra).
  apply Rmult_integral in Hf. destruct Hf; [left | right]; lra.
Qed.
(* a left inverse is a right inverse (3x3): M^T M = I -> M M^T = I *)
Lemma orth_right M : orthogonal M -> mmul Nr M (mtrans M) = meye Nr.
Proof.
  intros H. destruct M as [a b c d e f g h i]. gunf_in H. apply M3_inj in H.
  destruct H as (H00 & H01 & H02 & H10 & H11 & H12 & H20 & H21 & H22).
  gunf. gext; nsatz.
Qed.
Lemma orth_trans M : orthogonal M -> orthogonal (mtrans M).
Proof. intros H. unfold orthogonal. rewrite mtrans_invol. apply orth_right, H. Qed.
Lemma orth_mmul A B : orthogonal A -> orthogonal B -> orthogonal (mmul Nr A B).
Proof.
  unfold orthogonal. intros HA HB. rewrite mtrans_mmul, mmul_assoc, <- (mmul_assoc (mtrans A)), HA, mmul_eye_l. exact HB.
Qed.
Lemma orth_eye : orthogonal (meye Nr).
Proof. unfold orthogonal. rewrite mtrans_eye. apply mmul_eye_l. Qed.

Lemma rot_mmul A B : is_rotation A -> is_rotation B -> is_rotation (mmul Nr A B).
Proof.
  intros [HA dA] [HB dB]. split; [apply orth_mmul; assumption |]. rewrite mdet_mmul, dA, dB. ring.
Qed.
Lemma rot_trans A : is_rotation A -> is_rotation (mtrans A).
Proof. intros [HA dA]. split; [apply orth_trans, HA | rewrite mdet_trans; exact dA]. Qed.
Lemma rot_eye : is_rotation (meye Nr).
Proof. split; [apply orth_eye | apply mdet_eye]. Qed.
Lemma rot_inverse_l A : is_rotation A -> mmul Nr (mtrans A) A = meye Nr.
Proof. intros [H _]. exact H. Qed.
Lemma rot_inverse_r A : is_rotation A -> mmul Nr A (mtrans A) = meye Nr.
Proof. intros [H _]. apply orth_right, H. Qed.

(* entries of an orthogonal matrix are bounded by 1 (rows and columns are unit vectors) *)
Lemma orth_diag_le1 M : orthogonal M -> m00 M <= 1 /\ m11 M <= 1 /\ m22 M <= 1.
Proof.
  intros H. destruct M as [a b c d e f g h i]. gunf_in H. apply M3_inj in H.
  destruct H as (H00 & _ & _ & _ & H11 & _ & _ & _ & H22). gunf. repeat split; nra.
Qed.
