(* Proofs_geom_quat.v — every proper rotation is the matrix of a unit quaternion (Shepperd's four cases).
   With N_ab := "4 q_a q_b" read off the rotation matrix (diagonal: 1 + tr, 1 + 2 r_kk - tr; off-diagonal:
   differences and sums of opposite entries), a rotation makes N a rank-one matrix of trace 4; a pivot
   N_pp >= 1 then gives q_b := N_pb / (2 sqrt N_pp), and all entries of the quaternion matrix are LINEAR
   in the products q_a q_b = N_ab / 4. *)
From Coq Require Import Reals Lra Psatz Nsatz.
From Verif Require Import Base Model_geom_num Generated_geom Model_geom Spec_geom Spec_geom_R Proofs_geom_alg.
Open Scope R_scope.

Section RankOne.
Variables a b c d e f g h i : R.
Hypothesis H00 : a * a + d * d + g * g = 1.
Hypothesis H01 : a * b + d * e + g * h = 0.
Hypothesis H02 : a * c + d * f + g * i = 0.
Hypothesis H11 : b * b + e * e + h * h = 1.
Hypothesis H12 : b * c + e * f + h * i = 0.
Hypothesis H22 : c * c + f * f + i * i = 1.
Hypothesis Hdet : a * (e * i - f * h) - b * (d * i - f * g) + c * (d * h - e * g) = 1.
Lemma rk_0_11 : (h - f) * (h - f) = (1 + a + e + i) * (1 + a - e - i).
Proof using H00 H01 H02 H11 H12 H22 Hdet. nsatz. Qed.
Lemma rk_0_12 : (h - f) * (c - g) = (1 + a + e + i) * (b + d).
Proof using H00 H01 H02 H11 H12 H22 Hdet. nsatz. Qed.
Lemma rk_0_13 : (h - f) * (d - b) = (1 + a + e + i) * (c + g).
Proof using H00 H01 H02 H11 H12 H22 Hdet. nsatz. Qed.
Lemma rk_0_22 : (c - g) * (c - g) = (1 + a + e + i) * (1 - a + e - i).
Proof using H00 H01 H02 H11 H12 H22 Hdet. nsatz. Qed.
Lemma rk_0_23 : (c - g) * (d - b) = (1 + a + e + i) * (f + h).
Proof using H00 H01 H02 H11 H12 H22 Hdet. nsatz. Qed.
Lemma rk_0_33 : (d - b) * (d - b) = (1 + a + e + i) * (1 - a - e + i).
Proof using H00 H01 H02 H11 H12 H22 Hdet. nsatz. Qed.
Lemma rk_1_00 : (h - f) * (h - f) = (1 + a - e - i) * (1 + a + e + i).
Proof using H00 H01 H02 H11 H12 H22 Hdet. nsatz. Qed.
Lemma rk_1_02 : (h - f) * (b + d) = (1 + a - e - i) * (c - g).
Proof using H00 H01 H02 H11 H12 H22 Hdet. nsatz. Qed.
Lemma rk_1_03 : (h - f) * (c + g) = (1 + a - e - i) * (d - b).
Proof using H00 H01 H02 H11 H12 H22 Hdet. nsatz. Qed.
Lemma rk_1_22 : (b + d) * (b + d) = (1 + a - e - i) * (1 - a + e - i).
Proof using H00 H01 H02 H11 H12 H22 Hdet. nsatz. Qed.
Lemma rk_1_23 : (b + d) * (c + g) = (1 + a - e - i) * (f + h).
Proof using H00 H01 H02 H11 H12 H22 Hdet. nsatz. Qed.
Lemma rk_1_33 : (c + g) * (c + g) = (1 + a - e - i) * (1 - a - e + i).
Proof using H00 H01 H02 H11 H12 H22 Hdet. nsatz. Qed.
Lemma rk_2_00 : (c - g) * (c - g) = (1 - a + e - i) * (1 + a + e + i).
Proof using H00 H01 H02 H11 H12 H22 Hdet. nsatz. Qed.
Lemma rk_2_01 : (c - g) * (b + d) = (1 - a + e - i) * (h - f).
Proof using H00 H01 H02 H11 H12 H22 Hdet. nsatz. Qed.
Lemma rk_2_03 : (c - g) * (f + h) = (1 - a + e - i) * (d - b).
Proof using H00 H01 H02 H11 H12 H22 Hdet. nsatz. Qed.
Lemma rk_2_11 : (b + d) * (b + d) = (1 - a + e - i) * (1 + a - e - i).
Proof using H00 H01 H02 H11 H12 H22 Hdet. nsatz. Qed.
Lemma rk_2_13 : (b + d) * (f + h) = (1 - a + e - i) * (c + g).
Proof using H00 H01 H02 H11 H12 H22 Hdet. nsatz. Qed.
Lemma rk_2_33 : (f + h) * (f + h) = (1 - a + e - i) * (1 - a - e + i).
Proof using H00 H01 H02 H11 H12 H22 Hdet. nsatz. Qed.
Lemma rk_3_00 : (d - b) * (d - b) = (1 - a - e + i) * (1 + a + e + i).
Proof using H00 H01 H02 H11 H12 H22 Hdet. nsatz. Qed.
Lemma rk_3_01 : (d - b) * (c + g) = (1 - a - e + i) * (h - f).
Proof using H00 H01 H02 H11 H12 H22 Hdet. nsatz. Qed.
Lemma rk_3_02 : (d - b) * (f + h) = (1 - a - e + i) * (c - g).
Proof using H00 H01 H02 H11 H12 H22 Hdet. nsatz. Qed.
Lemma rk_3_11 : (c + g) * (c + g) = (1 - a - e + i) * (1 + a - e - i).
Proof using H00 H01 H02 H11 H12 H22 Hdet. nsatz. Qed.
Lemma rk_3_12 : (c + g) * (f + h) = (1 - a - e + i) * (b + d).
Proof using H00 H01 H02 H11 H12 H22 Hdet. nsatz. Qed.
Lemma rk_3_22 : (f + h) * (f + h) = (1 - a - e + i) * (1 - a + e - i).
Proof using H00 H01 H02 H11 H12 H22 Hdet. nsatz. Qed.
End RankOne.

(* if the ten products 4 q_a q_b are the entries of N, the quaternion matrix is the rotation (linear) *)
Lemma quat_of_products (a b c d e f g h i q0 q1 q2 q3 : R) :
  4 * q0 * q0 = 1 + a + e + i -> 4 * q0 * q1 = h - f -> 4 * q0 * q2 = c - g -> 4 * q0 * q3 = d - b ->
  4 * q1 * q1 = 1 + a - e - i -> 4 * q1 * q2 = b + d -> 4 * q1 * q3 = c + g ->
  4 * q2 * q2 = 1 - a + e - i -> 4 * q2 * q3 = f + h -> 4 * q3 * q3 = 1 - a - e + i ->
  quat_rot_src Nr (V4 q0 q1 q2 q3) = M3 a b c d e f g h i /\ unit4 (V4 q0 q1 q2 q3).
Proof. intros. split; gunf; [gext |]; lra. Qed.

Lemma pivot_scale (n : R) : 1 <= n -> exists k, 4 * n * k * k = 1.
Proof.
  intros Hn. assert (Hs : 0 < sqrt n) by (apply sqrt_lt_R0; lra).
  exists (/ (2 * sqrt n)).
  replace (4 * n) with (4 * (sqrt n * sqrt n)) by (rewrite sqrt_sqrt by lra; reflexivity).
  field. lra.
Qed.
Lemma piv (x y npp nbc k : R) : x * y = npp * nbc -> 4 * npp * k * k = 1 -> 4 * (x * k) * (y * k) = nbc.
Proof.
  intros H1 H2. replace (4 * (x * k) * (y * k)) with (4 * k * k * (x * y)) by ring. rewrite H1.
  replace (4 * k * k * (npp * nbc)) with ((4 * npp * k * k) * nbc) by ring. rewrite H2. ring.
Qed.

Ltac rank_one := first [ring | eapply rk_0_11; eassumption | eapply rk_0_12; eassumption | eapply rk_0_13; eassumption | eapply rk_0_22; eassumption | eapply rk_0_23; eassumption | eapply rk_0_33; eassumption | eapply rk_1_00; eassumption | eapply rk_1_02; eassumption | eapply rk_1_03; eassumption | eapply rk_1_22; eassumption | eapply rk_1_23; eassumption | eapply rk_1_33; eassumption | eapply rk_2_00; eassumption | eapply rk_2_01; eassumption | eapply rk_2_03; eassumption | eapply rk_2_11; eassumption | eapply rk_2_13; eassumption | eapply rk_2_33; eassumption | eapply rk_3_00; eassumption | eapply rk_3_01; eassumption | eapply rk_3_02; eassumption | eapply rk_3_11; eassumption | eapply rk_3_12; eassumption | eapply rk_3_22; eassumption].

Theorem quat_surjective (M : mat3 R) : is_rotation M -> exists q, unit4 q /\ quat_rot_src Nr q = M.
Proof.
  intros [Ho Hd]. destruct M as [a b c d e f g h i]. gunf_in Ho. apply M3_inj in Ho.
  destruct Ho as (H00 & H01 & H02 & _ & H11 & H12 & _ & _ & H22). gunf_in Hd.
  assert (Hdet : a * (e * i - f * h) - b * (d * i - f * g) + c * (d * h - e * g) = 1) by exact Hd.
  destruct (Rle_lt_dec 1 (1 + a + e + i)) as [P0 | P0];
    [| destruct (Rle_lt_dec 1 (1 + a - e - i)) as [P1 | P1];
       [| destruct (Rle_lt_dec 1 (1 - a + e - i)) as [P2 | P2];
          [| assert (P3 : 1 <= 1 - a - e + i) by lra]]].
  - destruct (pivot_scale _ P0) as [k Hk].
    destruct (quat_of_products a b c d e f g h i ((1 + a + e + i) * k) ((h - f) * k) ((c - g) * k) ((d - b) * k)) as [E U];
      [ apply piv with (npp := (1 + a + e + i)); [rank_one | exact Hk] .. |].
    exists (V4 ((1 + a + e + i) * k) ((h - f) * k) ((c - g) * k) ((d - b) * k)). split; assumption.
  - destruct (pivot_scale _ P1) as [k Hk].
    destruct (quat_of_products a b c d e f g h i ((h - f) * k) ((1 + a - e - i) * k) ((b + d) * k) ((c + g) * k)) as [E U];
      [ apply piv with (npp := (1 + a - e - i)); [rank_one | exact Hk] .. |].
    exists (V4 ((h - f) * k) ((1 + a - e - i) * k) ((b + d) * k) ((c + g) * k)). split; assumption.
  - destruct (pivot_scale _ P2) as [k Hk].
    destruct (quat_of_products a b c d e f g h i ((c - g) * k) ((b + d) * k) ((1 - a + e - i) * k) ((f + h) * k)) as [E U];
      [ apply piv with (npp := (1 - a + e - i)); [rank_one | exact Hk] .. |].
    exists (V4 ((c - g) * k) ((b + d) * k) ((1 - a + e - i) * k) ((f + h) * k)). split; assumption.
  - destruct (pivot_scale _ P3) as [k Hk].
    destruct (quat_of_products a b c d e f g h i ((d - b) * k) ((c + g) * k) ((f + h) * k) ((1 - a - e + i) * k)) as [E U];
      [ apply piv with (npp := (1 - a - e + i)); [rank_one | exact Hk] .. |].
    exists (V4 ((d - b) * k) ((c + g) * k) ((f + h) * k) ((1 - a - e + i) * k)). split; assumption.
Qed.
