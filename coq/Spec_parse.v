(* Spec_parse.v — what the wwPDB format (v3.3, ATOM record) and property C01 say, written
   from the document's own 1-based inclusive columns; independent of the code's tables. *)
From Verif Require Import PyLib ModelTypes.
Open Scope string_scope.

Inductive ftype := TInt | TReal | TText.
(* attribute, first column, last column (1-based, inclusive), type — in table order *)
Definition wwpdb_cols : list (string * (nat * nat) * ftype) :=
  [("serial", (7, 11), TInt); ("name", (13, 16), TText); ("altLoc", (17, 17), TText);
   ("resName", (18, 20), TText); ("chainID", (22, 22), TText); ("resSeq", (23, 26), TInt);
   ("iCode", (27, 27), TText); ("x", (31, 38), TReal); ("y", (39, 46), TReal); ("z", (47, 54), TReal);
   ("occ", (55, 60), TReal); ("temp", (61, 66), TReal); ("element", (77, 78), TText)]%nat.
Definition segid_cols : nat * nat := (73, 76)%nat.
Definition to_half_open (c : nat * nat) : nat * nat := (fst c - 1, snd c)%nat.

(* the text in columns a..b of a line; a line shorter than 80 columns is blank beyond its end *)
Definition pad80 (line : string) : string := line ++ repeat_char " "%char (80 - length line).
Definition columns (a b : nat) (line : string) : string := substring (a - 1) (b - a + 1) (pad80 line).
Definition column (k : nat) (line : string) : ascii :=
  match get (k - 1) (pad80 line) with Some c => c | None => " "%char end.
(* blanks removed at both ends *)
Fixpoint ltrim (s : string) : string :=
  match s with String c t => if Ascii.eqb c " " then ltrim t else s | EmptyString => "" end.
Definition trim (s : string) : string := rev_str "" (ltrim (rev_str "" (ltrim s))).

(* element derived from the atom-name columns 13-16 (the documented four situations) *)
Definition spec_element (line : string) : string :=
  let c13 := column 13 line in let c14 := column 14 line in let c16 := column 16 line in
  if Ascii.eqb c13 " " then trim (String c14 "")
  else if is_digit c13 then trim (String c14 "")
  else if (Ascii.eqb c13 "H" && negb (Ascii.eqb c16 " "))%bool then "H"
  else trim (String c13 (String c14 "")).

Definition spec_field (line : string) (f : string * (nat * nat) * ftype) : res val :=
  let '(name, (a, b), ty) := f in
  let txt := trim (columns a b line) in
  match ty with
  | TText =>
    if str_nonempty txt then Ok (VText txt)
    else if String.eqb name "chainID" then
      let seg := trim (columns (fst segid_cols) (snd segid_cols) line) in
      if str_nonempty seg then Ok (VText seg) else Err "ValueError"
    else if String.eqb name "element" then Ok (VText (spec_element line))
    else Ok (VText txt)
  | TInt =>
    match parse_int txt with NumOk z => Ok (VInt z) | NumBad => Err "ValueError" | NumOutOfModel => Err "OutOfModel" end
  | TReal =>
    if str_nonempty txt then
      match parse_float txt with NumOk q => Ok (VReal q) | NumBad => Err "ValueError" | NumOutOfModel => Err "OutOfModel" end
    else if String.eqb name "occ" then Ok (VReal 1)
    else if String.eqb name "temp" then Ok (VReal 10)
    else Err "ValueError"
  end.

(* one ATOM record (without its line terminator) -> one row; the 14th attribute is the model number *)
Definition spec_row (line : string) : res row :=
  if Nat.ltb 80 (length line) then Err "ValueError"
  else do vs <- mapM (spec_field line) wwpdb_cols; Ok (vs ++ [VInt 0])%list.

Definition is_ATOM (l : string) : bool := prefix "ATOM" l.
Definition is_ENDMDL (l : string) : bool := prefix "ENDMDL" l.
Definition spec_table (lines : list string) : res (list row) :=
  mapM spec_row (map upto_nl (filter is_ATOM lines)).
