(* Proofs_sql_hist.v — C04: one step refines the list-of-records machine, shape errors are
   atomic, frame properties, histories. *)
From Coq Require Import Lia.
From Verif Require Import PyLib ModelTypes Generated_parse Model_sqlval Model_sql Spec_sql
  Proofs_sql_base Proofs_sql_get Proofs_sql_upd Proofs_sql_upd2 Proofs_sql_upd3.
Open Scope string_scope.

(* ------------------------------------------------------------------ *)
(* side conditions of one operation in a state *)
Definition sel_side (d : db) (tn : string) (kw : conds) : Prop :=
  exists t, find_table tn (tables d) = Some t /\ wf_table t = true /\ same_colnames d t = true /\
            keys_plain kw = true /\ short_lists kw = true.
Definition op_side (d : db) (o : op) : Prop :=
  match o with
  | OpUpdate _ _ tn kw => sel_side d tn kw
  | OpUpdateXyz _ tn kw => sel_side d tn kw
  | OpUpdateColumn _ _ _ tn => exists t, find_table tn (tables d) = Some t /\ wf_table t = true
  | OpAddColumn _ _ _ _ => True
  | OpFixChainID => False          (* _fix_chainID: covered by correspondence only *)
  end.

Theorem step_refines d o d' :
  op_side d o -> spec_step d o = (d', None) -> model_step d o = (d', None).
Proof.
  destruct o as [c v tn kw|c v ix tn|v tn kw|c ty v tn|]; cbn [op_side spec_step model_step].
  - intros (t & Ht & Hwf & Hs & Hk & Hsh) H. eapply update_refines; eassumption.
  - intros (t & Ht & Hwf) H. eapply update_column_refines; eassumption.
  - intros (t & Ht & Hwf & Hs & Hk & Hsh) H. eapply update_xyz_refines; eassumption.
  - intros _ H. apply add_column_refines; exact H.
  - intros [].
Qed.

(* ------------------------------------------------------------------ *)
(* shape errors are raised before anything is written (outside finding F19: ragged value lists) *)
Definition fits (ncol : nat) (u : uval) : bool :=
  match uval_row u with Some l => Nat.eqb (List.length l) ncol | None => false end.
Definition ragged (ncol : nat) (values : list uval) : bool :=
  match values with
  | [] => false
  | v0 :: rest => (fits ncol v0 && negb (forallb (fits ncol) rest))%bool
  end.

Lemma chars_of_length s : List.length (chars_of s) = String.length s.
Proof. induction s as [|c s IH]; [reflexivity|]. cbn. f_equal. exact IH. Qed.

Lemma store_val_err a v e : store_val a v = Err e -> e = "OutOfModel".
Proof.
  unfold store_val, num_val_int_pref, out_of_model.
  destruct v as [z|q|s|].
  - destruct (int_in_range z); [destruct a|]; intro H; inversion H; reflexivity.
  - destruct a; try (intro H; inversion H; reflexivity);
      (destruct (Q_is_int q); [destruct (int_in_range _)|]; intro H; inversion H; reflexivity).
  - destruct a; try (intro H; inversion H; reflexivity);
      destruct (sql_numeric_text s); try (intro H; inversion H; reflexivity);
      (destruct (Q_is_int q); [destruct (int_in_range _)|]; intro H; inversion H; reflexivity).
  - intro H; inversion H.
Qed.

Lemma mapM_err_from {A B} (f : A -> res B) l e : mapM f l = Err e -> exists x, In x l /\ f x = Err e.
Proof.
  induction l as [|x t IH]; cbn; intro H; [discriminate|].
  destruct (f x) as [y|e'] eqn:E.
  - cbn in H. destruct (mapM f t) as [ys|e''] eqn:M; [discriminate|]. cbn in H. inversion H; subst.
    destruct (IH eq_refl) as (x' & Hin & Hx). exists x'; split; [right; exact Hin|exact Hx].
  - cbn in H. inversion H; subst. exists x; split; [left; reflexivity|exact E].
Qed.

Theorem shape_error_is_atomic d columns values tn kw d1 :
  sel_side d tn kw ->
  spec_update d columns values tn kw = (d1, Some "ShapeError") ->
  ragged (List.length (split_comma columns)) values = false ->
  d1 = d /\ exists e, update_top d columns values tn kw = (d, Some e).
Proof.
  intros (t & Ht & Hwf & Hsame & Hkeys & Hshort) Hspec Hrag.
  unfold spec_update in Hspec.
  destruct (table_name_ok tn) eqn:Htn; [|inversion Hspec]. cbn [negb] in Hspec.
  destruct values as [|v0 vs]; [inversion Hspec|]. set (values := v0 :: vs) in *.
  rewrite Ht in Hspec.
  destruct (spec_write_cols t (split_comma columns)) as [cis|e] eqn:Hcis.
  2:{ inversion Hspec; subst. unfold spec_write_cols in Hcis. destruct (nodup_str _); [|discriminate].
      cbn [negb] in Hcis. apply mapM_err_from in Hcis. destruct Hcis as (c & _ & Hc).
      destruct (String.eqb c "rowID"); [discriminate|]. destruct (find_exact _ _ _); discriminate. }
  destruct (spec_positions d tn kw) as [ps|e] eqn:Hps.
  2:{ exfalso. assert (e = "ShapeError") by (inversion Hspec; reflexivity). subst e. unfold spec_positions in Hps.
      destruct (spec_conds d tn kw) as [tc|e'] eqn:Htc.
      - cbn in Hps. destruct (Z.ltb _ _); discriminate.
      - cbn in Hps. inversion Hps; subst. unfold spec_conds in Htc. rewrite Htn, Ht in Htc. cbn [negb] in Htc.
        destruct (spec_names_ok t kw); [|discriminate]. cbn [negb] in Htc.
        destruct (Nat.ltb 0 (nmodel d)); [discriminate|].
        destruct (mapM (spec_cond t) kw) eqn:M; [discriminate|]. cbn in Htc. inversion Htc; subst.
        apply mapM_err_from in M. destruct M as (c & _ & Hc). unfold spec_cond in Hc.
        rewrite (key_of_snd (fst c)) in Hc.
        destruct (spec_cond_attr t _) as [cr|]; [|discriminate].
        destruct (match cr with CRowid => negb (forallb is_pint (spec_values (snd c))) | CCol _ => false end); [discriminate|].
        destruct (match cr with CRowid => negb (forallb rowid_in_model (spec_values (snd c))) | CCol _ => false end); [discriminate|].
        destruct (mapM _ (spec_values (snd c))) eqn:M2; [discriminate|]. cbn in Hc. inversion Hc; subst.
        apply mapM_err_from in M2. destruct M2 as (v & _ & Hv).
        unfold cmp_operand, out_of_model in Hv.
        destruct v; [destruct (int_in_range z); [destruct (col_aff t cr)|]|destruct (col_aff t cr)|
                     destruct (aff_numeric _); [destruct (sql_numeric_text s)|]|]; discriminate. }
  pose proof (write_cols_length _ _ _ Hcis) as Lcis. rewrite <- Lcis in Hrag.
  destruct (shape_ok (List.length cis) (List.length ps) values) eqn:Hshape.
  { exfalso. cbn [negb] in Hspec.
    destruct (mapM _ values) as [xss|e] eqn:Hxss in Hspec; [inversion Hspec|].
    inversion Hspec; subst e. apply mapM_err_from in Hxss. destruct Hxss as (u & Hin & Hu).
    unfold shape_ok in Hshape. apply andb_prop in Hshape. destruct Hshape as [_ Hf].
    rewrite forallb_forall in Hf. specialize (Hf u Hin).
    destruct (uval_row u) as [l|]; [|discriminate].
    apply mapM_err_from in Hu. destruct Hu as (cv & _ & Hcv). apply store_val_err in Hcv. discriminate. }
  cbn [negb] in Hspec. inversion Hspec; subst d1. split; [reflexivity|].
  (* the model *)
  assert (Hnm : nmodel d = 0%nat).
  { unfold spec_positions in Hps. apply bind_Ok_inv in Hps. destruct Hps as (tc & Htc & _).
    destruct (spec_conds_inv _ _ _ _ Htc) as (_ & ? & ? & _ & _ & _ & X & _). exact X. }
  assert (Hv : exists valid, valid_colnames d = Ok valid).
  { unfold valid_colnames. unfold same_colnames in Hsame. destruct (tables d) as [|[n0 t0] r]; [discriminate|eauto]. }
  destruct Hv as (valid & Hv).
  unfold update_top. cbn [update_model]. rewrite Htn. cbn [negb]. rewrite Hv.
  rewrite (write_cols_valid d t _ cis Hsame valid Hv Hcis). cbn [negb]. rewrite Bool.andb_false_r.
  rewrite Hnm. rewrite Bool.andb_false_r. rewrite update_cols. fold values. unfold values at 1.
  destruct (uval_len v0) as [ncol|e] eqn:Hl0; [|eauto].
  rewrite <- Lcis.
  destruct (Nat.eqb (List.length cis) ncol) eqn:Hn; cbn [negb]; [|eauto].
  change (get_model (get_fuel kw) d "rowID" tn kw) with (get_top d "rowID" tn kw).
  rewrite (get_exact d "rowID" tn kw _ t Ht Hwf Hsame eq_refl Hkeys Hshort (spec_get_rowID d tn kw ps Hps)).
  rewrite map_length.
  destruct (Nat.eqb (List.length ps) (List.length values)) eqn:Hlen; cbn [negb]; [|eauto].
  (* lengths agree and the first row fits: the list would be ragged *)
  exfalso. apply Nat.eqb_eq in Hn, Hlen.
  assert (F0 : fits (List.length cis) v0 = true).
  { subst ncol. unfold fits. destruct v0 as [l|s|x]; cbn in Hl0 |- *; try discriminate; apply res_Ok_inj in Hl0.
    - rewrite Hl0. apply Nat.eqb_refl.
    - rewrite chars_of_length, Hl0. apply Nat.eqb_refl. }
  unfold ragged, values in Hrag. rewrite F0 in Hrag. cbn [andb] in Hrag. apply Bool.negb_false_iff in Hrag.
  unfold shape_ok in Hshape. rewrite Hlen, Nat.eqb_refl in Hshape. cbn [andb] in Hshape.
  unfold values in Hshape. cbn [forallb] in Hshape. unfold fits in F0, Hrag.
  change (fun u : uval => match uval_row u with Some l => Nat.eqb (List.length l) (List.length cis) | None => false end)
    with (fits (List.length cis)) in Hshape.
  unfold fits in Hshape at 1. rewrite F0 in Hshape. cbn [andb] in Hshape.
  unfold fits in Hshape. rewrite Hrag in Hshape. discriminate.
Qed.

(* ------------------------------------------------------------------ *)
(* frame: what a successful update leaves alone (read off the specification, transferred by refinement) *)
Lemma set_nth_length {A} i (x : A) l : List.length (set_nth i x l) = List.length l.
Proof. revert i; induction l as [|a t IH]; intros [|j]; cbn; try reflexivity. rewrite IH. reflexivity. Qed.
Lemma nth_set_nth_other {A} i j (x d0 : A) l : i <> j -> nth j (set_nth i x l) d0 = nth j l d0.
Proof. revert i j; induction l as [|a t IH]; intros [|i] [|j] H; cbn; try reflexivity; try lia. apply IH. lia. Qed.
Lemma write_cells_other cis : forall xs r c, ~ In c cis -> nth c (write_cells cis xs r) VNull = nth c r VNull.
Proof.
  induction cis as [|ci cis IH]; intros xs r c H; [reflexivity|].
  destruct xs as [|x xs]; [reflexivity|]. cbn [write_cells].
  rewrite IH by (intro X; apply H; right; exact X).
  apply nth_set_nth_other. intro E; apply H; left; exact E.
Qed.
Lemma write_cells_length cis : forall xs r, List.length (write_cells cis xs r) = List.length r.
Proof.
  induction cis as [|ci cis IH]; intros xs r; [reflexivity|].
  destruct xs as [|x xs]; [reflexivity|]. cbn [write_cells]. rewrite IH. apply set_nth_length.
Qed.

Definition table_rows (d : db) (tn : string) : list row :=
  match find_table tn (tables d) with Some t => trows t | None => [] end.

Lemma find_set_table tn t' ts t :
  find_table tn ts = Some t -> find_table tn (set_table tn t' ts) = Some t'.
Proof.
  induction ts as [|[n x] r IH]; cbn; intro H; [discriminate|].
  destruct (ci_eqb tn n) eqn:E; cbn; rewrite E; [reflexivity|]. apply IH; exact H.
Qed.

Lemma table_rows_with_table d tn t t' :
  find_table tn (tables d) = Some t -> table_rows (with_table d tn t') tn = trows t'.
Proof.
  intro H. unfold table_rows, with_table. simpl. rewrite (find_set_table tn t' _ t H). reflexivity.
Qed.

(* the shape of the result of a successful update in the specification *)
Lemma spec_update_result d columns values tn kw d' :
  spec_update d columns values tn kw = (d', None) ->
  exists t cis ps xss,
    find_table tn (tables d) = Some t /\ spec_write_cols t (split_comma columns) = Ok cis /\
    spec_positions d tn kw = Ok ps /\
    table_rows d' tn =
      map_pos (fun q r => match index_of_nat q ps 0 with
                          | Some i => write_cells cis (nth i xss []) r
                          | None => r end) 0 (trows t).
Proof.
  unfold spec_update. intro H.
  destruct (table_name_ok tn); [|discriminate]. cbn [negb] in H.
  destruct values as [|v0 vs]; [discriminate|].
  destruct (find_table tn (tables d)) as [t|] eqn:Ht; [|discriminate].
  destruct (spec_write_cols t (split_comma columns)) as [cis|e] eqn:Hcis; [|inversion H].
  destruct (spec_positions d tn kw) as [ps|e] eqn:Hps; [|inversion H].
  destruct (shape_ok _ _ _); [|inversion H]. cbn [negb] in H.
  destruct (mapM _ (v0 :: vs)) as [xss|e]; [|inversion H].
  inversion H; subst d'. exists t, cis, ps, xss. split; [reflexivity|]. split; [exact Hcis|]. split; [reflexivity|].
  rewrite (table_rows_with_table d tn t _ Ht). cbn [trows].
  unfold with_positions.
  exact (map_pos_with_positions (fun q r => match index_of_nat q ps 0 with
                                            | Some i => write_cells cis (nth i xss []) r
                                            | None => r end) (trows t) 0).
Qed.

Lemma nth_map_pos {A B} (g : nat -> A -> B) l : forall k q a b,
  (q < List.length l)%nat -> nth q (map_pos g k l) b = g (k + q)%nat (nth q l a).
Proof.
  induction l as [|x t IH]; intros k q a b H; [cbn in H; lia|].
  destruct q as [|q']; cbn.
  - rewrite Nat.add_0_r. reflexivity.
  - rewrite (IH (S k) q' a b) by (cbn in H; lia). f_equal. lia.
Qed.

Theorem update_frame d columns values tn kw d' :
  op_side d (OpUpdate columns values tn kw) ->
  spec_update d columns values tn kw = (d', None) ->
  update_top d columns values tn kw = (d', None) /\
  exists cis ps,
    spec_positions d tn kw = Ok ps /\
    (* row count and order *)
    List.length (table_rows d' tn) = List.length (table_rows d tn) /\
    (* other rows *)
    (forall q, (q < List.length (table_rows d tn))%nat -> ~ In q ps ->
               nth q (table_rows d' tn) [] = nth q (table_rows d tn) []) /\
    (* other columns, and the width of every row *)
    (forall q c, (q < List.length (table_rows d tn))%nat -> ~ In c cis ->
                 nth c (nth q (table_rows d' tn) []) VNull = nth c (nth q (table_rows d tn) []) VNull) /\
    (forall q, (q < List.length (table_rows d tn))%nat ->
               List.length (nth q (table_rows d' tn) []) = List.length (nth q (table_rows d tn) [])).
Proof.
  intros Hside Hspec. split; [exact (step_refines d (OpUpdate columns values tn kw) d' Hside Hspec)|].
  destruct (spec_update_result _ _ _ _ _ _ Hspec) as (t & cis & ps & xss & Ht & Hcis & Hps & Hrows).
  exists cis, ps. split; [exact Hps|].
  assert (Hr : table_rows d tn = trows t) by (unfold table_rows; rewrite Ht; reflexivity).
  rewrite Hr, Hrows.
  set (g := fun (q : nat) (r : row) => match index_of_nat q ps 0 with
                                       | Some i => write_cells cis (nth i xss []) r
                                       | None => r end).
  split; [apply map_pos_length|].
  split; [|split].
  - intros q Hq Hnin. rewrite (nth_map_pos g (trows t) 0 q [] [] Hq). cbn [Nat.add]. unfold g.
    rewrite (index_of_nat_notin q ps 0 Hnin). reflexivity.
  - intros q c Hq Hc. rewrite (nth_map_pos g (trows t) 0 q [] [] Hq). cbn [Nat.add]. unfold g.
    destruct (index_of_nat q ps 0); [apply write_cells_other; exact Hc|reflexivity].
  - intros q Hq. rewrite (nth_map_pos g (trows t) 0 q [] [] Hq). cbn [Nat.add]. unfold g.
    destruct (index_of_nat q ps 0); [apply write_cells_length|reflexivity].
Qed.

(* ------------------------------------------------------------------ *)
(* histories *)
Inductive hist_ok : db -> list op -> Prop :=
| hist_nil d : hist_ok d []
| hist_step d o ops :
    op_side d o -> snd (spec_step d o) = None ->
    hist_ok (fst (spec_step d o)) ops -> hist_ok d (o :: ops)
| hist_shape_error d c v tn kw ops :          (* a rejected update changes nothing, in both *)
    sel_side d tn kw -> snd (spec_update d c v tn kw) = Some "ShapeError" ->
    ragged (List.length (split_comma c)) v = false ->
    hist_ok d ops -> hist_ok d (OpUpdate c v tn kw :: ops).

Theorem history_refines d ops : hist_ok d ops -> model_history d ops = spec_history d ops.
Proof.
  unfold model_history, spec_history.
  induction 1 as [d|d o ops Hside Hok _ IH|d c v tn kw ops Hside Herr Hrag _ IH]; [reflexivity| |].
  - cbn [fold_left]. destruct (spec_step d o) as [d' e] eqn:E. cbn [fst snd] in *. subst e.
    rewrite (step_refines d o d' Hside E). cbn [fst]. exact IH.
  - cbn [fold_left spec_step model_step].
    destruct (spec_update d c v tn kw) as [d1 e] eqn:E. cbn [snd] in Herr. subst e.
    destruct (shape_error_is_atomic d c v tn kw d1 Hside E Hrag) as (-> & e & Hm).
    rewrite Hm. cbn [fst]. exact IH.
Qed.
