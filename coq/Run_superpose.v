(* Run_superpose.v — wire entry points for superpose (C13) *)
From Verif Require Import PyLib ModelTypes Model_many Model_superpose Spec_superpose Run_parse Run_export.
Open Scope string_scope.

Definition vec_of_V (v : V) : vec := (getQ (nth 0 (getL v) (VZ 0)), getQ (nth 1 (getL v) (VZ 0)), getQ (nth 2 (getL v) (VZ 0))).
Definition mat_of_V (v : V) : mat := (vec_of_V (nth 0 (getL v) (VZ 0)), vec_of_V (nth 1 (getL v) (VZ 0)), vec_of_V (nth 2 (getL v) (VZ 0))).
Definition Vvec (v : vec) : V := let '(x, y, z) := v in VL [VQ (Qred x); VQ (Qred y); VQ (Qred z)].
Definition rows_of_V (v : V) : list row := map row_of_V (getL v).

Definition run_superpose (cmd : string) (a : list V) : option V :=
  if cmd =? "superpose.model" then     (* rmat, mobile rows, selected mobile rows, selected target rows *)
    Some (Vres (do new <- superpose (mat_of_V (nth 0 a (VZ 0))) (rows_of_V (nth 1 a (VZ 0)))
                                    (rows_of_V (nth 2 a (VZ 0))) (rows_of_V (nth 3 a (VZ 0)));
                Ok (VL (map (fun r => Vvec (xyz_of r)) new))))
  else if cmd =? "superpose.paired" then
    Some (Vres (do pq <- paired_selections (rows_of_V (nth 0 a (VZ 0))) (rows_of_V (nth 1 a (VZ 0)));
                Ok (VL [VL (map Vvec (fst pq)); VL (map Vvec (snd pq))])))
  else if cmd =? "spec.superpose.shared_pairs" then
    let '(p, q) := shared_pairs (rows_of_V (nth 0 a (VZ 0))) (rows_of_V (nth 1 a (VZ 0))) in
    Some (VL [VL (map Vvec p); VL (map Vvec q)])
  else if cmd =? "spec.superpose.is_rotation" then    (* eps, rmat *)
    Some (VB (is_rotation_eps (getQ (nth 0 a (VZ 0))) (mat_of_V (nth 1 a (VZ 0)))))
  else None.
