(* Model_parse.v — executable model of pdb2sql.read_pdb + pdb2sql._create_table (C01).
   Tables, prefixes, blank-field defaults and the three leaf functions come from
   Generated_parse.v (regenerated from the source on every run); the input-form dispatch and
   the record loop below are hand-written mirrors of the code, tied by correspondence. *)
From Verif Require Import PyLib ModelTypes Generated_parse.
Open Scope string_scope.

(* pdb2sqlcore.py:181-246 read_pdb — the seven accepted containers *)
Inductive form := FPath | FPathObj | FStr | FBytes | FListStr | FListBytes | FNdarrayStr | FNdarrayBytes.
Inductive input :=
| InText (f : form) (txt : string)          (* file content, or the whole-file str / bytes *)
| InLines (f : form) (ls : list string).    (* list / ndarray of lines *)

Definition lines_of (i : input) : res (list string) :=
  match i with
  | InText FPath txt | InText FPathObj txt => Ok (readlines txt)
  | InText FStr txt | InText FBytes txt =>
      (* not an existing path: content iff it has more than three "\nATOM " *)
      if Nat.ltb 3 (count_sub (String nl "ATOM ") txt) then Ok (split_nl txt)
      else Err "FileNotFoundError"
  | InText _ _ => Err "ValueError"
  | InLines _ [] => Err "IndexError"
  | InLines _ ls => Ok ls
  end.

Fixpoint assoc {A} (k : string) (l : list (string * A)) : option A :=
  match l with
  | [] => None
  | (k', v) :: t => if String.eqb k k' then Some v else assoc k t
  end.

(* pdb2sqlcore.py:140-167 one attribute of one record; [line] is already padded to 80 *)
Definition parse_field (line : string) (colname coltype : string) : res (option val) :=
  match assoc colname delimiter_src with
  | None => Ok None                                  (* 'model' has no delimiter: skipped here *)
  | Some (a, b) =>
    let data := strip (slice a b line) in
    (* "if not data": replace blanks by the per-column default *)
    do data' <- (if str_nonempty data then Ok (inl data)
                 else match assoc colname blank_defaults_src with
                      | Some DChainFromSegID => do s <- get_chainID_src line; Ok (inl s)
                      | Some DElementGuess => do s <- get_element_src line; Ok (inl s)
                      | Some (DConst q) => Ok (inr q)
                      | None => Ok (inl data)
                      end);
    if String.eqb coltype int_tag_src then
      match data' with
      | inl s => match parse_int s with
                 | NumOk z => Ok (Some (VInt z))
                 | NumBad => Err "ValueError"
                 | NumOutOfModel => Err "OutOfModel"
                 end
      | inr q => Ok (Some (VInt (Qnum q / Zpos (Qden q))))
      end
    else if String.eqb coltype real_tag_src then
      match data' with
      | inl s => match parse_float s with
                 | NumOk q => Ok (Some (VReal q))
                 | NumBad => Err "ValueError"
                 | NumOutOfModel => Err "OutOfModel"
                 end
      | inr q => Ok (Some (VReal q))
      end
    else
      match data' with
      | inl s => Ok (Some (VText s))
      | inr _ => Err "OutOfModel"
      end
  end.

Fixpoint parse_fields (line : string) (cols : list (string * string)) : res (list val) :=
  match cols with
  | [] => Ok []
  | (cn, ct) :: t =>
    do v <- parse_field line cn ct;
    do vs <- parse_fields line t;
    Ok (match v with Some x => x :: vs | None => vs end)
  end.

(* pdb2sqlcore.py:135-173: one ATOM line (already cut at the first newline) -> one row *)
Definition parse_record (nmodel : Z) (line0 : string) : res row :=
  do line <- linelength_src line0;
  do vs <- parse_fields line col_src;
  Ok (vs ++ [VInt nmodel])%list.

(* pdb2sqlcore.py:122-173 the record loop *)
Fixpoint parse_lines (lines : list string) (nmodel : Z) : res (list row * Z) :=
  match lines with
  | [] => Ok ([], nmodel)
  | l :: t =>
    if startswith atom_prefix_src l then
      do r <- parse_record nmodel (upto_nl l);
      do rest <- parse_lines t nmodel;
      Ok (r :: fst rest, snd rest)
    else if startswith endmdl_prefix_src l then parse_lines t (nmodel + 1)
    else parse_lines t nmodel
  end.

Definition parse (i : input) : res (list row * Z) :=
  do ls <- lines_of i; parse_lines ls 0.
