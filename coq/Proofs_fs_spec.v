(* Proofs_fs_spec.v — the executable specifications used by the harness decide the Prop-level ones. *)
From Coq Require Import Lia.
From Verif Require Import PyLib ModelTypes Model_fs Spec_fs.
Open Scope string_scope.
Open Scope list_scope.
Open Scope nat_scope.

Lemma list_eqb_iff {A} (eqb : A -> A -> bool) :
  (forall a b, eqb a b = true <-> a = b) -> forall l m, list_eqb eqb l m = true <-> l = m.
Proof.
  intro H. induction l as [|x l IH]; destruct m as [|y m]; simpl; try (split; [discriminate | discriminate]).
  - tauto.
  - rewrite Bool.andb_true_iff, H, IH. split; [intros [-> ->]; reflexivity | intro E; injection E; tauto].
Qed.

Lemma cell_eqb_iff a b : cell_eqb a b = true <-> a = b.
Proof.
  destruct a, b; simpl; try (split; [discriminate | discriminate]).
  - rewrite Z.eqb_eq. split; [intros ->; reflexivity | intro E; injection E; tauto].
  - rewrite Bool.andb_true_iff, Z.eqb_eq, Pos.eqb_eq. split; [intros [-> ->]; reflexivity | intro E; injection E; tauto].
  - rewrite String.eqb_eq. split; [intros ->; reflexivity | intro E; injection E; tauto].
Qed.

Lemma table_eqb_iff a b : table_eqb a b = true <-> a = b.
Proof.
  unfold table_eqb. rewrite Bool.andb_true_iff.
  rewrite (list_eqb_iff String.eqb String.eqb_eq).
  rewrite (list_eqb_iff (list_eqb cell_eqb) (list_eqb_iff cell_eqb cell_eqb_iff)).
  destruct a, b; simpl. split; [intros [-> ->]; reflexivity | intro E; injection E; tauto].
Qed.

Lemma outcome_eqb_iff a b : outcome_eqb a b = true <-> a = b.
Proof.
  destruct a, b; simpl; try tauto; try (split; [discriminate | discriminate]).
  rewrite table_eqb_iff. split; [intros ->; reflexivity | intro E; injection E; tauto].
Qed.

Lemma no_atomsb_iff o : no_atomsb o = true <-> no_atoms o.
Proof.
  destruct o as [| |t|]; simpl; try tauto.
  - destruct (t_rows t); simpl; split; try reflexivity; discriminate.
  - split; [discriminate | contradiction].
Qed.

Lemma holds_committedb_iff last o : holds_committedb last o = true <-> holds_committed last o.
Proof. destruct last; simpl; [apply outcome_eqb_iff | apply no_atomsb_iff]. Qed.

Lemma final_iff sc o :
  (if sc_keep sc then outcome_eqb o (OTable (final_table sc)) else outcome_eqb o ONoFile) = true
  <-> (if sc_keep sc then o = OTable (final_table sc) else o = ONoFile).
Proof. destruct (sc_keep sc); apply outcome_eqb_iff. Qed.

Theorem allowedb_iff o0 sc g o : allowedb o0 sc g o = true <-> Allowed o0 sc g o.
Proof.
  unfold allowedb, Allowed.
  destruct (Nat.eqb g 0).
  - rewrite Bool.orb_true_iff, outcome_eqb_iff, no_atomsb_iff. tauto.
  - destruct (Nat.leb g (List.length (sc_steps sc))).
    + rewrite Bool.orb_true_iff, !holds_committedb_iff. tauto.
    + destruct (Nat.eqb g (S (List.length (sc_steps sc)))).
      * rewrite Bool.orb_true_iff, holds_committedb_iff, final_iff. tauto.
      * apply final_iff.
Qed.

Theorem allowed_literalb_iff o0 sc g o : allowed_literalb o0 sc g o = true <-> Allowed_literal o0 sc g o.
Proof.
  unfold allowed_literalb, Allowed_literal.
  rewrite Bool.orb_true_iff, Bool.andb_true_iff, allowedb_iff, no_atomsb_iff. tauto.
Qed.

Lemma may_writeb_iff c p : may_writeb c p = true <-> may_write c p.
Proof.
  unfold may_writeb, may_write, mem. rewrite Bool.orb_true_iff, !existsb_exists.
  split.
  - intros [[x [H1 H2]]|[x [H1 H2]]]; apply String.eqb_eq in H2; subst; [left | right]; exact H1.
  - intros [H1|H1]; [left | right]; exists p; (split; [exact H1 | apply String.eqb_refl]).
Qed.
