(* Proofs_lineok.v — C02: the exported line of every fitting row satisfies the whole specification predicate line_ok:
   80 columns, the record name, and every attribute readable from its own wwPDB columns *)
From Coq Require Import Lia Lqa Qabs.
From Verif Require Import PyLib PyLibFacts ModelTypes Generated_export Model_export Spec_parse Spec_export
  Proofs_text Proofs_digits Proofs_numtext Proofs_zone Proofs_export Proofs_export2 Proofs_reparse Proofs_reread
  Proofs_roundtrip Proofs_roundtrip2 Proofs_coordok.
Open Scope Q_scope.

Lemma pad80_80 line : String.length line = 80%nat -> pad80 line = line.
Proof. intro H. unfold pad80. rewrite H. cbn. apply app_nil_r_s. Qed.

Lemma coord_ok_real v q f : real_of v = Some q -> coord_ok v f = coord_ok (VReal q) f.
Proof. unfold coord_ok. intro H. rewrite H. reflexivity. Qed.

Lemma real2_ok_exported v lo hi : fits_real lo hi v = true ->
  match real_of v with Some q => real2_ok v (fmt_fixed 6 2 q) = true | None => False end.
Proof.
  unfold fits_real, real2_ok. destruct (real_of v) as [q|]; [|discriminate]. intros _.
  rewrite decimal_value_fmt_fixed. cbn [Nat.eqb andb]. apply Qleb_true.
  rewrite (printed_rational_eq 2 q). eapply Qle_trans; [apply printed_value_error | vm_compute; discriminate].
Qed.

Theorem line_ok_exported d line : fits d = true -> line_of_row d = Ok line -> line_ok d line = true.
Proof.
  intros Hf Hl.
  destruct (line_80 d Hf) as [line' [Hl' Hlen]]. rewrite Hl in Hl'. apply Ok_inj_s in Hl'. subst line'.
  unfold line_ok, columns. rewrite (pad80_80 line Hlen), Hlen. cbn [Nat.eqb andb Nat.sub Nat.add].
  pose proof Hf as Hf0. unfold fits in Hf0. repeat (apply andb_prop in Hf0; destruct Hf0 as [Hf0 ?]).
  (* record name *)
  destruct (piece_in_its_columns d line 0 (PLit "ATOM  ") Hf Hl eq_refl) as [s0 [E0 [_ P0]]].
  cbn [render_piece] in E0. apply Ok_inj_s in E0. subst s0. change (offset 0) with 0%nat in P0. change (piece_len (PLit "ATOM  ")) with 6%nat in P0.
  rewrite P0. cbn [String.eqb Ascii.eqb Bool.eqb andb].
  (* serial *)
  destruct (piece_in_its_columns d line 1 _ Hf Hl eq_refl) as [s1 [E1 [_ P1]]]. change (substring (offset 1) (piece_len (PField 0 ARight 5)) line) with (substring 6 5 line) in P1. rewrite P1.
  destruct (piece_in_its_columns d line 3 _ Hf Hl eq_refl) as [s3 [E3 [_ P3]]]. change (substring (offset 3) (piece_len PAtomName) line) with (substring 12 4 line) in P3. rewrite P3.
  destruct (piece_in_its_columns d line 4 _ Hf Hl eq_refl) as [s4 [E4 [_ P4]]]. change (substring (offset 4) (piece_len (PField 2 ARight 1)) line) with (substring 16 1 line) in P4. rewrite P4.
  destruct (piece_in_its_columns d line 5 _ Hf Hl eq_refl) as [s5 [E5 [_ P5]]]. change (substring (offset 5) (piece_len (PField 3 ARight 3)) line) with (substring 17 3 line) in P5. rewrite P5.
  destruct (piece_in_its_columns d line 7 _ Hf Hl eq_refl) as [s7 [E7 [_ P7]]]. change (substring (offset 7) (piece_len (PField 4 ARight 1)) line) with (substring 21 1 line) in P7. rewrite P7.
  destruct (piece_in_its_columns d line 8 _ Hf Hl eq_refl) as [s8 [E8 [_ P8]]]. change (substring (offset 8) (piece_len (PField 5 ARight 4)) line) with (substring 22 4 line) in P8. rewrite P8.
  destruct (piece_in_its_columns d line 9 _ Hf Hl eq_refl) as [s9 [E9 [_ P9]]]. change (substring (offset 9) (piece_len (PField 6 ARight 1)) line) with (substring 26 1 line) in P9. rewrite P9.
  destruct (piece_in_its_columns d line 11 _ Hf Hl eq_refl) as [s11 [E11 [_ P11]]]. change (substring (offset 11) (piece_len (PXyz 7)) line) with (substring 30 8 line) in P11. rewrite P11.
  destruct (piece_in_its_columns d line 12 _ Hf Hl eq_refl) as [s12 [E12 [_ P12]]]. change (substring (offset 12) (piece_len (PXyz 8)) line) with (substring 38 8 line) in P12. rewrite P12.
  destruct (piece_in_its_columns d line 13 _ Hf Hl eq_refl) as [s13 [E13 [_ P13]]]. change (substring (offset 13) (piece_len (PXyz 9)) line) with (substring 46 8 line) in P13. rewrite P13.
  destruct (piece_in_its_columns d line 14 _ Hf Hl eq_refl) as [s14 [E14 [_ P14]]]. change (substring (offset 14) (piece_len (PFixed 10 ARight 6 2)) line) with (substring 54 6 line) in P14. rewrite P14.
  destruct (piece_in_its_columns d line 15 _ Hf Hl eq_refl) as [s15 [E15 [_ P15]]]. change (substring (offset 15) (piece_len (PFixed 11 ARight 6 2)) line) with (substring 60 6 line) in P15. rewrite P15.
  destruct (piece_in_its_columns d line 17 _ Hf Hl eq_refl) as [s17 [E17 [_ P17]]]. change (substring (offset 17) (piece_len (PField 12 ARight 2)) line) with (substring 76 2 line) in P17. rewrite P17.
  clear P0 P1 P3 P4 P5 P7 P8 P9 P11 P12 P13 P14 P15 P17.
  (* the shapes of the values *)
  assert (I0 : exists z, nth 0 d VNull = VInt z) by (eapply fits_int_shape; eassumption).
  assert (I5 : exists z, nth 5 d VNull = VInt z).
  { match goal with H : fits_int _ _ (nth 5 d VNull) = true |- _ => exact (fits_int_shape _ _ _ H) end. }
  destruct I0 as [z0 V0]. destruct I5 as [z5 V5].
  cbn [render_piece] in E1, E8. rewrite V0 in E1. rewrite V5 in E8. cbn [render_plain bind justify] in E1, E8.
  apply Ok_inj_s in E1. apply Ok_inj_s in E8. subst s1 s8. rewrite V0, V5, !int_field_roundtrip. cbn [andb].
  (* text fields *)
  assert (TX : forall i w lo s, fits_text lo w (nth i d VNull) = true -> render_piece d (PField i ARight w) = Ok s -> text_ok (nth i d VNull) s = true).
  { intros i w lo s Ft Er. cbn [render_piece] in Er. unfold fits_text in Ft. destruct (nth i d VNull) as [|?|t| |]; try discriminate Ft.
    cbn [render_plain bind justify] in Er. apply Ok_inj_s in Er. subst s. apply text_field_roundtrip.
    apply andb_prop in Ft. destruct Ft as [_ C]. exact C. }
  repeat match goal with
  | H : fits_text ?lo ?w (nth ?i d VNull) = true, E : render_piece d (PField ?i ARight ?w) = Ok ?s |- _ =>
      rewrite (TX i w lo s H E); clear E
  end.
  cbn [andb].
  (* atom name *)
  assert (N1 : text_ok (nth 1 d VNull) s3 = true).
  { match goal with H1 : fits_text 1 4 (nth 1 d VNull) = true, H12 : fits_text 1 2 (nth 12 d VNull) = true |- _ =>
      destruct (fits_text_shape _ _ _ H1) as [nm [Vn Ln]]; destruct (fits_text_shape _ _ _ H12) as [el [Ve _]];
      unfold fits_text in H1; rewrite Vn in H1; apply andb_prop in H1; destruct H1 as [_ Cn] end.
    cbn [render_piece] in E3. rewrite Vn, Ve in E3. cbn [text_of bind] in E3.
    rewrite (format_atomname_spec nm el Ln) in E3. apply Ok_inj_s in E3. subst s3.
    destruct (spec_atomname_padded nm el Ln) as [l [r E]]. rewrite Vn, E. unfold text_ok.
    rewrite (trim_padded l r nm (clean_no_edge_blank nm Cn)). apply String.eqb_refl. }
  rewrite N1. cbn [andb].
  (* coordinates *)
  assert (CX : forall i s, coord_in_range (nth i d VNull) = true -> render_piece d (PXyz i) = Ok s -> coord_ok (nth i d VNull) s = true).
  { intros i s Rc Er. destruct (xyz_piece_text d i s Rc Er) as [q [Eq Et]]. subst s. rewrite (coord_ok_real _ q _ Eq).
    apply coord_ok_exported. unfold coord_in_range in Rc. rewrite Eq in Rc. exact Rc. }
  repeat match goal with
  | H : coord_in_range (nth ?i d VNull) = true, E : render_piece d (PXyz ?i) = Ok ?s |- _ => rewrite (CX i s H E); clear E
  end.
  cbn [andb].
  (* occupancy, B-factor *)
  assert (RX : forall i s, fits_real (-(9999#100)) (99999#100) (nth i d VNull) = true -> render_piece d (PFixed i ARight 6 2) = Ok s -> real2_ok (nth i d VNull) s = true).
  { intros i s Fr Er. destruct (fixed_piece_text d i s _ _ Fr Er) as [q [Eq Et]]. subst s.
    pose proof (real2_ok_exported _ _ _ Fr) as X. rewrite Eq in X. exact X. }
  repeat match goal with
  | H : fits_real _ _ (nth ?i d VNull) = true, E : render_piece d (PFixed ?i ARight 6 2) = Ok ?s |- _ => rewrite (RX i s H E); clear E
  end.
  reflexivity.
Qed.
