(* Proofs_zone_source.v — C09: for the SQL i-RMSD the zone source is immaterial too.  The rows the routine selects when it
   computes the interface itself (izone=None) are the rows it selects when it is given the zone file written from
   compute_izone — provided a residue number designates one residue per chain (the "consistent numbering" of the domain). *)
From Coq Require Import Lia Lqa.
From Verif Require Import PyLib ModelTypes Generated_parse Generated_contact Model_contact Spec_contact
  Proofs_contact_lists Proofs_contact_spec Proofs_contact_c05 Proofs_contact_c14 Model_superpose Model_zone Model_rmsd Spec_rmsd Proofs_izone.
Open Scope string_scope.
Open Scope Z_scope.
Open Scope list_scope.

(* membership in the grouped zone (dict chain -> numbers) is membership in the zone *)
Definition memG (G : resdata) (c : string) (n : Z) : bool :=
  match in_resdata G c with Some l => mem Z.eqb n l | None => false end.
Lemma mem_app_Z n l l' : mem Z.eqb n (l ++ l') = (mem Z.eqb n l || mem Z.eqb n l')%bool.
Proof. unfold mem. apply existsb_app. Qed.
Lemma memG_group_add c' z' G c n : memG (group_add c' z' G) c n = (memG G c n || (String.eqb c c' && Z.eqb n z'))%bool.
Proof.
  unfold memG, in_resdata. induction G as [|[k zs] t IH]; cbn [group_add find fst snd].
  - rewrite (String.eqb_sym c' c). destruct (String.eqb c c'); cbn; [rewrite orb_false_r; reflexivity | reflexivity].
  - destruct (String.eqb c' k) eqn:E1.
    + apply String.eqb_eq in E1. subst k. cbn [find fst snd]. rewrite (String.eqb_sym c' c).
      destruct (String.eqb c c') eqn:E2; cbn [snd].
      * rewrite mem_app_Z. cbn [mem existsb]. rewrite orb_false_r. reflexivity.
      * rewrite andb_false_l, orb_false_r. reflexivity.
    + cbn [find fst snd]. destruct (String.eqb k c) eqn:E2.
      * apply String.eqb_eq in E2. subst k. rewrite (String.eqb_sym c c'), E1. cbn. rewrite orb_false_r. reflexivity.
      * exact IH.
Qed.
Lemma memG_fold l : forall G c n,
  memG (fold_left (fun g cz => group_add (fst cz) (snd cz) g) l G) c n = (memG G c n || mem cz_eqb (c, n) l)%bool.
Proof.
  induction l as [|[c' z'] t IH]; intros G c n; cbn [fold_left fst snd].
  - cbn. rewrite orb_false_r. reflexivity.
  - rewrite IH, memG_group_add. unfold mem. cbn [existsb cz_eqb fst snd]. rewrite orb_assoc. reflexivity.
Qed.
Lemma memG_group z c n : memG (group z) c n = mem cz_eqb (c, n) z.
Proof. unfold group. rewrite memG_fold. reflexivity. Qed.

Lemma cz_eqb_eq p q : cz_eqb p q = true <-> p = q.
Proof.
  destruct p as [c n], q as [c' n']. unfold cz_eqb. cbn [fst snd]. rewrite andb_true_iff, String.eqb_eq, Z.eqb_eq.
  split; [intros [-> ->]; reflexivity | intro H; injection H as -> ->; split; reflexivity].
Qed.
Lemma mem_cz_In x l : mem cz_eqb x l = true <-> In x l.
Proof.
  unfold mem. rewrite existsb_exists. split.
  - intros [y [Hy E]]. apply cz_eqb_eq in E. subst. exact Hy.
  - intro H. exists x. split; [exact H | apply cz_eqb_eq; reflexivity].
Qed.
Lemma sorted_set_cz_In x l : In x (sorted_set_cz l) <-> In x l.
Proof. unfold sorted_set_cz. rewrite sort_by_In. apply (dedup_In cz_eqb cz_eqb_eq). Qed.

Section ZoneSource.
Variables (cutoff : Q) (ref : structure) (c1 c2 : string).
Hypothesis Hc : (0 <= cutoff)%Q.
Hypothesis W : wf ref.
Hypothesis Hch : get_chains ref = [c1; c2].
(* a residue number designates one residue per chain *)
Hypothesis res_unique : forall a b, In a ref -> In b ref -> chain a = chain b -> resSeq a = resSeq b -> resName a = resName b.

Let inzone (a : atom) : bool := existsb (fun b => (Spec_rmsd.same_residue a b && interface_atom cutoff ref b)%bool) ref.

Lemma same_residue_cz a a' b : In a ref -> In a' ref -> chain a' = chain a -> resSeq a' = resSeq a ->
  Spec_rmsd.same_residue a' b = Spec_rmsd.same_residue a b.
Proof.
  intros Ha Ha' Ec En. unfold Spec_rmsd.same_residue. rewrite Ec, En, (res_unique a' a Ha' Ha Ec En). reflexivity.
Qed.

Theorem sql_zone_source_irrelevant :
  izone_rows_computed cutoff ref = Ok (izone_rows_from_zone (izone_spec cutoff ref) ref).
Proof.
  unfold izone_rows_computed. rewrite Hch.
  destruct (extended_contacts cutoff ref c1 c2 W Hch) as [pm E]. rewrite E. cbn [bind fst]. f_equal.
  unfold izone_rows_from_zone. apply filter_ext_in. intros a Ha.
  unfold spec_atoms_dict, closure_dict. cbn [map flat_map fst snd]. rewrite app_nil_r.
  assert (E2 : mem Z.eqb (idx a) (closure ref false (spec_atoms (closeQ cutoff) false false ref [c1; c2] c1)
                                  ++ closure ref false (spec_atoms (closeQ cutoff) false false ref [c1; c2] c2)) = inzone a).
  { apply bool_eq_iff. rewrite mem_In_Z. apply (in_extended cutoff ref c1 c2 Hc W Hch a Ha). }
  rewrite E2. fold (memG (resdata_of (izone_spec cutoff ref)) (chain a) (resSeq a)). unfold resdata_of. rewrite memG_group.
  change (mem String.eqb (name a) backbone4) with (is_backbone a).
  change (mem String.eqb (name a) ["C"; "CA"; "N"; "O"]) with (mem String.eqb (name a) ["C"; "CA"; "N"; "O"]).
  assert (Ebb : mem String.eqb (name a) ["C"; "CA"; "N"; "O"] = is_backbone a).
  { unfold is_backbone, mem. cbn [existsb]. rewrite !orb_false_r. destruct (String.eqb (name a) "C"), (String.eqb (name a) "CA"), (String.eqb (name a) "N"), (String.eqb (name a) "O"); reflexivity. }
  rewrite Ebb.
  destruct (is_backbone a) eqn:Bb; [|rewrite !andb_false_r; reflexivity]. rewrite !andb_true_r.
  apply bool_eq_iff. rewrite mem_cz_In. unfold izone_spec. rewrite sorted_set_cz_In, in_map_iff. split.
  - intro Hz. exists a. split; [reflexivity|]. apply filter_In. split; [exact Ha|]. rewrite Bb. exact Hz.
  - intros [a' [Ecz Ha']]. apply filter_In in Ha'. destruct Ha' as [Ha' P]. apply andb_prop in P. destruct P as [_ P].
    injection Ecz as Ec En. unfold inzone. rewrite existsb_exists in P |- *. destruct P as [b [Hb Pb]]. exists b. split; [exact Hb|].
    rewrite <- (same_residue_cz a a' b Ha Ha' Ec En). exact Pb.
Qed.

(* with C07_izone_exact: the zone the library computes is that specification zone, so the two selections coincide *)
Corollary sql_rows_from_computed_zone :
  (do z <- compute_izone cutoff ref; Ok (izone_rows_from_zone z ref)) = izone_rows_computed cutoff ref.
Proof. rewrite (izone_exact cutoff ref c1 c2 Hc W Hch). cbn [bind]. symmetry. apply sql_zone_source_irrelevant. Qed.
End ZoneSource.
