(* Proofs_roundtrip2.v — C02: from the exact row that is read back (Proofs_roundtrip) to the property's comparison
   approx_row: integer/text attributes identical, coordinates within half a unit of the printed precision,
   occupancy/B-factor within 0.005, each up to the single binary64 rounding of the re-read decimal (Proofs_b64) *)
From Coq Require Import Lia Lqa Qabs.
From Verif Require Import PyLib PyLibFacts ModelTypes Generated_parse Model_parse Generated_export Model_export Spec_parse Spec_export
  Proofs_text Proofs_digits Proofs_numtext Proofs_zone Proofs_export Proofs_export2 Proofs_reparse Proofs_reread Proofs_roundtrip Proofs_b64.
Open Scope Q_scope.

Lemma pow10_ge1 p : 1 <= inject_Z (pow10 p).
Proof.
  unfold pow10. change 1 with (inject_Z 1). rewrite <- Zle_Qle.
  pose proof (Z.pow_pos_nonneg 10 (Z.of_nat p) ltac:(lia) ltac:(lia)). lia.
Qed.
Lemma half_unit_le_half p : (1#2) / inject_Z (pow10 p) <= 1#2.
Proof.
  pose proof (pow10_ge1 p) as H. apply Qle_shift_div_r; [lra|].
  setoid_replace (1#2) with ((1#2) * 1) at 1 by ring. apply Qmult_le_l; lra.
Qed.

(* the re-read value of a numeric field against the written one *)
Lemma reread_within p q tol : (1#2) / inject_Z (pow10 p) <= tol ->
  Qabs (q - b64 (printed_value p q)) <= tol + slack q.
Proof.
  intro Ht. set (pv := printed_value p q).
  pose proof (printed_value_error p q) as E1. fold pv in E1.
  pose proof (b64_error pv) as E2. pose proof (half_unit_le_half p) as Hh.
  assert (T : Qabs (q - b64 pv) <= Qabs (b64 pv - pv) + Qabs (pv - q)).
  { setoid_replace (q - b64 pv) with (- ((b64 pv - pv) + (pv - q))) by ring. rewrite Qabs_opp. apply Qabs_triangle. }
  assert (Apv : Qabs pv <= Qabs q + (1#2)).
  { setoid_replace pv with ((pv - q) + q) at 1 by ring. eapply Qle_trans; [apply Qabs_triangle|]. lra. }
  pose proof (Qabs_nonneg q) as Nq.
  unfold slack.
  assert (S1 : Qabs pv * (1 # 2 ^ 53) <= Qabs q * (1 # 1125899906842624) + (1 # 1000000000000)).
  { apply Qle_trans with ((Qabs q + (1#2)) * (1 # 2 ^ 53)).
    - apply Qmult_le_compat_r; [exact Apv | discriminate].
    - change (2 ^ 53)%positive with 9007199254740992%positive.
      setoid_replace ((Qabs q + (1 # 2)) * (1 # 9007199254740992)) with (Qabs q * (1 # 9007199254740992) + (1 # 18014398509481984)) by (field).
      assert (Qabs q * (1 # 9007199254740992) <= Qabs q * (1 # 1125899906842624)).
      { rewrite (Qmult_comm (Qabs q) (1 # 9007199254740992)), (Qmult_comm (Qabs q) (1 # 1125899906842624)). apply Qmult_le_compat_r; [discriminate | exact Nq]. }
      assert ((1 # 18014398509481984) <= (1 # 1000000000000)) by discriminate. lra. }
  lra.
Qed.

(* ---- the tolerance of the property against the decimals of the interval table ---- *)
Lemma digits_length_ge n K : (1 <= K)%nat -> (10 ^ (Z.of_nat K - 1) <= n < 10 ^ 8)%Z -> (K <= String.length (digits n))%nat.
Proof.
  intros HK [Hlo Hhi].
  assert (Hn : (0 <= n)%Z) by (pose proof (Z.pow_pos_nonneg 10 (Z.of_nat K - 1) ltac:(lia) ltac:(lia)); lia).
  destruct (ndigits_exists 8 n ltac:(lia) ltac:(split; [exact Hn | exact Hhi])) as [k [Hk Hd]].
  rewrite (digits_length n k Hn Hd). destruct Hd as [H1 [H2 _]].
  destruct (le_lt_dec K k) as [L|L]; [exact L|exfalso].
  assert ((10 ^ Z.of_nat k <= 10 ^ (Z.of_nat K - 1))%Z) by (apply Z.pow_le_mono_r; lia). lia.
Qed.

Lemma int_digits_ge q (N : Z) K : (1 <= K)%nat -> (10 ^ (Z.of_nat K - 1) <= N)%Z -> inject_Z N <= Qabs q -> Qabs q < inject_Z (10 ^ 8) ->
  (K <= int_digits q)%nat.
Proof.
  intros HK HN Hlo Hhi. unfold int_digits. apply digits_length_ge; [exact HK|]. split.
  - apply Z.le_trans with N; [exact HN|]. rewrite <- (Qfloor_Z N). apply Qfloor_resp_le. exact Hlo.
  - pose proof (Qfloor_le (Qabs q)) as F. rewrite Zlt_Qlt. lra.
Qed.

Lemma coord_tol_ge q : Qltb coord_lo q && Qltb q coord_hi = true ->
  (1#2) / inject_Z (pow10 (xyz_decimals q)) <= coord_tol (VReal q).
Proof.
  intro R. apply in_range_bounds in R. destruct R as [R1 R2].
  unfold coord_tol, xyz_decimals. cbn [real_of].
  assert (Mono : forall a b : nat, (a <= b)%nat -> (1#2) / inject_Z (pow10 b) <= (1#2) / inject_Z (pow10 a)).
  { intros a b Hab. pose proof (pow10_ge1 a) as Pa. pose proof (pow10_ge1 b) as Pb.
    assert (inject_Z (pow10 a) <= inject_Z (pow10 b)) by (unfold pow10; rewrite <- Zle_Qle; apply Z.pow_le_mono_r; lia).
    apply Qle_shift_div_l; [lra|]. unfold Qdiv. rewrite <- Qmult_assoc.
    setoid_replace (1#2) with ((1#2) * 1) at 2 by ring. apply Qmult_le_l; [reflexivity|].
    rewrite Qmult_comm. apply Qle_shift_div_r; lra. }
  assert (Hi : Qabs q < inject_Z (10 ^ 8)) by (apply Qabs_case; intros; change (inject_Z (10 ^ 8)) with (100000000 # 1); lra).
  destruct (xcell_of q) as [H1|H1 H2|H1 H2|H1 H2|H1 H2|H1 H2|H1 H2|H1 H2|H1 H2|H1];
    try (exfalso; lra); decide_cmp; cbn [andb].
  - (* -9999999.5 < q <= -99999.5 : 0 decimals *)
    apply Mono. unfold max_fit. decide_cmp.
    assert ((5 <= int_digits q)%nat) by (apply (int_digits_ge q 99999 5); [lia | vm_compute; discriminate | rewrite Qabs_neg by lra; change (inject_Z 99999) with (99999#1); lra | exact Hi]). lia.
  - apply Mono. unfold max_fit. decide_cmp.
    assert ((4 <= int_digits q)%nat) by (apply (int_digits_ge q 9999 4); [lia | vm_compute; discriminate | rewrite Qabs_neg by lra; change (inject_Z 9999) with (9999#1); lra | exact Hi]). lia.
  - apply Mono. unfold max_fit. decide_cmp.
    assert ((3 <= int_digits q)%nat) by (apply (int_digits_ge q 999 3); [lia | vm_compute; discriminate | rewrite Qabs_neg by lra; change (inject_Z 999) with (999#1); lra | exact Hi]). lia.
  - vm_compute. discriminate.
  - vm_compute. discriminate.
  - apply Mono. unfold max_fit. decide_cmp.
    assert ((4 <= int_digits q)%nat) by (apply (int_digits_ge q 9999 4); [lia | vm_compute; discriminate | rewrite Qabs_pos by lra; change (inject_Z 9999) with (9999#1); lra | exact Hi]). lia.
  - apply Mono. unfold max_fit. decide_cmp.
    assert ((5 <= int_digits q)%nat) by (apply (int_digits_ge q 99999 5); [lia | vm_compute; discriminate | rewrite Qabs_pos by lra; change (inject_Z 99999) with (99999#1); lra | exact Hi]). lia.
  - apply Mono. unfold max_fit. decide_cmp.
    assert ((6 <= int_digits q)%nat) by (apply (int_digits_ge q 999999 6); [lia | vm_compute; discriminate | rewrite Qabs_pos by lra; change (inject_Z 999999) with (999999#1); lra | exact Hi]). lia.
Qed.

Lemma coord_tol_real v q : real_of v = Some q -> coord_tol v = coord_tol (VReal q).
Proof. unfold coord_tol. intro H. rewrite H. reflexivity. Qed.

Lemma within_coord v : coord_in_range v = true -> within (coord_tol v) v (reread_coord v) = true.
Proof.
  unfold coord_in_range, within, reread_coord. destruct (real_of v) as [q|] eqn:E; [|discriminate]. intro R.
  cbn [real_of]. apply Qleb_true. rewrite (coord_tol_real v q E). apply reread_within. apply coord_tol_ge. exact R.
Qed.
Lemma within_real2 v lo hi : fits_real lo hi v = true -> within (5#1000) v (reread_real2 v) = true.
Proof.
  unfold fits_real, within, reread_real2. destruct (real_of v) as [q|] eqn:E; [|discriminate]. intros _.
  cbn [real_of]. apply Qleb_true. apply reread_within. vm_compute. discriminate.
Qed.
Lemma val_eqb_int lo hi v : fits_int lo hi v = true -> val_eqb v v = true.
Proof. destruct v; try discriminate. intros _. apply Z.eqb_refl. Qed.
Lemma val_eqb_text lo hi v : fits_text lo hi v = true -> val_eqb v v = true.
Proof. destruct v; try discriminate. intros _. apply String.eqb_refl. Qed.

Lemma reread_row_approx d m : fits d = true -> approx_row d (reread_row d m) = true.
Proof.
  intro Hf. unfold fits in Hf. repeat (apply andb_prop in Hf; destruct Hf as [Hf ?]).
  unfold approx_row, reread_row. cbn [List.length Nat.eqb forallb nth andb].
  repeat match goal with
  | H : fits_int _ _ ?v = true |- context [val_eqb ?v ?v] => rewrite (val_eqb_int _ _ v H)
  | H : fits_text _ _ ?v = true |- context [val_eqb ?v ?v] => rewrite (val_eqb_text _ _ v H)
  | H : coord_in_range ?v = true |- context [within (coord_tol ?v) ?v (reread_coord ?v)] => rewrite (within_coord v H)
  | H : fits_real _ _ ?v = true |- context [within _ ?v (reread_real2 ?v)] => rewrite (within_real2 v _ _ H)
  end.
  reflexivity.
Qed.

(* THE ROUND TRIP in the property's own terms *)
Theorem roundtrip_approx d line nmodel : fits d = true -> rereadable d -> line_of_row d = Ok line ->
  exists d', parse_record nmodel line = Ok d' /\ approx_row d d' = true.
Proof.
  intros Hf Hr Hl. exists (reread_row d nmodel). split; [apply row_roundtrip; assumption | apply reread_row_approx; exact Hf].
Qed.
