(* Proofs_store2.v — C15: a derived database is a FAITHFUL snapshot: it holds, for every selected row in order, the row
   itself in every integer and text attribute and the values printed at PDB text precision in the numeric ones
   (Proofs_roundtrip / Proofs_roundtrip2 applied row by row through Proofs_store.snapshot_rowwise) *)
From Coq Require Import Lia.
From Verif Require Import PyLib ModelTypes Model_parse Model_export Model_store Spec_parse Spec_export Proofs_zone Proofs_store
  Proofs_export Proofs_export2 Proofs_roundtrip Proofs_roundtrip2.

Lemma derived_row_reread r : fits r = true -> rereadable r -> derived_row r = Ok (reread_row r 0).
Proof.
  intros Hf Hr. unfold derived_row. destruct (line_80 r Hf) as [l [Hl _]]. rewrite Hl. cbn [bind].
  apply row_roundtrip; assumption.
Qed.

Lemma mapM_derived rows : Forall (fun r => fits r = true /\ rereadable r) rows ->
  mapM derived_row rows = Ok (map (fun r => reread_row r 0) rows).
Proof.
  induction 1 as [|r t [Hf Hr] _ IH]; [reflexivity|]. cbn [mapM map].
  rewrite (derived_row_reread r Hf Hr). cbn [bind]. rewrite IH. reflexivity.
Qed.

Theorem snapshot_faithful rows :
  Forall (fun r => fits r = true /\ rereadable r) rows ->
  (forall r l, In r rows -> line_of_row r = Ok l -> nonl l = true) ->
  snapshot rows = Ok (map (fun r => reread_row r 0) rows)
  /\ Forall2 (fun r r' => approx_row r r' = true) rows (map (fun r => reread_row r 0) rows).
Proof.
  intros HF Hn. split.
  - pose proof (snapshot_rowwise rows Hn) as S. rewrite (mapM_derived rows HF) in S.
    unfold same_outcome in S. destruct (snapshot rows) as [x|e]; [rewrite S; reflexivity | contradiction].
  - induction HF as [|r t [Hf _] _ IH]; cbn [map]; constructor.
    + apply reread_row_approx. exact Hf.
    + apply IH. intros r' l Hin. apply Hn. right. exact Hin.
Qed.
