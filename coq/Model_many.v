(* Model_many.v — executable model of many2sql.get_intersection / intersect (C19).
   The query text built by get_intersection is
     select T0.c1, T0.c2, …, Tk.cn from T0 INNER JOIN T1 … on T0.a=T1.a and … (all pairs, all match attributes)
   and each joined row is cut into one slice of ncol values per table (many2sql.py:150-184).
   SQLite's INNER JOIN with equality constraints on every pair is modelled as nested loops in
   table order; the harness compares results as multisets of aligned tuples (SQLite may reorder). *)
From Verif Require Import PyLib ModelTypes.
Open Scope string_scope.

Definition val_eqb (a b : val) : bool :=
  match a, b with
  | VInt x, VInt y => Z.eqb x y
  | VText x, VText y => String.eqb x y
  | VReal x, VReal y => Qeq_bool x y
  | VInt x, VReal y => Qeq_bool (inject_Z x) y
  | VReal x, VInt y => Qeq_bool x (inject_Z y)
  | _, _ => false                       (* NULL / BLOB never match *)
  end.

Definition table := list row.
Definition key_of (idx : list nat) (r : row) : list val := map (fun i => nth i r VNull) idx.
Fixpoint keys_eqb (a b : list val) : bool :=
  match a, b with
  | [], [] => true
  | x :: a', y :: b' => val_eqb x y && keys_eqb a' b'
  | _, _ => false
  end.
Definition same_key (idx : list nat) (r r' : row) : bool := keys_eqb (key_of idx r) (key_of idx r').

(* all tuples (r0, …, rk), ri in table i, with every later row matching the first on every key *)
Fixpoint join (idx : list nat) (tables : list table) : list (list row) :=
  match tables with
  | [] => [[]]
  | t :: rest =>
    flat_map (fun r => map (cons r) (filter (forallb (same_key idx r)) (join idx rest))) t
  end.

(* data[it] = [x[it*ncol:(it+1)*ncol] for x in raw_data], restricted to the requested columns *)
Definition project (cols : list nat) (r : row) : row := map (fun i => nth i r VNull) cols.
Definition get_intersection (idx cols : list nat) (tables : list table) : list (list row) :=
  let tuples := join idx tables in
  map (fun it => map (fun tup => project cols (nth it tup [])) tuples) (seq 0 (List.length tables)).

(* column name -> position in the 14 standard columns (case-insensitive for the match keys, as SQLite) *)
Definition std_cols : list string :=
  ["serial"; "name"; "altLoc"; "resName"; "chainID"; "resSeq"; "iCode"; "x"; "y"; "z"; "occ"; "temp"; "element"; "model"].
Definition lower_char (c : ascii) : ascii :=
  let n := nat_of_ascii c in if (Nat.leb 65 n && Nat.leb n 90)%bool then ascii_of_nat (n + 32) else c.
Fixpoint lower (s : string) : string :=
  match s with EmptyString => "" | String c t => String (lower_char c) (lower t) end.
Fixpoint index_of (eq : string -> string -> bool) (x : string) (l : list string) (k : nat) : option nat :=
  match l with [] => None | y :: t => if eq x y then Some k else index_of eq x t (S k) end.
Definition col_index_ci (c : string) : option nat :=
  index_of (fun a b => String.eqb (lower a) (lower b)) c std_cols 0.
