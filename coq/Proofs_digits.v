(* Proofs_digits.v — decimal digit strings: length = number of decimal digits *)
From Coq Require Import Lia ZifyBool Lqa.
From Verif Require Import PyLib PyLibFacts Proofs_text.
Open Scope Z_scope.

(* k is the number of decimal digits of n >= 0 *)
Definition ndigits (n : Z) (k : nat) : Prop :=
  (1 <= k)%nat /\ n < 10 ^ Z.of_nat k /\ (k = 1%nat \/ 10 ^ (Z.of_nat k - 1) <= n).

Lemma digits_aux_length fuel : forall n acc k,
  (1 <= fuel)%nat -> 0 <= n < 2 ^ Z.of_nat fuel -> ndigits n k ->
  String.length (digits_pos_aux fuel n acc) = (String.length acc + k)%nat.
Proof.
  induction fuel as [|f IH]; intros n acc k Hf Hn [Hk1 [Hlt Hge]].
  - lia.
  - cbn [digits_pos_aux].
    destruct (n <? 10) eqn:E.
    + cbn [String.length]. 
      assert (k = 1%nat).
      { destruct Hge as [->|Hge]; [reflexivity|].
        destruct (Nat.eq_dec k 1) as [->|NE]; [reflexivity|].
        assert (10 ^ 1 <= 10 ^ (Z.of_nat k - 1)) by (apply Z.pow_le_mono_r; lia). lia. }
      subst k. lia.
    + assert (Hk2 : (2 <= k)%nat).
      { destruct (Nat.eq_dec k 1) as [->|NE]; [|lia]. change (10 ^ Z.of_nat 1) with 10 in Hlt. lia. }
      rewrite (IH (n / 10) _ (k - 1)%nat).
      * cbn [String.length]. lia.
      * destruct f as [|f']; [|lia]. change (2 ^ Z.of_nat 1) with 2 in Hn. lia.
      * split; [apply Z.div_pos; lia|].
        replace (Z.of_nat (S f)) with (Z.of_nat f + 1) in Hn by lia.
        rewrite Z.pow_add_r in Hn by lia. change (2 ^ 1) with 2 in Hn.
        apply Z.div_lt_upper_bound; lia.
      * unfold ndigits. split; [lia|].
        replace (Z.of_nat (k - 1)) with (Z.of_nat k - 1) by lia.
        assert (E10 : 10 ^ Z.of_nat k = 10 * 10 ^ (Z.of_nat k - 1)).
        { replace (Z.of_nat k) with (1 + (Z.of_nat k - 1)) at 1 by lia.
          rewrite Z.pow_add_r by lia. reflexivity. }
        split.
        -- apply Z.div_lt_upper_bound; lia.
        -- destruct (Nat.eq_dec (k - 1) 1) as [->|NE]; [left; reflexivity|right].
           destruct Hge as [->|Hge]; [lia|].
           assert (E10' : 10 ^ (Z.of_nat k - 1) = 10 * 10 ^ (Z.of_nat k - 1 - 1)).
           { replace (Z.of_nat k - 1) with (1 + (Z.of_nat k - 1 - 1)) at 1 by lia.
             rewrite Z.pow_add_r by lia. reflexivity. }
           apply Z.div_le_lower_bound; lia.
Qed.

Lemma digits_length n k : 0 <= n -> ndigits n k -> String.length (digits n) = k.
Proof.
  intros Hn Hk. unfold digits.
  rewrite (digits_aux_length _ n EmptyString k); [reflexivity | lia | | exact Hk].
  split; [exact Hn|].
  destruct (Z.eq_dec n 0) as [->|NZ]; [reflexivity|].
  pose proof (Z.log2_spec n ltac:(lia)) as [_ H].
  pose proof (Z.log2_nonneg n).
  replace (Z.of_nat (S (Z.to_nat (Z.log2 n)))) with (Z.succ (Z.log2 n)) by lia.
  exact H.
Qed.

Lemma ndigits_exists K : forall n, (1 <= K)%nat -> 0 <= n < 10 ^ Z.of_nat K ->
  exists k, (k <= K)%nat /\ ndigits n k.
Proof.
  induction K as [|K IH]; intros n HK Hn; [lia|].
  destruct (Nat.eq_dec K 0) as [->|NZ].
  - exists 1%nat. split; [lia|]. unfold ndigits. split; [lia|]. split; [exact (proj2 Hn) | left; reflexivity].
  - destruct (Z_lt_le_dec n (10 ^ Z.of_nat K)) as [Hlt|Hge].
    + destruct (IH n ltac:(lia) ltac:(lia)) as [k [Hk Hd]]. exists k. split; [lia | exact Hd].
    + exists (S K). split; [lia|]. unfold ndigits. split; [lia|]. split; [exact (proj2 Hn)|].
      right. replace (Z.of_nat (S K) - 1) with (Z.of_nat K) by lia. exact Hge.
Qed.

Lemma digits_length_le n K : (1 <= K)%nat -> 0 <= n < 10 ^ Z.of_nat K ->
  (1 <= String.length (digits n) <= K)%nat.
Proof.
  intros HK Hn. destruct (ndigits_exists K n HK Hn) as [k [Hk Hd]].
  rewrite (digits_length n k (proj1 Hn) Hd). destruct Hd as [H1 _]. lia.
Qed.

Lemma str_of_Z_length_le z K : (1 <= K)%nat -> - 10 ^ Z.of_nat (K - 1) < z < 10 ^ Z.of_nat K ->
  (1 <= String.length (str_of_Z z) <= K)%nat.
Proof.
  intros HK Hz. unfold str_of_Z.
  destruct (z <? 0) eqn:E.
  - cbn [String.length].
    destruct (Nat.eq_dec K 1) as [->|NE].
    + change (10 ^ Z.of_nat (1 - 1)) with 1 in Hz. lia.
    + pose proof (digits_length_le (- z) (K - 1) ltac:(lia) ltac:(lia)). lia.
  - apply digits_length_le; [exact HK | lia].
Qed.

(* justification *)
Lemma rjust_length w s : String.length (rjust w s) = Nat.max w (String.length s).
Proof. unfold rjust. rewrite length_append, length_repeat_char. lia. Qed.
Lemma ljust_length w s : String.length (ljust w s) = Nat.max w (String.length s).
Proof. unfold ljust. rewrite length_append, length_repeat_char. lia. Qed.
Lemma center_length w s : String.length (center w s) = Nat.max w (String.length s).
Proof.
  unfold center. rewrite !length_append, !length_repeat_char.
  pose proof (Nat.div_le_upper_bound (w - String.length s) 2 (w - String.length s) ltac:(lia) ltac:(lia)). lia.
Qed.

Lemma pad_left_zeros_length w s : String.length (pad_left_zeros w s) = Nat.max w (String.length s).
Proof. unfold pad_left_zeros. rewrite length_append, length_repeat_char. lia. Qed.

(* ---------------- fixed-point formatting ---------------- *)
Open Scope Q_scope.

Lemma rhe_lt_half a (M : Z) : a < inject_Z M + (1#2) -> (round_half_even a <= M)%Z.
Proof.
  intro H.
  assert (Hf : (Qfloor a <= M)%Z).
  { destruct (Z_le_gt_dec (Qfloor a) M) as [L|G]; [exact L|exfalso].
    assert (inject_Z (M + 1) <= a).
    { apply Qle_trans with (inject_Z (Qfloor a)); [rewrite <- Zle_Qle; lia | apply Qfloor_le]. }
    rewrite inject_Z_plus in H0. change (inject_Z 1) with 1 in H0. lra. }
  destruct (Z.eq_dec (Qfloor a) M) as [E|NE].
  - unfold round_half_even. rewrite Qfloor'_eq, E.
    destruct (Qcompare_spec (a - inject_Z M) (1#2)) as [C|C|C]; try lia; exfalso; lra.
  - destruct (rhe_cases a) as [-> | ->]; lia.
Qed.

Lemma rhe_nonneg a : 0 <= a -> (0 <= round_half_even a)%Z.
Proof. intro H. rewrite <- (rhe_Z 0). apply rhe_monotone. exact H. Qed.

Definition sign_len (q : Q) : nat := if Qltb q 0 then 1%nat else 0%nat.
Definition frac_len (p : nat) : nat := match p with O => 0%nat | _ => S p end.

Lemma fmt_fixed_length w p q K :
  (1 <= K)%nat ->
  Qabs q * inject_Z (pow10 p) < inject_Z (10 ^ Z.of_nat (K + p)) - (1#2) ->
  (sign_len q + K + frac_len p <= w)%nat ->
  String.length (fmt_fixed w p q) = w.
Proof.
  intros HK Hb Hw. unfold fmt_fixed. rewrite rjust_length.
  enough (String.length (fmt_fixed_body p q) <= sign_len q + K + frac_len p)%nat by lia.
  unfold fmt_fixed_body.
  set (n := round_half_even (Qabs q * inject_Z (pow10 p))).
  assert (Hn0 : (0 <= n)%Z).
  { apply rhe_nonneg. apply Qmult_le_0_compat; [apply Qabs_nonneg|].
    pose proof (pow10_pos p) as P. rewrite Zlt_Qlt in P. apply Qlt_le_weak. exact P. }
  assert (Hn1 : (n <= 10 ^ Z.of_nat (K + p) - 1)%Z).
  { apply rhe_lt_half.
    replace (10 ^ Z.of_nat (K + p) - 1)%Z with (10 ^ Z.of_nat (K + p) + -1)%Z by lia.
    rewrite inject_Z_plus. change (inject_Z (-1)) with (-1 # 1). lra. }
  pose proof (pow10_pos p) as Pp. unfold pow10 in *.
  assert (Hip : (0 <= n / 10 ^ Z.of_nat p < 10 ^ Z.of_nat K)%Z).
  { split; [apply Z.div_pos; lia|].
    apply Z.div_lt_upper_bound; [lia|].
    replace (Z.of_nat (K + p)) with (Z.of_nat p + Z.of_nat K)%Z in Hn1 by lia.
    rewrite Z.pow_add_r in Hn1 by lia. lia. }
  pose proof (digits_length_le _ K HK Hip) as Hd.
  assert (Hs : String.length (if Qltb q 0 then "-" else "")%string = sign_len q).
  { unfold sign_len. destruct (Qltb q 0); reflexivity. }
  destruct p as [|p'].
  - rewrite length_append, Hs. cbn [frac_len]. lia.
  - rewrite !length_append, Hs, pad_left_zeros_length. cbn [String.length frac_len].
    assert (Hfp : (0 <= n mod 10 ^ Z.of_nat (S p') < 10 ^ Z.of_nat (S p'))%Z) by (apply Z.mod_pos_bound; lia).
    pose proof (digits_length_le _ (S p') ltac:(lia) Hfp). lia.
Qed.
